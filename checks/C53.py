"""C53 — PipeTest reproduces the elastic thick-walled cylinder solution (tie: M, bit-exact; Gauss constants: T2).

* lean/TfelVerif/C53/Model.lean is a hand-written model of PipeLinearElement / PipeQuadraticElement /
  PipeCubicElement (shape functions, strain, nodal/axial forces, element stiffness) and of the assembly of
  PipeTest::computeStiffnessMatrixAndResidual (small strain, imposed pressures, end cap effect). Its `Float`
  instance (native driver) is compared bit for bit with the real code compiled from the tree
  (harness/C53/harness.cxx, linear elastic mock behaviour) on shape functions, strains, stresses, element
  contributions and assembled residual / stiffness.
* the Gauss points and weights are dumped from the code into lean/TfelVerif/C53/GenGauss.lean (exact binary
  values); `code_gauss_moments` proves that they satisfy the moment equations to 2e-15.
* the property's own predicates are evaluated on the implementation (no model involved):
  patch test (u = A r: residual = 0), tangent consistency (K u = inner forces), symmetry of K, and the
  Lamé convergence table (complete runs of the real PipeTest, ne = 1..64, three element orders).
"""
import json
import math
import os
import random
import shutil
import hashlib
from fractions import Fraction as F

import vlib
from checks import c48lib
from checks.c48lib import hx, uh

PROPS = ["TfelVerif.C53.Props"]
ANCHORED = ["PipeTest", "PipeLinearElement", "PipeQuadraticElement", "PipeCubicElement"]
#: non-exported classes of libTFELMTest that PipeTest.cxx needs at link time
OTHERS = ["GenericSolver", "PipeProfile", "PipeProfileHandler", "OxidationStatusEvolution", "SolverOptions",
          "Solver", "UserDefinedPostProcessing"]
PI_BITS = "400921fb54442d18"          # 3.14159265358979323846 as a double
ELEMENT_FILE = {1: "mtest/src/PipeLinearElement.cxx", 2: "mtest/src/PipeQuadraticElement.cxx",
                3: "mtest/src/PipeCubicElement.cxx"}
RTOL = 1e-10                          # relative tolerance of the implementation-side predicates (rounding ~1e-14)
MOMENT_BOUND = F(1, 5 * 10 ** 14)


# ----------------------------------------------------------------------------- build (content-addressed cache)
def build_harness(ck):
    """compile the anchored sources of the tree, the non-exported classes they need and the harness;
    objects are cached under work/C53cache keyed by the sha256 of the *preprocessed* translation unit
    (so that any change of a source or of a header it includes recompiles it)"""
    if vlib.BUILD_MATCHES_REPO:
        ck.ensure_targets("TFELMTest")
    else:
        ck.notes.append("scratch worktree without its own build tree: the anchored mtest sources are compiled "
                        "from the worktree into the harness; the prebuilt libraries of %s only provide the "
                        "non-anchored remainder" % vlib.BUILD)
    cache = os.path.join(vlib.VERIF, "work", "C53cache")
    os.makedirs(cache, exist_ok=True)
    units = [(s, os.path.join(vlib.REPO, "mtest", "src", s + ".cxx")) for s in ANCHORED + OTHERS]
    units.append(("main", os.path.join(vlib.VERIF, "harness", "C53", "harness.cxx")))
    kw = dict(includes=c48lib.includes(), defines=c48lib.DEFINES, sanitize=True)

    def one(u):
        name, src = u
        ii = ck.cxx(name + ".ii", [src], flags=["-E", "-P"], **kw)
        key = hashlib.sha256(open(ii, "rb").read() + b"|O1|asan-ubsan|g++12").hexdigest()[:24]
        os.remove(ii)
        obj = os.path.join(cache, "%s-%s.o" % (name, key))
        if not os.path.exists(obj):
            tmp = ck.cxx(name + ".o", [src], flags=["-c"], **kw)
            shutil.move(tmp, obj + ".tmp%d" % os.getpid())
            os.replace(obj + ".tmp%d" % os.getpid(), obj)
            # keep the 8 most recent objects of the unit (runs on scratch worktrees share the cache)
            old = sorted((f for f in os.listdir(cache) if f.startswith(name + "-") and f.endswith(".o")),
                         key=lambda f: os.path.getmtime(os.path.join(cache, f)), reverse=True)
            for f in old[8:]:
                try:
                    os.remove(os.path.join(cache, f))
                except OSError:
                    pass
        else:
            os.utime(obj)
        return obj

    from concurrent.futures import ThreadPoolExecutor
    with ThreadPoolExecutor(max_workers=2) as ex:     # shared machine: at most 2 parallel compiles
        objs = list(ex.map(one, units))
    empty = ck.write("empty.cxx", "")
    import time
    for attempt in range(4):
        try:
            return ck.cxx("c53h", [empty], libs=objs + ck.libflags(*c48lib.LIBS), sanitize=True)
        except vlib.BuildError as e:
            # the shared libraries of the build tree may be in the middle of a relink by another check
            if attempt == 3 or not any(w in e.log for w in ("file truncated", "file format not recognized",
                                                            "cannot find -l", "undefined reference to",
                                                            "No such file", "not found under")):
                raise
            ck.log("link failed (concurrent relink of the build tree?), retrying in 30 s")
            time.sleep(30)


# ----------------------------------------------------------------------------- exact helpers
def fr(x):
    return F(x)


def ideal_moment(k):
    return F(2, k + 1) if k % 2 == 0 else F(0)


def moments(pts, wts, kmax):
    return [sum(F(w) * F(x) ** k for x, w in zip(pts, wts)) for k in range(kmax + 1)]


def lean_q(x):
    f = F(x)
    return "((%d : ℚ) / %d)" % (f.numerator, f.denominator)


def gen_gauss(rules):
    out = ["/- GENERATED by checks/C53.py from the Gauss points/weights of the code (harness op `gauss`): the exact",
           "   binary values of the constexpr doubles of mtest/include/MTest/Pipe*Element.hxx. Never hand-edit. -/",
           "import Mathlib.Algebra.Order.Field.Rat", "import TfelVerif.C53.Model", "", "namespace TfelVerif.C53.Gen", ""]
    for p in (1, 2, 3):
        pts, wts = rules[p]

        def fn(vals):
            s = ""
            for g, v in enumerate(vals[:-1]):
                s += "if g = %d then %s else " % (g, lean_q(v))
            return s + lean_q(vals[-1])
        out.append("def gauss%d : Gauss ℚ :=" % p)
        out.append("  { pt := fun g => %s" % fn(pts))
        out.append("    wt := fun g => %s }" % fn(wts))
        out.append("")
    out.append("end TfelVerif.C53.Gen")
    return "\n".join(out) + "\n"


def isotropic(E, nu):
    """same operations as harness/C53/pipe.hxx (double arithmetic)"""
    lam = E * nu / ((1 + nu) * (1 - 2 * nu))
    mu = E / (2 * (1 + nu))
    D = [lam] * 9
    D[0] += 2 * mu
    D[4] += 2 * mu
    D[8] += 2 * mu
    return D


def node_positions(p, ne, Ri, Re):
    n = p * ne + 1
    return [F(Ri) + (F(Re) - F(Ri)) * j / (n - 1) for j in range(n)]


def ext_forces(p, ne, Ri, Re, Pi, Pe, endcap):
    """exact external part of the residual (PipeTest::computeStiffnessMatrixAndResidual, small strain)"""
    n = p * ne + 1
    pi = F(uh(PI_BITS))
    r = [F(0)] * (n + 1)
    r[0] -= 2 * pi * F(Pi) * F(Ri)
    r[n - 1] += 2 * pi * F(Pe) * F(Re)
    if endcap:
        r[n] += pi * (F(Re) ** 2 * F(Pe) - F(Ri) ** 2 * F(Pi))
    return r


# ----------------------------------------------------------------------------- request generators
def rand_mesh(rng, nemax):
    p = rng.choice([1, 2, 3])
    ne = rng.randint(1, nemax)
    Ri = rng.choice([rng.uniform(0.01, 10), float(rng.randint(1, 5)), rng.uniform(1e-3, 1e-2)])
    Re = Ri + rng.choice([rng.uniform(0.01, 5), float(rng.randint(1, 4)), Ri * rng.uniform(0.05, 3)])
    return p, ne, Ri, Re


def rand_D(rng):
    kind = rng.choice(["iso", "iso", "sym", "gen"])
    if kind == "iso":
        return kind, isotropic(rng.uniform(1, 1000), rng.uniform(0, 0.45))
    if kind == "sym":
        a = [rng.uniform(-5, 5) for _ in range(6)]
        return kind, [a[0], a[1], a[2], a[1], a[3], a[4], a[2], a[4], a[5]]
    return kind, [rng.uniform(-5, 5) for _ in range(9)]


def line_el(p, ne, Ri, Re, i, D, G, u):
    return " ".join(["el", str(p), str(ne), hx(Ri), hx(Re), str(i), PI_BITS] + [hx(x) for x in D] +
                    [hx(x) for x in G] + [hx(x) for x in u])


def line_rs(p, ne, Ri, Re, Pi, Pe, endcap, withK, D, G, u):
    return " ".join(["rs", str(p), str(ne), hx(Ri), hx(Re), hx(Pi), hx(Pe), str(int(endcap)), str(int(withK)),
                     PI_BITS] + [hx(x) for x in D] + [hx(x) for x in G] + [hx(x) for x in u])


def line_solve(p, ne, Ri, Re, Pi, Pe, endcap, E, nu):
    return " ".join(["solve", str(p), str(ne), hx(Ri), hx(Re), hx(Pi), hx(Pe), str(int(endcap)), hx(E), hx(nu)])


def decode(ans):
    return [uh(w) for w in ans.split()]


# ----------------------------------------------------------------------------- predicates on the implementation
def patch_request(rng, G, p=None, ne=None):
    """dilation u = A r with the pressures in equilibrium with the uniform stress"""
    pp, nn, Ri, Re = rand_mesh(rng, 24)
    p = p or pp
    ne = ne or nn
    D = isotropic(rng.uniform(1, 1000), rng.uniform(0, 0.45))
    A = rng.uniform(-1e-2, 1e-2)
    endcap = rng.random() < 0.5
    lam, d00 = F(D[1]), F(D[0])
    if endcap:
        ezz = A                                     # hydrostatic state: s_zz = s_rr = s_tt
    else:
        ezz = float(-2 * lam * F(A) / d00)          # s_zz = 0 (up to the rounding of ezz)
    s = (F(D[0]) + F(D[2])) * F(A) + F(D[1]) * F(ezz)
    szz = (F(D[3]) + F(D[5])) * F(A) + F(D[4]) * F(ezz)
    P = float(-s)
    u = [float(F(A) * r) for r in node_positions(p, ne, Ri, Re)] + [ezz]
    return {"p": p, "ne": ne, "Ri": Ri, "Re": Re, "A": A, "ezz": ezz, "P": P, "endcap": endcap, "D": D,
            "s": float(s), "szz": float(szz),
            "line": line_rs(p, ne, Ri, Re, P, P, endcap, False, D, G[p], u)}


def patch_check(q, ans):
    """residual of the real code for the dilation field: radial entries 0, axial entry pi (Re^2-Ri^2)(s_zz + [endcap] P)"""
    if ans.startswith("exc") or ans in ("bad-op", "missing"):
        return False, "the implementation answers '%s'" % ans[:80], 0.0
    r = decode(ans)
    n = q["p"] * q["ne"] + 1
    pi = uh(PI_BITS)
    scale = 2 * pi * (abs(q["s"]) + abs(q["szz"]) + abs(q["P"]) + 1e-300) * q["Re"] * max(1.0, q["Re"])
    expected_ax = pi * (q["Re"] ** 2 - q["Ri"] ** 2) * (q["szz"] + (q["P"] if q["endcap"] else 0.0))
    worst, where = 0.0, None
    for j in range(n + 1):
        e = abs(r[j] - (expected_ax if j == n else 0.0)) / scale
        if not (e <= worst):
            worst, where = e, j
    if not (worst <= RTOL):
        return False, ("patch test: for u = A r (A=%r, ezz=%r) and Pi = Pe = %r the residual entry %d is %r "
                       "(relative to the loading %.3e; expected 0 up to rounding)" %
                       (q["A"], q["ezz"], q["P"], where, r[where], worst)), worst
    return True, "", worst


def tangent_check(q, ans):
    """from a `rs` answer with K: symmetry of K (symmetric D) and K u = r - external forces"""
    if ans.startswith("exc") or ans in ("bad-op", "missing"):
        return False, "the implementation answers '%s'" % ans[:80]
    v = decode(ans)
    n = q["p"] * q["ne"] + 1
    r, K = v[:n + 1], v[n + 1:]
    if len(K) != (n + 1) ** 2:
        return False, "answer of unexpected length"
    kmax = max(abs(x) for x in K) or 1.0
    if q["kind"] in ("iso", "sym"):
        for l in range(n + 1):
            for c in range(l):
                if not abs(K[l * (n + 1) + c] - K[c * (n + 1) + l]) <= RTOL * kmax:
                    return False, "stiffness matrix not symmetric: K(%d,%d)=%r, K(%d,%d)=%r" % (
                        l, c, K[l * (n + 1) + c], c, l, K[c * (n + 1) + l])
    ext = ext_forces(q["p"], q["ne"], q["Ri"], q["Re"], q["Pi"], q["Pe"], q["endcap"])
    for l in range(n + 1):
        ku = sum(F(K[l * (n + 1) + c]) * F(q["u"][c]) for c in range(n + 1))
        mag = sum(abs(F(K[l * (n + 1) + c]) * F(q["u"][c])) for c in range(n + 1)) + abs(ext[l]) + F(1, 10 ** 300)
        if not abs(F(r[l]) - ext[l] - ku) <= F(RTOL) * mag:
            return False, ("tangent not consistent with the inner forces (linear law): row %d, r - f_ext = %r, "
                           "K u = %r" % (l, float(F(r[l]) - ext[l]), float(ku)))
    return True, ""


def lame(Ri, Re, Pi, Pe, E, nu, endcap):
    A = (Pi * Ri * Ri - Pe * Re * Re) / (Re * Re - Ri * Ri)
    B = (Pi - Pe) * Ri * Ri * Re * Re / (Re * Re - Ri * Ri)
    if endcap:
        return (lambda r: ((1 - 2 * nu) * A * r + (1 + nu) * B / r) / E, lambda r: A - B / (r * r),
                lambda r: A + B / (r * r), A, (1 - 2 * nu) * A / E)
    return (lambda r: ((1 - nu) * A * r + (1 + nu) * B / r) / E, lambda r: A - B / (r * r),
            lambda r: A + B / (r * r), 0.0, -2 * nu * A / E)


def lame_errors(cfg, p, ne, ans):
    """relative errors of a `solve` answer against the closed-form solution: (nodal displacement, stresses, ezz)"""
    head, tail = ans.split("|")
    hw = head.split()
    u = [uh(w) for w in hw[2:]]
    s = [uh(w) for w in tail.split()]
    ur, srr, stt, szz, ezz = lame(cfg["Ri"], cfg["Re"], cfg["Pi"], cfg["Pe"], cfg["E"], cfg["nu"], cfg["endcap"])
    n = p * ne + 1
    rs = [float(x) for x in node_positions(p, ne, cfg["Ri"], cfg["Re"])]
    umax = max(abs(ur(r)) for r in rs) or 1.0
    eu = max(abs(u[j] - ur(rs[j])) for j in range(n)) / umax
    smax = max(abs(cfg["Pi"]), abs(cfg["Pe"]), abs(stt(cfg["Ri"])), abs(stt(cfg["Re"])))
    es = 0.0
    for g in range(len(s) // 4):
        r = s[4 * g]
        es = max(es, abs(s[4 * g + 1] - srr(r)), abs(s[4 * g + 3] - stt(r)), abs(s[4 * g + 2] - szz))
    ez = abs(u[n] - ezz) / (abs(ezz) + umax / cfg["Re"])
    return eu, es / smax, ez, int(hw[1])


def rand_cfg(rng):
    Ri = rng.choice([1.0, rng.uniform(0.1, 10)])
    Re = Ri * rng.choice([2.0, rng.uniform(1.05, 4)])
    Pi = rng.uniform(0, 100)
    Pe = rng.choice([0.0, rng.uniform(0, 100)])
    if Pi == Pe:
        Pi += 1
    return {"Ri": Ri, "Re": Re, "Pi": Pi, "Pe": Pe, "E": rng.uniform(1e2, 1e6), "nu": rng.uniform(0, 0.45),
            "endcap": rng.random() < 0.6}


FLOOR = 1e-10   # relative error below which rounding dominates and no decrease is required


def convergence_verdict(errs):
    """errs: list of (ne, eu, es). The discretisation error must decrease at every refinement (until the
    rounding floor) and, over the last two doublings, at no less than half the slowest expected rate
    (displacement: order >= 2 expected, 1 required; stress: order >= 1 expected, 0.5 required).
    Alarm only on a gross regression."""
    for (n0, eu0, es0), (n1, eu1, es1) in zip(errs, errs[1:]):
        # the stress error is a maximum over the Gauss points, whose positions change with the mesh: on the
        # coarsest meshes (fewer than 4 elements) it may rise slightly (measured: up to x1.4), never double
        for name, a, b, slack in (("displacement", eu0, eu1, 1.0), ("stress", es0, es1, 1.0 if n0 >= 4 else 2.0)):
            if a > FLOOR and not (b < slack * a):
                return False, "%s error does not decrease: ne=%d: %.3e, ne=%d: %.3e" % (name, n0, a, n1, b)
    if len(errs) >= 3:
        (n0, eu0, es0), (n2, eu2, es2) = errs[-3], errs[-1]
        for name, a, b, need in (("displacement", eu0, eu2, 1.0), ("stress", es0, es2, 0.5)):
            if a > FLOOR and b > FLOOR and not (math.log2(a / b) / math.log2(n2 / n0) >= need):
                return False, "%s error decreases too slowly: ne=%d: %.3e, ne=%d: %.3e (rate %.2f < %.1f)" % (
                    name, n0, a, n2, b, math.log2(a / b) / math.log2(n2 / n0), need)
    return True, ""


# ----------------------------------------------------------------------------- the check
def run(ck):
    rng = random.Random(ck.seed)
    q = ck.quick
    harness = build_harness(ck)

    def ask(lines, timeout=1500):
        p = c48lib.run_harness(ck, harness, "".join(l + "\n" for l in lines), timeout=timeout)
        return p, p.stdout.splitlines()

    # ---- Gauss rule of the code -> GenGauss.lean (T2)
    pg, out = ask(["gauss 1", "gauss 2", "gauss 3"])
    if pg.returncode != 0 or len(out) != 3:
        ck.violation("harness-crash", "the implementation harness aborted", {"stderr": pg.stderr[-3000:]}, False)
        return ck.finish({"evaluations": 0, "distinct_nontrivial": 0, "samples": []})
    rules, G = {}, {}
    for p in (1, 2, 3):
        v = decode(out[p - 1])
        rules[p] = (v[:p + 1], v[p + 1:])
        G[p] = v
    ck.write_gen("TfelVerif/C53/GenGauss.lean", gen_gauss(rules))
    defects = {p: [float(m - ideal_moment(k)) for k, m in enumerate(moments(*rules[p], 2 * p + 1))] for p in rules}

    driver = ck.lean_exe("c53driver", "TfelVerif/C53/Driver.lean")

    # ---- implementation-side predicates (always evaluated; also the failing-input search of the theorems)
    classes = {}

    def report(key, found, what, rep):
        old = classes.get(key)
        if old is None or (found and not old[0]):
            classes[key] = (found, what, rep)

    stats = {"patch": 0, "patch_worst": 0.0, "tangent": 0, "solve": 0, "corr": {}, "disagreements": 0}
    distinct = set()

    patches = []
    for p in (1, 2, 3):
        for ne in (1, 2, 3, 7):
            patches.append(patch_request(rng, G, p, ne))
    patches += [patch_request(rng, G) for _ in range(60 if q else 1500)]
    _, out = ask([x["line"] for x in patches])
    for x, a in zip(patches, out + ["missing"] * (len(patches) - len(out))):
        ok, why, worst = patch_check(x, a)
        stats["patch"] += 1
        stats["patch_worst"] = max(stats["patch_worst"], worst)
        distinct.add(("patch", x["p"], min(x["ne"], 8), x["endcap"]))
        if not ok:
            rep = {k: x[k] for k in ("p", "ne", "Ri", "Re", "A", "ezz", "P", "endcap", "D")}
            rep.update({"request": x["line"], "implementation": a[:2000]})
            report(ELEMENT_FILE[x["p"]] + ":updateStiffnessMatrixAndInnerForces:patch-test", True, why, rep)

    def search(failure):
        """a theorem no longer checks: look for a failing input of the property on the implementation"""
        for key, (found, what, rep) in classes.items():
            if found:
                return {"site": key, "what": what, "replay": rep}
        return None

    res = ck.lean(PROPS, PROPS)
    ck.lean_violations(res, search)
    if not q:
        for m, msg in ck.leanchecker(PROPS):
            ck.violation("leanchecker:" + m, "leanchecker rejects " + m, {"log": msg}, False)

    # ---- correspondence: shape functions, element contributions, assembled residual and stiffness
    reqs = []
    for p in (1, 2, 3):
        xs = [-1.0 + 2.0 * b / p for b in range(p + 1)] + list(rules[p][0]) + [0.0, -0.0, 0.5, 1.5, -2.0]
        xs += [rng.uniform(-1, 1) for _ in range(20 if q else 500)]
        for x in xs:
            reqs.append({"kind": "sf", "p": p, "x": x, "line": "sf %d %s" % (p, hx(x))})
    for _ in range(150 if q else 6000):
        p, ne, Ri, Re = rand_mesh(rng, 6)
        kind, D = rand_D(rng)
        n = p * ne + 1
        sc = rng.choice([1.0, 1e-3, 1e3])
        u = [rng.uniform(-1, 1) * sc for _ in range(n + 1)]
        i = rng.randrange(ne)
        reqs.append({"kind": "el", "p": p, "ne": ne, "Ri": Ri, "Re": Re, "i": i, "D": D, "u": u, "dkind": kind,
                     "line": line_el(p, ne, Ri, Re, i, D, G[p], u)})
    for _ in range(60 if q else 1500):
        p, ne, Ri, Re = rand_mesh(rng, 12)
        kind, D = rand_D(rng)
        n = p * ne + 1
        u = [rng.uniform(-1, 1) for _ in range(n + 1)]
        Pi, Pe = rng.uniform(-10, 100), rng.choice([0.0, rng.uniform(-10, 100)])
        endcap = rng.random() < 0.5
        withK = ne <= 4
        reqs.append({"kind": "rs", "p": p, "ne": ne, "Ri": Ri, "Re": Re, "Pi": Pi, "Pe": Pe, "endcap": endcap,
                     "withK": withK, "D": D, "u": u, "dkind": kind,
                     "line": line_rs(p, ne, Ri, Re, Pi, Pe, endcap, withK, D, G[p], u)})
    text = "".join(r["line"] + "\n" for r in reqs)
    pi_, impl = ask([r["line"] for r in reqs])
    pm = ck.run([driver], input=text, timeout=1500)
    model = pm.stdout.splitlines()
    if pi_.returncode != 0:
        ck.violation("harness-crash", "the implementation harness aborted (sanitizer or crash)",
                     {"stderr": pi_.stderr[-3000:]}, False)
    for k, r in enumerate(reqs):
        a = impl[k] if k < len(impl) else "missing"
        m = model[k] if k < len(model) else "missing"
        stats["corr"][r["kind"]] = stats["corr"].get(r["kind"], 0) + 1
        distinct.add((r["kind"], r["p"], min(r.get("ne", 0), 6), r.get("dkind"), r.get("endcap")))
        if r["kind"] == "rs" and r["withK"]:
            ok, why = tangent_check({"p": r["p"], "ne": r["ne"], "Ri": r["Ri"], "Re": r["Re"], "Pi": r["Pi"],
                                     "Pe": r["Pe"], "endcap": r["endcap"], "u": r["u"], "kind": r["dkind"]}, a)
            stats["tangent"] += 1
            if not ok:
                report(ELEMENT_FILE[r["p"]] + ":updateStiffnessMatrixAndInnerForces:tangent", True, why,
                       {"request": r["line"], "p": r["p"], "ne": r["ne"], "Ri": r["Ri"], "Re": r["Re"], "D": r["D"],
                        "u": r["u"], "implementation": a[:3000]})
        if a != m:
            stats["disagreements"] += 1
            p = r["p"]
            aw, mw = a.split(), m.split()
            first = next((j for j in range(min(len(aw), len(mw))) if aw[j] != mw[j]), min(len(aw), len(mw)))
            rep = {"request": r["line"], "first_differing_field": first,
                   "implementation": c48lib.pretty(" ".join(aw[first:first + 4])),
                   "model": c48lib.pretty(" ".join(mw[first:first + 4])),
                   "request_decoded": {k2: r[k2] for k2 in r if k2 != "line"}}
            # the property's own predicates on the implementation for this very configuration
            if r["kind"] != "sf":
                x = patch_request(random.Random(k), G, p, r["ne"])
                _, o = ask([x["line"]])
                ok, why, _ = patch_check(x, o[0] if o else "missing")
                if not ok:
                    report(ELEMENT_FILE[p] + ":updateStiffnessMatrixAndInnerForces:patch-test", True, why,
                           {"request": x["line"], "implementation": (o[0] if o else "missing")[:2000],
                            **{k2: x[k2] for k2 in ("p", "ne", "Ri", "Re", "A", "ezz", "P", "endcap", "D")}})
            site = {"sf": ":interpolate", "el": ":updateStiffnessMatrixAndInnerForces",
                    "rs": ":updateStiffnessMatrixAndInnerForces"}[r["kind"]]
            if r["kind"] == "sf":
                # property predicate: partition of unity / nodal values in exact arithmetic on the answer
                vals = decode(a) if not a.startswith(("exc", "bad", "missing")) else []
                if vals and not abs(sum(F(v) for v in vals) - 1) <= F(1, 10 ** 12):
                    report(ELEMENT_FILE[p] + ":interpolate:partition-of-unity", True,
                           "shape functions of order %d do not sum to 1 at xi=%r: %r" % (p, r["x"], vals), rep)
                    continue
            report("corr:" + ELEMENT_FILE[p] + site, False,
                   "correspondence Model.lean vs %s broken (op %s, field %d)" % (ELEMENT_FILE[p], r["kind"], first), rep)

    # ---- Lamé convergence table: complete runs of the real PipeTest
    cfgs = [{"Ri": 1.0, "Re": 2.0, "Pi": 3.0, "Pe": 1.0, "E": 200.0, "nu": 0.3, "endcap": True}]
    cfgs += [rand_cfg(rng) for _ in range(3 if q else 40)]
    nes = [1, 2, 4, 8, 16, 32, 64]
    lines, meta = [], []
    for ci, cfg in enumerate(cfgs):
        for p in (1, 2, 3):
            for ne in nes:
                lines.append(line_solve(p, ne, cfg["Ri"], cfg["Re"], cfg["Pi"], cfg["Pe"], cfg["endcap"], cfg["E"], cfg["nu"]))
                meta.append((ci, p, ne))
    _, out = ask(lines, timeout=2400)
    table = {}
    for (ci, p, ne), line, a in zip(meta, lines, out + ["missing"] * (len(lines) - len(out))):
        stats["solve"] += 1
        cfg = cfgs[ci]
        site = "mtest/src/PipeTest.cxx:execute:lame-" + {1: "linear", 2: "quadratic", 3: "cubic"}[p]
        if not a.startswith("ok "):
            report(site, True, "PipeTest (order %d, %d elements) on a linear elastic pipe: %s" % (p, ne, a[:200]),
                   {"request": line, "config": cfg, "order": p, "elements": ne, "implementation": a[:500]})
            continue
        eu, es, ez, iters = lame_errors(cfg, p, ne, a)
        table.setdefault((ci, p), []).append((ne, eu, es))
        distinct.add(("solve", p, ne, cfg["endcap"]))
        if not (ez <= max(1e-8, 100 * eu)):
            report(site, True, "axial strain %r off the closed-form value (relative error %.3e)" % (ne, ez),
                   {"request": line, "config": cfg, "order": p, "elements": ne})
    conv = []
    for (ci, p), errs in sorted(table.items()):
        ok, why = convergence_verdict(errs)
        rates = []
        for (n0, a0, s0), (n1, a1, s1) in zip(errs, errs[1:]):
            rates.append((round(math.log2(a0 / a1), 2) if a0 > FLOOR and a1 > 0 else None,
                          round(math.log2(s0 / s1), 2) if s0 > FLOOR and s1 > 0 else None))
        if ci == 0 or not q:
            conv.append({"config": cfgs[ci] if p == 1 else ci, "order": p,
                         "errors(ne, displacement, stress)": [(n, float("%.3e" % a), float("%.3e" % s)) for n, a, s in errs],
                         "observed_rates(displacement, stress)": rates})
        if not ok:
            site = "mtest/src/PipeTest.cxx:execute:lame-" + {1: "linear", 2: "quadratic", 3: "cubic"}[p]
            report(site, True, "Lamé solution, order %d: %s" % (p, why),
                   {"config": cfgs[ci], "order": p, "errors(ne, displacement, stress)": errs,
                    "requests": [line_solve(p, ne, cfgs[ci]["Ri"], cfgs[ci]["Re"], cfgs[ci]["Pi"], cfgs[ci]["Pe"],
                                            cfgs[ci]["endcap"], cfgs[ci]["E"], cfgs[ci]["nu"]) for ne in nes]})

    for key, (found, what, rep) in sorted(classes.items()):
        if key.startswith("corr:") and any(f and k.startswith(key[5:].split(":")[0]) for k, (f, _, _) in classes.items()):
            continue      # a failing input of the property was found for the same source file: report that one
        ck.violation(key, what, rep, found)

    ck.assumptions += [
        "the constitutive law is a mock (linear law s = D e compiled into the harness): PipeTest and the elements "
        "are the real code of the tree, the behaviour library is not",
        "hand-written model (Model.lean) tied by bit-exact Float correspondence on seeded inputs, not by translation",
        "theorems are over exact arithmetic (a field of characteristic 0); rounding is not modelled; the Gauss "
        "constants of the code satisfy the moment equations only to 2e-15 (theorem code_gauss_moments)",
        "convergence towards the Lamé field under refinement is measured on the implementation, not proved"]
    return ck.finish({
        "evaluations": stats["patch"] + stats["tangent"] + stats["solve"] + sum(stats["corr"].values()),
        "distinct_nontrivial": len(distinct),
        "rule": "distinct (operation, element order, number of elements (capped), kind of stiffness, end cap) classes",
        "samples": [patches[0]["line"][:200], reqs[0]["line"], lines[0]],
        "exhaustive": False,
        "correspondence_lines": stats["corr"], "disagreements": stats["disagreements"],
        "patch_tests": stats["patch"], "patch_worst_relative_residual": stats["patch_worst"],
        "tangent_checks": stats["tangent"], "pipe_runs": stats["solve"],
        "gauss_moment_defects": defects,
        "lame_convergence": conv})
