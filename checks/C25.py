"""C25 — homogenisation bounds are ordered and schemes consistent (tie: T1 symtrace, concolic).

Two layers of tie to the current tree, both rebuilt on every run:
 (L) units without a pivoted inversion (Voigt, Hashin–Shtrikman on several min/max paths, two-phase
     sphere schemes, sphere Eshelby/Hill/localisation tensors, plane-strain Eshelby tensors, n-phase dilute
     scheme, zero-fraction Mori–Tanaka / self-consistent): regenerated Lean definitions under the fixed
     theorems of TfelVerif.C25.Props;
 (X) units whose code inverts 6x6 tensors by pivoted LU (Reuss, tensorial / n-phase Mori–Tanaka,
     localisation tensors of computeMoriTanaka, first pass of computeSelfConsistent): the traced DAG is
     re-traced at seeded random rational inputs (so the concolic path is the one the real code takes there)
     and evaluated exactly over Q against an independent closed-form reference (randomised exact identity
     test) — and every unit of (L) is also evaluated that way; this is also the failing-input search.
"""
import os
import random
import re
from fractions import Fraction as F

import emit
import t1
import vlib
from emit import Q2

PROPS = ["TfelVerif.C25.PropsGen", "TfelVerif.C25.PropsHS", "TfelVerif.C25.PropsTensors",
         "TfelVerif.C25.PropsTensors2", "TfelVerif.C25.Props"]
PROPS_HEAVY = ["TfelVerif.C25.PropsHeavy"]
EXC = ["/src/Exception/ContractViolation.cxx", "/src/Exception/TFELException.cxx",
       "/src/Math/LUException.cxx", "/src/Math/MathException.cxx"]
# units that go to Lean with one shared let-chain (heavy cones shared by all outputs)
SHARED = ["MTT_f0", "MicroMT_f0_n2", "MicroSC_f0_n2"]
# units evaluated exactly only (pivoted LU inside): never sent to Lean
XONLY_PREFIX = ("Reuss3_", "MTT_sph", "MicroMT_n", "MicroSC_1pass", "MicroDilute_n")


# ------------------------------------------------------------------ closed-form references (over Q)
def hs(f, k, s):
    return 1 / sum(fi / (ki + s) for fi, ki in zip(f, k)) - s


def H3(K, mu):
    return mu * (9 * K + 8 * mu) / (6 * (K + 2 * mu))


def H2(K, mu):
    return mu * K / (K + 2 * mu)


def iso6(x, y):
    """x*J + y*K in Mandel 6x6 storage, row major"""
    r = []
    for i in range(6):
        for j in range(6):
            if i < 3 and j < 3:
                r.append((x + 2 * y) / 3 if i == j else (x - y) / 3)
            else:
                r.append(y if i == j else F(0))
    return r


def matmul(a, b, n=6):
    return [sum(a[i * n + k] * b[k * n + j] for k in range(n)) for i in range(n) for j in range(n)]


def kg_of(E, nu):
    return E / (3 * (1 - 2 * nu)), E / (2 * (1 + nu))


def en_of(K, G):
    return 9 * K * G / (3 * K + G), (3 * K - 2 * G) / (2 * (3 * K + G))


def kstar(G0):
    return F(4, 3) * G0


def sph_ak(K0, G0, Ki):
    return (K0 + kstar(G0)) / (Ki + kstar(G0))


def sph_ag(K0, G0, Gi):
    return (G0 + H3(K0, G0)) / (Gi + H3(K0, G0))


def mura(nu, t):
    """plane-strain Eshelby tensor of an elliptic cylinder, axis 1 : axis 2 = 1 : t (Mura), 4x4 Mandel
    storage (11, 22, 33, sqrt2*12), row major"""
    c = 1 / (2 * (1 - nu))
    s = 1 + t
    S1111 = c * ((t * t + 2 * t) / s ** 2 + (1 - 2 * nu) * t / s)
    S2222 = c * ((1 + 2 * t) / s ** 2 + (1 - 2 * nu) / s)
    S1122 = c * (t * t / s ** 2 - (1 - 2 * nu) * t / s)
    S2211 = c * (1 / s ** 2 - (1 - 2 * nu) / s)
    S1212 = c * ((1 + t * t) / (2 * s ** 2) + (1 - 2 * nu) / 2)
    S1133 = c * 2 * nu * t / s
    S2233 = c * 2 * nu / s
    z = F(0)
    return [S1111, S1122, S1133, z, S2211, S2222, S2233, z, z, z, z, z, z, z, z, 2 * S1212]


# ------------------------------------------------------------------ generators
def rmod(rng):
    return F(rng.randint(1, 40), rng.choice([1, 2, 4]))


def rfrac(rng, n, allow_zero=True):
    w = [rng.randint(0 if allow_zero else 1, 8) for _ in range(n)]
    if sum(w) == 0:
        w[rng.randrange(n)] = 1
    return [F(x, sum(w)) for x in w]


def gen_moduli(rng, n):
    """n phases; now and then tied or permuted-extreme moduli so that min/max paths vary"""
    K = [rmod(rng) for _ in range(n)]
    G = [rmod(rng) for _ in range(n)]
    r = rng.random()
    if r < 0.2:
        G[rng.randrange(n)] = G[rng.randrange(n)]
    elif r < 0.3:
        K = [K[0]] * n
    elif r < 0.5:
        # close shear moduli, spread bulk moduli: the order of H differs from the order of mu
        base = rmod(rng)
        G = [base * (1 + F(rng.randint(0, 9), 50)) for _ in range(n)]
        K = [F(rng.choice([1, 2, 400, 800]), rng.choice([1, 50])) for _ in range(n)]
    return K, G


def gen_unit(name, rng):
    """-> (env name->Fraction, expected list or dict describing checks)"""
    m = re.match(r"HS(\d)_n(\d)_p\d", name)
    if m:
        d, n = int(m.group(1)), int(m.group(2))
        K, G = gen_moduli(rng, n)
        f = rfrac(rng, n)
        env = {}
        for i in range(n):
            env["f%d" % i], env["K%d" % i], env["mu%d" % i] = f[i], K[i], G[i]
        if d == 3:
            Hs = [H3(k, g) for k, g in zip(K, G)]
            cK = F(4, 3)
        else:
            Hs = [H2(k, g) for k, g in zip(K, G)]
            cK = F(1)
        exp = [hs(f, K, cK * min(G)), hs(f, G, min(Hs)), hs(f, K, cK * max(G)), hs(f, G, max(Hs))]
        return env, exp
    m = re.match(r"(Voigt|Reuss)3_n(\d)", name)
    if m:
        n = int(m.group(2))
        K, G = gen_moduli(rng, n)
        f = rfrac(rng, n, allow_zero=(m.group(1) == "Voigt"))
        env = {}
        for i in range(n):
            env["f%d" % i], env["K%d" % i], env["G%d" % i] = f[i], K[i], G[i]
        if m.group(1) == "Voigt":
            return env, iso6(3 * sum(a * b for a, b in zip(f, K)), 2 * sum(a * b for a, b in zip(f, G)))
        return env, iso6(3 / sum(a / b for a, b in zip(f, K)), 2 / sum(a / b for a, b in zip(f, G)))
    if name == "VoigtGen2_n3":
        f = rfrac(rng, 3)
        env = {"f%d" % i: f[i] for i in range(3)}
        mats = []
        for p in "abd":
            mt = [t1.rnd_rat(rng) for _ in range(16)]
            mats.append(mt)
            for i in range(4):
                for j in range(4):
                    env["%s%d%d" % (p, i, j)] = mt[4 * i + j]
        return env, [sum(f[r] * mats[r][q] for r in range(3)) for q in range(16)]
    if name in ("SphDilute_EN", "SphMT_EN", "DiluteT_sph", "MTT_sph", "DiluteT_gen", "MTT_f0"):
        K0, G0, Ki, Gi = rmod(rng), rmod(rng), rmod(rng), rmod(rng)
        if rng.random() < 0.15:
            Ki, Gi = K0, G0
        f = rng.choice([F(0), F(1), F(rng.randint(0, 16), 16), F(rng.randint(0, 9), 9)])
        E0, nu0 = en_of(K0, G0)
        Ei, nui = en_of(Ki, Gi)
        env = {"E0": E0, "nu0": nu0, "Ei": Ei, "nui": nui}
        if name != "MTT_f0":
            env["f"] = f
        Kd = K0 + f * (Ki - K0) * sph_ak(K0, G0, Ki)
        Gd = G0 + f * (Gi - G0) * sph_ag(K0, G0, Gi)
        Km = hs([1 - f, f], [K0, Ki], kstar(G0))
        Gm = hs([1 - f, f], [G0, Gi], H3(K0, G0))
        if name == "SphDilute_EN":
            return env, list(en_of(Kd, Gd)) + [Kd, Gd]
        if name == "SphMT_EN":
            return env, list(en_of(Km, Gm)) + [Km, Gm]
        if name == "DiluteT_sph":
            return env, iso6(3 * Kd, 2 * Gd)
        if name == "MTT_sph":
            return env, iso6(3 * Km, 2 * Gm)
        A = [t1.rnd_rat(rng) for _ in range(36)]
        for i in range(6):
            for j in range(6):
                env["a%d%d" % (i, j)] = A[6 * i + j]
        C0 = iso6(3 * K0, 2 * G0)
        Ci = iso6(3 * Ki, 2 * Gi)
        if name == "DiluteT_gen":
            P = matmul([a - b for a, b in zip(Ci, C0)], A)
            return env, [a + f * b for a, b in zip(C0, P)]
        return env, C0
    if name in ("SphDilute_KG", "SphMT_KG"):
        K0, G0, Ki, Gi = rmod(rng), rmod(rng), rmod(rng), rmod(rng)
        f = rng.choice([F(0), F(1), F(rng.randint(0, 16), 16), F(rng.randint(0, 9), 9)])
        env = {"K0": K0, "G0": G0, "K1": Ki, "G1": Gi, "f": f}
        if name == "SphDilute_KG":
            return env, [K0 + f * (Ki - K0) * sph_ak(K0, G0, Ki), G0 + f * (Gi - G0) * sph_ag(K0, G0, Gi)]
        return env, [hs([1 - f, f], [K0, Ki], kstar(G0)), hs([1 - f, f], [G0, Gi], H3(K0, G0))]
    if name in ("SphEshelby", "SphHill", "SphHill_def", "AxiEshelby_sphere"):
        K0, G0 = rmod(rng), rmod(rng)
        E, nu = en_of(K0, G0)
        al = 3 * K0 / (3 * K0 + 4 * G0)
        be = 6 * (K0 + 2 * G0) / (5 * (3 * K0 + 4 * G0))
        if name == "SphEshelby":
            return {"nu": nu}, iso6(al, be)
        if name == "AxiEshelby_sphere":
            return {"nu": nu, "e": 1 + F(rng.randint(-14, 14), 100000)}, iso6(al, be)
        if name == "SphHill":
            return {"E": E, "nu": nu}, iso6(al / (3 * K0), be / (2 * G0))
        return {"E": E, "nu": nu}, [F(0)] * 36
    if name in ("IsoStiff_EN", "IsoStiff_KG"):
        K0, G0 = rmod(rng), rmod(rng)
        E, nu = en_of(K0, G0)
        return ({"E0": E, "nu0": nu} if name == "IsoStiff_EN" else {"K0": K0, "G0": G0}), iso6(3 * K0, 2 * G0)
    if name in ("SphLoc", "SphLoc_def"):
        K0, G0, Ki, Gi = rmod(rng), rmod(rng), rmod(rng), rmod(rng)
        E0, nu0 = en_of(K0, G0)
        Ei, nui = en_of(Ki, Gi)
        env = {"E0": E0, "nu0": nu0, "Ei": Ei, "nui": nui}
        if name == "SphLoc":
            return env, iso6(sph_ak(K0, G0, Ki), sph_ag(K0, G0, Gi))
        return env, iso6(F(1), F(1))
    if name in ("DiskEshelby", "EllipseEshelby_e1", "EllipseEshelby_gt", "EllipseEshelby_lt"):
        nu = F(rng.randint(-9, 4), 10)
        if name in ("DiskEshelby", "EllipseEshelby_e1"):
            return {"nu": nu}, mura(nu, F(1))
        e = F(rng.randint(1, 30), rng.randint(1, 30))
        if name == "EllipseEshelby_gt":
            e = max(e, 1 / e) + F(1, 7)
            return {"nu": nu, "e": e}, mura(nu, 1 / e)
        e = min(e, 1 / e)   # e <= 1: the `e > 1` test fails, also at e = 1
        return {"nu": nu, "e": e}, mura(nu, e)
    m = re.match(r"Micro(Dilute|MT|SC_1pass)_n(\d)", name)
    if m:
        n = int(m.group(2))
        K, G = gen_moduli(rng, n)
        f = rfrac(rng, n, allow_zero=True)
        if f[0] == 0:
            f = rfrac(rng, n, allow_zero=False)
        env = {}
        for i in range(n):
            env["K%d" % i], env["G%d" % i] = K[i], G[i]
            if i:
                env["f%d" % i] = f[i]
        ak = [sph_ak(K[0], G[0], k) for k in K]
        ag = [sph_ag(K[0], G[0], g) for g in G]
        if m.group(1) == "Dilute":
            Kd = K[0] + sum(f[i] * (K[i] - K[0]) * ak[i] for i in range(1, n))
            Gd = G[0] + sum(f[i] * (G[i] - G[0]) * ag[i] for i in range(1, n))
            exp = iso6(3 * Kd, 2 * Gd) + iso6(F(1), F(1))
            for i in range(1, n):
                exp += iso6(ak[i], ag[i])
            return env, exp
        sk = sum(a * b for a, b in zip(f, ak))
        sg = sum(a * b for a, b in zip(f, ag))
        exp = iso6(3 * hs(f, K, kstar(G[0])), 2 * hs(f, G, H3(K[0], G[0])))
        for i in range(n):
            exp += iso6(ak[i] / sk, ag[i] / sg)
        return env, {"expected": exp, "avg_localisation": (f, n)}
    if name in ("MicroMT_f0_n2", "MicroSC_f0_n2"):
        K, G = gen_moduli(rng, 2)
        env = {"K0": K[0], "K1": K[1], "G0": G[0], "G1": G[1]}
        return env, iso6(3 * K[0], 2 * G[0])
    return None


# ------------------------------------------------------------------ exact evaluation of a traced unit
def hash_q(name, args):
    """injective-enough rational stand-in for an uninterpreted function (never reaches a compared output)"""
    h = hash((name,) + tuple((a.a, a.b) for a in args))
    return Q2(F(h % 1000003, 1009))


def fns(name, args):
    x = args[0]
    if name == "abs" and x.b == 0:
        return Q2(abs(x.a))
    if name == "min" and x.b == 0 and args[1].b == 0:
        return Q2(min(x.a, args[1].a))
    if name == "max" and x.b == 0 and args[1].b == 0:
        return Q2(max(x.a, args[1].a))
    return hash_q(name, args)


def path_holds(u, val):
    """do the recorded branch outcomes hold exactly at this point? (None: not decidable, e.g. sqrt)"""
    tainted = getattr(u, "_taint", None)
    if tainted is None:
        tainted = set()
        for j in u.order:
            op, p = u.nodes[j]
            if op in ("in", "const", "lit"):
                continue
            args = p[1] if op == "call" else p
            if op not in ("add", "sub", "mul", "div", "neg", "abs", "min", "max", "pow") or any(a in tainted for a in args):
                tainted.add(j)
            if op == "pow" and u.nodes[p[1]][0] != "const":
                tainted.add(j)
        u._taint = tainted
    ok = True
    for (cmp_, a, b, r) in u.paths:
        if a in tainted or b in tainted:
            continue
        x, y = val[a], val[b]
        if x.b != 0 or y.b != 0:
            continue
        res = {"lt": x.a < y.a, "le": x.a <= y.a, "gt": x.a > y.a, "ge": x.a >= y.a,
               "eq": x.a == y.a, "ne": x.a != y.a}[cmp_]
        if res != r:
            ok = False
            break
    return ok


def shadow_text(envs):
    return "".join("%s %s %.17g\n" % (un, k, float(v)) for un, env in envs.items() for k, v in env.items())


def path_signature(u):
    return "".join("1" if r else "0" for (_, _, _, r) in u.paths)


def check_point(u, env, exp):
    """-> None if the unit agrees with the reference at env, else a replay dict; raises ZeroDivisionError"""
    val = emit.evaluate(u, {k: Q2(v) for k, v in env.items()}, fns)
    if not path_holds(u, val):
        return "off-path"
    extra = None
    if isinstance(exp, dict):
        extra = exp
        exp = exp["expected"]
    for (oname, node), e in zip(u.outs, exp):
        if e is None:
            continue
        if not (val[node] == Q2(e)):
            return {"unit": u.name, "output": oname, "inputs_exact": {k: str(v) for k, v in env.items()},
                    "code_value_exact": repr(val[node]), "spec_value_exact": str(e),
                    "code_value": float(val[node]), "spec_value": float(e)}
    if extra and "avg_localisation" in extra:
        # the property's own identity: sum_r f_r A_r = Id, evaluated on the traced localisation tensors
        f, n = extra["avg_localisation"]
        outs = dict(u.outs)
        for i in range(6):
            for j in range(6):
                s = Q2(0)
                for r in range(n):
                    s = s + Q2(f[r]) * val[outs["A%d_%d_%d" % (r, i, j)]]
                if not (s == Q2(1 if i == j else 0)):
                    return {"unit": u.name, "output": "sum_r f_r A_r (%d,%d)" % (i, j),
                            "inputs_exact": {k: str(v) for k, v in env.items()},
                            "code_value_exact": repr(s), "spec_value_exact": "1" if i == j else "0",
                            "code_value": float(s), "spec_value": 1.0 if i == j else 0.0}
    return None


def split_dag(text):
    """unit name -> its text block"""
    blocks = {}
    for m in re.finditer(r"^unit (\S+)\n.*?^end \1\n", text, re.S | re.M):
        blocks[m.group(1)] = m.group(0)
    return blocks


def run_tracers(ck, bins, shadow=None):
    txt = ""
    for b in bins:
        env = {"VERIF_SHADOW": shadow} if shadow else {}
        p = ck.run([b], env=env, timeout=600)
        if p.returncode != 0:
            raise vlib.BuildError("tracer %s failed on the current tree (contract violation, unexpected "
                                  "value-dependent branch or crash)" % os.path.basename(b),
                                  p.stdout[-800:] + p.stderr[-3000:])
        txt += p.stdout
    return txt


def emit_units(units, namespace, out, with_paths=True):
    """own emitter (instead of emit.py's one definition per output, whose size is outputs x cone): ONE
    let-chain per unit, `U_all : List K` (all outputs, in the tracer's order) and, when the trace took
    value-dependent branches, `U_path : Prop` (the recorded outcomes). Node rendering is emit.py's."""
    sym = {"lt": "<", "le": "≤", "gt": ">", "ge": "≥", "eq": "=", "ne": "≠"}
    with open(out, "w") as o:
        o.write("-- GENERATED by checks/C25.py from /repo's current sources (symtrace DAG). Do not edit.\n")
        o.write("import TfelVerif.Common.Sym\nimport Mathlib.Order.Defs.LinearOrder\n")
        o.write("set_option maxRecDepth 100000\nset_option linter.unusedVariables false\n")
        o.write("namespace %s\nopen TfelVerif\n\n" % namespace)
        for u in units:
            ins = [emit.lean_ident(x) for x in u.inputs]
            binder = "(c c3 : K) (fn : Fns K)" + (" (%s : K)" % " ".join(ins) if ins else "")

            def ref(j, u=u):
                o_, p = u.nodes[j]
                if o_ == "in":
                    return emit.lean_ident(p)
                if o_ == "const":
                    return emit.lean_const(*p)
                if o_ == "lit":
                    return emit.lean_rat(p.numerator, p.denominator)
                return "n%d" % j

            def chain(need):
                for j in u.order:
                    if j in need and u.nodes[j][0] not in ("in", "const", "lit"):
                        o.write("  let n%d := %s\n" % (j, emit.node_expr(u, j, ref)))
            need = set()
            for _, root in u.outs:
                need |= u.cone(root)
            o.write("noncomputable def %s_all {K : Type} [Field K] %s : List K :=\n" % (emit.lean_ident(u.name), binder))
            chain(need)
            o.write("  [%s]\n\n" % ", ".join(ref(r) for _, r in u.outs))
            if u.paths and with_paths:
                need = set()
                for (_, a, b, _) in u.paths:
                    need |= u.cone(a) | u.cone(b)
                o.write("/-- branch outcomes under which the trace of `%s` was taken -/\n" % u.name)
                o.write("def %s_path {K : Type} [Field K] [LinearOrder K] %s : Prop :=\n" % (emit.lean_ident(u.name), binder))
                chain(need)
                conj = []
                for (cmp_, a, b, r) in u.paths:
                    e = "(%s : K) %s %s" % (ref(a), sym[cmp_], ref(b))
                    if not r:
                        e = "¬ (%s)" % e
                    if e not in conj:
                        conj.append(e)
                o.write("  " + " ∧ ".join(conj) + "\n\n")
        o.write("end %s\n" % namespace)


def run(ck):
    srcs = [vlib.REPO + s for s in EXC]
    bins = ck.cxx_many([("c25a", ["C25/trace_a.cxx"] + srcs), ("c25b", ["C25/trace_b.cxx"] + srcs)], opt="-O0")
    bins = [bins["c25a"], bins["c25b"]]
    base = run_tracers(ck, bins)
    units = emit.parse(base)
    byname = {u.name: u for u in units}
    blocks = split_dag(base)
    lean_units = [u.name for u in units if not u.name.startswith(XONLY_PREFIX) and u.name not in SHARED]
    tmp = ck.path("Gen.lean")
    emit_units([byname[n] for n in lean_units], "TfelVerif.C25.Gen", tmp)
    ck.write_gen("TfelVerif/C25/Gen.lean", open(tmp).read())
    tmp = ck.path("GenHeavy.lean")
    emit_units([byname[n] for n in SHARED], "TfelVerif.C25.GenHeavy", tmp, with_paths=False)
    ck.write_gen("TfelVerif/C25/GenHeavy.lean", open(tmp).read())
    props = PROPS + ([] if ck.quick else PROPS_HEAVY)
    # the Lean build runs while the exact evaluation below is carried out
    from concurrent.futures import ThreadPoolExecutor
    pool = ThreadPoolExecutor(max_workers=1)
    lean_job = pool.submit(ck.lean, props, props)

    # ---- exact evaluation at seeded random rational points, re-tracing so that the path is the real one
    rng = random.Random(ck.seed)
    rounds = 6 if ck.quick else 40
    found = {}
    stats = {"rounds": rounds, "points": 0, "off_path": 0, "division_by_zero": 0, "no_reference": []}
    paths = {}
    for rd in range(rounds + 1):
        envs, exps = {}, {}
        for u in units:
            g = gen_unit(u.name, rng)
            if g is None:
                if u.name not in stats["no_reference"]:
                    stats["no_reference"].append(u.name)
                continue
            envs[u.name], exps[u.name] = g
        if rd == 0:
            cur = byname   # the very definitions sent to Lean, at points filtered to their path
        else:
            sh = ck.write("shadow_%d.txt" % rd, shadow_text(envs))
            cur = {u.name: u for u in emit.parse(run_tracers(ck, bins, sh))}
        for name, env in envs.items():
            if name in found:
                continue
            u = cur[name]
            try:
                r = check_point(u, env, exps[name])
            except ZeroDivisionError:
                stats["division_by_zero"] += 1
                continue
            if r == "off-path":
                stats["off_path"] += 1
                continue
            stats["points"] += 1
            paths.setdefault(name, set()).add(path_signature(u))
            if r is not None:
                # replay on the real code in double precision: shadow of the output node at this input
                shp = ck.write("replay_%s.txt" % name, shadow_text({name: env}))
                try:
                    txt = run_tracers(ck, bins, shp)
                    mm = re.search(r"unit %s\n(.*?)end %s\n" % (re.escape(name), re.escape(name)), txt, re.S)
                    shn, outs = {}, {}
                    for line in mm.group(1).splitlines():
                        ff = line.split()
                        if ff[0] == "n":
                            shn[int(ff[1])] = float(line.split(";")[1])
                        elif ff[0] == "out":
                            outs[ff[1]] = int(ff[2])
                    if r["output"] in outs:
                        r["real_code_double_result"] = shn[outs[r["output"]]]
                except Exception as e:  # support only
                    r["replay_error"] = repr(e)
                found[name] = r
    stats["distinct_paths"] = {k: len(v) for k, v in sorted(paths.items()) if len(v) > 1}
    res = lean_job.result()
    pool.shutdown()

    def family(n):
        return re.sub(r"(_n\d|_p\d|_EN|_KG|_gt|_lt|_e1|_def|_f0|_gen|_sph)+$", "", n)
    # ---- verdicts: one violation per traced-unit family (with its exact failing input), one summary line for
    # obligations that could not be re-checked only because a module they import no longer builds
    def witness_for(thm):
        for n in sorted(found, key=len, reverse=True):
            if thm.startswith(n) or n.startswith(thm) or (family(n) and thm.startswith(family(n))):
                return n
        if thm.startswith("MT_eq_HS"):
            for n in found:
                if n.startswith(("SphMT", "HS3_n2")):
                    return n
        return None
    reported = set()
    if not res.ok:
        for (f_, i_, line) in res.forbidden:
            ck.violation("audit:" + f_, "forbidden construct in proof sources: %s:%d: %s" % (f_, i_, line),
                         {"file": f_, "line": i_, "text": line}, False)
        for (n, ax) in res.bad_axioms:
            ck.violation("axioms:" + n, "theorem %s depends on non-whitelisted axioms %s" % (n, ax), {"theorem": n, "axioms": ax}, False)
        real = [fl for fl in res.failed if fl.get("file") != "audit" and fl.get("line", 0) > 0]
        groups, rest = {}, []
        for fl in (real or res.failed):
            w = witness_for(fl.get("theorem") or "")
            if w and fl in real:
                groups.setdefault(family(w), (w, []))[1].append(fl)
            else:
                rest.append(fl)
        for fam, (w, fls) in groups.items():
            reported.add(fam)
            names = [fl.get("theorem") for fl in fls]
            ck.violation("thm:" + fam, "%d theorem(s) about %s no longer check against the definitions regenerated from the current "
                         "sources (%s); the traced code differs from the reference at an exact input" % (len(fls), fam, ", ".join(names[:6]) + (" ..." if len(names) > 6 else "")),
                         {"broken_obligations": fls, "failing_input": found[w], "lake_log_tail": res.log[-1500:]}, True)
        unrelated = [fl for fl in rest if fl in real]
        for fl in unrelated:
            ck.violation("thm:%s" % fl.get("theorem"), "theorem %s no longer checks (%s)" % (fl.get("theorem"), fl.get("msg", "")[:120]),
                         {"broken_obligation": fl, "lake_log_tail": res.log[-1500:]}, False)
        if not groups and not unrelated:
            ck.violation("lean:build", "the Lean build / audit failed without a located error (%d obligations not re-checked)" % len(res.failed),
                         {"failed": res.failed[:20], "lake_log_tail": res.log[-1500:]}, False)
        else:
            skipped = len(res.failed) - len(real)
            if skipped:
                ck.notes.append("%d further obligations were not re-checked because a module they import no longer builds" % skipped)
    fams = {}
    for n, r in found.items():
        if family(n) not in reported:
            fams.setdefault(family(n), []).append(n)
    for fam, ns in fams.items():
        r = found[ns[0]]
        ck.violation("exact:" + fam, "traced unit %s (current sources) disagrees with its closed-form reference at an exact rational "
                     "input: output %s = %s, expected %s (%d unit(s) of this family differ)" % (ns[0], r["output"], r["code_value"], r["spec_value"], len(ns)),
                     dict(r, units=ns), True)
    if ck.tier == "thorough" and res.ok:
        for m, log in ck.leanchecker(PROPS):
            ck.violation("leanchecker:" + m, "leanchecker rejects " + m, {"log": log}, False)
    # ------------------------------------------------------------------ spheroids and ellipsoids (numerical)
    # acos/acosh/elliptic-integral formulas of IsotropicEshelbyTensor.ixx and the localisation tensors built on them
    # (LocalisationTensor.ixx) cannot be traced: harness/C25/eshelby.cxx runs the real templates in double, checks/c25num.py
    # gives an independent reference (Gauss-Legendre quadrature of the ellipsoid integrals I_i, I_ij; agreement on the
    # unchanged code is ~1e-13) and the defining identities P0:C0 = S (same invariants in any orientation, same tensor
    # for an inclusion along a frame axis) and A:(I + P0:(Ci-C0)) = I are evaluated on the returned tensors.
    from checks import c25num
    num = ck.cxx("c25e", ["C25/eshelby.cxx"] + srcs, opt="-O1")
    NTOL = 1e-9
    nreq = []
    for k in range(10 if ck.quick else 200):
        nu_ = rng.uniform(-0.8, 0.49)
        e_ = rng.uniform(0.05, 0.8) if k % 2 == 0 else rng.uniform(1.25, 25.0)
        nreq.append(("axi", (nu_, e_)))
    for k in range(8 if ck.quick else 200):
        nu_ = rng.uniform(-0.8, 0.49)
        ax = sorted([1.0, rng.uniform(1.3, 3.0), rng.uniform(3.9, 12.0)])
        rng.shuffle(ax)
        nreq.append(("ell", (nu_,) + tuple(ax)))
    for k in range(9 if ck.quick else 150):
        E_, nu_ = rng.uniform(1.0, 300.0), rng.uniform(-0.5, 0.45)
        Ei_, nui_ = rng.uniform(1.0, 900.0), rng.uniform(-0.5, 0.45)
        e_ = rng.uniform(0.05, 0.8) if k % 2 == 0 else rng.uniform(1.25, 25.0)
        nrm = [(0.0, 0.0, 1.0), (1.0, 0.0, 0.0), (0.0, 1.0, 0.0)][k % 3] if k < 6 else tuple(rng.uniform(-1, 1) for _ in range(3))
        if k < 6:      # directed: mildly and strongly oblate / prolate inclusions along each frame axis
            e_ = [0.3, 1.3, 0.75, 4.0, 0.1, 1.26][k]
        nreq.append(("axiP", (E_, nu_) + nrm + (e_,)))
        nreq.append(("axiA", (E_, nu_, Ei_, nui_) + nrm + (e_,)))
    pn = ck.run([num], input="".join("%s %s\n" % (op, " ".join(repr(float(x)) for x in a)) for op, a in nreq), timeout=900)
    nout = pn.stdout.splitlines()
    n_stats = {"axi": 0, "ell": 0, "axiP": 0, "axiA": 0, "max_abs_difference": 0.0}
    n_reported = set()

    def nviol(site, what, rep_):
        if site in n_reported:
            return
        n_reported.add(site)
        ck.violation(site, what, rep_, True)
    lastP = None
    for k, (op, a) in enumerate(nreq):
        M = c25num.parse36(nout[k]) if k < len(nout) else None
        if M is None:
            nviol("IsotropicEshelbyTensor.ixx:%s:no-answer" % op, "%s%r: no tensor returned (%s)" % (op, a, nout[k][:120] if k < len(nout) else "missing"),
                  {"request": [op] + list(a), "answer": nout[k][:300] if k < len(nout) else None})
            continue
        n_stats[op] += 1
        if op == "axi":
            nu_, e_ = a
            ref = c25num.eshelby(nu_, (1.0, 1.0, e_) if e_ < 1 else (e_, 1.0, 1.0))
            d = c25num.maxdiff(M, ref)
            n_stats["max_abs_difference"] = max(n_stats["max_abs_difference"], d)
            if not d <= NTOL:
                nviol("IsotropicEshelbyTensor.ixx:computeAxisymmetricalEshelbyTensor:%s" % ("oblate" if e_ < 1 else "prolate"),
                      "computeAxisymmetricalEshelbyTensor(nu=%r, e=%r) differs from the Eshelby tensor of the spheroid (quadrature of the defining integrals) by %.3g" % (nu_, e_, d),
                      {"nu": nu_, "e": e_, "returned": M, "reference": ref, "max_abs_difference": d, "tolerance": NTOL})
        elif op == "ell":
            nu_ = a[0]
            ref = c25num.eshelby(nu_, tuple(sorted(a[1:], reverse=True)))
            d = c25num.maxdiff(M, ref)
            n_stats["max_abs_difference"] = max(n_stats["max_abs_difference"], d)
            if not d <= NTOL:
                nviol("IsotropicEshelbyTensor.ixx:computeEshelbyTensor", "computeEshelbyTensor(nu=%r, a,b,c=%r) differs from the Eshelby tensor of the ellipsoid (frame of decreasing semi-axes) by %.3g" % (nu_, a[1:], d),
                      {"nu": nu_, "semi_axes": a[1:], "returned": M, "reference": ref, "max_abs_difference": d, "tolerance": NTOL})
        elif op == "axiP":
            E_, nu_, nx, ny, nz, e_ = a
            lastP = (a, M)
            S_ = c25num.matmul(M, c25num.iso_stiffness(E_, nu_))
            aligned = {(0.0, 0.0, 1.0): (1.0, 1.0, e_), (1.0, 0.0, 0.0): (e_, 1.0, 1.0), (0.0, 1.0, 0.0): (1.0, e_, 1.0)}.get((nx, ny, nz))
            ref = c25num.eshelby(nu_, aligned if aligned else (1.0, 1.0, e_))
            if aligned:
                d = c25num.maxdiff(S_, ref)
                what = "P0:C0 is not the Eshelby tensor of the spheroid whose axis is the frame axis n_a"
            else:
                d = max(abs(x - y) for x, y in zip(c25num.trace_powers(S_), c25num.trace_powers(ref)))
                what = "P0:C0 does not have the invariants (traces of powers) of the Eshelby tensor of the spheroid"
            n_stats["max_abs_difference"] = max(n_stats["max_abs_difference"], d)
            if not d <= NTOL * 10:
                nviol("IsotropicEshelbyTensor.ixx:computeAxisymmetricalHillPolarisationTensor:%s" % ("aligned" if aligned else "oriented"),
                      "computeAxisymmetricalHillPolarisationTensor(E=%r, nu=%r, n_a=%r, e=%r): %s (difference %.3g)" % (E_, nu_, (nx, ny, nz), e_, what, d),
                      {"young": E_, "nu": nu_, "n_a": [nx, ny, nz], "e": e_, "returned_P0": M, "P0:C0": S_, "reference_S": ref, "difference": d})
        elif op == "axiA":
            E_, nu_, Ei_, nui_, nx, ny, nz, e_ = a
            if lastP is None or lastP[0] != (E_, nu_, nx, ny, nz, e_):
                continue
            C0, Ci = c25num.iso_stiffness(E_, nu_), c25num.iso_stiffness(Ei_, nui_)
            dC = [[Ci[i][j] - C0[i][j] for j in range(6)] for i in range(6)]
            T = c25num.matmul(lastP[1], dC)
            for i in range(6):
                T[i][i] += 1.0
            Id = c25num.matmul(M, T)
            d = max(abs(Id[i][j] - (1.0 if i == j else 0.0)) for i in range(6) for j in range(6))
            n_stats["max_abs_difference"] = max(n_stats["max_abs_difference"], d)
            if not d <= NTOL * 100:
                nviol("LocalisationTensor.ixx:computeAxisymmetricalEllipsoidLocalisationTensor",
                      "computeAxisymmetricalEllipsoidLocalisationTensor(E0=%r, nu0=%r, Ei=%r, nui=%r, n_a=%r, e=%r): A:(I + P0:(Ci-C0)) differs from the identity by %.3g" %
                      (E_, nu_, Ei_, nui_, (nx, ny, nz), e_, d),
                      {"matrix": [E_, nu_], "inclusion": [Ei_, nui_], "n_a": [nx, ny, nz], "e": e_, "returned_A": M, "P0": lastP[1], "A:(I+P0:dC)": Id, "difference": d})
    ck.log("spheroid/ellipsoid tensors: %s" % n_stats)
    stats["numeric_tensor_requests"] = len(nreq)
    stats["numeric_tensor_stats"] = n_stats
    ck.assumptions += [
        "spheroid / ellipsoid Eshelby, Hill polarisation and localisation tensors (acos, acosh, elliptic integrals): run in double by "
        "harness/C25/eshelby.cxx and compared with the Gauss-Legendre quadrature of the defining integrals (checks/c25num.py, tolerance "
        "1e-9 absolute on entries of order one, observed agreement ~1e-13; aspect ratios within 0.2 of 1 are not sampled because the closed "
        "forms cancel there) and with the identities P0:C0 = S, A:(I+P0:(Ci-C0)) = I — numerical evidence, not a Lean proof",
    ]
    ck.assumptions += [
        "T1: g++ instantiating the TFEL templates with verif::Sym performs the same scalar operations as with double; sym.hxx/glue.hxx/emit.py and the shared-chain emitter of checks/C25.py are correct",
        "exact field semantics: rounding, overflow, underflow not modelled",
        "concolic: value-dependent branches (std::min_element/max_element in the Hashin-Shtrikman bounds, LU pivoting, contract checks on f, e>1) are followed for the shadow inputs of each trace; Lean theorems carry the recorded path condition as hypothesis; other paths are covered by re-tracing at seeded random inputs and exact evaluation, not by proof",
        "units with a pivoted 6x6 inversion (Reuss3_n2..5, MTT_sph, MicroMT_n2..4, MicroSC_1pass_n3) are tied by randomised exact identity testing over Q (Schwartz-Zippel), not by a kernel-checked theorem",
        "harness/C25/trace_b.cxx: TracedSphereDistribution reproduces the isotropic branch of SphereDistribution::computeMeanLocalisator (SphereDistribution<Sym> does not instantiate)",
        "anisotropic Eshelby tensors (numerical integration), general ellipsoid (elliptic integrals), spheroid formulas with acos/acosh, orientation averages: not covered",
    ]
    return ck.finish({
        "units_traced": len(units), "units_in_lean": len(lean_units) + len(SHARED),
        "outputs_traced": sum(len(u.outs) for u in units), "dag_nodes": sum(len(u.order) for u in units),
        "evaluations": stats["points"], "distinct_nontrivial": stats["points"],
        "rule": "one evaluation = one traced unit re-traced at a seeded random rational microstructure (positive moduli, fractions summing to one, ties and zero fractions included) and compared exactly over Q with an independent closed-form reference on all its outputs; distinct = points (random rationals); points whose exact branch outcomes differ from the double-precision ones are dropped (off_path)",
        "search_stats": stats,
        "samples": [{"unit": u.name, "inputs": u.inputs[:8], "n_outputs": len(u.outs), "path_conditions": len(u.paths)} for u in units[:6]],
    })
