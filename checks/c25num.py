"""C25 — independent numerical reference for the Eshelby tensor of an ellipsoid in an isotropic matrix.

S is built from the integrals (Mura, Micromechanics of defects in solids, eq. 11.16-11.19)
    I_i  = 2 pi a1 a2 a3 int_0^oo ds / ((a_i^2+s) D(s)),   I_ij = 2 pi a1 a2 a3 int_0^oo ds / ((a_i^2+s)(a_j^2+s) D(s)),
    D(s) = sqrt((a1^2+s)(a2^2+s)(a3^2+s)),
evaluated by Gauss-Legendre quadrature (pure python floats) after s = m (x/(1-x))^2, which makes the integrand
smooth on [0,1]: no closed form, no acos/acosh/elliptic integral is shared with the implementation.
    S_iiii = Q a_i^2 I_ii + R I_i,  S_iijj = Q/3 a_j^2 I_ij - R I_i,  S_ijij = Q/6 (a_i^2+a_j^2) I_ij + R/2 (I_i+I_j),
    Q = 3/(8 pi (1-nu)),  R = (1-2nu)/(8 pi (1-nu));   Mandel storage: shear entries 2 S_ijij at (3,3) (12), (4,4) (13), (5,5) (23).
"""
import math

_GL = {}


def gl(n):
    if n in _GL:
        return _GL[n]
    xs, ws = [], []
    for i in range(1, n + 1):
        x = math.cos(math.pi * (i - 0.25) / (n + 0.5))
        for _ in range(100):
            p0, p1 = 1.0, x
            for k in range(2, n + 1):
                p0, p1 = p1, ((2 * k - 1) * x * p1 - (k - 1) * p0) / k
            dp = n * (x * p1 - p0) / (x * x - 1)
            dx = p1 / dp
            x -= dx
            if abs(dx) < 1e-16:
                break
        p0, p1 = 1.0, x
        for k in range(2, n + 1):
            p0, p1 = p1, ((2 * k - 1) * x * p1 - (k - 1) * p0) / k
        dp = n * (x * p1 - p0) / (x * x - 1)
        xs.append(0.5 * (x + 1))
        ws.append(1.0 / ((1 - x * x) * dp * dp))      # weight on [0,1]: half of 2/((1-x^2) P'^2)
    _GL[n] = (xs, ws)
    return _GL[n]


def integrals(a, n=240):
    a2 = [x * x for x in a]
    m = (a2[0] * a2[1] * a2[2]) ** (1.0 / 3.0)
    xs, ws = gl(n)
    I = [0.0] * 3
    II = [[0.0] * 3 for _ in range(3)]
    pref = 2 * math.pi * a[0] * a[1] * a[2]
    for x, w in zip(xs, ws):
        t = x / (1 - x)
        s = m * t * t
        ds = 2 * m * t / ((1 - x) * (1 - x))
        D = math.sqrt((a2[0] + s) * (a2[1] + s) * (a2[2] + s))
        f = w * ds / D
        for i in range(3):
            I[i] += f / (a2[i] + s)
            for j in range(3):
                II[i][j] += f / ((a2[i] + s) * (a2[j] + s))
    return [pref * v for v in I], [[pref * v for v in r] for r in II]


def eshelby(nu, a):
    """6x6 Mandel matrix of the Eshelby tensor of the ellipsoid of semi-axes a = (a1,a2,a3) along the frame axes"""
    I, II = integrals(a)
    a2 = [x * x for x in a]
    Q = 3 / (8 * math.pi * (1 - nu))
    R = (1 - 2 * nu) / (8 * math.pi * (1 - nu))
    S = [[0.0] * 6 for _ in range(6)]
    for i in range(3):
        for j in range(3):
            S[i][j] = Q * a2[i] * II[i][i] + R * I[i] if i == j else Q / 3 * a2[j] * II[i][j] - R * I[i]
    for k, (i, j) in enumerate(((0, 1), (0, 2), (1, 2))):
        S[3 + k][3 + k] = 2 * (Q / 6 * (a2[i] + a2[j]) * II[i][j] + R / 2 * (I[i] + I[j]))
    return S


def iso_stiffness(E, nu):
    lam = nu * E / ((1 + nu) * (1 - 2 * nu))
    mu = E / (2 * (1 + nu))
    C = [[0.0] * 6 for _ in range(6)]
    for i in range(3):
        for j in range(3):
            C[i][j] = lam + (2 * mu if i == j else 0.0)
    for k in range(3, 6):
        C[k][k] = 2 * mu
    return C


def matmul(A, B):
    return [[sum(A[i][k] * B[k][j] for k in range(6)) for j in range(6)] for i in range(6)]


def trace_powers(A):
    A2 = matmul(A, A)
    A3 = matmul(A2, A)
    return [sum(M[i][i] for i in range(6)) for M in (A, A2, A3)]


def parse36(line):
    f = line.split()
    if len(f) != 36:
        return None
    v = [float.fromhex(x) for x in f]
    return [v[6 * i:6 * i + 6] for i in range(6)]


def maxdiff(A, B):
    return max(abs(A[i][j] - B[i][j]) for i in range(6) for j in range(6))
