"""C39 — generic behaviour entry point honours its calling convention (tie: M, scripted mock).

The real `mfront::gb::integrate<Behaviour>` / `computePredictionOperator` / `getStressMeasure` /
`getTangentOperator` of the current tree are instantiated with a scripted mock behaviour
(harness/C39) and compared, request by request, with the Lean model (lean/TfelVerif/C39/Model.lean)
whose theorems are in lean/TfelVerif/C39/Props.lean. This module also hosts what C40 shares
(request generator, answer parser, variant detection).
"""
import collections
import json
import math
import os
import random
import struct

import vlib
from checks import c39ext

PROPS = ["TfelVerif.C39.Props"]
VARIANTS = [("late", "eff"), ("late", "raw"), ("early", "eff"), ("early", "raw")]
SITE = "mfront/include/MFront/GenericBehaviour/Integrate.hxx"
FIELDS = ["flags", "fs", "smflag", "k0", "rdt0", "pol", "msgbuf", "init", "oob", "cb", "ap", "apF", "integ", "apo",
          "apoF", "minTsf", "gto", "toEmpty", "ie", "de", "sos", "pred"]
DEFAULT = dict(flags=15, fs=0, smflag=0, k0=4.0, rdt0=1.0, pol="N", msgbuf=1, init="o", oob="i", cb="o", ap="o",
               apF=1.0, integ="o", apo="o", apoF=1.0, minTsf=0.1, gto="o", toEmpty=0, ie="o", de="o", sos="o",
               pred="o")
DOUBLES = {"k0", "rdt0", "apF", "apoF", "minTsf"}
ACTS = "oftuL"
RESS = "ofrtuL"
THROWS = "tuL"
# stage -> (script field, event prefix)
STAGES = [("init", "init"), ("cb", "cbdone"), ("ap", "ap("), ("integ", "int("), ("apo", "apo("), ("gto", "gto"),
          ("ie", "ie"), ("de", "de"), ("sos", "sos"), ("pred", "pred(")]


def bits(x):
    return "%016x" % struct.unpack("<Q", struct.pack("<d", x))[0]


def unbits(s):
    return struct.unpack("<d", struct.pack("<Q", int(s, 16)))[0]


def up(x):
    return math.nextafter(x, math.inf)


def down(x):
    return math.nextafter(x, -math.inf)


def mk(**kw):
    d = dict(DEFAULT)
    d.update(kw)
    return d


def line(sc):
    return "int " + " ".join(bits(sc[f]) if f in DOUBLES else str(sc[f]) for f in FIELDS)


def parse(ans):
    """answer line -> dict(ret, rdt, ev(list), wr(set), msg, warn, vals, extra)"""
    r = {"raw": ans, "ok": False}
    f = ans.split()
    kv = {}
    for t in f:
        if "=" in t:
            k, v = t.split("=", 1)
            kv[k] = v
    try:
        r["ret"] = int(kv["ret"])
        r["rdt"] = unbits(kv["rdt"])
        r["ev"] = kv["ev"].split(";")
        r["wr"] = set() if kv["wr"] == "-" else set(kv["wr"].split(","))
        r["msg"] = kv["msg"]
        r["warn"] = int(kv["warn"])
        r["vals"] = kv["vals"]
        r["extra"] = [t for t in f if "=" not in t]
        r["ok"] = True
    except (KeyError, ValueError):
        pass
    return r


# ---------------------------------------------------------------- documented calling convention
SMT_DOC = {-3: "TAN", -2: "SEC", -1: "EL", 0: "NO", 1: "EL", 2: "SEC", 3: "TAN", 4: "CTO"}


def doc_decode(k0):
    """(flag, kind, smt) from the documented table: K[0] = code (+100 to also get the speed of sound),
    code in -3..4 read with a tolerance of one half (the -1/0 frontier is at -0.25, as in every
    version of the interface). smt is None where the documentation is silent (exactly on a frontier,
    NaN): there the code's own comparison chain is what the Lean theorems state."""
    if math.isnan(k0):
        return False, None, None
    flag = k0 > 50
    ke = k0 - 100 if flag else k0
    if ke < -0.25:
        if ke > -1.5:
            return flag, "pred", "EL"
        if -2.5 < ke < -1.5:
            return flag, "pred", "SEC"
        if ke < -2.5:
            return flag, "pred", "TAN"
        return flag, "pred", None
    for lo, hi, smt in ((-0.25, 0.5, "NO"), (0.5, 1.5, "EL"), (1.5, 2.5, "SEC"), (2.5, 3.5, "TAN")):
        if lo <= ke < hi:
            return flag, "int", (None if ke == lo and lo != -0.25 else smt)
    return flag, "int", (None if ke == 3.5 else "CTO")


def scripted_failure(sc, ev):
    """does the script make a method that was *called* (per the trace) fail?"""
    called = {n: any(e.startswith(p) for e in ev) for n, p in STAGES}
    if "cb" in ev and "cbdone" not in ev:
        return "bounds"
    for n, _ in STAGES:
        if not called[n]:
            continue
        a = sc[n]
        if a in THROWS:
            return n
        if a == "f" and n in ("init", "ap", "integ", "apo", "pred"):
            return n
    if "gto" in ev and sc["fs"] and sc["toEmpty"]:
        return "gto-unsupported"
    return None


def c39_predicate(sc, a):
    """the property C39 evaluated on one answer of the implementation; returns None or (key, text)"""
    if not a["ok"] or a["extra"]:
        return ("integrate:malformed-answer", "unparsable answer or escaped exception: %s" % a["raw"][:200])
    ev = a["ev"]
    k0 = sc["k0"]
    flag, kind, smt = doc_decode(k0)
    pol = {"S": "pol=S", "W": "pol=W", "N": "pol=N"}[sc["pol"]]
    if ev[:3] != ["ctor", pol, "init"]:
        return ("integrate:policy-not-passed", "the policy %s is not given to the behaviour before initialize(): %s" % (sc["pol"], ev[:4]))
    if a["ret"] not in (-1, 0, 1):
        return ("integrate:return-value", "return value %d" % a["ret"])
    if a["vals"] != "ok":
        return ("integrate:wrong-values:" + a["vals"].split(";")[0], "values exported differ from the behaviour's: " + a["vals"])
    calls = [e for e in ev if e.startswith("pred(") or e.startswith("int(")]
    for e in calls:
        got_kind = "pred" if e.startswith("pred(") else "int"
        f, got_smt = e[e.index("(") + 1:-1].split(",")
        if int(f) != sc["smflag"]:
            return ("integrate:smflag", "operator flag %s instead of %d" % (f, sc["smflag"]))
        if kind is not None and got_kind != kind:
            return ("integrate:K0-decoding:kind", "K[0]=%r: %s performed, %s documented" % (k0, got_kind, kind))
        if smt is not None and got_smt != smt:
            where = "computePredictionOperator" if got_kind == "pred" else "integrate"
            cls = "speed-of-sound-flag" if flag else "plain"
            return ("%s:K0-decoding:%s" % (where, cls),
                    "K[0]=%r (%s request, %s): operator kind %s passed to the behaviour, %s documented" %
                    (k0, "prediction" if got_kind == "pred" else "integration",
                     "with the +100 speed-of-sound flag" if flag else "no flag", got_smt, smt))
    # Strict fails when a variable is out of its bounds
    if sc["oob"] != "i" and sc["pol"] == "S" and a["ret"] != -1:
        return ("integrate:policy:strict", "Strict policy, variable out of bounds, return value %d" % a["ret"])
    if sc["init"] == "o" and "cb" not in ev:
        return ("integrate:policy:bounds-not-checked", "initialize() succeeded but checkBounds() was not called (policy %s)" % sc["pol"])
    if sc["oob"] != "i" and sc["pol"] != "S" and "cb" in ev and "cbdone" not in ev:
        return ("integrate:policy:" + sc["pol"], "policy %s raised on an out of bounds variable" % sc["pol"])
    fail = scripted_failure(sc, ev)
    if fail is not None and a["ret"] != -1:
        return ("integrate:return-value:failure-ignored:" + fail, "step %s failed but %d is returned" % (fail, a["ret"]))
    if fail is None and a["ret"] == -1:
        # legitimate: the behaviour lacks the requested operator
        has_pred, has_cto = sc["flags"] & 1, sc["flags"] & 2
        lacking = (kind == "pred" and not has_pred) or (kind == "int" and not has_cto and smt != "NO") or \
                  (kind is None) or (smt is None)
        if not lacking:
            return ("integrate:return-value:spurious-failure", "-1 returned although every step succeeded")
    if a["ret"] != -1:
        if not calls:
            return ("integrate:no-computation", "success returned but neither integrate nor computePredictionOperator was called")
        if calls[-1].startswith("int("):
            want = 0 if a["rdt"] < 0.99 else 1
            if a["ret"] != want:
                return ("integrate:return-value:rdt", "rdt=%r but %d is returned" % (a["rdt"], a["ret"]))
            exp_rdt = sc["apoF"] if sc["apF"] > sc["apoF"] else sc["apF"]
            if bits(a["rdt"]) != bits(exp_rdt):
                return ("integrate:rdt", "rdt=%r, expected min-like combination %r of the two scaling factors" % (a["rdt"], exp_rdt))
        elif a["ret"] != 1:
            return ("computePredictionOperator:return-value", "prediction succeeded but %d is returned" % a["ret"])
        # speed of sound computed iff requested
        if ("sos" in a["wr"]) != flag:
            return ("integrate:speed-of-sound", "K[0]=%r: speed of sound %s" % (k0, "not computed" if flag else "computed without the flag"))
        if flag:
            want_ev = "sos0" if calls[-1].startswith("pred(") else "sos1"
            if want_ev not in ev:
                return ("integrate:speed-of-sound:density", "speed of sound computed with the wrong mass density: %s expected" % want_ev)
        # the operator is exported iff one was requested
        if calls[-1].startswith("pred(") and "Kpred" not in a["wr"]:
            return ("computePredictionOperator:export", "prediction operator not exported")
        if calls[-1].startswith("int(") and smt is not None:
            if (smt != "NO") != ("K" in a["wr"]):
                return ("integrate:tangent-operator-export", "operator kind %s: K %s" % (smt, "not exported" if smt != "NO" else "overwritten"))
    elif any(e.startswith("sos") for e in ev) and not flag:
        return ("integrate:speed-of-sound", "K[0]=%r: speed of sound computed without the flag" % k0)
    return None


# ---------------------------------------------------------------- request generation
def k0_values():
    vals = []
    for c in range(-3, 5):
        vals += [float(c), c + 100.0]
    for fr in (-2.5, -1.5, -0.25, 0.5, 1.5, 2.5, 3.5):
        for base in (fr, fr + 100.0):
            vals += [base, up(base), down(base)]
    vals += [50.0, up(50.0), down(50.0), 49.0, 51.0, 75.0, 99.75 - 25, 200.0, 250.0, -50.0, -100.0, 1e300, -1e300,
             math.inf, -math.inf, math.nan, 0.25, -0.2, -0.3, 0.49, 3.99, 104.49, 96.0, 105.0]
    return vals


def factor_values():
    return [1.0, 0.99, up(0.99), down(0.99), 0.98, 0.5, 0.1, 2.0, 10.0, 0.0, -1.0, math.inf, math.nan]


def corpus():
    """hand-picked histories: documented codes, the replayed defects, one failure per stage"""
    reqs = []
    for k0 in (-3., -2., -1., 0., 1., 2., 3., 4., 97., 98., 99., 100., 101., 102., 103., 104.):
        reqs.append(mk(k0=k0))
    for st in ("ie", "de", "sos", "gto"):
        reqs.append(mk(k0=104.0, **{st: "t"}))
    reqs.append(mk(fs=1, toEmpty=1))
    reqs.append(mk(k0=98.0, fs=1, toEmpty=1))
    reqs.append(mk(pol="S", oob="b"))
    reqs.append(mk(pol="W", oob="l"))
    reqs.append(mk(pol="N", oob="h"))
    reqs.append(mk(init="L"))
    reqs.append(mk(init="t", msgbuf=0))
    reqs.append(mk(apF=0.98))
    reqs.append(mk(apF=1.0, apoF=down(0.99)))
    reqs.append(mk(integ="f", minTsf=0.25))
    return reqs


def systematic(quick):
    reqs = []
    k0s = k0_values()
    # every K[0] class x every traits combination x both operator types, all steps succeeding
    for k0 in k0s:
        for flags in range(16):
            for fs in (0, 1):
                reqs.append(mk(k0=k0, flags=flags, fs=fs, smflag=(3 if fs else 0)))
    # every single scripted fault x traits x operator type x representative K[0]
    rep = [0.0, 1.0, 4.0, -1.0, -2.0, 100.0, 104.0, 98.0, 97.0, 3.5, 50.0]
    faults = []
    for n, _ in STAGES:
        for a in (RESS if n in ("integ", "pred") else ACTS)[1:]:
            faults.append({n: a})
    faults.append({"toEmpty": 1})
    for fl in faults:
        for k0 in rep:
            for flags in (range(16) if not quick else (0, 3, 5, 6, 10, 15)):
                for fs in (0, 1):
                    reqs.append(mk(k0=k0, flags=flags, fs=fs, **fl))
    # bounds x policies (triples S/W/N on the same script)
    for oob in "ilhb":
        for cb in "ot":
            for k0 in (4.0, -1.0, 104.0):
                for pol in "SWN":
                    reqs.append(mk(k0=k0, oob=oob, cb=cb, pol=pol))
    # time step scaling factors
    fv = factor_values()
    for apF in fv:
        for apoF in fv:
            for (ap, apo) in (("o", "o"), ("f", "o"), ("o", "f")):
                reqs.append(mk(apF=apF, apoF=apoF, ap=ap, apo=apo, rdt0=0.75, k0=2.0))
    return reqs


def rand_requests(rng, n):
    reqs = []
    k0s = k0_values()
    fv = factor_values()
    for _ in range(n):
        sc = mk()
        sc["flags"] = rng.randrange(16)
        sc["fs"] = rng.randrange(2)
        sc["smflag"] = rng.randrange(0, 9) if sc["fs"] else 0
        c = rng.random()
        if c < 0.5:
            sc["k0"] = rng.choice(k0s)
        elif c < 0.75:
            sc["k0"] = rng.uniform(-4, 5) + (100 if rng.random() < 0.5 else 0)
        else:
            sc["k0"] = rng.choice([-3, -2, -1, 0, 1, 2, 3, 4]) + (100 if rng.random() < 0.5 else 0) + rng.uniform(-0.5, 0.5)
        sc["rdt0"] = rng.choice(fv)
        sc["pol"] = rng.choice("SWN")
        sc["msgbuf"] = 0 if rng.random() < 0.1 else 1
        sc["oob"] = rng.choice("iiilhb")
        sc["apF"] = rng.choice(fv) if rng.random() < 0.7 else rng.uniform(0, 2)
        sc["apoF"] = rng.choice(fv) if rng.random() < 0.7 else rng.uniform(0, 2)
        sc["minTsf"] = rng.choice([0.1, 0.25, 0.5, math.nan, 1.0])
        sc["toEmpty"] = 1 if rng.random() < 0.15 else 0
        # 0, 1 or 2 faults, biased to the late stages
        nf = rng.choice([0, 1, 1, 1, 2])
        for _ in range(nf):
            n = rng.choice(["init", "cb", "ap", "integ", "apo", "gto", "gto", "ie", "ie", "de", "de", "sos", "sos", "pred"])
            sc[n] = rng.choice((RESS if n in ("integ", "pred") else ACTS)[1:])
        reqs.append(sc)
    return reqs


def helper_requests(rng, n):
    """getStressMeasure / getTangentOperator requests"""
    pts = []
    for fr in (-0.5, 0.5, 1.5, 2.5, 3.5):
        pts += [fr, up(fr), down(fr)]
    pts += [0.0, 1.0, 2.0, 3.0, 4.0, -1.0, math.nan, math.inf, -math.inf, 100.0]
    lines = ["sm " + bits(x) for x in pts]
    for a in pts:
        for b in pts:
            lines.append("to %s %s" % (bits(a), bits(b)))
    for _ in range(n):
        lines.append("sm " + bits(rng.uniform(-1, 4)))
        lines.append("to %s %s" % (bits(rng.uniform(-4, 5)), bits(rng.uniform(-1, 5))))
    return lines


def helper_predicate(req, ans):
    """documented table of K[1] / K[2] (docs/web/release-notes-3.3.md, ticket #172), frontiers excluded"""
    f = req.split()
    if f[0] == "sm":
        x = unbits(f[1])
        if math.isnan(x) or x in (0.5, 1.5, 2.5):
            return None
        want = "CAUCHY" if x < 0.5 else ("PK2" if x < 1.5 else ("PK1" if x < 2.5 else "INVALID"))
        return None if ans == "sm=" + want else ("getStressMeasure:K1-decoding", "K[1]=%r: %s, documented %s" % (x, ans, want))
    k0, x = unbits(f[1]), unbits(f[2])
    if math.isnan(x) or math.isnan(k0) or x in (0.5, 1.5, 2.5, 3.5) or abs(k0) == 0.5:
        return None
    if -0.5 < k0 < 0.5:
        return None  # no stiffness requested: the returned value is meaningless
    want = "DSIG_DF" if x < 0.5 else ("DS_DEGL" if x < 1.5 else ("DPK1_DF" if x < 2.5 else ("DTAU_DDF" if x < 3.5 else "C_TRUESDELL")))
    return None if ans == "to=" + want else ("getTangentOperator:K2-decoding", "K[2]=%r: %s, documented %s" % (x, ans, want))


# ---------------------------------------------------------------- the generated wrapper (T2-style shape tie)
def cxx_shape(region):
    """(string literals, code skeleton) of a C++ region, comments and white space removed"""
    lits, sk, i, n = [], [], 0, len(region)
    while i < n:
        c = region[i]
        if region.startswith("//", i):
            while i < n and region[i] != "\n":
                i += 1
            continue
        if region.startswith("/*", i):
            i = region.index("*/", i) + 2
            continue
        if c == '"':
            j = i + 1
            while region[j] != '"':
                j += 2 if region[j] == "\\" else 1
            lits.append(region[i + 1:j])
            sk.append("S")
            i = j + 1
            continue
        if not c.isspace():
            sk.append(c)
        i += 1
    return lits, "".join(sk)


def wrapper_shape():
    """what GenericBehaviourInterface.cxx emits around mfront::gb::integrate, and the policy getter/setter of
    BehaviourInterfaceBase.cxx: `int f(mfront_gb_BehaviourData* d){ ...; const auto r = mfront::gb::integrate<Behaviour>(*d,
    Behaviour::STANDARDTANGENTOPERATOR, <name>_getOutOfBoundsPolicy()); return r; }`, 0/1/2 -> None/Warning/Strict"""
    src = open(os.path.join(vlib.REPO, "mfront/src/GenericBehaviourInterface.cxx")).read()
    a = src.index('<< "(mfront_gb_BehaviourData* const d){\\n"')
    b = src.index("// postprocessings", a)
    l, s = cxx_shape(src[a:b])
    src2 = open(os.path.join(vlib.REPO, "mfront/src/BehaviourInterfaceBase.cxx")).read()
    a = src2.index("void BehaviourInterfaceBase::writeGetOutOfBoundsPolicyFunctionImplementation(")
    b = src2.index("void BehaviourInterfaceBase::writeSetParametersFunctionsDeclarations(")
    l2, s2 = cxx_shape(src2[a:b])
    # the entry points generated for the @InitializeFunction / @PostProcessing blocks (executeInitializeFunction,
    # executePostProcessing of Integrate.hxx): same policy getter, `return r`
    a = src.index("// initialize functions")
    b = src.index("// behaviour integration", a)
    l3, s3 = cxx_shape(src[a:b])
    a = src.index("// postprocessings", src.index('<< "(mfront_gb_BehaviourData* const d){\\n"'))
    b = src.index("}  // end of endTreatment", a)
    l4, s4 = cxx_shape(src[a:b])
    return {"wrapper": {"literals": l, "skeleton": s}, "policy": {"literals": l2, "skeleton": s2},
            "initfn": {"literals": l3, "skeleton": s3}, "postproc": {"literals": l4, "skeleton": s4}}


def check_wrapper(ck):
    """the emitted wrapper is not executed here; its emitter must still be the one that was read"""
    golden = json.load(open(os.path.join(vlib.VERIF, "corpus", "C39", "wrapper_shape.json")))
    try:
        cur = wrapper_shape()
    except (ValueError, OSError, IndexError) as e:
        ck.violation("tie:wrapper-emitter", "the emitter of the generic wrapper could not be located in mfront/src: %r" % e,
                     {"error": repr(e)}, False)
        return False
    ok = True
    for part, where in (("wrapper", "mfront/src/GenericBehaviourInterface.cxx (behaviour integration function)"),
                        ("policy", "mfront/src/BehaviourInterfaceBase.cxx (get/setOutOfBoundsPolicy)"),
                        ("initfn", "mfront/src/GenericBehaviourInterface.cxx (initialize functions entry points)"),
                        ("postproc", "mfront/src/GenericBehaviourInterface.cxx (post-processings entry points)")):
        if cur[part] != golden[part]:
            ok = False
            gl, cl = golden[part]["literals"], cur[part]["literals"]
            diff = [(i, gl[i] if i < len(gl) else None, cl[i] if i < len(cl) else None)
                    for i in range(max(len(gl), len(cl))) if (gl[i] if i < len(gl) else None) != (cl[i] if i < len(cl) else None)][:5]
            ck.violation("tie:wrapper-emitter:" + part,
                         "%s: the code emitted around mfront::gb::integrate changed; the calling convention proved for Integrate.hxx is no longer known to reach the caller unchanged" % where,
                         {"where": where, "first_differing_literals(index, read, current)": diff,
                          "skeleton_changed": cur[part]["skeleton"] != golden[part]["skeleton"]}, False)
    return ok


# ---------------------------------------------------------------- end-to-end on a generated behaviour (thorough tier)
E2E_TAGS = {("pred", "EL"): "11", ("pred", "SEC"): "12", ("pred", "TAN"): "13",
            ("int", "NO"): "-", ("int", "EL"): "1", ("int", "SEC"): "2", ("int", "TAN"): "3", ("int", "CTO"): "4"}


def e2e_factors():
    # the generated behaviour clamps the user's factors to [minimal_time_step_scaling_factor = 0.1, max] and to the
    # current one (1 on entry): only values in that range are used, so that rdt = min(1, a priori, a posteriori)
    return [0.1, 0.5, 0.98, down(0.99), 0.99, up(0.99), 1.0, 2.0]


def e2e_requests(rng, n):
    reqs = []
    for k0 in k0_values():
        for pol in (0, 1, 2):
            reqs.append(dict(k0=k0, pol=pol, T=300.0, ap=1.0, apo=0.5, fail=0))
    for k0 in (-2.0, 0.0, 4.0, 98.0, 104.0):
        for pol in (0, 1, 2):
            for T in (50.0, 100.0, 500.0, 600.0):
                reqs.append(dict(k0=k0, pol=pol, T=T, ap=1.0, apo=1.0, fail=0))
        for fail in (1, 2, 3):
            reqs.append(dict(k0=k0, pol=0, T=300.0, ap=1.0, apo=1.0, fail=fail))
        for ap in e2e_factors():
            for apo in e2e_factors():
                reqs.append(dict(k0=k0, pol=0, T=300.0, ap=ap, apo=apo, fail=0))
    for _ in range(n):
        reqs.append(dict(k0=rng.choice(k0_values()) if rng.random() < 0.6 else rng.uniform(-4, 5) + rng.choice([0, 100]),
                         pol=rng.randrange(3), T=rng.choice([50.0, 300.0, 300.0, 300.0, 600.0]),
                         ap=rng.choice(e2e_factors()), apo=rng.choice(e2e_factors()),
                         fail=rng.choice([0, 0, 0, 1, 2, 3])))
    return reqs


def e2e_line(r):
    return "e2e %s %d %s %s %s %d" % (bits(r["k0"]), r["pol"], bits(r["T"]), bits(r["ap"]), bits(r["apo"]), r["fail"])


def e2e_judge(r, ans):
    """the properties C39 / C40 on one answer of the generated behaviour: list of (property, key, text)"""
    kv = {}
    f = ans.split()
    for t in f:
        if "=" in t:
            k, v = t.split("=", 1)
            kv[k] = v
    try:
        ret = int(kv["ret"])
        rdt = unbits(kv["rdt"])
        wr = set() if kv["wr"] == "-" else set(kv["wr"].split(","))
        ktag, vals, warn = kv["ktag"], kv["vals"], int(kv["warn"])
    except (KeyError, ValueError):
        return [("C39", "e2e:malformed-answer", "unparsable answer %r" % ans[:200])]
    out = []
    flag, kind, smt = doc_decode(r["k0"])
    oob = not (100.0 <= r["T"] <= 500.0)
    if ret == -1 and wr & {"tf", "isv", "se", "de"}:
        stage = {2: "ie", 3: "sos"}.get(r["fail"])
        out.append(("C40", "integrate:throw-after-export:%s" % stage if stage else "integrate:s1-written-on-failure:e2e",
                    "generated behaviour: -1 returned with s1.{%s} overwritten (fail mode %d)" % (",".join(sorted(wr & {"tf", "isv", "se", "de"})), r["fail"])))
    if vals != "ok":
        out.append(("C39", "e2e:wrong-values:" + vals.split(";")[0], "exported values differ from the behaviour's: " + vals))
    if kind is None or smt is None:
        return out
    if oob and r["pol"] == 2:
        if ret != -1:
            out.append(("C39", "integrate:policy:strict", "generated behaviour: Strict, T=%r out of [100:500], %d returned" % (r["T"], ret)))
        return out
    if (warn > 0) != (oob and r["pol"] == 1):
        out.append(("C39", "integrate:policy:warning", "generated behaviour: policy %d, T=%r: %d warnings" % (r["pol"], r["T"], warn)))
    # failure injected in the generated code
    fails = (kind == "int" and r["fail"] in (1, 2)) or (r["fail"] == 3 and flag)
    if fails:
        if ret != -1:
            out.append(("C39", "integrate:return-value:failure-ignored:e2e", "generated behaviour: fail mode %d but %d returned" % (r["fail"], ret)))
        return out
    if ret == -1:
        out.append(("C39", "integrate:return-value:spurious-failure", "generated behaviour: -1 returned, nothing failed"))
        return out
    want_tag = E2E_TAGS[(kind, smt)]
    got_tag = ktag
    if got_tag != want_tag:
        where = "computePredictionOperator" if kind == "pred" else "integrate"
        out.append(("C39", "%s:K0-decoding:%s" % (where, "speed-of-sound-flag" if flag else "plain"),
                    "generated behaviour, K[0]=%r: operator tag %s returned in K, %s expected (%s %s)" % (r["k0"], got_tag, want_tag, kind, smt)))
    if ("sos" in wr) != flag:
        out.append(("C39", "integrate:speed-of-sound", "generated behaviour, K[0]=%r: speed of sound %s" % (r["k0"], "missing" if flag else "computed without the flag")))
    if flag and kv.get("sosrho") != ("0" if kind == "pred" else "1"):
        out.append(("C39", "integrate:speed-of-sound:density", "generated behaviour: wrong mass density used for the speed of sound"))
    if kind == "pred":
        if ret != 1:
            out.append(("C39", "computePredictionOperator:return-value", "generated behaviour: prediction returned %d" % ret))
        if wr & {"tf", "isv", "se", "de"}:
            out.append(("C39", "computePredictionOperator:state-written", "generated behaviour: a prediction request modified s1"))
    else:
        exp_rdt = min(1.0, r["ap"], r["apo"])
        if bits(rdt) != bits(exp_rdt):
            out.append(("C39", "integrate:rdt", "generated behaviour: rdt=%r, expected %r" % (rdt, exp_rdt)))
        if ret != (0 if rdt < 0.99 else 1):
            out.append(("C39", "integrate:return-value:rdt", "generated behaviour: rdt=%r but %d returned" % (rdt, ret)))
        if not {"tf", "isv", "se", "de"} <= wr:
            out.append(("C39", "integrate:state-not-exported", "generated behaviour: success but s1 buffers %s not written" % sorted({"tf", "isv", "se", "de"} - wr)))
    return out


def run_e2e(ck, rng, n=2000):
    """generate harness/C39/VerifE2E.mfront with the mfront of the current tree, compile the emitted code and
    call the emitted entry point. Returns (requests, answers) or None when the tree has no build directory."""
    if not os.path.isdir(vlib.BUILD):
        ck.notes.append("end-to-end run on a generated behaviour skipped: %s has no build tree" % vlib.REPO)
        return None
    # the build tree is shared: wait at most 10 minutes for it (thorough budget), never forever
    import fcntl
    import time
    lock = open(os.path.join(vlib.VERIF, "work", ".ninja.lock"), "w")
    t0 = time.time()
    free = False
    while time.time() - t0 < 600:
        try:
            fcntl.flock(lock, fcntl.LOCK_EX | fcntl.LOCK_NB)
            fcntl.flock(lock, fcntl.LOCK_UN)
            free = True
            break
        except OSError:
            time.sleep(5)
    lock.close()
    if not free:
        ck.notes.append("end-to-end run on a generated behaviour skipped: the build tree stayed locked by another build for 10 minutes")
        return None
    ck.ensure_targets("mfront", "TFELMaterial", "TFELMath", "TFELUtilities", "TFELException", "TFELNUMODIS")
    libdirs = set()
    exe = None
    for root, _, files in os.walk(vlib.BUILD):
        for f in files:
            if f.endswith(".so"):
                libdirs.add(root)
            if f == "mfront" and root.endswith(os.path.join("mfront", "src")):
                exe = os.path.join(root, f)
    if exe is None:
        raise vlib.BuildError("mfront executable not found in the build tree", "")
    gen = ck.path("e2e")
    os.makedirs(gen, exist_ok=True)
    p = ck.run([exe, "--interface=generic", os.path.join(vlib.VERIF, "harness", "C39", "VerifE2E.mfront")], cwd=gen,
               env={"LD_LIBRARY_PATH": ":".join(sorted(libdirs))}, timeout=600)
    if p.returncode != 0 or not os.path.exists(os.path.join(gen, "src", "VerifE2E-generic.cxx")):
        raise vlib.BuildError("mfront --interface=generic failed on harness/C39/VerifE2E.mfront", p.stdout[-2000:] + p.stderr[-3000:])
    binary = ck.cxx("c39e2e", [os.path.join(gen, "src", "VerifE2E.cxx"), os.path.join(gen, "src", "VerifE2E-generic.cxx"), "C39/e2e.cxx"],
                    includes=[os.path.join(gen, "include"), vlib.REPO + "/mfront/include"], flags=["-Wno-attributes"],
                    libs=ck.libflags("TFELMaterial", "TFELMath", "TFELUtilities", "TFELException", "TFELNUMODIS"))
    reqs = e2e_requests(rng, n)
    q = ck.run([binary], input="".join(e2e_line(r) + "\n" for r in reqs), timeout=900)
    if q.returncode != 0:
        ck.violation("e2e-crash", "the generated behaviour driver aborted", {"stderr": q.stderr[-2000:]}, False)
    return reqs, q.stdout.splitlines()


def report_e2e(ck, prop, e2e, reported):
    """violations of property `prop` seen on the generated behaviour; returns (evaluations, failures)"""
    if e2e is None:
        return 0, 0
    reqs, answers = e2e
    failing = 0
    for i, r in enumerate(reqs):
        a = answers[i] if i < len(answers) else "missing"
        for (pr, key, what) in e2e_judge(r, a):
            if pr != prop:
                continue
            failing += 1
            if key in reported:
                continue
            reported.add(key)
            ck.violation(key, "%s: %s" % (SITE, what),
                         {"site": SITE, "generated_from": "harness/C39/VerifE2E.mfront (mfront --interface=generic of the current tree)",
                          "request": e2e_line(r), "inputs": r, "answer": a}, True)
    return len(reqs), failing


# ---------------------------------------------------------------- machinery shared with C40
HARNESS_SOURCES = [vlib.REPO + "/src/Material/BoundsCheck.cxx", vlib.REPO + "/src/Material/MaterialException.cxx",
                   vlib.REPO + "/src/Exception/TFELException.cxx", vlib.REPO + "/src/Utilities/GenTypeCastError.cxx"]
# sanitizers without -g: debug info of the 32 instantiations quadruples the compile time
HARNESS_FLAGS = ["-fsanitize=address,undefined", "-fno-sanitize-recover=all", "-Wno-attributes"]


def build_harness(ck):
    """the 2 x 16 instantiations of integrate<Mock> and the main program are three objects built in parallel"""
    from concurrent.futures import ThreadPoolExecutor
    inc = [vlib.REPO + "/mfront/include"]
    with ThreadPoolExecutor(max_workers=4) as ex:
        futs = [ex.submit(ck.cxx, "c39h_part%d.o" % k, ["C39/harness.cxx"], includes=inc,
                          flags=HARNESS_FLAGS + ["-c", "-DC39_PART=%d" % k]) for k in (0, 1)]
        futs.append(ex.submit(ck.cxx, "c39h_main.o", ["C39/harness.cxx"], includes=inc, flags=HARNESS_FLAGS + ["-c"]))
        # second harness (exportTangentOperator overloads, executeInitializeFunction, executePostProcessing): checks/c39ext.py
        f2 = ex.submit(c39ext.build, ck)
        objs = [f.result() for f in futs]
        ck.c39h2 = f2.result()
    return ck.cxx("c39h", objs + HARNESS_SOURCES, includes=inc, flags=HARNESS_FLAGS)


def build(ck, props):
    """harness (current tree) compiled while lake builds the driver and re-checks the theorems"""
    from concurrent.futures import ThreadPoolExecutor
    with ThreadPoolExecutor(max_workers=1) as ex:
        fut = ex.submit(build_harness, ck)
        driver = ck.lean_exe("c39driver", "TfelVerif/C39/Driver.lean")
        res = ck.lean(props, props)
        harness = fut.result()
    return harness, driver, res


def all_requests(ck):
    rng = random.Random(ck.seed)
    reqs = corpus() + systematic(ck.quick) + rand_requests(rng, 12000 if ck.quick else 400000)
    return reqs, rng


def run_both(ck, harness, driver, text):
    """returns (impl answers, {variant: model answers}) ; a crash of the harness is a violation"""
    from concurrent.futures import ThreadPoolExecutor
    with ThreadPoolExecutor(max_workers=5) as ex:
        fi = ex.submit(ck.run, [harness], input=text, timeout=1800)
        fm = {v: ex.submit(ck.run, [driver, v[0], v[1]], input=text, timeout=1800) for v in VARIANTS}
        pi = fi.result()
        models = {v: fm[v].result().stdout.splitlines() for v in VARIANTS}
    if pi.returncode != 0:
        ck.violation("harness-crash", "the implementation harness aborted (sanitizer report or crash)",
                     {"stderr": pi.stderr[-3000:], "answers_before_crash": len(pi.stdout.splitlines())}, False)
    return pi.stdout.splitlines(), models


def detect_variant(impl, models, n):
    """the model variant the current tree implements: fewest differing answers (0 when the tie holds)"""
    best = None
    for v in VARIANTS:
        m = models[v]
        diff = sum(1 for i in range(n) if (impl[i] if i < len(impl) else "missing") != (m[i] if i < len(m) else "missing"))
        if best is None or diff < best[1]:
            best = (v, diff)
    return best


def ev_class(sc, a):
    """class of a history for the evidence: the sequence of method names called + return value + writes"""
    if not a["ok"]:
        return ("unparsed",)
    names = tuple(e.split("(")[0] + (e[e.index(",") + 1:-1] if "," in e else "") for e in a["ev"])
    return names + (a["ret"], tuple(sorted(a["wr"])), a["msg"])


def run(ck):
    harness, driver, res = build(ck, PROPS)
    ck.lean_violations(res)
    wrapper_ok = check_wrapper(ck)
    reqs, rng = all_requests(ck)
    hreqs = helper_requests(rng, 500 if ck.quick else 20000)
    text = "".join(line(sc) + "\n" for sc in reqs) + "".join(h + "\n" for h in hreqs)
    impl, models = run_both(ck, harness, driver, text)
    n = len(reqs) + len(hreqs)
    variant, ndiff = detect_variant(impl, models, n)
    model = models[variant]
    ck.log("requests: %d integrate + %d helper; tree matches model variant %s with %d differing answers" %
           (len(reqs), len(hreqs), variant, ndiff))
    reported = set()
    corr = []
    classes = set()
    hist = collections.Counter()
    kinds = collections.Counter()
    failing = 0

    def report(key, what, rep, found):
        if key in reported:
            return
        reported.add(key)
        ck.violation(key, what, rep, found)

    for i, sc in enumerate(reqs):
        a_raw = impl[i] if i < len(impl) else "missing"
        m_raw = model[i] if i < len(model) else "missing"
        a = parse(a_raw)
        classes.add(ev_class(sc, a))
        if a["ok"]:
            hist["ret=%d" % a["ret"]] += 1
            kinds[a["msg"] if a["ret"] == -1 else "success"] += 1
        bad = c39_predicate(sc, a)
        if bad is not None:
            failing += 1
            key, what = bad
            report(key, "%s: %s" % (SITE, what),
                   {"site": SITE, "request": line(sc), "script": sc, "implementation": a_raw,
                    "model_variant": "%s/%s" % variant, "model": m_raw,
                    "documented": dict(zip(("speed_of_sound", "kind", "operator"), doc_decode(sc["k0"]))),
                    "how_to_replay": "echo '<request>' | work/C39/c39h   (harness/C39/harness.cxx, built from the current tree)"},
                   True)
        elif a_raw != m_raw:
            corr.append({"request": line(sc), "implementation": a_raw, "model": m_raw})
    for j, h in enumerate(hreqs):
        i = len(reqs) + j
        a_raw = impl[i] if i < len(impl) else "missing"
        m_raw = model[i] if i < len(model) else "missing"
        bad = helper_predicate(h, a_raw)
        if bad is not None:
            failing += 1
            report(bad[0], "%s: %s" % (SITE, bad[1]), {"request": h, "implementation": a_raw, "model": m_raw}, True)
        elif a_raw != m_raw:
            corr.append({"request": h, "implementation": a_raw, "model": m_raw})
    if corr:
        # one line for the broken tie, whatever the number of differing answers
        report("corr:integrate", "correspondence Model.lean (variant %s/%s) vs %s broken on %d answers on which the C39 predicate is still satisfied"
               % (variant[0], variant[1], SITE, len(corr)), {"differing_answers": len(corr), "examples": corr[:5]}, False)
    h2_n, h2_fail, h2_hist = c39ext.run(ck, ck.c39h2, "C39", reported)
    failing += h2_fail
    e2e_n, e2e_fail = 0, 0
    if not ck.quick:
        e2e = run_e2e(ck, rng)
        e2e_n, e2e_fail = report_e2e(ck, "C39", e2e, reported)
        bad_check = ck.leanchecker(PROPS)
        for (m, msg) in bad_check:
            ck.violation("leanchecker:" + m, "leanchecker rejects %s" % m, {"log": msg}, False)
    ck.assumptions += [
        "M: Model.lean is tied to Integrate.hxx by differential execution of the real templates instantiated with a scripted mock behaviour (harness/C39/mock.hxx): identical event trace, return value, rdt bits, written buffers, error message on every request",
        "exportTangentOperator (every overload, every alternative of the finite strain GenType, 1D/2D/3D), executeInitializeFunction and executePostProcessing are not part of Model.lean: they are run exhaustively over their scripts (harness/C39/harness2.cxx) against the reference written in checks/c39ext.py, and the property's predicates (policy handed over before initialize(), -1 iff a step failed, K buffer = the behaviour's operator, caller's pointers restored) are evaluated on every answer",
        "the mock stands for every generated behaviour: Integrate.hxx only sees a behaviour through the methods and traits the mock scripts; the code generated around it by GenericBehaviourInterface.cxx (wrapper passing d, STANDARDTANGENTOPERATOR and <name>_getOutOfBoundsPolicy(), returning r unchanged; setOutOfBoundsPolicy 0/1/2 -> None/Warning/Strict) is not executed here: its emitter is compared, literal by literal and by code skeleton, with the one that was read (corpus/C39/wrapper_shape.json)",
        "K[0] arithmetic is modelled over an ordered field: `K[0] - 100` is exact in double for 50 < K[0] <= 200 (Sterbenz) and cannot cross a frontier above; NaN/inf requests are covered by the correspondence only",
        "documented table: docs/web/generic-behaviours-interface.md has no K[0] table in this tree; the table used is the one of the property statement (codes -3..4, +100 speed-of-sound flag) and of docs/web/release-notes-3.3.md for K[1], K[2]",
    ]
    samples = [{"request": line(reqs[i]), "implementation": impl[i] if i < len(impl) else "?"} for i in (0, 9, 16, 20, len(reqs) - 1)]
    return ck.finish({
        "evaluations": n, "distinct_nontrivial": len(classes),
        "rule": "requests = corpus + systematic (every K[0] class incl. frontiers +-1ulp x 16 trait sets x 2 operator types; every single scripted fault x traits x K[0]; bounds x policies; scaling factor grid) + seeded random scripts with 0-2 faults; distinct = (sequence of behaviour methods called with operator kind, return value, buffers written, message) classes observed on the implementation; every class is non-trivial (a different path through Integrate.hxx)",
        "exhaustive": False, "model_variant_matched": "%s/%s" % variant, "differing_answers": ndiff,
        "property_failures_on_implementation": failing, "wrapper_emitter_unchanged": wrapper_ok,
        "return_value_histogram": dict(hist), "failure_kind_histogram": dict(kinds),
        "traces_validated_against_impl": n, "samples": samples,
        "generated_behaviour_calls": e2e_n, "generated_behaviour_property_failures": e2e_fail,
        "second_harness_requests": h2_n, "second_harness_request_kinds": h2_hist,
    })
