"""C55 — Strain-measure finite-strain strategies are hyperelastically consistent.

Tie: T1. The generic-interface glue (MFront/GenericBehaviour/{Integrate,GreenLagrangeStrainIntegrate,
LogarithmicStrainIntegrate}.hxx, BehaviourData.h, State.h) is instantiated with mfront_gb_real = verif::Sym
(only the two typedefs of Types.h are supplied by the tracer) on a mock small-strain isotropic linear
elastic behaviour; K[0..2] are constants, so the shipped getStressMeasure/getTangentOperator decide.
Every (strategy, hypothesis, stress measure, tangent flavour) combination is a traced unit (120): hypotheses
Tridimensional, PlaneStrain, AxisymmetricalGeneralisedPlaneStrain and the two plane stress hypotheses PlaneStress,
AxisymmetricalGeneralisedPlaneStress (units `*_N2p_*`, `*_N1p_*`: the mock behaviour exposes the axial strain as
internal state variable 0 and eliminates it from sigma_zz = 0)."""
import copy
import random

from checks import c24emit
from checks import c24ref
from checks import c55ref
import emit
import t1
import vlib

NS = "TfelVerif.C55."
PROPS = ["Props1", "Props23", "Props2p"]


def lean_units(units):
    """units (possibly restricted to some outputs) that the Lean theorems are about, by generated module"""
    byname = {u.name: u for u in units}
    groups = {"Gen1": [], "Gen23": [], "Gen2p": []}
    # 1D: the four (stress measure, flavour) pairs where the flavour is the derivative of the returned measure
    # (tau = J sigma for DTAU_DDF), both strategies
    for st in ("GL", "HK"):
        for n in ("sm0_to0", "sm1_to1", "sm2_to2", "sm0_to3"):
            groups["Gen1"].append(byname["%s_N1_%s" % (st, n)])
    for n in ("GL_N2_sm0_to1", "GL_N2_sm1_to1",
              "GL_N3_sm0_to1", "GL_N3_sm1_to1"):
        groups["Gen23"].append(byname[n])
    for n in ("HK_N2_sm0_to1", "HK_N3_sm0_to1"):
        v = copy.copy(byname[n])
        v.outs = [(o, r) for o, r in v.outs if o.startswith("e")]   # the strain measure seen by the behaviour
        groups["Gen23"].append(v)
    # plane stress, Green-Lagrange strategy, Cauchy stress requested: strain, axial strain returned, stress
    v = copy.copy(byname["GL_N2p_sm0_to1"])
    v.outs = [(o, r) for o, r in v.outs if not o.startswith("K")]
    groups["Gen2p"].append(v)
    return groups


def build(ck, name, src, flags=(), opt="-O0"):
    R = vlib.REPO
    return ck.cxx(name, [src, R + "/src/Exception/ContractViolation.cxx", R + "/src/Exception/TFELException.cxx",
                         R + "/src/Material/LogarithmicStrainHandler.cxx", R + "/src/Math/LUException.cxx",
                         R + "/src/Math/MathException.cxx"],
                  flags=list(flags), includes=[R + "/mfront/include"], opt=opt)


def ps_replay(ck, ps_bin, unit, env):
    """plane stress units: J sigma = F S F^T with the end-of-step axial stretch, on the double code"""
    strat, Ns, sms, tos = unit.split("_")
    N = int(Ns[1])
    T = {1: 3, 2: 5}[N]
    ax = 2 if N == 2 else 1
    F0 = [env["Fa%d" % i] if ("Fa%d" % i) in env else 0. for i in range(T)]
    F1 = [env["F%d" % i] if ("F%d" % i) in env else 0. for i in range(T)]
    if strat == "GL":
        F0[ax] = F1[ax] = 0.
    vals = [1 if strat == "HK" else 0, N, env["la"], env["mu"], env["ezza"]] + F0 + F1
    p = ck.run([ps_bin], input=" ".join("%.17g" % float(v) for v in vals) + "\n", timeout=300)
    return p.stdout.strip().splitlines()[-8:]


def fd_replay(ck, fd_bin, unit, env):
    strat, Ns, sms, tos = unit.split("_")
    N, to = int(Ns[1]), int(tos[2])
    T = {1: 3, 2: 5, 3: 9}[N]
    vals = [1 if strat == "HK" else 0, N, to, env["la"], env["mu"]] + [env["Fa%d" % i] for i in range(T)] + [env["F%d" % i] for i in range(T)]
    p = ck.run([fd_bin], input=" ".join("%.17g" % float(v) for v in vals) + "\n", timeout=300)
    return p.stdout.strip().splitlines()[-14:]


def run(ck):
    tracer = build(ck, "c55trace", "C55/trace.cxx", flags=["-fno-access-control"])
    dag, units = t1.run_tracer(ck, tracer)
    groups = lean_units(units)
    for g, us in groups.items():
        txt, _ = c24emit.emit_file(us, "TfelVerif.C55." + g)
        ck.write_gen("TfelVerif/C55/%s.lean" % g, txt)
    props = [NS + p for p in PROPS]
    res = ck.lean(props, props)
    rng = random.Random(ck.seed)
    refs = {u.name: c55ref.unit_ref(u.name) for u in units}
    found, stats = c24ref.search(ck, units, refs, rng, tracer, trials=1 if ck.quick else 4)
    if found:
        fd_bin = ps_bin = None
        try:
            if any("p_" not in f["unit"] for f in found):
                fd_bin = build(ck, "c55fd", "C55/fd.cxx", opt="-O1")
            if any("p_" in f["unit"] for f in found):
                ps_bin = build(ck, "c55ps", "C55/ps.cxx", opt="-O1")
        except Exception as e:  # support only
            ck.log("replay harness not built:", repr(e)[:200])
        for f in found:
            try:
                env = {k: c24ref_eval(v) for k, v in f["inputs_exact"].items()}
                if "p_" in f["unit"]:
                    if ps_bin:
                        f["stress_measure_consistency_replay_on_real_double_code"] = ps_replay(ck, ps_bin, f["unit"], env)
                elif fd_bin:
                    f["finite_difference_replay_on_real_double_code"] = fd_replay(ck, fd_bin, f["unit"], env)
            except Exception as e:  # support only
                f["replay_error"] = repr(e)
    by_unit = {f["unit"]: f for f in found}
    reported = set()
    if not res.ok:
        def search(fl):
            thm = (fl.get("theorem") or "").split(".")[-1]
            for u in by_unit:
                # theorem names start with the strategy and dimension of the units they are about
                if thm[:5] == u[:5] and (u.split("_")[2] in thm or u.split("_")[3] in thm or True):
                    reported.add(u)
                    return by_unit[u]
            return None
        ck.lean_violations(res, search)
    for f in found:
        if f["unit"] in reported:
            continue
        ck.violation("exact:" + f["unit"],
                     "unit %s (strategy_dimension_stressmeasure_tangentflavour): the traced generic-interface glue disagrees with the hyperelastic reference (%s)" % (f["unit"], f["output"]),
                     f, True)
    if ck.tier == "thorough" and res.ok:
        for m, log in ck.leanchecker(props):
            ck.violation("leanchecker:" + m, "leanchecker rejects " + m, {"log": log}, False)
    ck.assumptions += [
        "T1: g++ instantiating the generic-interface templates with mfront_gb_real = verif::Sym performs the same scalar operations as with double (Types.h's two typedefs are supplied by the tracer, every other line is the shipped code); sym.hxx/glue.hxx/emit.py/c24emit.py are correct",
        "the behaviour is a mock of a generated small-strain isotropic linear elastic behaviour (harness/C55/mock.hxx): the code mfront generates for @StrainMeasure (GenericBehaviourInterface.cxx) is not covered",
        "Hencky strategy: eigen-solver kernels replaced by an oracle (one decomposition per handler), as in C24; inherits C24's partiality (generic eps-branch)",
        "exact field semantics; log1p/log/exp uninterpreted",
        "3D/2D tangent flavours other than DS_DEGL (and all Hencky tangents in 2D/3D) are checked by exact rational evaluation against an exact (dual-number / C24 composition) reference at seeded random points, not by proof",
    ]
    return ck.finish({
        "units_traced": len(units), "outputs_traced": sum(len(u.outs) for u in units),
        "dag_nodes": sum(len(u.order) for u in units),
        "lean_modules": props,
        "evaluations": stats["points"], "distinct_nontrivial": stats["points"],
        "rule": "each of the 120 traced units (2 strategies x 5 hypotheses (3D, plane strain, axisym. gen. plane strain, plane stress, axisym. gen. plane stress) x 3 stress measures x 4 tangent flavours) evaluated exactly over Q(sqrt2) at seeded random rational (F0, F1, lambda, mu[, vp, m]) and compared output by output with the hyperelastic reference: strain measure, stress of S = C:E (or T = C:E_log through the C24 conversions) in the requested measure, and the exact derivative of that stress (dual numbers) in the requested flavour; distinct = points",
        "search_stats": stats,
        "combinations": sorted(u.name for u in units),
        "samples": [{"unit": u.name, "inputs": len(u.inputs), "outputs": len(u.outs)} for u in units[:6]],
    })


def c24ref_eval(s):
    from fractions import Fraction
    if "√2" in s:
        a, b = s.replace("√2", "").rsplit("+", 1)
        return float(Fraction(a)) + float(Fraction(b)) * 2 ** 0.5
    return float(Fraction(s))
