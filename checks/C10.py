"""C10 — cubic polynomial solver returns genuine roots (tie: M, bit-exact Float correspondence).

Model: lean/TfelVerif/C10/Model.lean (findRoots / improve / exe, transliteration of
CubicRoots::{find_roots, improve, exe}, INTENDED behaviour in the p~0 branch). Theorems:
lean/TfelVerif/C10/Props.lean (every ordered field + exact laws of cbrt/sqrt/cos/sin/atan2),
Real.lean (the reals satisfy the laws; every branch is reached).
Tie: the real templates are called in-process by harness/C10/harness.cxx on the same request lines as
the compiled Lean driver (Float instance); answers are compared bit for bit (NaN payload/sign
canonicalised). A differing line is classified by evaluating the property's own predicate, in exact
rational arithmetic, on the implementation's answer.
"""
import collections
import glob
import math
import os
import random
import struct
from fractions import Fraction as Fr

import vlib

PROPS = ["TfelVerif.C10.Props", "TfelVerif.C10.Real"]
SITE = "include/TFEL/Math/General/CubicRoots.hxx"
DBL_MIN = 2.2250738585072014e-308
PREC = 100 * DBL_MIN
TOL = 1e-3          # gross-error threshold of the residual predicate (see `eta`)
FAMILY = {"a3zero": "a3~0", "triple": "p~0", "pzeroPos": "p~0", "pzeroNeg": "p~0",
          "qzeroOne": "q~0", "qzeroThree": "q~0", "cardano1": "delta<0", "cardano3": "delta<0",
          "deltaZero": "delta~0", "deltaZeroP": "delta~0", "trig": "delta>0"}


def bits(x):
    return "%016x" % struct.unpack("<Q", struct.pack("<d", float(x)))[0]


def dbl(s):
    return struct.unpack("<d", struct.pack("<Q", int(s, 16)))[0]


def is_nan_bits(s):
    v = int(s, 16)
    return (v >> 52) & 0x7ff == 0x7ff and v & ((1 << 52) - 1) != 0


def canon(line):
    """bit patterns compared exactly; every NaN (sign/payload are unspecified by IEEE-754 for
    arithmetic results) is mapped to 'nan'; the model-only branch tag is dropped"""
    out = []
    for t in line.split():
        if t.startswith("br="):
            continue
        if len(t) == 16 and is_nan_bits(t):
            t = "nan"
        out.append(t)
    return " ".join(out)


def finite(x):
    return x == x and abs(x) != float("inf")


def fpoly(co, x):
    """the polynomial exactly as `improve` evaluates it in double arithmetic"""
    a3, a2, a1, a0 = co
    return ((a3 * x + a2) * x + a1) * x + a0


def root_scale(co):
    a3, a2, a1, a0 = co
    return max(abs(a2 / a3), math.sqrt(abs(a1 / a3)), abs(a0 / a3) ** (1.0 / 3.0))


def eta(co, x):
    """exact |P(x)| / sum |a_i| S^i with S = max(|x|, root scale of the cubic): the residual relative
    to the size of the polynomial's terms at the scale of its roots (rational arithmetic)"""
    if not finite(x):
        return float("inf")
    A = [Fr(v) for v in co]
    X = Fr(x)
    num = abs(((A[0] * X + A[1]) * X + A[2]) * X + A[3])
    S = Fr(max(abs(x), root_scale(co)))
    den = abs(A[0]) * S ** 3 + abs(A[1]) * S * S + abs(A[2]) * S + abs(A[3])
    if den == 0:
        return 0.0
    r = num / den
    return float(r) if r < 10 ** 300 else float("inf")


EPS = 2.0 ** -52


def psign(A, co, x):
    """exact sign of P(x): double Horner with a running error bound, rational arithmetic when in doubt"""
    a3, a2, a1, a0 = co
    v = ((a3 * x + a2) * x + a1) * x + a0
    ax = abs(x)
    bound = ((abs(a3) * ax + abs(a2)) * ax + abs(a1)) * ax + abs(a0)
    if finite(v) and finite(bound) and abs(v) > 16 * EPS * bound:
        return 1 if v > 0 else -1
    X = Fr(x)
    w = ((A[0] * X + A[1]) * X + A[2]) * X + A[3]
    return (w > 0) - (w < 0)


def reference_roots(co):
    """independent reference: the real roots of the cubic isolated between its critical points and
    located by bisection on the EXACT sign of P (to one ulp). Returns (roots, critical_points) or None
    when the bracketing quantities are not representable."""
    a3, a2, a1, a0 = co
    A = [Fr(v) for v in co]
    try:
        B = 2.0 * (1.0 + max(abs(a2 / a3), abs(a1 / a3), abs(a0 / a3)))   # twice Cauchy's bound
    except (OverflowError, ZeroDivisionError):
        return None
    if not finite(B):
        return None
    disc = A[1] * A[1] - 3 * A[0] * A[2]
    crit = []
    if disc >= 0:
        try:
            sq = math.sqrt(float(disc)) if disc < 10 ** 600 else None
        except OverflowError:
            sq = None
        if sq is None or not finite(sq):
            return None
        for sgn in (-1.0, 1.0):
            c = (-a2 + sgn * sq) / (3 * a3)
            if finite(c):
                crit.append(c)
    pts = sorted(set([-B] + [c for c in crit if -B < c < B] + [B]))
    roots = []
    for l, r in zip(pts, pts[1:]):
        sl, sr = psign(A, co, l), psign(A, co, r)
        if sl == 0:
            roots.append(l)
            continue
        if sr == 0 or sl == sr:
            continue
        lo, hi = l, r
        for _ in range(2200):
            mid = lo + (hi - lo) / 2
            if mid <= lo or mid >= hi:
                break
            sm = psign(A, co, mid)
            if sm == 0:
                lo = hi = mid
                break
            if sm == sl:
                lo = mid
            else:
                hi = mid
        roots.append(lo if abs(lo) < abs(hi) else hi)
    if psign(A, co, pts[-1]) == 0:
        roots.append(pts[-1])
    return sorted(set(roots)), crit


def forward_predicate(co, n, xs):
    """the property on an answer, by forward error against `reference_roots`.
    R = size of the root configuration; a returned value is a genuine root when it lies within TOL*R of
    a real root of the cubic, or of a critical point where |P| <= 1e-9 |a3| R^3 (numerically double root:
    accuracy achievable for multiplicity 2). Returns (ok, why, detail) or (None, ..) when not decidable."""
    ref = reference_roots(co)
    if ref is None:
        return None, "reference roots not representable", {}
    roots, crit = ref
    a3 = co[0]
    R = max([abs(t) for t in roots] + [abs(c) for c in crit] + [root_scale(co) / 4])
    if not finite(R) or R == 0:
        return None, "degenerate scale", {}
    A = [Fr(v) for v in co]

    def pabs(x):
        X = Fr(x)
        return abs(((A[0] * X + A[1]) * X + A[2]) * X + A[3])
    tang = [c for c in crit if pabs(c) <= Fr(1, 10 ** 9) * abs(A[0]) * Fr(R) ** 3]
    T = roots + tang
    detail = {"reference_real_roots": roots, "near_double_points": tang, "scale_R": R}
    if not all(finite(x) for x in xs):
        return False, "a returned value is not finite", detail

    def dist(x):
        return min(abs(x - t) for t in T) / R if T else float("inf")
    d = [dist(x) for x in xs]
    detail["forward_errors"] = d
    if n == 3:
        if max(d) > TOL:
            return False, "returned 3 but x%d=%r is at relative distance %.3g from every real root" % (d.index(max(d)) + 1, xs[d.index(max(d))], max(d)), detail
        for t in roots:
            if min(abs(x - t) for x in xs) / R > TOL:
                return False, "returned 3 but the real root %r is not among the returned values" % t, detail
        if len(roots) == 1 and not tang and (not crit or min(pabs(c) for c in crit) >= Fr(1, 1000) * abs(A[0]) * Fr(R) ** 3):
            return False, "returned 3 for a cubic with a single, well isolated real root", detail
    else:
        if min(d) > TOL:
            return False, "returned 1 but no returned value is a real root (closest at relative distance %.3g; real roots %s)" % (min(d), roots), detail
        if len(roots) == 3 and min(roots[1] - roots[0], roots[2] - roots[1]) >= 0.01 * R:
            return False, "returned 1 for a cubic with three well-separated real roots %s" % roots, detail
    return True, "ok", detail


def in_domain(co):
    """inputs on which no intermediate of find_roots overflows or underflows: the property predicate
    is asserted directly (not only on disagreements) inside this domain"""
    a3 = co[0]
    if not all(finite(c) for c in co) or abs(a3) < 1e-290 or any(abs(c) > 1e290 for c in co):
        return False
    for c in co[1:]:
        if c != 0 and not (1e-40 <= abs(c / a3) <= 1e40):
            return False
    return True


def roots_predicate(co, n, xs):
    """the property evaluated on an answer (n, x1, x2, x3) of find_roots/exe; returns (ok, why, detail)"""
    if not all(finite(c) for c in co):
        return True, "non-finite input (outside the property)", {}
    if abs(co[0]) <= PREC:
        return (n == 0), "negligible leading coefficient: must return 0", {}
    if n not in (1, 3):
        return False, "returned %s for a non-negligible leading coefficient" % n, {}
    ok, why, detail = forward_predicate(co, n, xs)
    if ok is None:   # scale not representable: fall back to the backward-error measure
        e = [eta(co, x) for x in xs]
        v = max(e) if n == 3 else min(e)
        return (v <= TOL), "relative residual %.3g (%s)" % (v, why), {"eta": e}
    return ok, why, detail


# ----------------------------------------------------------------------------- generators
def cub(a3, r1, r2, r3):
    return (a3, -a3 * (r1 + r2 + r3), a3 * (r1 * r2 + r1 * r3 + r2 * r3), -a3 * r1 * r2 * r3)


def nextafter(x, up):
    u = struct.unpack("<q", struct.pack("<d", x))[0]
    u += 1 if (x > 0) == up else -1
    return struct.unpack("<d", struct.pack("<q", u))[0]


CLASSES = ["int3", "int1", "pzero", "qzero", "dec", "wide", "double", "real3", "neardouble",
           "boundary", "extreme", "bits"]


def gen_cubic(rng, c):
    A3 = [1, -1, 2, 0.5, 3, -7, 4, 0.25]
    if c == "int3":
        return cub(rng.choice(A3), *[rng.randint(-9, 9) for _ in range(3)])
    if c == "int1":
        r = rng.randint(-9, 9)
        bb = rng.randint(-5, 5)
        cc = rng.randint(bb * bb // 4 + 1, 40)
        a3 = rng.choice(A3)
        return (a3, a3 * (bb - r), a3 * (cc - bb * r), -a3 * cc * r)
    if c == "pzero":
        s = rng.randint(-4, 4)
        q = rng.choice([1, -1, 8, -8, 27, -27, 0.001, -1e10, 1e-30, rng.uniform(-5, 5), rng.randint(-50, 50) or 1])
        a3 = rng.choice([1, -1, 2, 0.5, 4, -0.25])
        return (a3, 3 * a3 * s, 3 * a3 * s * s, a3 * (s ** 3 + q))
    if c == "qzero":
        p = rng.choice([1, -1, 4, -4, 2, -2, rng.uniform(-5, 5), rng.randint(-30, 30) or 1])
        a3 = rng.choice([1, -1, 2, 0.5])
        return (a3, 0, a3 * p, 0)
    if c == "dec":
        return tuple(rng.uniform(-1, 1) * 10 ** rng.randint(-3, 3) for _ in range(4))
    if c == "wide":
        return tuple(rng.choice([-1, 1]) * (0.5 + rng.random()) * 2.0 ** rng.randint(-55, 55) for _ in range(4))
    if c == "double":
        r = rng.randint(-6, 6)
        t = rng.randint(-6, 6)
        return cub(rng.choice([1, -1, 2, 3]), r, r, t)
    if c == "real3":
        return cub(rng.uniform(-3, 3) or 1.0, *[rng.uniform(-10, 10) for _ in range(3)])
    if c == "neardouble":
        r = rng.uniform(-5, 5)
        t = rng.uniform(-5, 5)
        return cub(1.0, r, r * (1 + rng.choice([0, 1e-8, 1e-12, -1e-15, 3e-16, 1e-14, -1e-13])), t)
    if c == "boundary":
        k = rng.randrange(7)
        pv = rng.choice([PREC, -PREC, nextafter(PREC, True), nextafter(PREC, False), -nextafter(PREC, False)])
        other = rng.choice([1.0, -1.0, 1e-200, -1e-200, 1e-100, 3.0, 0.0, PREC, -PREC])
        if k == 0:
            return (pv, rng.choice([0.0, 1.0]), other, rng.choice([1.0, -2.0]))
        if k == 1:
            return (1.0, 0.0, pv, other)
        if k == 2:
            return (1.0, 0.0, other, pv)
        if k == 3:
            return (rng.choice([1.0, -1.0, 2.0]), 0.0, pv, pv)
        if k == 6:   # double root at a scale where delta is subnormal: sqrt(-delta/27) underflows to 0, u = v: `cardano3`
            sc = rng.uniform(0.5, 2) * 10 ** rng.choice([-52, -51.7, -51.9, -52.2])
            return (1.0, 0.0, -3 * sc * sc, 2 * sc ** 3 * (1 + rng.choice([1e-9, 1e-6, 1e-3, 1e-12])) * rng.choice([1, -1]))
        if k == 4:   # cbrt(q) at the threshold: q = prec^3 underflows; use tiny q
            return (1.0, 0.0, 0.0, rng.choice([5e-324, -5e-324, 1e-320, DBL_MIN, -DBL_MIN, PREC, -PREC]))
        return (1.0, 0.0, -3.0 * rng.choice([1.0, 4.0, 0.25]), rng.choice([2.0, -2.0, 16.0, 0.25]))
    if c == "extreme":
        return tuple(rng.choice([-1, 1]) * rng.random() * 2.0 ** rng.randint(-300, 300) for _ in range(4))
    if c == "bits":
        while True:
            co = tuple(dbl("%016x" % rng.getrandbits(64)) for _ in range(4))
            if all(finite(x) for x in co):
                return co
    raise ValueError(c)


def gen_vp(rng, co):
    k = rng.randrange(5)
    if k == 0:
        return rng.uniform(-10, 10)
    if k == 1:
        return float(rng.randint(-9, 9))
    if k == 2:
        return rng.uniform(-10, 10) * 10 ** rng.randint(-6, 6)
    if k == 3 and co[0] != 0 and finite(co[1] / co[0]):   # near the inflection / critical points
        return -co[1] / (3 * co[0]) + rng.choice([0.0, 1.0, -1.0, 1e-9])
    return rng.choice([0.0, 1.0, -1.0, 1e-300, 1e300, 2.0])


def load_corpus():
    """corpus/C10/*.txt: lines `a3 a2 a1 a0 [vp]` (decimal or C99 hex floats), '#' comments"""
    out = []
    for f in sorted(glob.glob(os.path.join(vlib.VERIF, "corpus", "C10", "*.txt"))):
        for line in open(f):
            line = line.split("#")[0].strip()
            if not line:
                continue
            v = [float.fromhex(t) if "x" in t.lower() else float(t) for t in line.split()]
            if len(v) >= 4:
                out.append((tuple(v[:4]), v[4] if len(v) > 4 else 1.0))
    return out


def simplicity(co):
    ints = all(finite(c) and float(c).is_integer() for c in co)
    return (0 if ints else 1, sum(abs(c) for c in co if finite(c)))


# ----------------------------------------------------------------------------- the check
def run_batch(ck, harness, driver, consts_line, cases):
    """cases: list of (class, co, vp). Four request lines per case. Returns per-case dicts."""
    lines = []
    for (_, co, vp) in cases:
        b4 = " ".join(bits(c) for c in co)
        lines += ["find " + b4, "exe 0 " + b4, "exe 1 " + b4, "improve " + bits(vp) + " " + b4]
    text = "\n".join(lines) + "\n"
    pi = ck.run([harness], input=text, timeout=1800)
    pm = ck.run([driver], input=consts_line + "\n" + text, timeout=1800)
    impl = pi.stdout.splitlines()
    model = pm.stdout.splitlines()[1:]
    crashed = pi.returncode != 0 or len(impl) != len(lines)
    return lines, impl, model, crashed, pi.stderr[-2000:]


def same_find(a, m):
    return canon(a) == canon(m)


def parse_roots(ans):
    f = ans.split()
    try:
        return int(f[0]), [dbl(x) for x in f[1:4]]
    except (ValueError, IndexError, struct.error):
        return None, []


def run(ck):
    rng = random.Random(ck.seed)
    harness = ck.cxx("c10h", ["C10/harness.cxx"], sanitize=True)
    driver = ck.lean_exe("c10driver", "TfelVerif/C10/Driver.lean")
    ck.log("model driver built")
    pc = ck.run([harness], input="consts\n")
    consts_line = pc.stdout.strip()
    cf = consts_line.split()
    if pc.returncode != 0 or len(cf) != 4 or cf[0] != "consts":
        raise vlib.BuildError("C10 harness does not report the code's constants", pc.stdout + pc.stderr)
    sqrt3 = dbl(cf[1])
    s3err = abs(Fr(sqrt3) ** 2 - 3)
    if s3err > Fr(1, 10 ** 15) or dbl(cf[2]) != 2.0 ** -52 or dbl(cf[3]) != DBL_MIN:
        ck.violation(SITE + ":constants", "Cste<double>::sqrt3/epsilon/min are not the expected constants: %s" % consts_line,
                     {"consts": consts_line, "sqrt3": sqrt3}, True)

    # ---- the cube-root helpers (double overload, generic pow-based template, float and long double overloads):
    # r = cbrt(x) must have the sign of x and r^3 = x up to the accuracy of the type (exact rational test)
    xs_c = [0.0, 1.0, -1.0, 8.0, -27.0, 1e-300, -1e300, 2.0, -0.001]
    rng_c = random.Random(7 * ck.seed + 3)          # own stream: the cubics of a seed do not depend on this part
    xs_c += [rng_c.uniform(-10, 10) * 10.0 ** rng_c.randint(-30, 30) for _ in range(200)]
    seen_c = set()
    pcb = ck.run([harness], input="".join("cbrt %s\n" % bits(x) for x in xs_c))
    cb = pcb.stdout.splitlines()
    names_c = [("cbrt(double)", Fr(1, 10 ** 14), False), ("cbrt<T> generic template (pow)", Fr(1, 10 ** 13), False),
               ("cbrt(float)", Fr(1, 10 ** 6), True), ("cbrt(long double)", Fr(1, 10 ** 14), False)]
    cbrt_checked = 0
    for x, a in zip(xs_c, cb + ["missing"] * (len(xs_c) - len(cb))):
        f_ = a.split()
        if len(f_) != 5 or f_[0] != "c":
            ck.violation(SITE + ":cbrt:no-answer", "no answer for cbrt(%r): %s" % (x, a[:60]), {"x": x, "answer": a}, False)
            break
        for (nm, tol, isf), tok in zip(names_c, f_[1:]):
            r = dbl(tok)
            if isf and (abs(x) < 1e-37 or abs(x) > 1e37):
                continue
            xr = struct.unpack("<f", struct.pack("<f", x))[0] if isf else x   # the float overload sees x rounded to float
            cbrt_checked += 1
            good = (r == r and abs(r) != float("inf") and (r > 0) == (xr > 0) and (r < 0) == (xr < 0)
                    and abs(Fr(r) ** 3 - Fr(xr)) <= tol * abs(Fr(xr)))
            if not good and nm not in seen_c:
                seen_c.add(nm)
                ck.violation(SITE + ":cbrt:" + nm, "CubicRoots::%s: cbrt(%r) = %r, whose cube is %r" % (nm, xr, r, r ** 3 if r == r else r),
                             {"function": nm, "x": xr, "returned": r, "answer_line": a}, True)
    # ---- cases: corpus, directed, then seeded random per class
    cases = [("corpus", co, vp) for (co, vp) in load_corpus()]
    directed = [(1, 0, 0, 1), (1, 0, 0, -8), (2, 0, 0, 2), (-1, 0, 0, 27), (1, 3, 3, 2), (1, -3, 3, -9), (1, 0, 0, 0),
                (1, -6, 11, -6), (1, 0, -7, 6), (1, 0, 1, 1), (1, 0, -3, 2), (1, 0, 1, 0), (1, 0, -1, 0),
                (0, 1, 2, 3), (PREC, 1, 1, 1), (1, 0, PREC, 1e-200), (1, 0, -PREC, 1e-200), (1, -3, 3, -1),
                (1, 0, -3, 2.0000000000000004), (1, 0, -3, 1.9999999999999998)]
    cases += [("directed", tuple(float(c) for c in co), 1.5) for co in directed]
    n_rand = 6000 if ck.quick else 150000
    weights = {"int3": 10, "int1": 10, "pzero": 12, "qzero": 6, "dec": 10, "wide": 10, "double": 8,
               "real3": 8, "neardouble": 10, "boundary": 6, "extreme": 6, "bits": 4}
    names = [c for c in CLASSES for _ in range(weights[c])]
    for _ in range(n_rand):
        c = rng.choice(names)
        co = tuple(float(x) for x in gen_cubic(rng, c))
        cases.append((c, co, gen_vp(rng, co)))

    lines, impl, model, crashed, err = run_batch(ck, harness, driver, consts_line, cases)
    ck.log("%d cases (%d requests) run through implementation and model" % (len(cases), len(lines)))
    if crashed:
        ck.violation("harness-crash", "the implementation harness aborted (sanitizer report or crash) or lost lines",
                     {"stderr": err, "lines_in": len(lines), "lines_out": len(impl)}, False)

    res = ck.lean(PROPS, PROPS)

    def search(_failure):
        # a theorem about the model no longer checks: look for an input on which the *implementation*
        # violates the property (fresh seeded batch, residual predicate)
        r2 = random.Random(ck.seed + 7919)
        cs = [(c, tuple(float(x) for x in gen_cubic(r2, c)), 1.0) for c in CLASSES for _ in range(150)]
        l2, i2, _, _, _ = run_batch(ck, harness, driver, consts_line, cs)
        for k, (c, co, _) in enumerate(cs):
            if 4 * k < len(i2) and in_domain(co):
                n, xs = parse_roots(i2[4 * k])
                ok, why, det = roots_predicate(co, n, xs)
                if not ok:
                    return {"a3 a2 a1 a0": list(co), "implementation": i2[4 * k], "why": why, "detail": det}
        return None
    ck.lean_violations(res, search)

    # ---- compare
    hist_branch = collections.Counter()
    hist_class_branch = collections.Counter()
    hist_n = collections.Counter()
    eta_max = collections.defaultdict(float)
    fwd_max = collections.defaultdict(float)
    distinct = set()
    failures = {}      # key -> (rank, report, found)
    disagreements = 0
    direct_checked = 0
    nonfinite_outputs = 0
    improved = 0
    for k, (cls, co, vp) in enumerate(cases):
        if 4 * k + 3 >= len(impl) or 4 * k + 3 >= len(model):
            break
        mfind = model[4 * k]
        br = mfind.split()[-1][3:] if "br=" in mfind else "?"
        fam = FAMILY.get(br, "?")
        hist_branch[br] += 1
        hist_class_branch["%s/%s" % (cls, br)] += 1
        if br != "a3zero":
            distinct.add(co)
        n_i, xs_i = parse_roots(impl[4 * k])
        hist_n[n_i] += 1

        def report(kind, idx, why, found, extra=None):
            key = "%s:%s:%s" % (SITE, kind, fam if kind != "improve" else "residual")
            rep = {"request": lines[idx], "function": kind, "a3 a2 a1 a0": list(co), "class": cls,
                   "model_branch": br, "implementation": impl[idx], "model": model[idx],
                   "implementation_values": [dbl(x) if len(x) == 16 else x for x in impl[idx].split()[1:]],
                   "model_values": [dbl(x) if len(x) == 16 else x for x in model[idx].split()[1:] if not x.startswith("br=")],
                   "why": why}
            if extra:
                rep["reference"] = extra
            if kind == "improve":
                rep["vp"] = vp
            rank = (0 if found else 1,) + simplicity(co)
            full = key if found else "corr:" + key
            if full not in failures or rank < failures[full][0]:
                failures[full] = (rank, rep, found, why)

        # (1) find_roots
        same = same_find(impl[4 * k], mfind)
        dom = in_domain(co)
        ok, why, det = (True, "not evaluated", {})
        if n_i is None:
            ok, why = False, "unparsable answer"
        elif not same_find(impl[4 * k], mfind) or dom:
            ok, why, det = roots_predicate(co, n_i, xs_i)
        if not same:
            disagreements += 1
            if not ok:
                report("find_roots", 4 * k, why, True, det)
            else:
                report("find_roots", 4 * k, "answers differ bit-wise; the implementation's values still satisfy the root predicate", False)
        elif dom:
            direct_checked += 1
            if not ok:
                report("find_roots", 4 * k, why + " (model and implementation agree: rounding not covered by the exact theorems)", True, det)
        if dom and det.get("forward_errors"):
            fw = det["forward_errors"]
            fwd_max[br] = max(fwd_max[br], max(fw) if n_i == 3 else min(fw))
        if n_i in (1, 3) and dom:
            e = [eta(co, x) for x in xs_i]
            v = max(e) if n_i == 3 else min(e)
            eta_max[br] = max(eta_max[br], v)
        if n_i in (1, 3) and not all(finite(x) for x in xs_i):
            nonfinite_outputs += 1
        # (2) exe b=false must be find_roots
        if canon(impl[4 * k + 1]) != canon(impl[4 * k]):
            report("exe", 4 * k + 1, "exe(b=false) differs from find_roots: %s vs %s" % (impl[4 * k + 1], impl[4 * k]), True)
        if canon(impl[4 * k + 1]) != canon(model[4 * k + 1]):
            disagreements += 1
            if canon(impl[4 * k + 1]) == canon(impl[4 * k]) and same:
                report("exe", 4 * k + 1, "model exe(b=false) differs", False)
        # (3) exe b=true: same count, residual (as the code evaluates it) never increased
        n_e, xs_e = parse_roots(impl[4 * k + 2])
        bad = None
        if n_e != n_i:
            bad = "exe(b=true) returns %s roots, find_roots %s" % (n_e, n_i)
        elif n_i in (1, 3):
            for j in range(3):
                f_old, f_new = fpoly(co, xs_i[j]), fpoly(co, xs_e[j])
                if bits(xs_e[j]) != bits(xs_i[j]):
                    improved += 1
                    if not (abs(f_new) < abs(f_old)):
                        bad = "refinement moved x%d from %r to %r but |f| went %r -> %r" % (j + 1, xs_i[j], xs_e[j], abs(f_old), abs(f_new))
                    if n_i == 1 and j > 0:
                        bad = "exe(b=true) with one real root modified x%d" % (j + 1)
        if bad:
            report("exe", 4 * k + 2, bad, True)
        if canon(impl[4 * k + 2]) != canon(model[4 * k + 2]):
            disagreements += 1
            if not bad and same:
                report("exe", 4 * k + 2, "exe(b=true) answers differ bit-wise; residuals not increased", False)
        # (4) improve
        fi = impl[4 * k + 3].split()
        badi = None
        if len(fi) == 2 and fi[0] == "v":
            nv = dbl(fi[1])
            if bits(nv) != bits(vp) and not (abs(fpoly(co, nv)) < abs(fpoly(co, vp))):
                badi = "improve moved %r to %r but |f| went %r -> %r" % (vp, nv, abs(fpoly(co, vp)), abs(fpoly(co, nv)))
        else:
            badi = "unparsable answer"
        if badi:
            report("improve", 4 * k + 3, badi, True)
        if canon(impl[4 * k + 3]) != canon(model[4 * k + 3]):
            disagreements += 1
            if not badi:
                report("improve", 4 * k + 3, "improve answers differ bit-wise; |f| not increased", False)

    ck.log("compared: %d disagreements, %d direct predicate checks" % (disagreements, direct_checked))
    for full, (_, rep, found, why) in sorted(failures.items()):
        key = full[5:] if full.startswith("corr:") else full
        if found:
            ck.violation(key, "%s on (a3,a2,a1,a0)=%s: %s; implementation answer %s" %
                         (rep["function"], rep["a3 a2 a1 a0"], why, rep["implementation_values"]), rep, True)
        else:
            ck.violation("corr:" + key, "correspondence Model.lean vs %s broken on %s (%s)" %
                         (rep["function"], rep["a3 a2 a1 a0"], why), rep, False)

    # generator quality: every branch the theorems speak about must have been exercised
    need = ["a3zero", "triple", "pzeroPos", "pzeroNeg", "qzeroOne", "qzeroThree", "cardano1", "cardano3",
            "deltaZero", "deltaZeroP", "trig"]
    missing = [b for b in need if hist_branch[b] == 0]
    if missing:
        ck.violation("generator:branches", "the generators no longer reach the branches %s: the correspondence is blind there" % missing,
                     {"missing": missing, "histogram": dict(hist_branch)}, False)
    if ck.tier == "thorough":
        badlc = ck.leanchecker(PROPS)
        for (m, msg) in badlc:
            ck.violation("leanchecker:" + m, "leanchecker rejects %s" % m, {"msg": msg}, False)

    ck.assumptions += [
        "M: Model.lean is hand-written; it is tied to CubicRoots.hxx by differential execution (bit-exact on every request of this run), not by proof",
        "theorems are over exact ordered-field arithmetic with exact laws for cbrt/sqrt/cos/sin/atan2 (Real.lean: the reals satisfy them); thresholds (prec, 100|u+v|eps) are exact comparisons; ROUNDING, OVERFLOW AND UNDERFLOW ARE NOT MODELLED",
        "Float instance: Lean `Float` is C double and Float.cbrt/cos/sin/atan2/sqrt call the same libm as the harness (g++ -O1 -ffp-contract=off); NaN sign/payload canonicalised",
        "Cste<double>::sqrt3, epsilon, min are read from the harness on every run and fed to the model (sqrt3 checked: |sqrt3^2-3| <= 1e-15)",
        "residual predicate (classification of disagreements, and direct assertion inside the no-overflow domain |a_i/a3| in [1e-40,1e40], |a3| in [1e-290,1e290]): relative residual eta <= 1e-3 — a gross-error test; measured eta maxima are in the evidence",
    ]
    samples = []
    for k in (0, 1, 7, 20, 21 + n_rand // 2):
        if 4 * k < len(impl) and k < len(cases):
            samples.append({"class": cases[k][0], "a3 a2 a1 a0": list(cases[k][1]),
                            "implementation": [impl[4 * k].split()[0]] + [dbl(x) for x in impl[4 * k].split()[1:]],
                            "model": model[4 * k]})
    return ck.finish({
        "evaluations": len(lines), "distinct_nontrivial": len(distinct),
        "rule": "cases = corpus/C10 + directed list + seeded random cubics from 12 structure-aware classes (integer roots, one real root, exact p=0 / q=0 / double / triple roots, near-double roots, threshold boundaries, decimal/wide/extreme scalings, random bit patterns); each case = 4 requests (find_roots, exe false, exe true, improve); distinct = distinct coefficient 4-tuples; non-trivial = the model reaches a root-computing branch (not a3zero)",
        "exhaustive": False, "disagreements": disagreements,
        "cases": len(cases), "direct_residual_checks_in_domain": direct_checked,
        "branch_histogram": dict(hist_branch), "class_branch_histogram": dict(hist_class_branch),
        "returned_count_histogram": {str(k): v for k, v in hist_n.items()},
        "values_moved_by_refinement": improved,
        "max_forward_error_by_branch_in_domain (distance to the reference real roots / root scale)": {k: v for k, v in sorted(fwd_max.items())},
        "max_relative_residual_by_branch_in_domain": {k: v for k, v in sorted(eta_max.items())},
        "observations": {
            "answers_with_non_finite_values (overflow in p^3/q^2 on extreme scalings, outside the modelled exact arithmetic)": nonfinite_outputs,
            "note": "Cardano cancellation (|p|^3 << eps q^2) limits the unrefined real root to eta ~ 1e-5; thresholds are absolute (100*min), so badly scaled cubics underflow in delta (e.g. x^3 + 2.2e-306 x + 1e-200 -> triple root 0). Both are rounding effects outside the theorems.",
        },
        "traces_validated_against_impl": len(lines),
        "samples": samples,
    })
