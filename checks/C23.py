"""C23 — finite-strain tangent operator and stress conversions are exact (tie: T1 symtrace + T2 table).

Pipeline of one run
  1. T2: the table of converter specialisations is read from FiniteStrainBehaviourTangentOperator.ixx
     and from mfront's FiniteStrainBehaviourTangentOperatorConversion.cxx and compared with the pairs the
     theorems cover (a new / removed pair is reported); flag names and stored types are dumped from
     src/Material/FiniteStrainBehaviourTangentOperator.cxx compiled into a small program.
  2. T1: harness/C23/trace.cxx instantiates every converter (N = 1,2,3) and every stress conversion
     on a recording scalar; harness/C23/emit23.py turns the DAGs into Lean (`Gen*.lean`).
     Converters that the code defines as a chain of other converters are compared *structurally* (exact,
     every output) with the composition of the traced parts (harness/C23/struct23.py); in 3D they are
     emitted as that composition (`GenN3Chains.lean`), which keeps every Lean obligation small.
  3. `lake build` of the fixed Props files + axiom audit.
  4. exact evaluation over Q(sqrt2) of the property's predicate on every traced converter and of every
     stress conversion against a 3x3 matrix reference at seeded random points: this is the
     failing-input search when an obligation breaks (replayed on the real double code through VERIF_SHADOW).
"""
import copy
import os
from fractions import Fraction
import random
import re
import sys

import t1
import vlib
import emit
from emit import Q2
from m3 import M3, q

sys.path.insert(0, os.path.join(vlib.VERIF, "harness", "C23"))
import emit23  # noqa: E402
import ref23  # noqa: E402
import struct23  # noqa: E402

IXX = "include/TFEL/Material/FiniteStrainBehaviourTangentOperator.ixx"
MFRONT_TABLE = "mfront/src/FiniteStrainBehaviourTangentOperatorConversion.cxx"

# (To, From) as in the template arguments. DT_DELOG sources go through LogarithmicStrainHandler (C24).
PAIRS = [
    ("DS_DC", "DS_DEGL"), ("DS_DEGL", "DS_DC"), ("SPATIAL_MODULI", "DS_DEGL"), ("DS_DEGL", "SPATIAL_MODULI"),
    ("DSIG_DF", "DS_DEGL"), ("DS_DF", "DS_DC"), ("DS_DF", "DS_DEGL"), ("ABAQUS", "SPATIAL_MODULI"),
    ("ABAQUS", "DS_DEGL"), ("DSIG_DF", "C_TRUESDELL"), ("SPATIAL_MODULI", "ABAQUS"),
    ("C_TRUESDELL", "SPATIAL_MODULI"), ("C_TRUESDELL", "DS_DEGL"), ("SPATIAL_MODULI", "C_TRUESDELL"),
    ("DSIG_DDF", "DSIG_DF"), ("DSIG_DF", "DSIG_DDF"), ("DTAU_DDF", "DTAU_DF"), ("DTAU_DF", "DTAU_DDF"),
    ("DSIG_DF", "DTAU_DF"), ("DTAU_DF", "DS_DF"), ("SPATIAL_MODULI", "DTAU_DF"), ("C_TAU_JAUMANN", "DTAU_DF"),
    ("C_TRUESDELL", "DTAU_DF"), ("ABAQUS", "C_TAU_JAUMANN"), ("C_TAU_JAUMANN", "ABAQUS"),
    ("C_TAU_JAUMANN", "SPATIAL_MODULI"), ("SPATIAL_MODULI", "C_TAU_JAUMANN"), ("ABAQUS", "DTAU_DF"),
    ("DTAU_DF", "C_TAU_JAUMANN"), ("DTAU_DF", "ABAQUS"), ("DTAU_DF", "SPATIAL_MODULI"), ("DSIG_DF", "ABAQUS"),
    ("DPK1_DF", "DSIG_DF"), ("DTAU_DF", "DPK1_DF"), ("DSIG_DF", "DPK1_DF"), ("DPK1_DF", "DS_DEGL"),
]
OUT_OF_SCOPE = [("DS_DEGL", "DT_DELOG"), ("DS_DC", "DT_DELOG"), ("SPATIAL_MODULI", "DT_DELOG"),
                ("C_TRUESDELL", "DT_DELOG")]

K = {"k": "prev"}
# converters whose `exe` is written as a chain of other converters (first stage first)
CHAINS = {
    "DTAU_DF__SPATIAL_MODULI": [("C_TAU_JAUMANN__SPATIAL_MODULI", {}), ("DTAU_DF__C_TAU_JAUMANN", K)],
    "DS_DEGL__SPATIAL_MODULI": [("invert@g", {}), ("SPATIAL_MODULI__DS_DEGL", {"g": "prev"})],
    "DSIG_DF__DS_DEGL": [("SPATIAL_MODULI__DS_DEGL", {}), ("DTAU_DF__SPATIAL_MODULI", K), ("DSIG_DF__DTAU_DF", K)],
    "ABAQUS__DS_DEGL": [("SPATIAL_MODULI__DS_DEGL", {}), ("ABAQUS__SPATIAL_MODULI", K)],
    "DSIG_DF__C_TRUESDELL": [("SPATIAL_MODULI__C_TRUESDELL", {}), ("DTAU_DF__SPATIAL_MODULI", K), ("DSIG_DF__DTAU_DF", K)],
    "C_TRUESDELL__DS_DEGL": [("SPATIAL_MODULI__DS_DEGL", {}), ("C_TRUESDELL__SPATIAL_MODULI", K)],
    "SPATIAL_MODULI__DTAU_DF": [("C_TAU_JAUMANN__DTAU_DF", {}), ("SPATIAL_MODULI__C_TAU_JAUMANN", K)],
    "C_TRUESDELL__DTAU_DF": [("C_TAU_JAUMANN__DTAU_DF", {}), ("SPATIAL_MODULI__C_TAU_JAUMANN", K),
                             ("C_TRUESDELL__SPATIAL_MODULI", K)],
    "DSIG_DF__ABAQUS": [("DTAU_DF__ABAQUS", {}), ("DSIG_DF__DTAU_DF", K)],
    "DSIG_DF__DPK1_DF": [("DTAU_DF__DPK1_DF", {}), ("DSIG_DF__DTAU_DF", K)],
}
# 3D only: converters that start by turning the Cauchy stress into the second Piola-Kirchhoff stress (rational in
# F) are split into that conversion and a "core" unit traced with the stress as a fresh input (harness/C23/trace.cxx)
CHAINS3 = {
    "DTAU_DF__DS_DF": [("cauchy_to_pk2@g", {}), ("DTAU_DF__DS_DF_core", {"p": "prev"})],
    "DPK1_DF__DS_DEGL": [("cauchy_to_pk2@g", {}), ("DPK1_DF__DS_DEGL_core", {"p": "prev"})],
}
CORES3 = ["DTAU_DF__DS_DF_core", "DPK1_DF__DS_DEGL_core"]


def chains_of(n):
    d = dict(CHAINS)
    if n == 3:
        d.update(CHAINS3)
    return d


# chained converters are emitted as compositions (after the structural identity has been checked)
N3_BASE = [p for p in PAIRS if "%s__%s" % p not in CHAINS and "%s__%s" % p not in CHAINS3]

# N = 2: the directly proved pairs are spread over four modules (built in parallel)
N2_GROUPS = {
    "a": ["DTAU_DF__ABAQUS", "DTAU_DF__DTAU_DDF", "DS_DF__DS_DC", "DTAU_DF__DPK1_DF", "C_TRUESDELL__SPATIAL_MODULI",
          "SPATIAL_MODULI__C_TAU_JAUMANN"],
    "b": ["DTAU_DF__C_TAU_JAUMANN", "DSIG_DF__DSIG_DDF", "DPK1_DF__DSIG_DF", "DTAU_DDF__DTAU_DF", "C_TAU_JAUMANN__ABAQUS",
          "DS_DEGL__DS_DC"],
    "c": ["DPK1_DF__DS_DEGL", "ABAQUS__DTAU_DF", "DS_DF__DS_DEGL", "DSIG_DF__DTAU_DF", "SPATIAL_MODULI__ABAQUS",
          "SPATIAL_MODULI__C_TRUESDELL", "C_TAU_JAUMANN__SPATIAL_MODULI"],
    "d": ["SPATIAL_MODULI__DS_DEGL", "DTAU_DF__DS_DF", "C_TAU_JAUMANN__DTAU_DF", "DSIG_DDF__DSIG_DF", "ABAQUS__SPATIAL_MODULI",
          "ABAQUS__C_TAU_JAUMANN", "DS_DC__DS_DEGL"],
}

STRESS_UNITS = ["det", "invert", "dJ", "rightCauchyGreen", "greenLagrange", "unsyme", "push_forward",
                "cauchy_to_pk1", "pk1_to_cauchy", "cauchy_to_pk2", "pk2_to_cauchy", "corot_to_pk2", "pk2_to_corot"]


# ------------------------------------------------------------------ T2: tables read from the sources
def read_tables(ck):
    ixx = open(os.path.join(vlib.REPO, IXX)).read()
    code = re.sub(r"/\*.*?\*/", "", ixx, flags=re.S)
    code = re.sub(r"//[^\n]*", "", code)
    inst = re.findall(r"TFEL_MATERIAL_FINITESTRAINBEHAVIOURTANGENTOPERATORCONVERTER\(\s*(\w+)\s*,\s*(\w+)\s*\)", code)
    inst = [p for p in inst if p != ("OP1", "OP2")]
    mf = open(os.path.join(vlib.REPO, MFRONT_TABLE)).read()
    mf = re.sub(r"/\*.*?\*/", "", mf, flags=re.S)
    mf = re.sub(r"//[^\n]*", "", mf)
    std = re.findall(r"std_add\(\s*TangentOperator::(\w+)\s*,\s*TangentOperator::(\w+)\s*\)", mf)
    return inst, [(b, a) for (a, b) in std]  # mfront lists (source, target)


def flag_dump(ck, exe):
    """names / stored types of the flags, from src/Material/FiniteStrainBehaviourTangentOperator.cxx"""
    p = ck.run([exe])
    if p.returncode != 0:
        raise vlib.BuildError("flag dump program failed", p.stdout + p.stderr)
    rows = [l.split() for l in p.stdout.splitlines() if l.strip()]
    return rows


# ------------------------------------------------------------------ references for the stress units
def stress_specs():
    """unit -> fn(rng) -> (env, check(outs)->list of failing output names)"""
    S = {}

    def rat(rng):
        return t1.rnd_rat(rng)

    for N in (1, 2, 3):
        d = "N%d_" % N
        ns, nt = ref23.S[N], ref23.T[N]

        def envF(F, N=N, prefix="f"):
            return {"%s%d" % (prefix, i): v for i, v in enumerate(F.tens(N))}

        def envS(A, prefix, N=N):
            return {"%s%d" % (prefix, i): v for i, v in enumerate(A.mandel(N))}

        def eq_list(outs, exp):
            return [k for k, v in exp.items() if not (outs[k] == v)]

        def mk(f, N=N):
            return lambda rng: f(rng, N)

        def s_det(rng, N):
            F = ref23.rnd_tensor(rng, N, rat, True)
            return envF(F), lambda o: eq_list(o, {"r": F.det()})
        S[d + "det"] = mk(s_det)

        def s_inv(rng, N):
            F = ref23.rnd_tensor(rng, N, rat, True)
            G = F.inv()
            return envF(F), lambda o: eq_list(o, {"r%d" % i: v for i, v in enumerate(G.tens(N))})
        S[d + "invert"] = mk(s_inv)

        def s_dJ(rng, N):
            F = ref23.rnd_tensor(rng, N, rat, True)
            G = F.inv().T() * F.det()
            return envF(F), lambda o: eq_list(o, {"r%d" % i: v for i, v in enumerate(G.tens(N))})
        S[d + "dJ"] = mk(s_dJ)

        def s_C(rng, N):
            F = ref23.rnd_tensor(rng, N, rat, True)
            return envF(F), lambda o: eq_list(o, {"r%d" % i: v for i, v in enumerate((F.T() * F).mandel(N))})
        S[d + "rightCauchyGreen"] = mk(s_C)

        def s_E(rng, N):
            F = ref23.rnd_tensor(rng, N, rat, True)
            E = (F.T() * F - M3.one()) * ref23.HALF
            return envF(F), lambda o: eq_list(o, {"r%d" % i: v for i, v in enumerate(E.mandel(N))})
        S[d + "greenLagrange"] = mk(s_E)

        def s_uns(rng, N):
            A = ref23.rnd_sym(rng, N, rat)
            return envS(A, "s"), lambda o: eq_list(o, {"r%d" % i: v for i, v in enumerate(A.tens(N))})
        S[d + "unsyme"] = mk(s_uns)

        def s_pf(rng, N):
            A = ref23.rnd_sym(rng, N, rat)
            F = ref23.rnd_tensor(rng, N, rat, True)
            e = envS(A, "s")
            e.update(envF(F))
            return e, lambda o: eq_list(o, {"r%d" % i: v for i, v in enumerate((F * A * F.T()).mandel(N))})
        S[d + "push_forward"] = mk(s_pf)

        def s_c2p1(rng, N):
            A = ref23.rnd_sym(rng, N, rat)
            F = ref23.rnd_tensor(rng, N, rat, True)
            e = envS(A, "s")
            e.update(envF(F))
            P = A * F.inv().T() * F.det()
            return e, lambda o: eq_list(o, {"r%d" % i: v for i, v in enumerate(P.tens(N))})
        S[d + "cauchy_to_pk1"] = mk(s_c2p1)

        def s_p12c(rng, N):
            # a physical P (P F^T symmetric): P = J sigma F^-T
            A = ref23.rnd_sym(rng, N, rat)
            F = ref23.rnd_tensor(rng, N, rat, True)
            P = A * F.inv().T() * F.det()
            e = envF(P, prefix="p")
            e.update(envF(F))
            return e, lambda o: eq_list(o, {"r%d" % i: v for i, v in enumerate(A.mandel(N))})
        S[d + "pk1_to_cauchy"] = mk(s_p12c)

        def s_c2p2(rng, N):
            A = ref23.rnd_sym(rng, N, rat)
            F = ref23.rnd_tensor(rng, N, rat, True)
            e = envS(A, "s")
            e.update(envF(F))
            G = F.inv()
            return e, lambda o: eq_list(o, {"r%d" % i: v for i, v in enumerate((G * A * G.T() * F.det()).mandel(N))})
        S[d + "cauchy_to_pk2"] = mk(s_c2p2)

        def s_p22c(rng, N):
            A = ref23.rnd_sym(rng, N, rat)
            F = ref23.rnd_tensor(rng, N, rat, True)
            e = envS(A, "p")
            e.update(envF(F))
            iJ = Q2(1) / F.det()
            return e, lambda o: eq_list(o, {"r%d" % i: v for i, v in enumerate((F * A * F.T() * iJ).mandel(N))})
        S[d + "pk2_to_cauchy"] = mk(s_p22c)

        def rnd_U(rng, N):
            U = ref23.rnd_sym(rng, N, rat)
            return U + M3.one() * Q2(4)

        def s_co2p2(rng, N):
            A = ref23.rnd_sym(rng, N, rat)
            U = rnd_U(rng, N)
            e = envS(A, "s")
            e.update(envS(U, "u"))
            G = U.inv()
            return e, lambda o: eq_list(o, {"r%d" % i: v for i, v in enumerate((G * A * G * U.det()).mandel(N))})
        S[d + "corot_to_pk2"] = mk(s_co2p2)

        def s_p22co(rng, N):
            A = ref23.rnd_sym(rng, N, rat)
            U = rnd_U(rng, N)
            e = envS(A, "p")
            e.update(envS(U, "u"))
            iJ = Q2(1) / U.det()
            return e, lambda o: eq_list(o, {"r%d" % i: v for i, v in enumerate((U * A * U * iJ).mandel(N))})
        S[d + "pk2_to_corot"] = mk(s_p22co)
    return S


def replay_double(ck, tracer, u, env, outnames):
    """the real instantiated code in double precision at the exact point `env`"""
    sh = "".join("%s %s %.17g\n" % (u.name, k, float(v)) for k, v in env.items())
    shp = ck.write("shadow_%s.txt" % u.name, sh)
    res = {}
    try:
        p = ck.run([tracer], env={"VERIF_SHADOW": shp}, timeout=600)
        m = re.search(r"unit %s\n(.*?)end %s\n" % (re.escape(u.name), re.escape(u.name)), p.stdout, re.S)
        if m:
            nodes, outs = {}, {}
            for line in m.group(1).splitlines():
                f = line.split()
                if f[0] == "n":
                    nodes[int(f[1])] = float(line.split(";")[1])
                elif f[0] == "out":
                    outs[f[1]] = int(f[2])
            for o in outnames:
                res[o] = nodes.get(outs.get(o))
    except Exception as e:  # support only
        res["replay_error"] = repr(e)
    return res


def search(ck, units, rng, tracer, trials):
    """exact evaluation of the property's predicate on every traced unit; returns failures and statistics"""
    found = {}
    stats = {"units_evaluated": 0, "points": 0, "skipped_division_by_zero": 0, "pair_units": 0, "stress_units": 0}
    SS = stress_specs()
    for u in units:
        m = re.match(r"N(\d)_([A-Z_0-9]+?)__([A-Z_0-9]+)$", u.name)
        if not m and u.name not in SS:
            continue
        stats["units_evaluated"] += 1
        stats["pair_units" if m else "stress_units"] += 1
        done = 0
        attempts = 0
        while done < trials and attempts < 6 * trials:
            attempts += 1
            try:
                if m:
                    n, to, frm = int(m.group(1)), m.group(2), m.group(3)
                    env, data = ref23.pair_point(rng, n, to, frm, t1.rnd_rat)
                    val = emit.evaluate(u, env)
                    outs = {o: val[i] for o, i in u.outs}
                    lhs, rhs = ref23.pair_residual(n, to, frm, data, outs)
                    bad = ref23.compare(lhs, rhs, frm)
                    if bad:
                        i, j = bad[0]
                        rep = {"unit": u.name, "what": "lam_%s(conv(D) : k_%s) != lam_%s(D : k_%s), entry (%d,%d)" % (to, to, frm, frm, i, j),
                               "inputs_exact": {k: repr(v) for k, v in env.items()},
                               "variation_L": [[repr(x) for x in r] for r in data["L"].a],
                               "lhs_exact": repr(lhs.a[i][j]), "rhs_exact": repr(rhs.a[i][j]),
                               "lhs": float(lhs.a[i][j]), "rhs": float(rhs.a[i][j])}
                        dbl = replay_double(ck, tracer, u, env, [o for o, _ in u.outs])
                        if "replay_error" not in dbl and all(v is not None for v in dbl.values()):
                            qd = {k: Q2(Fraction(v)) for k, v in dbl.items()}
                            l2, r2 = ref23.pair_residual(n, to, frm, data, qd)
                            rep["real_code_double"] = {"lhs": float(l2.a[i][j]), "rhs": float(r2.a[i][j])}
                        found[u.name] = rep
                        break
                else:
                    env, chk = SS[u.name](rng)
                    val = emit.evaluate(u, env)
                    outs = {o: val[i] for o, i in u.outs}
                    bad = chk(outs)
                    if bad:
                        rep = {"unit": u.name, "output": bad[0], "inputs_exact": {k: repr(v) for k, v in env.items()},
                               "code_value_exact": repr(outs[bad[0]]), "code_value": float(outs[bad[0]])}
                        rep["real_code_double"] = replay_double(ck, tracer, u, env, [bad[0]])
                        found[u.name] = rep
                        break
            except ZeroDivisionError:
                stats["skipped_division_by_zero"] += 1
                continue
            done += 1
            stats["points"] += 1
    return found, stats


# ------------------------------------------------------------------ generated Lean
def gen_lean(ck, units, by, chain_ok):
    mods = []

    def w(name, us):
        txt, _ = emit23.emit_file(us, "TfelVerif.C23.Gen", None)
        ck.write_gen("TfelVerif/C23/%s.lean" % name, txt)
        mods.append("TfelVerif.C23." + name)
    w("GenStress", [by["N%d_%s" % (n, s)] for n in (1, 2, 3) for s in STRESS_UNITS])
    w("GenN1", [by["N1_%s__%s" % (a, b)] for a, b in PAIRS])
    for g, names in N2_GROUPS.items():
        w("GenN2%s" % g, [by["N2_" + nm] for nm in names])
    for a, b in N3_BASE:
        w("GenN3_%s__%s" % (a, b), [by["N3_%s__%s" % (a, b)]])
    for core in CORES3:
        w("GenN3_" + core, [by["N3_" + core]])
    # chained converters (N = 2, 3): emitted as the composition of their parts when structurally identical,
    # else as their own (large) DAG
    bnd = "{K : Type} [Field K] (c c3 : K) (fn : Fns K) (k : Nat → Nat → K) (f g s : Nat → K)"
    for n in (2, 3):
        imports = ["import TfelVerif.C23.Spec", "import TfelVerif.C23.GenStress"]
        body = []
        own = []
        for comp, stages in chains_of(n).items():
            if not chain_ok.get("N%d_%s" % (n, comp)):
                own.append(by["N%d_%s" % (n, comp)])
                continue
            expr = None
            for name, feed in stages:
                if name == "invert@g":
                    expr = ("g", "(vecOf (N%d_invert_r c c3 fn g))" % n)
                    continue
                if name == "cauchy_to_pk2@g":
                    expr = ("p", "(vecOf (N%d_cauchy_to_pk2_r c c3 fn s g))" % n)
                    continue
                if name.endswith("_core"):
                    imp = "import TfelVerif.C23.GenN3_%s" % name
                    if imp not in imports:
                        imports.append(imp)
                    expr = ("k", "(N%d_%s_r c c3 fn k %s g)" % (n, name, expr[1]))
                    continue
                if name not in CHAINS:
                    imp = "import TfelVerif.C23.GenN3_%s" % name if n == 3 else \
                        "import TfelVerif.C23.GenN2%s" % [g for g, v in N2_GROUPS.items() if name in v][0]
                    if imp not in imports:
                        imports.append(imp)
                kk, gg = "k", "g"
                if expr is not None:
                    if expr[0] == "g":
                        gg = expr[1]
                    else:
                        kk = "(matOf %s)" % expr[1]
                expr = ("k", "(N%d_%s_r c c3 fn %s f %s s)" % (n, name, kk, gg))
            body.append("/-- `%s` is written in the source as the chain %s; the traced DAG of the composite is\nstructurally identical to this composition (checked on every run by harness/C23/struct23.py). -/\n"
                        "noncomputable def N%d_%s_r %s : List (List K) :=\n  %s\n" % (
                            comp, " ; ".join(st for st, _ in stages), n, comp, bnd, expr[1][1:-1]))
        txt = "-- GENERATED by checks/C23.py from /repo's current sources. Do not edit.\n" + "\n".join(imports) + \
            "\nset_option linter.all false\nnamespace TfelVerif.C23.Gen\nopen TfelVerif TfelVerif.C23\n\n" + "\n".join(body) + \
            "\nend TfelVerif.C23.Gen\n"
        if own:
            w("GenN%dOwn" % n, own)
            txt = txt.replace("import TfelVerif.C23.GenStress", "import TfelVerif.C23.GenStress\nimport TfelVerif.C23.GenN%dOwn" % n)
        ck.write_gen("TfelVerif/C23/GenN%dChains.lean" % n, txt)
        mods.append("TfelVerif.C23.GenN%dChains" % n)
    return mods


def chain_status(by, log):
    """structural identity of every chained converter with the composition of its traced parts"""
    chain_ok = {}
    for n in (1, 2, 3):
        inv = copy.deepcopy(by["N%d_invert" % n])
        for j, (o, p) in list(inv.nodes.items()):
            if o == "in":
                inv.nodes[j] = ("in", "g" + p[1:])
        inv.inputs = ["g" + x[1:] for x in inv.inputs]
        by2 = dict(by)
        by2["N%d_invert@g" % n] = inv
        c2 = copy.deepcopy(by["N%d_cauchy_to_pk2" % n])
        for j, (o, p) in list(c2.nodes.items()):
            if o == "in" and p[0] == "f":
                c2.nodes[j] = ("in", "g" + p[1:])
        c2.inputs = [("g" + x[1:] if x[0] == "f" else x) for x in c2.inputs]
        by2["N%d_cauchy_to_pk2@g" % n] = c2
        for comp, stages in chains_of(n).items():
            diff = struct23.compare(by2, "N%d_%s" % (n, comp), [("N%d_%s" % (n, s), f) for s, f in stages])
            chain_ok["N%d_%s" % (n, comp)] = diff is None
            if diff is not None:
                log("chain %s N=%d: %s" % (comp, n, diff))
    return chain_ok


PROPS = (["TfelVerif.C23.PropsStress", "TfelVerif.C23.PropsN1"]
         + ["TfelVerif.C23.PropsN2%s" % g for g in N2_GROUPS] + ["TfelVerif.C23.PropsN2Chains"]
         + ["TfelVerif.C23.PropsN3_%s__%s" % p for p in N3_BASE] + ["TfelVerif.C23.PropsN3_" + x for x in CORES3]
         + ["TfelVerif.C23.PropsN3_SPATIAL_MODULI__DS_DEGL_aux%d" % k for k in range(6)]
         + ["TfelVerif.C23.PropsN3_DPK1_DF__DS_DEGL_core_aux%d" % k for k in range(9)]
         + ["TfelVerif.C23.PropsN3Chains"]
         + ["TfelVerif.C23.PropsCompose%d" % n for n in (1, 2, 3)] + ["TfelVerif.C23.PropsNonVacuity"])


def run(ck):
    rng = random.Random(ck.seed)
    # ---- 1. tables
    inst, mfront_pairs = read_tables(ck)
    covered = set(PAIRS)
    table_notes = []
    for p in inst:
        if p not in covered and p not in OUT_OF_SCOPE:
            ck.violation("table:new-pair:%s<-%s" % p, "converter %s <- %s is specialised in %s but not covered by a theorem" % (p[0], p[1], IXX),
                         {"pair": p}, False)
    for p in PAIRS + OUT_OF_SCOPE:
        if p not in inst:
            ck.violation("table:removed-pair:%s<-%s" % p, "converter %s <- %s is covered by a theorem but no longer specialised in %s" % (p[0], p[1], IXX),
                         {"pair": p}, False)
    if len(inst) != len(set(inst)):
        table_notes.append("duplicate specialisation in the .ixx")
    for p in mfront_pairs:
        if p not in inst:
            ck.violation("table:mfront:%s<-%s" % p, "mfront's conversion table uses convert<%s,%s> which has no specialisation" % p,
                         {"pair": p}, False)
    bins = ck.cxx_many([
        ("c23flags", ["C23/flags.cxx", vlib.REPO + "/src/Material/FiniteStrainBehaviourTangentOperator.cxx",
                      vlib.REPO + "/src/Exception/ContractViolation.cxx"]),
        ("c23trace", ["C23/trace.cxx", vlib.REPO + "/src/Exception/ContractViolation.cxx"])], opt="-O0")
    flags = flag_dump(ck, bins["c23flags"])
    for row in flags:
        name, stype, ttype = row[0], row[1], row[2]
        exp = {"ST": "t2tost2", "SS": "st2tost2", "TT": "t2tot2"}.get(ref23.SHAPE.get(name, ""), None)
        if stype != ttype:
            ck.violation("table:flagtype:" + name, "getFiniteStrainBehaviourTangentOperatorFlagType(%s) = %s but tangent_operator<%s> is a %s" % (name, stype, name, ttype),
                         {"flag": name, "string": stype, "type": ttype}, True)
        if exp is not None and ttype != exp:
            ck.violation("table:flagshape:" + name, "flag %s is stored as %s, the specification assumes %s" % (name, ttype, exp),
                         {"flag": name, "type": ttype}, False)
    # ---- 2. trace
    tracer = bins["c23trace"]
    dag, units = t1.run_tracer(ck, tracer)
    by = {u.name: u for u in units}
    expected_units = ["N%d_%s" % (n, s) for n in (1, 2, 3) for s in STRESS_UNITS] + \
        ["N%d_%s__%s" % (n, a, b) for n in (1, 2, 3) for a, b in PAIRS] + ["N3_" + x for x in CORES3]
    missing = [x for x in expected_units if x not in by]
    if missing:
        raise vlib.BuildError("tracer did not produce units %s" % missing[:5], "")
    chain_ok = chain_status(by, ck.log)
    # ---- 3. Lean
    genmods = gen_lean(ck, units, by, chain_ok)
    res = ck.lean(genmods + PROPS, PROPS)
    # ---- 4. exact evaluation of the predicate on every traced unit
    trials = 3 if ck.quick else 25
    found, stats = search(ck, units, rng, tracer, trials)
    reported = set()
    for n3, ok in chain_ok.items():
        if not ok:
            unit = n3
            f = found.get(unit)
            ck.violation("chain:" + unit, "converter %s is no longer structurally the chain of converters the theorems compose%s" % (
                unit, "; its result violates the chain rule at the input shown" if f else " (the predicate still holds at every evaluated point)"),
                f or {"unit": unit}, bool(f))
            reported.add(unit)
    if not res.ok:
        def srch(fl):
            thm = fl.get("theorem") or ""
            if thm in found:
                return found[thm]
            cands = [u for u in found if thm.startswith(u) or u.startswith(thm)]
            return found[cands[0]] if cands else None
        ck.lean_violations(res, srch)
        reported |= {(fl.get("theorem") or "") for fl in res.failed}
    for unit, f in found.items():
        if not any(r and (r.startswith(unit) or unit.startswith(r)) for r in reported):
            # a unit whose meaning is carried by a chain theorem (its own DAG is not re-proved) or a stale proof
            ck.violation("eval:" + unit, "exact evaluation of traced unit %s violates the property's predicate" % unit, f, True)
    if ck.tier == "thorough" and res.ok:
        for m, log in ck.leanchecker(PROPS):
            ck.violation("leanchecker:" + m, "leanchecker rejects " + m, {"log": log}, False)
    ck.assumptions += [
        "T1: g++ instantiating TFEL with verif::Sym performs the same scalar operations as with double; sym.hxx/glue.hxx and harness/C23/emit23.py (rendering of the DAG) are correct",
        "chained converters (written in the .ixx as convert<..>(convert<..>(..))) are tied by an exact structural comparison of DAGs done in python (harness/C23/struct23.py), not in Lean; in 3D their theorems are about the composition of the traced parts",
        "exact field semantics: rounding, overflow, underflow not modelled",
        "meaning of each flag (kinematic variable, stress rate) as written in lean/TfelVerif/C23/Spec.lean; DT_DELOG conversions (LogarithmicStrainHandler) are C24's",
        "rate-type moduli obtained from d tau/dF (C_TAU_JAUMANN, SPATIAL_MODULI, C_TRUESDELL, ABAQUS <- DTAU_DF) are stated for spin-free variations; the general case needs the objectivity of the source operator",
    ]
    return ck.finish({
        "units_traced": len(units), "outputs_traced": sum(len(u.outs) for u in units),
        "dag_nodes": sum(len(u.order) for u in units),
        "converter_specialisations_in_source": len(inst), "covered_pairs": len(PAIRS), "out_of_scope_pairs": OUT_OF_SCOPE,
        "mfront_table_pairs": len(mfront_pairs), "flags_dumped": len(flags),
        "chains_structurally_identical": sum(1 for v in chain_ok.values() if v), "chains_checked": len(chain_ok),
        "evaluations": stats["points"], "distinct_nontrivial": stats["points"],
        "rule": "each traced unit evaluated exactly over Q(sqrt2) at seeded random rational (F0, F1, sigma, source operator, variation L); the property's predicate (chain rule / definition of the stress measure) is evaluated on the result; distinct = points (random rationals, singular draws skipped)",
        "search_stats": stats, "table_notes": table_notes,
        "samples": [{"unit": u.name, "inputs": len(u.inputs), "outputs": len(u.outs), "nodes": len(u.order)} for u in units[:3] + units[-3:]],
    })
