"""C02 helper module (second batch of traced units + double precision harness).

* `extra_specs(M)`: index-notation references (exact, over Q(sqrt2)) of the units of harness/C02/trace_extra.hxx;
  `M` is the checks/C02.py module (its reference vocabulary is reused).
* `run_numeric(ck, binary, rng)`: drives harness/C02/numeric.cxx (polar_decomposition 2D/3D, invert and det of
  st2tost2, which go through the eigen-solver / a pivoting LU and cannot be traced exactly) and evaluates the
  property's own predicate on the answers in exact rational arithmetic (the doubles are rationals).
"""
import math
from fractions import Fraction as Fr

EXTRA_OPS = ("t_access_expr", "t_pushForward_alias", "t_cauchy_to_pk2", "t_pk2_to_cauchy", "t_cauchy_to_pk1",
             "t_pk1_to_cauchy", "t_ddet_inplace", "t_import_write", "t_d2det", "t_velocity_gradient_derivative",
             "t_spin_rate_derivative", "st_setComponent", "st_trace", "st_quaddot", "st_push_forward_derivative",
             "st_det", "st_from_rows", "tt_from_rows", "st_import", "tt_import")


def extra_specs(M):
    F = {}
    R3, ZERO, ONE, HALF = M.R3, M.ZERO, M.ONE, M.HALF
    mm = M.m3_of

    def eps(i, j, k):
        return [ZERO, ONE, -ONE][((j - i) * (k - i) * (k - j) // 2) % 3] if len({i, j, k}) == 3 else ZERO

    def ot(Mx, N): return Mx.tens(N)
    def os_(Mx, N): return Mx.mandel(N)
    F["t_access_expr"] = lambda x: (lambda A, B: [A[i][j] + B[i][j] for i in R3 for j in R3])(x.te("a"), x.te("b"))
    F["t_pushForward_alias"] = lambda x: (lambda s, A: os_(mm(A) * mm(s) * mm(A).T(), x.N))(x.st("s"), x.te("a"))

    def pk2(x):      # S = J F^-1 sigma F^-T
        s, A = mm(x.st("s")), mm(x.te("a"))
        iA = A.inv()
        return os_(iA * s * iA.T() * A.det(), x.N)
    F["t_cauchy_to_pk2"] = pk2

    def cauchy2(x):  # sigma = F S F^T / J
        s, A = mm(x.st("s")), mm(x.te("a"))
        return os_(A * s * A.T() * (ONE / A.det()), x.N)
    F["t_pk2_to_cauchy"] = cauchy2

    def pk1(x):      # P = J sigma F^-T
        s, A = mm(x.st("s")), mm(x.te("a"))
        return ot(s * A.inv().T() * A.det(), x.N)
    F["t_cauchy_to_pk1"] = pk1

    def cauchy1(x):  # sigma = P F^T / J, the stored shear components are those of the lower triangle
        P, A = x.te("p"), x.te("a")
        J = mm(A).det()
        X = M.t2(lambda i, j: M.s3(lambda k: P[i][k] * A[j][k]) / J)
        return [X[0][0], X[1][1], X[2][2], M.SQ2 * X[1][0], M.SQ2 * X[2][0], M.SQ2 * X[2][1]][:M.NS[x.N]]
    F["t_pk1_to_cauchy"] = cauchy1
    F["t_ddet_inplace"] = lambda x: (lambda A: ot((A.inv() * A.det()).T(), x.N))(mm(x.te("a")))
    F["t_import_write"] = lambda x: (lambda v: v + v + v)(x.vec("v", M.NT[x.N]))
    # d2J/dF2: d cof_ij / d F_kl = eps_ikm eps_jln F_mn
    F["t_d2det"] = lambda x: (lambda A: M.sto4("TT", M.t4(
        lambda i, j, k, l: M.s3(lambda m: M.s3(lambda n: eps(i, k, m) * eps(j, l, n) * A[m][n]))), x.N))(x.te("a"))
    F["t_velocity_gradient_derivative"] = lambda x: (
        lambda A: M.sto4("TT", M.tpld4(M.t2_of(mm(A).inv())), x.N))(x.te("f"))

    def spin(x):     # X -> (X F^-1 - F^-T X^T) / 2
        A = x.te("f")
        iA = M.t2_of(mm(A).inv())
        a, b = M.tpld4(iA), M.comp(M.tprd4(M.T(iA)), M.TRANSP4)
        return M.sto4("TT", M.t4(lambda i, j, k, l: (a[i][j][k][l] - b[i][j][k][l]) * HALF), x.N)
    F["t_spin_rate_derivative"] = spin

    def setc(x):
        S = M.NS[x.N]
        a = x.mat("a", S, S)
        return [M.wS(I) * M.wS(J) * a[I][J] for I in range(S) for J in range(S)]
    F["st_setComponent"] = setc

    def tr(x):
        S = M.NS[x.N]
        a = x.mat("a", S, S)
        C = M.of4("ST", a)
        return [sum((C[i][j][i][j] for i in R3 for j in R3), ZERO)]
    F["st_trace"] = tr

    def qd(x):
        A, B = x.m4("a", "ST"), x.m4("b", "ST")
        return [sum((A[i][j][k][l] * B[k][l][i][j] for i in R3 for j in R3 for k in R3 for l in R3), ZERO)]
    F["st_quaddot"] = qd
    F["st_push_forward_derivative"] = lambda x: (lambda A: M.sto4("ST", M.t4(
        lambda i, j, k, l: (A[i][k] * A[j][l] + A[i][l] * A[j][k]) * HALF), x.N))(x.te("f"))

    def det1(x):
        a = x.mat("a", 3, 3)
        return [M.M3(a).det()]
    F["st_det"] = det1
    F["st_from_rows"] = lambda x: x.vec("v", M.NS[x.N] ** 2)
    F["tt_from_rows"] = lambda x: x.vec("v", M.NT[x.N] ** 2)
    F["st_import"] = lambda x: x.vec("v", M.NS[x.N] ** 2)
    F["tt_import"] = lambda x: x.vec("v", M.NT[x.N] ** 2)
    return F


# ---------------------------------------------------------------------------------------------------
# double precision harness
NS = {1: 3, 2: 4, 3: 6}
NT = {1: 3, 2: 5, 3: 9}
TI = {(0, 0): 0, (1, 1): 1, (2, 2): 2, (0, 1): 3, (1, 0): 4, (0, 2): 5, (2, 0): 6, (1, 2): 7, (2, 1): 8}
VI = {(0, 0): 0, (1, 1): 1, (2, 2): 2, (0, 1): 3, (1, 0): 3, (0, 2): 4, (2, 0): 4, (1, 2): 5, (2, 1): 5}
R3 = range(3)
# tolerances (see checks/meta/C02.json): the drawn problems are well conditioned by construction (stretches in
# [0.6, 1.8], separated by >= 0.15; cond_inf(A) <= 1e3), the observed residuals are < 1e-12; a slip in the code
# (index, sign, coefficient) gives residuals of the order of the data (> 1e-3)
TOL_POLAR = 1e-9
TOL_INV = 1e-9
TOL_DET = 1e-11


def _mat_inv(A):
    """exact inverse (Gauss-Jordan over Q); None if singular"""
    n = len(A)
    M_ = [list(r) + [Fr(int(i == j)) for j in range(n)] for i, r in enumerate(A)]
    for c_ in range(n):
        p = next((r for r in range(c_, n) if M_[r][c_] != 0), None)
        if p is None:
            return None
        M_[c_], M_[p] = M_[p], M_[c_]
        pv = M_[c_][c_]
        M_[c_] = [v / pv for v in M_[c_]]
        for r in range(n):
            if r != c_ and M_[r][c_] != 0:
                f = M_[r][c_]
                M_[r] = [a - f * b for a, b in zip(M_[r], M_[c_])]
    return [r[n:] for r in M_]


def _det(A):
    """exact determinant: Leibniz / cofactor expansion along the first row (independent of any pivoting)"""
    n = len(A)
    if n == 1:
        return A[0][0]
    return sum(((-1) ** j * A[0][j] * _det([r[:j] + r[j + 1:] for r in A[1:]]) for j in range(n) if A[0][j] != 0), Fr(0))


def _mul(A, B):
    return [[sum(A[i][k] * B[k][j] for k in range(len(B))) for j in range(len(B[0]))] for i in range(len(A))]


def _ninf(A):
    return max(sum(abs(v) for v in r) for r in A)


def _rot(rng, N):
    if N == 2:
        t = rng.uniform(-math.pi, math.pi)
        return [[math.cos(t), -math.sin(t), 0.], [math.sin(t), math.cos(t), 0.], [0., 0., 1.]]
    while True:
        q = [rng.gauss(0, 1) for _ in range(4)]
        n = math.sqrt(sum(v * v for v in q))
        if n > 0.1:
            break
    w, x, y, z = [v / n for v in q]
    return [[1 - 2 * (y * y + z * z), 2 * (x * y - z * w), 2 * (x * z + y * w)],
            [2 * (x * y + z * w), 1 - 2 * (x * x + z * z), 2 * (y * z - x * w)],
            [2 * (x * z - y * w), 2 * (y * z + x * w), 1 - 2 * (x * x + y * y)]]


def _fmul(A, B):
    return [[sum(A[i][k] * B[k][j] for k in R3) for j in R3] for i in R3]


def _stretches(rng):
    while True:
        l = sorted(rng.uniform(0.6, 1.8) for _ in R3)
        if l[1] - l[0] >= 0.15 and l[2] - l[1] >= 0.15:
            rng.shuffle(l)
            return l


def polar_requests(rng, count):
    reqs = []
    for k in range(count):
        N = 3 if k % 2 == 0 else 2
        Q, R = _rot(rng, N), _rot(rng, N)
        l = _stretches(rng)
        D = [[l[i] if i == j else 0. for j in R3] for i in R3]
        U = _fmul(_fmul(Q, D), [[Q[j][i] for j in R3] for i in R3])
        Fm = _fmul(R, U)
        inv = {v: k_ for k_, v in TI.items()}
        reqs.append(("polar", N, [Fm[inv[I][0]][inv[I][1]] for I in range(NT[N])]))
    return reqs


def _rand_matrix(rng, n, style):
    while True:
        A = [[round(rng.uniform(-1, 1), 3) for _ in range(n)] for _ in range(n)]
        if style == "zero-diagonal":        # forces row exchanges in the LU
            for i in range(n):
                A[i][i] = 0.0
        elif style == "permuted-dominant":  # a row permutation of a diagonally dominant matrix
            p = list(range(n))
            rng.shuffle(p)
            for i in range(n):
                A[i][p[i]] += rng.choice([-1, 1]) * (2.0 + rng.random())
        elif style == "dominant":
            for i in range(n):
                A[i][i] += rng.choice([-1, 1]) * 3.0
        Ae = [[Fr(v) for v in r] for r in A]
        iA = _mat_inv(Ae)
        if iA is None:
            continue
        if _ninf(Ae) * _ninf(iA) <= 1000:
            return A


def lu_requests(rng, count):
    reqs = []
    styles = ["random", "zero-diagonal", "permuted-dominant", "dominant"]
    # fixed corpus first: permutation matrices with non-unit pivots (odd and even permutations)
    corpus = [
        (2, [[0, 2, 0, 0], [3, 0, 0, 0], [0, 0, 5, 0], [0, 0, 0, 7]]),                       # one exchange: det = -210
        (2, [[0, 2, 0, 0], [0, 0, 3, 0], [5, 0, 0, 0], [0, 0, 0, 7]]),                       # 3-cycle: det = +210
        (3, [[0, 0, 0, 0, 0, 2], [0, 3, 0, 0, 0, 0], [0, 0, 5, 0, 0, 0], [0, 0, 0, 7, 0, 0], [0, 0, 0, 0, 11, 0],
             [13, 0, 0, 0, 0, 0]]),                                                           # one exchange
        (3, [[1, 2, 0, 0, 0, 0], [3, 4, 0, 0, 0, 0], [0, 0, 0, 1, 0, 0], [0, 0, 2, 0, 0, 0], [0, 0, 0, 0, 0, 3],
             [0, 0, 0, 0, 5, 0]]),
        (1, [[0, 1, 2], [3, 0, 1], [1, 1, 0]]),
    ]
    for N, A in corpus:
        A = [[float(v) for v in r] for r in A]
        reqs.append(("stdet", N, A, "row-exchange"))
        reqs.append(("stinv", N, A))
    for k in range(count):
        N = (3, 2, 1)[k % 3]
        st = styles[(k // 3) % 4]
        A = _rand_matrix(rng, NS[N], st)
        # det: only the styles whose need for a row exchange is known by construction, so that the violation
        # key (dimension + class) is stable from one seed to the next
        if st != "random":
            reqs.append(("stdet", N, A, {"zero-diagonal": "row-exchange", "permuted-dominant": "row-exchange",
                                         "dominant": "no-exchange"}[st]))
        reqs.append(("stinv", N, A))
    # singular: det = 0 exactly (a zero row), invert is not called
    reqs.append(("stdet", 2, [[1., 2., 3., 4.], [0., 0., 0., 0.], [2., 1., 0., 1.], [1., 1., 1., 3.]], "singular"))
    return reqs


def _line(op, N, data, *_):
    flat = data if op == "polar" else [v for r in data for v in r]
    return "%s %d %s" % (op, N, " ".join("%.17g" % v for v in flat))


def _check_polar(N, f, ans):
    T, S = NT[N], NS[N]
    r, u = ans[:T], ans[T:T + S]

    def tens(v):
        return [[Fr(v[TI[i, j]]) if TI[i, j] < len(v) else Fr(0) for j in R3] for i in R3]
    Fm, Rm = tens(f), tens(r)
    isq2 = Fr(math.sqrt(0.5))       # the stored shear components are sqrt2 * U_ij: decode in double precision
    Um = [[(Fr(u[VI[i, j]]) * (Fr(1) if i == j else isq2)) if VI[i, j] < S else Fr(0) for j in R3] for i in R3]
    out = {}
    RtR = _mul([[Rm[j][i] for j in R3] for i in R3], Rm)
    out["orthogonality_residual"] = float(max(abs(RtR[i][j] - int(i == j)) for i in R3 for j in R3))
    out["det_R"] = float(_det(Rm))
    RU = _mul(Rm, Um)
    nF = max(abs(v) for r_ in Fm for v in r_)
    out["RU_minus_F_relative_residual"] = float(max(abs(RU[i][j] - Fm[i][j]) for i in R3 for j in R3) / nF)
    minors = [Um[0][0], Um[0][0] * Um[1][1] - Um[0][1] * Um[1][0], _det(Um)]
    out["U_leading_minors"] = [float(m) for m in minors]
    bad = []
    if out["orthogonality_residual"] > TOL_POLAR:
        bad.append("R^T R != 1")
    if not out["det_R"] > 0:
        bad.append("det R <= 0")
    if out["RU_minus_F_relative_residual"] > TOL_POLAR:
        bad.append("R U != F")
    if not all(m > 0 for m in minors):
        bad.append("U not positive definite")
    return bad, out


def run_numeric(ck, binary, rng):
    """returns (violations, stats); a violation is (key, what, replay)"""
    n_polar = 12 if ck.quick else 200
    n_lu = 24 if ck.quick else 300
    reqs = polar_requests(rng, n_polar) + lu_requests(rng, n_lu)
    p = ck.run([binary], input="\n".join(_line(*r) for r in reqs) + "\n", timeout=600)
    lines = p.stdout.strip().splitlines()
    viol, seen = [], set()
    stats = {"polar": 0, "stinv": 0, "stdet": 0, "stdet_with_row_exchange_expected": 0,
             "max_polar_residual": 0.0, "max_inverse_residual": 0.0, "max_det_relative_error": 0.0}

    def report(key, what, rep):
        if key not in seen:     # one replay per broken predicate
            seen.add(key)
            viol.append((key, what, rep))
    if p.returncode != 0 or len(lines) != len(reqs):
        report("numeric:harness", "the double precision harness failed (exit %s, %d answers for %d requests)"
               % (p.returncode, len(lines), len(reqs)), {"stderr": p.stderr[-2000:]})
        return viol, stats
    for req, line in zip(reqs, lines):
        op, N, data = req[:3]
        f = line.split()
        stats[op] += 1
        if len(f) < 3 or f[0] != op or f[2] == "exception":
            report("%s:N%d:exception" % (op, N), "%s<%d> failed on a regular input: %s" % (op, N, line),
                   {"request": _line(op, N, data), "answer": line})
            continue
        ans = [float(v) for v in f[2:]]
        if op == "polar":
            bad, out = _check_polar(N, data, ans)
            stats["max_polar_residual"] = max(stats["max_polar_residual"], out["orthogonality_residual"],
                                              out["RU_minus_F_relative_residual"])
            if bad:
                out.update({"request": _line(op, N, data), "answer": line, "violated": bad, "N": N, "F_stored": data})
                report("TensorConcept.ixx:polar_decomposition:N%d" % N,
                       "polar_decomposition<%d>: %s (F = R U with R a rotation and U symmetric positive definite)"
                       % (N, ", ".join(bad)), out)
        elif op == "stinv":
            n = NS[N]
            A = [[Fr(v) for v in r] for r in data]
            B = [[Fr(ans[i * n + j]) for j in range(n)] for i in range(n)]
            AB, BA = _mul(A, B), _mul(B, A)
            res = float(max(max(abs(AB[i][j] - int(i == j)), abs(BA[i][j] - int(i == j))) for i in range(n) for j in range(n)))
            stats["max_inverse_residual"] = max(stats["max_inverse_residual"], res)
            if res > TOL_INV:
                report("st2tost2.ixx:invert:N%d" % N, "invert(st2tost2<%d>): A * invert(A) != Id (residual %.3g)" % (N, res),
                       {"N": N, "A_stored_rows": data, "invert_A_returned": [ans[i * n:(i + 1) * n] for i in range(n)],
                        "residual": res, "request": _line(op, N, data)})
        else:
            A = [[Fr(v) for v in r] for r in data]
            exact = _det(A)
            scale = 1.0
            for r in data:
                scale *= math.sqrt(sum(v * v for v in r)) or 1.0
            err = abs(float(Fr(ans[0]) - exact)) / scale
            stats["max_det_relative_error"] = max(stats["max_det_relative_error"], err if err < 1e-3 else 0.0)
            cls = req[3]
            if cls == "row-exchange":
                stats["stdet_with_row_exchange_expected"] += 1
            if err > TOL_DET:
                # key: dimension + class of the input (does the LU need a row exchange?); a result of the right
                # magnitude and the wrong sign is a class of its own
                if exact != 0 and abs(abs(float(Fr(ans[0]))) - abs(float(exact))) / scale <= TOL_DET:
                    cls = "sign"
                if N == 1:
                    cls = "closed-form"
                report("ST2toST2Concept.ixx:det:N%d:%s" % (N, cls),
                       "det(st2tost2<%d>) = %.17g but the determinant of the stored matrix is %.17g"
                       % (N, ans[0], float(exact)),
                       {"N": N, "A_stored_rows": data, "det_returned": ans[0], "det_exact": float(exact),
                        "det_exact_rational": str(exact), "request": _line(op, N, data)})
    return viol, stats
