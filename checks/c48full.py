"""C48 helper: complete MTest problems run through the PUBLIC interface of mtest::MTest (harness op `mx`,
harness/C48/fullrun.hxx) and observed at the MTest result file.

The generator draws a modelling hypothesis, a (strain based or general) mock behaviour, imposed gradients and
forces (constant, LPI built from vectors, LPI built by make_evolution from a map, function evolutions), constraint
options (initially inactive, activating / desactivating events), events at requested times, tolerances given
through the setters, output frequency; `mx_property` evaluates the property's own predicate on the rows of the
result file:
  * the rows are the requested times, in order (plus the accepted sub-steps when every period is printed);
  * at every row, each component on which a gradient is imposed (explicitly, or implied by the hypothesis:
    plane strain / plane stress / axisymmetrical generalised plane stress) equals its evolution within eeps,
    each component on which a force is imposed equals its evolution within seps, and each component left free
    carries no force (within seps) - for the constraints that are ACTIVE during the step that ends at this row
    (initial status, then the events whose time is not after the beginning of the step).
"""
import math

from checks.c48lib import hx, uh

HYPS = [("Tridimensional", 6), ("PlaneStrain", 4), ("PlaneStress", 4), ("AxisymmetricalGeneralisedPlaneStress", 3),
        ("Axisymmetrical", 4), ("GeneralisedPlaneStrain", 4), ("AxisymmetricalGeneralisedPlaneStrain", 3)]
#: constraints added by MTest::completeInitialisation for strain based behaviours: (kind, component), value 0
IMPLIED = {"PlaneStrain": [("g", 2)], "PlaneStress": [("g", 2), ("f", 2)],
           "AxisymmetricalGeneralisedPlaneStress": [("g", 1), ("f", 1)]}
FORMULAS = [("a*t+x", lambda t, a, b: a * t + b), ("2*t+1", lambda t, a, b: 2 * t + 1),
            ("a-x*t", lambda t, a, b: a - b * t), ("(a+x)/4", lambda t, a, b: (a + b) / 4), ("x+t", lambda t, a, b: b + t)]


def pairs(pts):
    return " ".join("%s %s" % (hx(t), hx(v)) for t, v in pts)


def table(pts):
    """std::map semantics: sorted by time, first insertion wins"""
    m = {}
    for t, v in pts:
        if t not in m:
            m[t] = v
    return sorted(m.items())


def lpi(m, t):
    """operation order of LPIEvolution::interpolate"""
    if len(m) == 1 or not (m[0][0] < t):
        return m[0][1]
    prev = m[0]
    for q in m[1:]:
        if q[0] < t:
            prev = q
            continue
        return (q[1] - prev[1]) / (q[0] - prev[0]) * (t - prev[0]) + prev[1]
    return prev[1]


def ev_value(e, t):
    k = e[0]
    if k in ("c", "k"):
        return e[1]
    if k in ("l", "m"):
        return lpi(table(e[1]), t)
    if k == "F":
        return e[2](t, ev_value(e[3], t), ev_value(e[4], t))
    raise ValueError(k)


def ev_text(e):
    k = e[0]
    if k in ("c", "k"):
        return "%s %s" % (k, hx(e[1]))
    if k in ("l", "m"):
        return "%s %d %s" % (k, len(e[1]), pairs(e[1]))
    return "F %s 2 a %s x %s" % (e[1], ev_text(e[3]), ev_text(e[4]))


def gen_evolution(rng, times, scale, depth=0):
    x = rng.random()
    if x < 0.15:
        return ("c", rng.uniform(-0.5, 0.5) * scale)
    if x < 0.25:
        return ("k", rng.uniform(-0.5, 0.5) * scale)
    if x < 0.85 or depth > 0:
        pts = [(t, rng.uniform(-0.5, 0.5) * scale) for t in times if rng.random() < 0.8]
        if rng.random() < 0.3:
            # points that are not requested times: the values at the requested times are interpolated
            t0, t1 = times[0], times[-1]
            pts = [(t0 + (t1 - t0) * rng.random(), rng.uniform(-0.5, 0.5) * scale) for _ in range(rng.randint(1, 4))]
        pts = pts or [(times[0], 0.1 * scale)]
        rng.shuffle(pts)
        return (rng.choice(["l", "m"]), pts)
    f, fn = rng.choice(FORMULAS)
    return ("F", f, fn, gen_evolution(rng, times, min(scale, 1.0) * 0.5, 1), gen_evolution(rng, times, min(scale, 1.0) * 0.5, 1))


def gen_mx(rng):
    strain = rng.random() < 0.7
    hyp, size = rng.choice(HYPS)
    ndv = size if strain else rng.randint(1, 4)
    implied = IMPLIED.get(hyp, []) if strain else []
    dec = {c for _, c in implied if ("f", c) in implied}     # components the behaviour itself keeps stress free
    D = [[0.0] * ndv for _ in range(ndv)]
    for i in range(ndv):
        for j in range(i):
            if i in dec or j in dec:
                continue
            D[i][j] = D[j][i] = rng.uniform(-1, 1)
    for i in range(ndv):
        D[i][i] = rng.uniform(3, 10) + sum(abs(x) for x in D[i])
    nl = rng.choice([0.0, 0.0, 0.5, 2.0])
    eeps = rng.choice([1e-11, 1e-11, 1e-9])
    seps = rng.choice([1e-8, 1e-8, 1e-6])
    dyn = rng.random() < 0.4
    nt = rng.randint(2, 6)
    times = [rng.choice([0.0, 0.0, 1.0, -2.0, 10.0])]
    for _ in range(nt - 1):
        times.append(times[-1] + rng.choice([1.0, 0.5, 2.0, rng.uniform(0.1, 3)]))
    with_events = nt >= 3 and rng.random() < 0.45
    names = ["E0", "E1"][:rng.randint(1, 2)] if with_events else []
    events = []
    for n in names:
        ts = sorted(rng.sample(times[1:-1], rng.randint(1, min(2, len(times) - 2))))
        events.append((n, ts))
    cons = []
    taken = {c for k, c in implied if k == "g"}
    for c in range(ndv):
        if c in taken:
            continue
        x = rng.random()
        if x < 0.45:
            kind = "g"
        elif x < 0.85:
            kind = "f"
        else:
            continue
        e = gen_evolution(rng, times, 1.0 if kind == "g" else 10.0)
        opt = None
        if with_events and rng.random() < 0.6:
            act, des = [], []
            for n in names:
                (act if rng.random() < 0.5 else des).append(n)
            opt = (rng.random() < 0.5, act, des)
        cons.append((kind, c, opt, e))
    ns = rng.choice([0, 0, 0, 4, 12])
    script = []
    for _ in range(ns):
        if rng.random() < 0.25:
            script.append((0, rng.choice([0.4, 0.5, 0.3, 0.25, 0.7])))
        else:
            script.append((1, rng.choice([1.0, 1.0, 1.5, 0.6])))
    pp = rng.choice([0, 0, 1, 2])
    freq = 1 if rng.random() < 0.3 else 0
    lag = 1 if rng.random() < 0.3 else 0
    ctext = []
    for kind, c, opt, e in cons:
        if opt is None:
            ctext.append("%s %d 0 %s" % (kind, c, ev_text(e)))
        else:
            ctext.append("%s %d 1 %d %d %s %d %s %s" % (kind, c, 1 if opt[0] else 0, len(opt[1]), " ".join(opt[1]),
                                                       len(opt[2]), " ".join(opt[2]), ev_text(e)))
    line = "mx %s %d %d %s %s %s %s %d %d %d %d %d %d %d %s %d %s %d %s %d %s" % (
        hyp, 1 if strain else 0, ndv, hx(nl), " ".join(hx(D[i][j]) for i in range(ndv) for j in range(ndv)),
        hx(eeps), hx(seps), 1 if dyn else 0, 10, 60, pp, freq, lag, nt, " ".join(map(hx, times)),
        len(cons), " ".join(ctext), len(events),
        " ".join("%s %d %s" % (n, len(ts), " ".join(map(hx, ts))) for n, ts in events),
        len(script), " ".join("%d %s" % (ok, hx(f)) for ok, f in script))
    line = " ".join(line.split())
    return {"kind": "mx", "line": line, "hyp": hyp, "strain": strain, "ndv": ndv, "times": times, "cons": cons,
            "implied": implied, "events": events, "eeps": eeps, "seps": seps, "dyn": dyn, "freq": freq, "lagrange": lag,
            "ppolicy": pp, "nl": nl, "script": script}


def active_sets(req):
    """for each step k (times[k] -> times[k+1]) the list of booleans 'constraint i is active'"""
    status = [True if opt is None else opt[0] for _, _, opt, _ in req["cons"]]
    evs = []
    for order, (n, ts) in enumerate(req["events"]):
        for t in ts:
            evs.append((t, order, n))
    evs.sort()
    out = []
    p = 0
    for k in range(len(req["times"]) - 1):
        # MTest::execute treats, after the step that ends at te, every event whose time is not after te: they
        # are in force for the steps that begin at te or later
        while k > 0 and p < len(evs) and evs[p][0] <= req["times"][k]:
            n = evs[p][2]
            for i, (_, _, opt, _) in enumerate(req["cons"]):
                if opt is None:
                    continue
                if n in opt[1]:
                    status[i] = True
                if n in opt[2]:
                    status[i] = False
            p += 1
        out.append(list(status))
    return out


def parse_rows(ans):
    f = ans.split()
    rows = []
    i = 0
    while i < len(f):
        if f[i] == "R":
            k = int(f[i + 1])
            rows.append([uh(w) for w in f[i + 2:i + 2 + k]])
            i += 2 + k
        else:
            i += 1
    return rows


def mx_property(req, ans):
    """(holds, why, number of components checked, site key or None)"""
    f = ans.split()
    if not f or f[0] != "end":
        return True, "", 0, None
    rows = parse_rows(ans)
    times = req["times"]
    ndv = req["ndv"]
    nlm = sum(1 for k, _, _, _ in req["cons"] if k == "g") + sum(1 for k, _ in req["implied"] if k == "g")
    width = 1 + ndv + (nlm if req["lagrange"] else 0) + ndv + 2
    site = "mtest/src/MTest.cxx:result-file:"
    if not rows:
        return False, "no row in the result file", 0, site + "times"
    for r in rows:
        if len(r) != width:
            return False, "a row of the result file has %d columns, expected %d" % (len(r), width), 0, site + "layout"
    rt = [r[0] for r in rows]
    if rt[0] != times[0]:
        return False, "the first row is for t=%r, the first requested time is %r" % (rt[0], times[0]), 0, site + "times"
    if not req["freq"]:
        if rt != times:
            return False, "requested times %r, times of the result file %r" % (times, rt), 0, site + "times"
    else:
        if [t for t in rt if t in times] != times or any(b <= a for a, b in zip(rt, rt[1:])):
            return False, "requested times %r, times of the result file %r" % (times, rt), 0, site + "times"
    act = active_sets(req)
    checked = 0
    so = 1 + ndv + (nlm if req["lagrange"] else 0)
    for r in rows[1:]:
        T = r[0]
        k = max(i for i in range(len(times) - 1) if times[i] < T) if T > times[0] else 0
        u = r[1:1 + ndv]
        s = r[so:so + ndv]
        imposed = {}
        for kind, c in req["implied"]:
            imposed.setdefault(c, []).append((kind, 0.0, "implied by the hypothesis %s" % req["hyp"]))
        for i, (kind, c, opt, e) in enumerate(req["cons"]):
            if act[k][i]:
                imposed.setdefault(c, []).append((kind, ev_value(e, T), "imposed"))
        for c in range(ndv):
            for kind, target, how in imposed.get(c, [("free", 0.0, "left free (no active constraint)")]):
                checked += 1
                if kind == "g":
                    got, tol, what, key = u[c], req["eeps"], "gradient", "imposed-gradient"
                elif kind == "f":
                    got, tol, what, key = s[c], req["seps"], "force", "imposed-force"
                else:
                    got, tol, what, key = s[c], req["seps"], "force", "free-component"
                if how.startswith("implied"):
                    key = "hypothesis-constraint"
                # 4x: the convergence test is made on the Newton iterate, rounding of the evolution included
                if not abs(got - target) < 4 * tol:
                    return False, ("row t=%r of the result file: the %s component %d (%s) is %r, its evolution gives %r "
                                   "(tolerance %r; constraints active during the step from %r: %s)" % (
                                       T, what, c, how, got, target, tol, times[k],
                                       [(kk, cc) for j, (kk, cc, _, _) in enumerate(req["cons"]) if act[k][j]])), \
                        checked, site + key
    return True, "", checked, None


def decoded(req):
    return {"hypothesis": req["hyp"], "strain_based_behaviour": req["strain"], "times": req["times"],
            "constraints": [(k, c, opt, ev_text(e)) for k, c, opt, e in req["cons"]],
            "constraints_implied_by_the_hypothesis": req["implied"], "events": req["events"],
            "eeps": req["eeps"], "seps": req["seps"], "dynamic_time_step_scaling": req["dyn"],
            "output_every_period": bool(req["freq"]), "behaviour_script": req["script"], "prediction": req["ppolicy"]}
