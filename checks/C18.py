"""C18 — fixed-size algorithms equal their standard counterparts (ties: M for N = 0..64, all variants;
T1 for the arithmetic templates at N = 0,1,2,3,5,12: harness/C18/trace.cxx -> Gen.lean, PropsGen.lean).

Three programs answer the same request lines:
  model : lean/TfelVerif/C18/Driver.lean   (the object of the theorems of Props.lean)
  impl  : tfel::fsalgo::X<N>::exe          (harness/C18/harness.cxx, built from the current tree, ASan)
  std   : std::X on the first N elements   (same harness, mode "std")
impl vs model = the correspondence that ties the theorems to the code;
impl vs std   = the property itself, evaluated on the implementation for every request on which the
                standard defines the result (no harmful overlap).
"""
import json
import random

import t1
import vlib

PROPS = ["TfelVerif.C18.Props", "TfelVerif.C18.PropsGen"]
SITE = {
    "copy": "copy.hxx:copy<N>::exe", "fill": "fill.hxx:fill<N>::exe",
    "tr1": "transform.hxx:transform<N>::exe(p,q,op)", "tr2": "transform.hxx:transform<N>::exe(p,q,r,op)",
    "acc": "accumulate.hxx:accumulate<N>::exe(p,init)", "accs": "accumulate.hxx:accumulate<N>::exe(p,init)",
    "accop": "accumulate.hxx:accumulate<N>::exe(p,init,op)",
    "ip": "inner_product.hxx:inner_product<N>::exe(p,q,init)",
    "ipop": "inner_product.hxx:inner_product<N>::exe(p,q,init,op1,op2)",
    "ip0": "inner_product.hxx:inner_product<N>::exe<T>(p,q)",
    "eq": "equal.hxx:equal<N>::exe(p,q)", "eqp": "equal.hxx:equal<N>::exe(p,q,pred)",
    "foreach": "for_each.hxx:for_each<N>::exe", "gen": "generate.hxx:generate<N>::exe",
    "iota": "iota.hxx:iota<N>::exe", "min": "min_element.hxx:min_element<N>::exe(p)",
    "minc": "min_element.hxx:min_element<N>::exe(p,comp)", "max": "max_element.hxx:max_element<N>::exe(p)",
    "maxc": "max_element.hxx:max_element<N>::exe(p,comp)", "swap": "swap_ranges.hxx:swap_ranges<N>::exe",
}
# deviations from std:: that are the documented convention of the code (operands passed in the other
# order); reported under these stable keys when -- and only when -- the implementation behaves exactly as
# the model (i.e. as `…_eq_std_flip` of Props.lean says); anything else gets its own key
WRITERS = ("copy", "fill", "tr1", "tr2", "gen", "iota", "swap")   # harness build part 1
ORDER_KEY = {
    "accop": "accumulate::exe(p,init,op):operand-order",
    "accs": "accumulate::exe(p,init):operand-order",
    "maxc": "max_element::exe(p,comp):operand-order",
}


def gen_request(rng, algo, kind, N):
    """one request: (line, std_defined)"""
    nranges = {"copy": 2, "tr1": 2, "tr2": 3, "ip": 2, "ipop": 2, "ip0": 2, "eq": 2, "eqp": 2, "swap": 2}.get(algo, 1)
    writes_last = algo in ("copy", "tr1", "tr2", "swap")
    M = nranges * N + 8 + rng.randint(0, 6)
    overlap = nranges > 1 and rng.random() < 0.3 and N > 0
    if overlap:
        pos = [rng.randint(0, M - N - 4) for _ in range(nranges)]
    else:
        order = list(range(nranges))
        rng.shuffle(order)
        slack = M - 4 - nranges * N
        cuts = sorted(rng.randint(0, slack) for _ in range(nranges))
        pos = [0] * nranges
        for k, r in enumerate(order):
            pos[r] = cuts[k] + k * N
    style = rng.choice(["distinct", "small", "ties"])
    if style == "distinct":
        cells = [7 * i + 3 for i in range(M)]
        rng.shuffle(cells)
    elif style == "small":
        cells = [rng.randint(-50, 50) for _ in range(M)]
    else:
        cells = [rng.randint(-9, 9) for _ in range(M)]
    if algo in ("eq", "eqp") and N > 0 and rng.random() < 0.7:
        # mostly equal ranges, one late mismatch sometimes (short circuit position)
        if abs(pos[0] - pos[1]) >= N:
            for i in range(N):
                cells[pos[1] + i] = cells[pos[0] + i]
            if rng.random() < 0.5:
                cells[pos[1] + rng.randrange(N)] += rng.choice([1, 2, 5])
    args = list(pos)
    if algo == "fill":
        args.append(rng.randint(-99, 99))
    elif algo in ("tr1",):
        args += [rng.randint(-3, 3), rng.randint(-3, 3)]
    elif algo == "tr2":
        args += [rng.randint(-3, 3), rng.randint(-3, 3)]
    elif algo in ("acc", "ip"):
        args.append(rng.randint(-99, 99))
    elif algo == "accs":
        pass
    elif algo == "accop":
        args += [rng.randint(-99, 99), rng.randint(-3, 3), rng.randint(-3, 3)]
    elif algo == "ipop":
        args += [rng.randint(-99, 99), rng.randint(-3, 3), rng.randint(-3, 3)]
    elif algo == "eqp":
        args.append(rng.randint(0, 3))
    elif algo == "gen":
        args.append(rng.randint(0, 999))
    elif algo == "iota":
        args.append(rng.randint(-99, 99))
    # where the standard defines the result
    std_ok = True
    if writes_last and N > 0:
        out = pos[-1]
        if algo == "swap":
            std_ok = abs(pos[0] - pos[1]) >= N
        else:
            std_ok = all(not (p < out < p + N) and not (algo == "copy" and p == out) for p in pos[:-1])
    line = "%s %s %d %s | %s" % (algo, kind, N, " ".join(map(str, args)), " ".join(map(str, cells)))
    return line, std_ok, overlap


def run(ck):
    rng = random.Random(ck.seed)
    asan = ("-fsanitize=address", "-fno-sanitize-recover=all")
    bins = ck.cxx_many([
        ("c18_impl_ra1", ["C18/harness.cxx"], ("-DC18_MODE=1", "-DC18_KIND=1", "-DC18_PART=1") + asan),
        ("c18_impl_ra2", ["C18/harness.cxx"], ("-DC18_MODE=1", "-DC18_KIND=1", "-DC18_PART=2") + asan),
        ("c18_impl_fw", ["C18/harness.cxx"], ("-DC18_MODE=1", "-DC18_KIND=2") + asan),
        ("c18_std", ["C18/harness.cxx"], ("-DC18_MODE=2",)),
        ("c18trace", ["C18/trace.cxx", vlib.REPO + "/src/Exception/ContractViolation.cxx"], ()),
    ], opt="-O0")
    # T1: the arithmetic templates traced with the recording scalar -> Gen.lean (PropsGen.lean: = model)
    dag, units = t1.run_tracer(ck, bins["c18trace"])
    ck.emit([dag], "TfelVerif.C18.Gen", "TfelVerif/C18/Gen.lean")
    driver = ck.lean_exe("c18driver", "TfelVerif/C18/Driver.lean")
    res = ck.lean(PROPS, PROPS)

    algos = list(SITE)
    reps = 2 if ck.quick else 24
    reqs = []
    for algo in algos:
        for kind in ("ra", "fw"):
            for N in range(65):
                for _ in range(reps):
                    line, std_ok, overlap = gen_request(rng, algo, kind, N)
                    reqs.append((algo, kind, N, line, std_ok, overlap))
    text = "".join(r[3] + "\n" for r in reqs)
    inp = ck.write("requests.txt", text)
    outs = {}
    for name, cmd in (("model", [driver]), ("impl_ra1", [bins["c18_impl_ra1"]]),
                      ("impl_ra2", [bins["c18_impl_ra2"]]), ("impl_fw", [bins["c18_impl_fw"]]),
                      ("std", [bins["c18_std"], "std"])):
        p = ck.run(cmd, input=text, timeout=1800, env={"ASAN_OPTIONS": "detect_leaks=0"})
        outs[name] = p.stdout.splitlines()
        if p.returncode != 0:
            # an out-of-range access of the implementation stops the harness: find the request
            k = len(outs[name])
            bad = reqs[k] if k < len(reqs) else None
            ck.violation("%s:memory-error" % (SITE[bad[0]] if bad else name),
                         "%s aborted (AddressSanitizer / crash) on request %r" % (name, bad[3][:200] if bad else "?"),
                         {"program": name, "request": bad[3] if bad else None, "stderr": p.stderr[-2500:]},
                         bool(bad) and name.startswith("impl"))
    _ = inp
    n_std = 0
    n_overlap = 0
    disagreements = 0
    reported = set()
    hist = {}
    for i, (algo, kind, N, line, std_ok, overlap) in enumerate(reqs):
        src = outs["impl_fw"] if kind == "fw" else (outs["impl_ra1"] if algo in WRITERS else outs["impl_ra2"])
        a = src[i] if i < len(src) else "missing"
        m = outs["model"][i] if i < len(outs["model"]) else "missing"
        s = outs["std"][i] if i < len(outs["std"]) else "missing"
        hist[algo] = hist.get(algo, 0) + 1
        n_overlap += overlap
        if a == "missing":
            continue  # harness aborted: reported above
        prop_ok = True
        if std_ok:
            n_std += 1
            prop_ok = (a == s)
        if a == m and prop_ok:
            continue
        disagreements += 1
        rep = {"algorithm": algo, "site": SITE[algo], "iterators": kind, "N": N, "request": line,
               "implementation": a, "std": s if std_ok else "(not defined by the standard on this overlap)",
               "model": m, "equals_std": prop_ok, "equals_model": a == m}
        if not prop_ok:
            key = ORDER_KEY.get(algo) if (a == m and algo in ORDER_KEY) else "%s:%s:N%s" % (
                SITE[algo], kind, "=0" if N == 0 else ("<=10" if N <= 10 else ">10"))
            if key in reported:
                continue
            reported.add(key)
            ck.violation(key, "fsalgo %s (N=%d, %s iterators) differs from the std:: algorithm on the first N elements: "
                         "'%s' vs std '%s'" % (SITE[algo], N, kind, a[:80], s[:80]), rep, True)
        else:
            key = "corr:%s:%s" % (SITE[algo], kind)
            if key in reported:
                continue
            reported.add(key)
            ck.violation(key, "correspondence Model.lean vs %s broken at N=%d (%s): impl '%s' model '%s'%s" % (
                SITE[algo], N, kind, a[:80], m[:80],
                "; std agrees with the implementation" if std_ok else "; overlap not defined by std"), rep, False)
    # a broken theorem (e.g. a traced unit of PropsGen no longer equal to the model): the concrete failing
    # request found by the differential run on the same algorithm, if any, is its failing input
    found_reps = [json.load(open(rp)) for (_, _, rp, fnd) in ck.violations if fnd]

    def search(fl):
        thm = (fl.get("theorem") or "").split("_")[0]
        names = {"acc": ("acc", "accs"), "accop": ("accop",), "ip": ("ip",), "ip0": ("ip0",), "ipop": ("ipop",),
                 "tr1": ("tr1",), "tr2": ("tr2",), "copy": ("copy",), "swap": ("swap",)}.get(thm, ())
        for rep in found_reps:
            if rep.get("algorithm") in names:
                return rep
        return found_reps[0] if (found_reps and not names) else None
    ck.lean_violations(res, search)
    if ck.tier == "thorough" and res.ok:
        for mod, log in ck.leanchecker(PROPS):
            ck.violation("leanchecker:" + mod, "leanchecker rejects " + mod, {"log": log}, False)
    ck.assumptions += [
        "M: Model.lean is tied to the templates by differential execution for every N in 0..64, both iterator categories "
        "(pointers / a forward iterator), every algorithm variant, seeded integer contents; the templates are "
        "value-parametric (they only move, compare and combine elements through the user operations), so integer "
        "contents with ties exercise every path",
        "the std:: side is libstdc++ of the image (call order of user operations as libstdc++ performs it)",
        "harness built at -O0 with AddressSanitizer (a full -O1 ASan+UBSan build of the 65x22x2 instantiations takes > 20 min)",
        "not modelled: C++ implicit conversions (accumulate<N> keeps `auto` intermediates, so with a double range "
        "and an int init it returns int(sum) where std::accumulate truncates at every step: 0.5,0.5,0.5 -> 1 vs 0); "
        "fsalgo::loop<N> (loop.hxx) is ill-formed when instantiated (calls a non-static member without object) "
        "and is not one of the property's algorithms",
    ]
    sample_idx = [0, len(reqs) // 3, len(reqs) // 2, len(reqs) - 1]
    return ck.finish({
        "units_traced": len(units), "outputs_traced": sum(len(u.outs) for u in units),
        "evaluations": len(reqs), "distinct_nontrivial": len({(r[0], r[1], r[2]) for r in reqs if r[2] > 0}),
        "rule": "requests = every (algorithm variant, iterator category, N in 0..64) x %d seeded memories; distinct = "
                "(variant, category, N) classes with N >= 1 (each is a different template instantiation chain)" % reps,
        "exhaustive": False, "exhaustive_over": "sizes 0..64 x %d variants x 2 iterator categories (contents sampled)" % len(SITE),
        "compared_with_std": n_std, "requests_with_overlapping_ranges": n_overlap,
        "disagreements": disagreements, "per_algorithm": hist,
        "traces_validated_against_impl": len(reqs),
        "samples": ["%s -> model '%s'" % (reqs[i][3][:90], outs["model"][i][:90] if i < len(outs["model"]) else "?")
                    for i in sample_idx],
    })
