"""C51 — MTest and tfel-check verdicts are sound (tie: M, bit-exact differential correspondence).

The five tfel-check `*Comparison.cxx` and the two MTest `@Test` sources are compiled from the
current tree into harness/C51/harness.cxx; the Lean model (lean/TfelVerif/C51/Model.lean, run on
`Float`) gets the same requests (bit patterns of doubles).  Every answer is compared and, on every
request, the property's own predicate is evaluated on the implementation's answer.

MTest periods are checked as time steps [i-1, i] (t = i-1, dt = 1): the analytical formula must be
evaluated at t+dt, through an evolution (`analytical`, formula "r") and through the time variable as
well (`analytical_t`, formula "r*(1+t-tt)" with the evolution tt(t) = t: bit-identical to r at the end
of the step only).  ReferenceFileComparisonTest is built through both constructors (`reffile`: column
number, `reffile_f`: formula "$2").  For Area the Python predicate knows the normalised area on a
common grid and, with linear interpolation, on two different strictly increasing grids with common
end points (both piecewise linear curves evaluated on the union of the grids).
"""
import math
import os
import random
import shutil
import struct
import tempfile
import time
from concurrent.futures import ThreadPoolExecutor

import vlib

PROPS = ["TfelVerif.C51.Props"]
EPS = 100.0 * 2.2250738585072014e-308  # 100 * DBL_MIN
NAN = float("nan")
INF = float("inf")

SITE = {
    "abs": "tfel-check/src/AbsoluteComparison.cxx:AbsoluteComparison::compare",
    "rel": "tfel-check/src/RelativeComparison.cxx:RelativeComparison::compare",
    "relabs": "tfel-check/src/RelativeAndAbsoluteComparison.cxx:RelativeAndAbsoluteComparison::compare",
    "mixed": "tfel-check/src/MixedComparison.cxx:MixedComparison::compare",
    "area": "tfel-check/src/AreaComparison.cxx:AreaComparison::compare",
    "analytical": "mtest/src/AnalyticalTest.cxx:AnalyticalTest::check",
    "analytical_t": "mtest/src/AnalyticalTest.cxx:AnalyticalTest::check",
    "reffile": "mtest/src/ReferenceFileComparisonTest.cxx:ReferenceFileComparisonTest::check",
    "reffile_f": "mtest/src/ReferenceFileComparisonTest.cxx:ReferenceFileComparisonTest::check",
}
# kinds of the harness that are one kind for the model: `analytical_t` is `analytical` with a formula
# using the time variable (r*(1+t-tt), equal to r at the end of the time step), `reffile_f` is
# `reffile` through the constructor taking a formula ("$2")
MODEL_KIND = {"analytical_t": "analytical", "reffile_f": "reffile"}
ANALYTICAL = ("analytical", "analytical_t")
REFFILE = ("reffile", "reffile_f")
MTEST = ANALYTICAL + REFFILE


def bits(x):
    return "%016x" % struct.unpack("<Q", struct.pack("<d", x))[0]


def show(x):
    return repr(x)


# ---------------------------------------------------------------- the property, in IEEE doubles
def cmin(a, b):
    return b if b < a else a


def fdiv(x, y):
    """IEEE division (python raises on a zero divisor)"""
    if y == 0.0:
        if x != x or x == 0.0:
            return NAN
        neg = (math.copysign(1.0, x) < 0) != (math.copysign(1.0, y) < 0)
        return -INF if neg else INF
    return x / y


def line_err(kind, p, p2, a, b):
    """list of (documented error, tolerance) alternatives of one line: the line is within the
    tolerance iff one alternative satisfies err <= tol"""
    ae = abs(a - b)
    if kind == "abs":
        return [(ae, p)]
    re_ = fdiv(ae, cmin(abs(a), abs(b)) + EPS)
    if kind == "rel":
        return [(re_, p)]
    if kind == "relabs":
        return [(re_, p), (ae, p2)]
    if kind == "mixed":
        return [(ae - p * abs(b) - p2, 0.0)]
    raise ValueError(kind)


def finite(x):
    return not (math.isnan(x) or math.isinf(x))


def column_property(kind, p, p2, a, b, answer):
    """None when the property holds on the implementation's answer, else a reason"""
    if answer == "ok":
        for i, (x, y) in enumerate(zip(a, b)):
            if not (finite(x) and finite(y)):
                return "success although line %d compares the non-finite values %r, %r" % (i, x, y)
            if not any(e <= t for (e, t) in line_err(kind, p, p2, x, y)):
                return "success although line %d (%r vs %r) is not within the tolerance: %s" % (
                    i, x, y, ", ".join("err=%r tol=%r" % et for et in line_err(kind, p, p2, x, y)))
    elif answer.startswith("fail"):
        same = len(a) == len(b) and all(bits(x) == bits(y) for x, y in zip(a, b))
        if same and all(finite(x) for x in a) and p >= 0 and (kind not in ("mixed",) or p2 >= 0):
            return "a finite column compared with itself fails (tolerances %r, %r)" % (p, p2)
    else:
        return "unexpected answer '%s'" % answer
    return None


def mtest_property(kind, eps, v, r, answer):
    if answer == "ok":
        if len(v) > len(r):
            return "success although periods %d.. have no reference value" % len(r)
        for i, (x, y) in enumerate(zip(v, r)):
            if not (finite(x) and finite(y)):
                return "success although period %d compares the non-finite values %r, %r" % (i, x, y)
            if not abs(x - y) <= eps:
                return "success although |%r - %r| > %r at period %d" % (x, y, eps, i)
    elif answer.startswith("fail") or answer.startswith("throw"):
        same = len(v) == len(r) and all(bits(x) == bits(y) for x, y in zip(v, r))
        if same and all(finite(x) for x in v) and eps >= 0:
            return "a finite column compared with itself does not succeed (eps %r)" % eps
    else:
        return "unexpected answer '%s'" % answer
    return None


def lin_value(t, v, x):
    """tfel::check::Linearization::operator() for strictly increasing finite abscissas `t`"""
    if len(t) == 1:
        return v[0]
    k = 0
    while k < len(t) and t[k] < x:   # lower_bound
        k += 1
    if k == 0:
        return v[0]
    if k == len(t):
        return v[-1]
    return fdiv(v[k] - v[k - 1], t[k] - t[k - 1]) * (x - t[k - 1]) + v[k - 1]


def increasing(t):
    return all(finite(x) for x in t) and all(t[i] < t[i + 1] for i in range(len(t) - 1))


def area_reference(prec, ta, va, tb, vb, interp="none"):
    """expected verdict, as (verdict, normalised area), or None when the property text does not define
    'the normalised area between the curves' for this request.  Defined for
      * both curves on one sorted finite grid (no point inserted, any interpolation): the trapezoids
        of |a-b| divided by max(a), in the operation order of the source;
      * linear interpolation, two strictly increasing finite grids with the same first and last
        abscissa: both curves are piecewise linear on the same interval; each is evaluated on the
        union of the grids (own points: the given value, other points: linear interpolation), then the
        same trapezoids of |a-b| divided by max(a)."""
    if [bits(x) for x in ta] == [bits(x) for x in tb]:
        if any(not finite(t) for t in ta) or any(ta[i] > ta[i + 1] for i in range(len(ta) - 1)):
            return None
        tu, ua, ub = ta, va, vb
    elif (interp == "linear" and increasing(ta) and increasing(tb) and ta[0] == tb[0] and ta[-1] == tb[-1]):
        tu = sorted(set(ta) | set(tb))
        ia = {x: y for x, y in zip(ta, va)}
        ib = {x: y for x, y in zip(tb, vb)}
        ua = [ia[x] if x in ia else lin_value(ta, va, x) for x in tu]
        ub = [ib[x] if x in ib else lin_value(tb, vb, x) for x in tu]
    else:
        return None
    d = [abs(x - y) for x, y in zip(ua, ub)]
    area = 0.0
    for i in range(len(tu) - 1):
        area += ((tu[i + 1] - tu[i]) * (d[i + 1] + d[i])) / 2
    m = va[0]
    for x in va:
        if m < x:
            m = x
    na = fdiv(area, m)
    return ("fail" if na > prec else "ok"), na


def area_property(prec, ta, va, tb, vb, answer, interp="none"):
    ref = area_reference(prec, ta, va, tb, vb, interp)
    if ref is None:
        return None
    expected, na = ref
    identical = ([bits(x) for x in ta] == [bits(x) for x in tb] and
                 [bits(x) for x in va] == [bits(x) for x in vb] and all(finite(x) for x in va))
    if identical and not prec < 0 and answer != "ok":
        return "identical curves do not succeed (tolerance %r)" % prec
    if expected == "fail" and answer != "fail":
        return "normalised area %r exceeds the tolerance %r but the verdict is '%s'" % (na, prec, answer)
    if expected == "ok" and answer != "ok":
        return "normalised area %r does not exceed the tolerance %r but the verdict is '%s'" % (na, prec, answer)
    return None


# ---------------------------------------------------------------- request generation
def rand_value(rng, special, neginf=True):
    u = rng.random()
    if special and u < 0.10:
        return rng.choice([NAN, NAN, INF, -INF if neginf else INF])
    u = rng.random()
    if u < 0.55:
        return rng.randint(-64, 64) / float(1 << rng.randint(0, 4))
    if u < 0.65:
        return rng.choice([0.0, -0.0])
    if u < 0.85:
        return rng.uniform(-1e3, 1e3)
    if u < 0.93:
        return rng.choice([1e300, -1e300, 1e-300, -1e-300, 1.7976931348623157e308, -1.7976931348623157e308,
                           3.5e-290, -2.5e-306])
    return rng.uniform(-1.0, 1.0) * 10.0 ** rng.randint(-12, 12)


def perturb(rng, x, special, neginf=True):
    if not neginf and x == INF and rng.random() < 0.6:
        return x
    u = rng.random()
    if u < 0.40:
        return x
    if u < 0.60:
        return x + rng.choice([-1, 1]) / float(1 << rng.randint(0, 10))
    if u < 0.75:
        return x * (1.0 + rng.choice([-1, 1]) * 10.0 ** rng.randint(-12, -1))
    if u < 0.80:
        return -x if (neginf or x != INF) else x
    return rand_value(rng, special, neginf)


def rand_tol(rng, allow_nan):
    u = rng.random()
    if allow_nan and u < 0.01:
        return NAN
    if u < 0.04:
        return -1.0 / (1 << rng.randint(0, 4))
    if u < 0.20:
        return 0.0
    if u < 0.65:
        return 1.0 / (1 << rng.randint(0, 10))
    if u < 0.90:
        return 10.0 ** rng.randint(-12, 2)
    return rng.uniform(0, 2)


def gen_column_request(rng, kind=None, self_=None):
    kind = kind or rng.choice(["abs", "rel", "relabs", "mixed"])
    special = rng.random() < 0.35
    n = rng.randint(1, 6)
    a = [rand_value(rng, special) for _ in range(n)]
    if self_ if self_ is not None else rng.random() < 0.25:
        b = list(a)
    else:
        b = [perturb(rng, x, special) for x in a]
    # NaN tolerances are outside the theorems' hypotheses (tolerances are numbers)
    p, p2 = rand_tol(rng, False), rand_tol(rng, False)
    return {"kind": kind, "p": p, "p2": p2, "a": a, "b": b}


def gen_grid(rng, n):
    t = rng.randint(-8, 8) / 2.0
    out = []
    for _ in range(n):
        out.append(t)
        t += rng.choice([0.0, 0.25, 0.5, 1.0, 1.0, 1.5, 3.0]) if rng.random() < 0.9 else rng.uniform(0.01, 2)
    return out


def gen_area_linear_request(rng):
    """two strictly increasing grids with common end points (one refines, coarsens or interleaves the
    other), linear interpolation: the area between the two piecewise linear curves is defined"""
    ta = []
    t = rng.randint(-8, 8) / 2.0
    for _ in range(rng.randint(2, 6)):
        ta.append(t)
        t += rng.choice([0.25, 0.5, 1.0, 1.0, 1.5, 3.0]) if rng.random() < 0.9 else rng.uniform(0.01, 2)
    inner = set(x for x in ta[1:-1] if rng.random() < 0.5)
    for i in range(len(ta) - 1):
        if rng.random() < 0.5:
            w = rng.choice([0.25, 0.5, 0.5, 0.75])
            x = ta[i] + w * (ta[i + 1] - ta[i])
            if ta[i] < x < ta[i + 1]:
                inner.add(x)
    tb = [ta[0]] + sorted(inner) + [ta[-1]]
    if rng.random() < 0.5:
        ta, tb = tb, ta
    special = rng.random() < 0.08
    va = [rand_value(rng, special, False) for _ in ta]
    on_a = [va[ta.index(x)] if x in ta else lin_value(ta, va, x) for x in tb]
    vb = on_a if rng.random() < 0.25 else [perturb(rng, y, special, False) for y in on_a]
    return {"kind": "area", "interp": "linear", "p": rand_tol(rng, False),
            "ta": ta, "va": va, "tb": tb, "vb": vb}


def gen_area_request(rng):
    if rng.random() < 0.3:
        return gen_area_linear_request(rng)
    na = rng.randint(1, 6)
    ta = gen_grid(rng, na)
    u = rng.random()
    if u < 0.55:
        tb = list(ta)
    elif u < 0.75:
        tb = gen_grid(rng, rng.randint(1, 6))
    else:
        tb = sorted(set(rng.sample(ta, rng.randint(1, na)) + gen_grid(rng, rng.randint(0, 3))))
    if rng.random() < 0.06:
        rng.shuffle(ta)
    if rng.random() < 0.06:
        rng.shuffle(tb)
    special = rng.random() < 0.12
    # "-inf" cannot be read from a file by TextData: not generated where values only come from files
    va = [rand_value(rng, special, False) for _ in ta]
    if [bits(x) for x in ta] == [bits(x) for x in tb]:
        vb = list(va) if rng.random() < 0.3 else [perturb(rng, x, special, False) for x in va]
    else:
        vb = [rand_value(rng, special, False) for _ in tb]
    return {"kind": "area", "interp": rng.choice(["none", "linear"]), "p": rand_tol(rng, False),
            "ta": ta, "va": va, "tb": tb, "vb": vb}


def gen_mtest_request(rng, kind=None):
    kind = kind or rng.choice(MTEST)
    special = rng.random() < 0.35
    n = rng.randint(1, 6)
    ninf = kind not in REFFILE
    v = [rand_value(rng, special, ninf) for _ in range(n)]
    r = list(v) if rng.random() < 0.25 else [perturb(rng, x, special, ninf) for x in v]
    if kind in REFFILE:
        u = rng.random()
        if u < 0.1 and n > 1:
            r = r[:rng.randint(1, n - 1)]
        elif u < 0.2:
            r = r + [rand_value(rng, special, False) for _ in range(rng.randint(1, 2))]
    # a NaN eps is outside the theorems' hypotheses (tolerances are numbers)
    return {"kind": kind, "p": rand_tol(rng, False), "v": v, "r": r}


def fixed_requests():
    """witnesses kept from the reading/replay rounds and boundary cases (error exactly equal to the
    tolerance, signed zeros, negative references)"""
    R = []
    for kind in ("abs", "rel", "relabs", "mixed"):
        R.append({"kind": kind, "p": 0.1, "p2": 0.0, "a": [1.0, 2.0, 3.0], "b": [1.0, NAN, 3.0]})
        R.append({"kind": kind, "p": 0.1, "p2": 0.0, "a": [1.0, NAN, 3.0], "b": [1.0, 2.0, 3.0]})
        R.append({"kind": kind, "p": 0.1, "p2": 0.0, "a": [INF, 2.0], "b": [INF, 2.0]})
        R.append({"kind": kind, "p": 0.1, "p2": 0.0, "a": [-INF, 2.0], "b": [INF, 2.0]})
        R.append({"kind": kind, "p": 0.1, "p2": 0.0, "a": [1.0, -1.0], "b": [1.0, -1.0]})
        R.append({"kind": kind, "p": 0.125, "p2": 0.25, "a": [1.0, -8.0, 0.0, -0.0], "b": [1.0, -8.0, -0.0, 0.0]})
        R.append({"kind": kind, "p": 0.5, "p2": 0.0, "a": [1.0, 2.0], "b": [1.5, 2.0]})      # abs err == tol
        R.append({"kind": kind, "p": 0.5, "p2": 0.5, "a": [1.0, 2.0], "b": [1.5, 3.0]})
        R.append({"kind": kind, "p": 0.5, "p2": 0.0, "a": [1.0, 2.0], "b": [1.5000000000000002, 2.0]})
        R.append({"kind": kind, "p": 0.25, "p2": 0.5, "a": [3.0], "b": [2.0]})              # mixed err == 0
        R.append({"kind": kind, "p": 0.25, "p2": 0.5, "a": [-3.0], "b": [-2.0]})
        R.append({"kind": kind, "p": 0.0, "p2": 0.0, "a": [0.0, -5.5, 1e300], "b": [0.0, -5.5, 1e300]})
    R.append({"kind": "area", "interp": "none", "p": 0.1, "ta": [0.0, 1.0, 2.0], "va": [1.0, 2.0, 3.0],
              "tb": [0.0, 1.0, 2.0], "vb": [1.0, 2.0, 3.0]})
    R.append({"kind": "area", "interp": "linear", "p": 0.0, "ta": [0.0, 1.0, 1.0, 2.0], "va": [0.0, 0.0, -0.0, 0.0],
              "tb": [0.0, 1.0, 1.0, 2.0], "vb": [0.0, 0.0, -0.0, 0.0]})
    R.append({"kind": "area", "interp": "none", "p": 0.25, "ta": [0.0, 1.0, 2.0], "va": [1.0, 2.0, 2.0],
              "tb": [0.0, 1.0, 2.0], "vb": [1.0, 2.0, 3.0]})     # normalised area == tol exactly
    R.append({"kind": "area", "interp": "none", "p": 0.25, "ta": [0.0, 1.0, 2.0], "va": [1.0, 2.0, 2.0],
              "tb": [0.0, 1.0, 2.0], "vb": [1.0, 2.0, 3.5]})
    R.append({"kind": "area", "interp": "linear", "p": 0.1, "ta": [0.0, 1.0, 2.0], "va": [1.0, 2.0, 3.0],
              "tb": [0.0, 2.0], "vb": [1.0, 3.0]})
    R.append({"kind": "area", "interp": "linear", "p": 0.1, "ta": [0.0, 1.0, 2.0], "va": [1.0, 2.0, 3.0],
              "tb": [-1.0, 0.5, 1.5, 3.0], "vb": [1.0, 3.5, 2.0, 2.0]})
    R.append({"kind": "area", "interp": "none", "p": 0.1, "ta": [0.0, 1.0, 2.0], "va": [-1.0, -2.0, -3.0],
              "tb": [0.0, 1.0, 2.0], "vb": [10.0, 20.0, 40.0]})
    for kind in MTEST:
        R.append({"kind": kind, "p": 0.1, "v": [1.0, 2.0, 3.0], "r": [1.0, 2.0, 3.0]})
        R.append({"kind": kind, "p": 0.5, "v": [1.0, 2.0, 3.0], "r": [1.0, 2.5, 3.0]})
        R.append({"kind": kind, "p": 0.5, "v": [1.0, 2.0, 3.0], "r": [1.0, 2.5000000000000004, 3.0]})
        R.append({"kind": kind, "p": 0.1, "v": [1.0, 2.0, 3.0], "r": [1.0, NAN, 3.0]})
        R.append({"kind": kind, "p": 0.1, "v": [1.0, 2.0, 3.0], "r": [1.0, INF, 3.0]})
        R.append({"kind": kind, "p": 0.1, "v": [1.0, NAN, 3.0], "r": [1.0, 2.0, 3.0]})
        R.append({"kind": kind, "p": 0.0, "v": [-1.0, 0.0, -0.0], "r": [-1.0, -0.0, 0.0]})
    for kind in REFFILE:
        R.append({"kind": kind, "p": 0.1, "v": [1.0, 2.0, 3.0], "r": [1.0, 2.0]})
        R.append({"kind": kind, "p": 0.1, "v": [1.0, 2.0], "r": [1.0, 2.0, 7.0]})
    # two piecewise linear curves on different grids with common end points (linear interpolation)
    R.append({"kind": "area", "interp": "linear", "p": 0.1, "ta": [0.0, 1.0, 2.0], "va": [1.0, 2.0, 3.0],
              "tb": [0.0, 0.5, 2.0], "vb": [1.0, 1.5, 3.0]})
    R.append({"kind": "area", "interp": "linear", "p": 0.25, "ta": [0.0, 2.0], "va": [1.0, 1.0],
              "tb": [0.0, 1.0, 2.0], "vb": [1.0, 1.25, 1.0]})    # normalised area == tol exactly
    R.append({"kind": "area", "interp": "linear", "p": 0.25, "ta": [0.0, 2.0], "va": [1.0, 1.0],
              "tb": [0.0, 1.0, 2.0], "vb": [1.0, 1.5, 1.0]})
    R.append({"kind": "area", "interp": "linear", "p": 0.125, "ta": [0.0, 1.0, 2.0], "va": [1.0, 1.5, 1.0],
              "tb": [0.0, 2.0], "vb": [1.0, 1.0]})
    return R


def encode(q):
    k = q["kind"]
    if k in ("abs", "rel", "relabs", "mixed"):
        return " ".join([k, bits(q["p"]), bits(q["p2"]), str(len(q["a"]))] +
                        [bits(x) for x in q["a"]] + [bits(x) for x in q["b"]])
    if k == "area":
        return " ".join(["area", q["interp"], bits(q["p"]), str(len(q["ta"]))] +
                        [bits(x) for x in q["ta"]] + [bits(x) for x in q["va"]] + [str(len(q["tb"]))] +
                        [bits(x) for x in q["tb"]] + [bits(x) for x in q["vb"]])
    if k in ANALYTICAL:
        return " ".join([k, bits(q["p"]), str(len(q["v"]))] + [bits(x) for x in q["v"]] + [bits(x) for x in q["r"]])
    return " ".join([k, bits(q["p"]), str(len(q["v"]))] + [bits(x) for x in q["v"]] +
                    [str(len(q["r"]))] + [bits(x) for x in q["r"]])


def input_class(q):
    k = q["kind"]
    if k == "area":
        vals = q["va"] + q["vb"]
        if any(not finite(x) for x in vals):
            return "non-finite-value"
        if math.isnan(q["p"]):
            return "nan-tolerance"
        return "finite"
    if k in MTEST:
        if any(not finite(x) for x in q["r"]):
            return "non-finite-reference"
        if any(not finite(x) for x in q["v"]):
            return "non-finite-result"
        return "finite"
    if any(not finite(x) for x in q["a"] + q["b"]):
        return "non-finite-value"
    if math.isnan(q["p"]) or (k in ("relabs", "mixed") and math.isnan(q["p2"])):
        return "nan-tolerance"
    if k == "mixed" and any(x < 0 for x in q["b"]):
        return "negative-value"
    return "finite"


def property_of(q, answer):
    k = q["kind"]
    if k == "area":
        return area_property(q["p"], q["ta"], q["va"], q["tb"], q["vb"], answer, q["interp"])
    if k in MTEST:
        return mtest_property(k, q["p"], q["v"], q["r"], answer)
    return column_property(k, q["p"], q["p2"], q["a"], q["b"], answer)


def printable(q):
    return {k: ([show(x) for x in v] if isinstance(v, list) else (show(v) if isinstance(v, float) else v))
            for k, v in q.items()}


# ---------------------------------------------------------------- the check
ANCHORED_SOURCES = ("AbsoluteComparison.cxx", "RelativeComparison.cxx", "RelativeAndAbsoluteComparison.cxx",
                    "MixedComparison.cxx", "AreaComparison.cxx", "AnalyticalTest.cxx", "ReferenceFileComparisonTest.cxx")
MAX_RESTARTS = 6


def sanitizer_summary(stderr):
    """(summary line, True when the reported location is in one of the anchored sources)"""
    for line in stderr.splitlines():
        if line.startswith("SUMMARY:") or "runtime error:" in line:
            return line.strip()[:400], any(("/" + n + ":") in line for n in ANCHORED_SOURCES)
    return None, False


def run_harness(ck, harness, iodir, reqs):
    """answers of the harness.  It answers one full line per request before reading the next one (cin is
    tied to cout), so after an abort (sanitizer, crash) the request without answer is the culprit: it
    gets the answer 'crash' and the harness is restarted on the requests that follow."""
    impl, crashes, start, waits = [], [], 0, 0
    while start < len(reqs):
        text = "".join(encode(q) + "\n" for q in reqs[start:])
        p = ck.run([harness, iodir], input=text, timeout=3000)
        if p.returncode == 127 and not p.stdout and "error while loading shared libraries" in p.stderr and waits < 10:
            # a prebuilt library of the build tree is being relinked by a concurrent ninja run: the harness
            # did not start at all; wait for the link to finish
            waits += 1
            ck.log("harness did not start (%s): retrying in 30s" % p.stderr.strip()[-160:])
            time.sleep(30)
            continue
        out = p.stdout.splitlines()[:len(reqs) - start]
        impl += out
        if p.returncode == 0 or start + len(out) >= len(reqs):
            break
        crashes.append((start + len(out), p.stderr))
        impl.append("crash")
        start = len(impl)
        if len(crashes) >= MAX_RESTARTS:
            break
    return impl, crashes


def build_harness(ck):
    # a scratch worktree has no build tree: vlib.BUILD then is /repo/_build (generated headers, prebuilt
    # libraries); everything under test is compiled from vlib.REPO below
    R = vlib.REPO
    inc = [R + "/tfel-check/include", R + "/mtest/include", R + "/mfront/include", vlib.BUILD + "/mfront/include"]
    srcs = [("harness", "C51/harness.cxx")] + \
           [(n, R + "/tfel-check/src/%sComparison.cxx" % n) for n in
            ("Absolute", "Relative", "RelativeAndAbsolute", "Mixed", "Area")] + \
           [(n, R + "/tfel-check/src/%s.cxx" % n) for n in
            # the interpolation used by AreaComparison does arithmetic: it must be compiled here with
            # -ffp-contract=off too (the prebuilt libTFELCheck is built with -march=native and fuses a*b+c)
            ("Linearization", "LinearInterpolation", "NoInterpolation")] + \
           [(n, R + "/mtest/src/%s.cxx" % n) for n in ("AnalyticalTest", "ReferenceFileComparisonTest")]
    with ThreadPoolExecutor(max_workers=4) as ex:
        futs = [ex.submit(ck.cxx, "c51_%s.o" % n, [s], flags=("-c",), includes=inc, sanitize=True) for n, s in srcs]
        objs = [f.result() for f in futs]
    libs = ck.libflags("TFELCheck", "TFELMTest", "TFELMaterial", "TFELMathParser", "TFELMath", "TFELUtilities",
                       "TFELTests", "TFELSystem", "TFELException")
    return ck.cxx("c51h", objs, libs=libs, sanitize=True)


def run(ck):
    rng = random.Random(ck.seed)
    harness = build_harness(ck)
    driver = ck.lean_exe("c51driver", "TfelVerif/C51/Driver.lean")
    res = ck.lean(PROPS, PROPS)
    ck.lean_violations(res)
    if ck.tier == "thorough" and res.ok:
        for m, log in ck.leanchecker(PROPS):
            ck.violation("leanchecker:" + m, "leanchecker rejects " + m, {"log": log}, False)

    reqs = fixed_requests()
    n_rand = 6000 if ck.quick else 120000
    for _ in range(n_rand):
        u = rng.random()
        if u < 0.60:
            reqs.append(gen_column_request(rng))
        elif u < 0.80:
            reqs.append(gen_area_request(rng))
        else:
            reqs.append(gen_mtest_request(rng))

    def model_line(q):
        line = encode(q)
        k = q["kind"]
        return MODEL_KIND[k] + line[len(k):] if k in MODEL_KIND else line
    model_text = "".join(model_line(q) + "\n" for q in reqs)
    # the harness rewrites two small files per request: use a tmpfs directory when there is one
    # (30x faster than the work directory), else the work directory
    io = None
    if os.path.isdir("/dev/shm") and os.access("/dev/shm", os.W_OK):
        try:
            io = tempfile.mkdtemp(prefix="verif-C51-", dir="/dev/shm")
        except OSError:
            io = None
    iodir = io or ck.path("io")
    os.makedirs(iodir, exist_ok=True)
    try:
        impl, crashes = run_harness(ck, harness, iodir, reqs)
    finally:
        if io:
            shutil.rmtree(io, ignore_errors=True)
    pm = ck.run([driver], input=model_text, timeout=3000)
    model = pm.stdout.splitlines()
    crash_why = {}
    crash_log = dict(crashes)
    foreign_crash = False
    for k, stderr in crashes:
        summary, anchored = sanitizer_summary(stderr)
        if anchored:
            # a memory/undefined-behaviour error inside the class under test on a well-formed request: no
            # verdict is produced where the property demands one (reported below with the request)
            crash_why[k] = "the implementation aborts instead of giving a verdict: %s" % summary
        elif not foreign_crash:
            foreign_crash = True
            ck.violation("harness-crash", "the implementation harness aborted (sanitizer or crash) on request %d%s" % (
                k, (": " + summary) if summary else ""),
                {"stderr": stderr[-2000:], "request": printable(reqs[k]), "request_line": encode(reqs[k])}, False)
    if len(impl) != len(reqs):
        ck.violation("harness-crash", "the implementation harness gave %d answers for %d requests (%d aborts)" % (
            len(impl), len(reqs), len(crashes)),
            {"stderr": crashes[-1][1][-2000:] if crashes else "",
             "request": printable(reqs[len(impl)]) if len(impl) < len(reqs) else None}, False)
    if pm.returncode != 0 or len(model) != len(reqs):
        ck.violation("driver-crash", "the Lean model driver aborted after %d answers" % len(model),
                     {"stderr": pm.stderr[-2000:]}, False)

    hist = {}
    groups = {}      # key -> {"viol": first request violating the property, "corr": first differing request}
    disagreements = 0
    property_failures = 0
    io_mismatch = 0
    for i, q in enumerate(reqs):
        a = impl[i] if i < len(impl) else "missing"
        m = model[i] if i < len(model) else "missing"
        cls = input_class(q)
        hk = "%s/%s/%s" % (q["kind"], cls, a.split()[0])
        hist[hk] = hist.get(hk, 0) + 1
        if a == "io-mismatch":
            io_mismatch += 1
            continue
        if a == "missing" or m == "missing":
            continue   # a crash of the harness/driver is reported once, above
        if a == "crash":
            if i not in crash_why:
                continue   # reported above as harness-crash
            why = crash_why[i]
        else:
            why = property_of(q, a)
        differs = a != m
        if not differs and why is None:
            continue
        disagreements += differs
        property_failures += why is not None
        key = "%s:%s" % (SITE[q["kind"]], cls)
        g = groups.setdefault(key, {})
        rep = {"site": SITE[q["kind"]], "request": printable(q), "request_line": encode(q),
               "implementation": a, "model": m, "property_violated": why}
        if a == "crash":
            rep["sanitizer_report"] = crash_log[i][:1500]
        if why is not None and "viol" not in g:
            g["viol"] = (why, rep)
        if differs and "corr" not in g:
            g["corr"] = rep
    for key, g in sorted(groups.items()):
        if "viol" in g:
            why, rep = g["viol"]
            ck.violation(key, "%s: %s (request %s)" % (key.split(":")[-2], why, rep["request"]), rep, True)
        else:
            rep = g["corr"]
            ck.violation("corr:" + key, "correspondence Model.lean vs %s broken: implementation '%s', model '%s' "
                         "(the property still holds on the implementation's answer)" % (key, rep["implementation"], rep["model"]),
                         rep, False)
    if io_mismatch:
        ck.notes.append("%d requests skipped: the text round trip through TextData changed a value" % io_mismatch)

    ck.assumptions += [
        "M: Model.lean (run on Float = C double) is tied to the sources by bit-exact differential execution of the real "
        "classes compiled from the current tree (tolerance-free comparison of verdicts and failed-line counts)",
        "theorems are over Ext K (finite | +inf | -inf | NaN over an ordered field): finite values are exact (no rounding, "
        "single zero); the Float runs cover rounding and signed zeros by correspondence only",
        "tolerances are finite numbers (theorems *_sound and generator; nan_never_passes holds for every tolerance)",
        "Area: spline interpolations are not modelled (none and linear are); curves are read from files whose abscissa "
        "column is NaN-free; theorems about the area value assume a common sorted grid (documented precondition); the "
        "Python predicate also covers linear interpolation on two strictly increasing grids with common end points "
        "(trapezoids of |a-b| on the union grid); on other grid pairs only the correspondence with the model is checked",
        "MTest: period i is the time step [i-1, i]; the analytical formulas are 'r' and 'r*(1+t-tt)' (equal to the table "
        "value r_i at t+dt, exactly); the model sees both as the list of reference values",
        "columns reach the classes through text files (TextData/convert<double>) as in tfel-check; denormal inputs are not generated",
    ]
    kinds = {}
    for q in reqs:
        kinds[q["kind"]] = kinds.get(q["kind"], 0) + 1
    distinct = len({encode(q) for q in reqs})
    sample_idx = [0, 4, 9, len(fixed_requests()) - 1, len(reqs) // 2, len(reqs) - 1]
    return ck.finish({
        "evaluations": len(reqs), "distinct_nontrivial": distinct,
        "rule": "requests = fixed witnesses/boundary cases + seeded random columns (dyadics, signed zeros, huge/tiny magnitudes, "
                "NaN, +-inf; result = reference perturbed absolutely/relatively/not at all), random tolerances (0, powers of 2 and "
                "10, negative) and time grids (common, nested, refined/coarsened with common end points, disjoint, duplicated "
                "abscissas, a few unsorted); MTest through both formulas and both constructors; distinct = "
                "distinct request lines; every request executes the per-line error tests of the real class",
        "exhaustive": False, "disagreements": disagreements, "property_failures": property_failures,
        "requests_by_kind": kinds, "histogram_kind_class_verdict": dict(sorted(hist.items())),
        "io_mismatch": io_mismatch,
        "samples": ["%s -> impl '%s' model '%s'" % (printable(reqs[i]), impl[i] if i < len(impl) else "?",
                                                     model[i] if i < len(model) else "?") for i in sample_idx],
    })
