"""C14 — Evaluator symbolic differentiation yields the derivative (tie: M with a string tie + T2 tables).

Same harness as C13. `differentiate(v)->getCxxFormula()` of the real code must be the identical string to
the rendering of the Lean model's `diff` (which is proved sound w.r.t. Mathlib's HasDerivAt), and
`differentiate(v)->getValue()` must be bit-identical to the model's evaluation of that tree.
When they differ, the derivative returned by the code is compared with the model's (proved) derivative
and with a central finite difference of the code's own getValue() to produce a failing point.
"""
import random
import re

import vlib
from checks import c13lib as L

PROPS = ["TfelVerif.C14.Props"]
MODEL_RULES = {"exp", "sin", "cos", "tan", "sqrt", "log", "log10", "asin", "acos", "atan", "sinh", "cosh", "tanh"}
SITE = {"log10": "src/Math/Function.cxx:differentiateFunction<log10>"}


def fval(ans):
    return L.hex_dbl(ans.split()[1]) if ans.startswith("val") else None


def judge(ck, exe, driver, rng, var, f, npts=8):
    """is the derivative returned by the implementation the derivative? Compare at random points with the
    model's (proved sound) derivative and with a finite difference of the implementation's own values."""
    names = sorted(set(re.findall(r"\b(?:x|y|z|T|Q|b_2)\b", f)) | {var})
    for _ in range(npts):
        p = L.random_point(rng, names)
        p[var] = rng.choice([1.0, 0.5, 2.0, 0.25, 1.5, 0.75])
        h = 1e-6
        pm, pp = dict(p), dict(p)
        pm[var] -= h
        pp[var] += h
        lines = ["E %s;%s;%s" % (var, L.bind_str(p), f), "V %s;%s" % (L.bind_str(pm), f), "V %s;%s" % (L.bind_str(pp), f)]
        ia, _ = L.run_lines(ck, exe, lines)
        ma, _ = L.run_lines(ck, driver, lines[:1])
        di, dm = fval(ia[0]), fval(ma[0])
        fm, fp = fval(ia[1]), fval(ia[2])
        if di is None or di != di:
            continue
        fd = (fp - fm) / (2 * h) if fm is not None and fp is not None else None
        ref = dm if dm is not None and dm == dm else fd
        if ref is None or ref != ref:
            continue
        if abs(di - ref) > 1e-5 * max(1.0, abs(ref)) and (fd is None or abs(di - fd) > 1e-4 * max(1.0, abs(fd))):
            return {"variable": var, "formula": f, "point": p, "code_derivative_value": di,
                    "true_derivative_value(model, proved sound)": dm, "central_finite_difference_of_code_values": fd}
    return None


def atoms(f, tab):
    """single-construct formulas for the constructs that occur in f (to locate the faulty rule)"""
    out = []
    for u in tab["unary"]:
        if re.search(r"\b%s\s*\(" % re.escape(u[0]), f):
            out.append((u[1], "%s(x)" % u[0]))
    for op in ["**", "/", "*", "-", "+"]:
        if op in f:
            out.append((op, "x %s y" % op))
            if op == "**":
                out += [("**", "x**2.5"), ("**", "2**x")]
    for m in re.finditer(r"power<(-?\d+)>", f):
        out.append(("power", "power<%s>(x)" % m.group(1)))
    return out


def run(ck):
    rng = random.Random(ck.seed)
    exe = L.build_harness(ck)
    tab, src = L.dump_tables(ck, exe)
    ck.write_gen("TfelVerif/C13/GenTable.lean", src)
    # T2: the set of functions with a differentiation rule is the model's
    code_rules = {u[1] for u in tab["unary"] if u[2]}
    if code_rules != MODEL_RULES:
        ck.violation("tie:rule-set", "the set of C functions with a differentiateFunction specialisation changed: code %s, model %s"
                     % (sorted(code_rules), sorted(MODEL_RULES)), {"code": sorted(code_rules), "model": sorted(MODEL_RULES)}, False)
    if any(b[1] for b in tab["binary"]):
        ck.violation("tie:binary-rule", "a binary function now has a differentiation rule", {"binary": tab["binary"]}, False)
    driver = ck.lean_exe("c14driver", "TfelVerif/C14/Main.lean")
    ck.log("driver built")
    res = ck.lean(PROPS, PROPS)
    ck.lean_violations(res)
    if ck.tier == "thorough" and res.ok:
        for m, log in ck.leanchecker(PROPS):
            ck.violation("leanchecker:" + m, "leanchecker rejects " + m, {"log": log}, False)

    n_d, n_e, n_u = (2500, 1500, 300) if ck.quick else (60000, 40000, 5000)
    reqs = []
    try:
        import glob
        import os
        for fn in sorted(glob.glob(os.path.join(vlib.VERIF, "corpus", "C14", "*.txt"))):
            for l in open(fn):
                l = l.rstrip("\n")
                if l.strip() and not l.startswith("#"):
                    k = l[0]
                    fl = l[2:].split(";")
                    reqs.append(("corpus", l, fl[0], fl[-1]))
    except OSError:
        pass
    ncorpus = len(reqs)
    # every rule on its own first (exhaustive over the rule table)
    for u in tab["unary"]:
        reqs.append(("rule", "D x;%s(x)" % u[0], "x", "%s(x)" % u[0]))
        reqs.append(("rule", "D x;%s(x*y+1)" % u[0], "x", "%s(x*y+1)" % u[0]))
        reqs.append(("rule", "D x;%s(y)+x" % u[0], "x", "%s(y)+x" % u[0]))
        # inner derivatives that are constants 0, 1, 2: the three outcomes of applyChainRule
        reqs.append(("rule", "D x;%s(0*x+0.5)" % u[0], "x", "%s(0*x+0.5)" % u[0]))
        reqs.append(("rule", "D x;%s(2*x)" % u[0], "x", "%s(2*x)" % u[0]))
    for b in tab["binary"]:
        reqs.append(("rule", "D x;%s(x,y)" % b[0], "x", "%s(x,y)" % b[0]))
    for n in list(range(-18, 19)) + [33, -33]:
        reqs.append(("rule", "D x;power<%d>(x)" % n, "x", "power<%d>(x)" % n))
        reqs.append(("rule", "D x;(x*y)**%d" % n, "x", "(x*y)**%d" % n))
    for f in ["x**y", "y**x", "x**x", "x**2.5", "2.5**x", "x**(y+1)", "(x+1)**(1/3)", "x>0 ? x*x : -x", "y>0 ? x : 2*x", "y > 0 ? 1 : 2"]:
        reqs.append(("rule", "D x;" + f, "x", f))
    def with_var(gen, depth):
        for _ in range(20):
            f = gen.formula(depth)
            names = sorted(set(re.findall(r"\b(?:x|y|z|T|Q|b_2)\b", f)))
            if names:
                return f, names
        return "x", ["x"]

    # directed values of the derivative: every rule at a point of its domain, the ExponentDerivative guard
    def ereq(v, env, f):
        reqs.append(("directed", "E %s;%s;%s" % (v, L.bind_str(env), f), v, f))
    for u in tab["unary"]:
        if u[2]:
            for xa in (0.3, 0.7):
                ereq("x", {"x": xa, "y": 1.5}, "%s(x)" % u[0])
                ereq("x", {"x": xa, "y": 1.5}, "%s(x*y/2)" % u[0])
    for xa, xb in ((0.0, 2.0), (2.0, 3.0), (0.5, -1.0), (0.0, -1.0), (1.5, 0.0)):
        for v in ("x", "y"):
            ereq(v, {"x": xa, "y": xb}, "x**y")
            ereq(v, {"x": xa, "y": xb}, "(x*y+x)**(y/x+1)" if xa != 0 else "x**(2*y)")
    for op in ("+", "-", "*", "/"):
        for v in ("x", "y"):
            ereq(v, {"x": 1.25, "y": -0.75}, "x %s y" % op)
            ereq(v, {"x": 1.25, "y": -0.75}, "sin(x) %s x*y" % op)
    for n in list(range(-18, 19)) + [33, -33]:
        ereq("x", {"x": 1.1}, "power<%d>(x)" % n)
    for f in ("x>0 ? x*x : -x", "x<0 ? x*x : -x", "-x", "x>0 && y>0 ? x*y : x+y"):
        ereq("x", {"x": 1.5, "y": 2.0}, f)
    g = L.Gen(rng, tab, diff_only=True)
    for _ in range(n_d):
        f, names = with_var(g, 6)
        v = rng.choice(names) if rng.random() < 0.97 else "w"
        reqs.append(("derive", "D %s;%s" % (v, f), v, f))
    gu = L.Gen(rng, tab)      # also functions without a rule: both sides must raise
    for _ in range(n_u):
        f, names = with_var(gu, 4)
        v = rng.choice(names)
        reqs.append(("unsupported", "D %s;%s" % (v, f), v, f))
    ge = L.Gen(rng, tab, diff_only=True, safe_only=True)
    for _ in range(n_e):
        f, names = with_var(ge, 5)
        v = rng.choice(names)
        reqs.append(("value", "E %s;%s;%s" % (v, L.bind_str(L.random_point(rng)), f), v, f))

    # quotients whose denominator depends on other variables only (the derivative object must not share
    # sub-trees bound to the storage of the evaluator it comes from)
    for f in ("sin(x)/(1+y*y)", "x/y", "(x*z)/(y+T)", "x/(y*y)+y/(x*x)", "exp(x)/cos(y)/z", "x**2/y**2", "(x+y)/(z-T)/(y+2)"):
        for v in ("x", "y"):
            reqs.append(("directed", "E %s;%s;%s" % (v, L.bind_str({"x": 1.25, "y": -0.75, "z": 2.5, "T": 0.5}), f), v, f))
    # export clause on derivatives: the rendering of the derivative evaluated under C++ semantics has the
    # value the derivative object returns
    pairs = []
    extra = []
    for i, r in enumerate(reqs):
        if r[1].startswith("E "):
            extra.append(("export", "D %s;%s" % (r[2], r[3]), r[2], r[3]))
            pairs.append((len(reqs) + len(extra) - 1, i))
    reqs += extra
    lines = [r[1] for r in reqs]
    ck.log("%d requests generated" % len(lines))
    impl, crashes = L.run_lines(ck, exe, lines, timeout=1800)
    ck.log("implementation answered (%d crashes)" % len(crashes))
    model, mcr = L.run_lines(ck, driver, lines, timeout=1800)
    ck.log("model answered")
    if mcr:
        ck.violation("model-crash", "the Lean driver died on a request", {"request": mcr[0][1], "stderr": mcr[0][3]}, False)

    def env_of(line):
        return {kv.split("=")[0]: L.hex_dbl(kv.split("=")[1]) for kv in line[2:].split(";")[1].split(",") if "=" in kv}

    xstat = {"same": 0, "different": 0, "undecided": 0}
    xrep = 0
    for jd, je in pairs:
        if max(jd, je) >= len(impl) or not impl[jd].startswith("ok ") or not impl[je].startswith("val "):
            continue
        env = env_of(reqs[je][1])
        val = L.hex_dbl(impl[je].split()[1])
        verdict, rv = L.export_verdict_derivative(impl[jd][3:], env, val)
        xstat[verdict] = xstat.get(verdict, 0) + 1
        if verdict == "different" and xrep < 3:
            xrep += 1
            ck.violation("export-derivative:" + L_pattern(reqs[je][3]),
                         "differentiate(%s) of '%s': getCxxFormula() '%s' evaluates to %r at %s in C++, the derivative object's getValue() gives %r"
                         % (reqs[je][2], reqs[je][3], impl[jd][3:140], rv, env, val),
                         {"formula": reqs[je][3], "variable": reqs[je][2], "point": env, "exported_cxx_formula": impl[jd][3:],
                          "value_of_exported_formula": rv, "getValue_of_derivative": val}, True)

    hist = {"ok": 0, "val": 0, "err": 0, "skipped-by-model": 0}
    errk = {}
    reported = set()
    disagreements = 0
    distinct = set()
    samples = []
    for i, (kind, line, var, f) in enumerate(reqs):
        a = L.classify(impl[i]) if i < len(impl) else "missing"
        m = model[i] if i < len(model) else "missing"
        if not (a.startswith("ok ") and "(" not in a):
            distinct.add(a)       # a bare leaf is trivial
        if a.startswith("err "):
            hist["err"] += 1
            errk[a[4:]] = errk.get(a[4:], 0) + 1
        elif a.startswith("ok"):
            hist["ok"] += 1
        elif a.startswith("val"):
            hist["val"] += 1
        if len(samples) < 6 and i % 701 == 0:
            samples.append("%s -> impl '%s' model '%s'" % (line[:90], a[:110], m[:110]))
        if a.startswith("CRASH"):
            disagreements += 1
            key = "crash:" + f[:30]
            if key not in reported and len(reported) < 8:
                reported.add(key)
                ck.violation(key, "differentiate(%s) of '%s' crashes the process (%s)" % (var, f, a[6:80]),
                             {"formula": f, "variable": var, "request": line, "implementation": a}, True)
            continue
        if L.skipped(m):
            hist["skipped-by-model"] += 1
            continue
        if a == m or (a.startswith("err") and m.startswith("err")):
            continue
        if a.startswith("val") and m.startswith("val"):
            va, vm = fval(a), fval(m)
            if va != va and vm != vm:
                continue
        disagreements += 1
        if len(reported) >= 8:
            continue
        rep = {"formula": f, "variable": var, "request": line, "implementation": impl[i], "model": m}
        if line.startswith("E ") and m.startswith("val") and (a.startswith("val") or a.startswith("err")):
            env = env_of(line)
            vm = fval(m)
            va = fval(a)
            big = va is None or not L.close(va, vm, 1e-7)
            rep.update({"derivative_evaluated_at": env,
                        "differentiated_evaluator_held": {k: v + 1.0 for k, v in env.items()},
                        "code_value": va if va is not None else impl[i], "true_derivative_value(model, proved sound)": vm})
            if big:
                # confirm with the code's own function values (central finite difference)
                h = 1e-6
                pm, pp = dict(env), dict(env)
                pm[var] = env.get(var, 0.0) - h
                pp[var] = env.get(var, 0.0) + h
                fa, _ = L.run_lines(ck, exe, ["V %s;%s" % (L.bind_str(pm), f), "V %s;%s" % (L.bind_str(pp), f)])
                if fval(fa[0]) is not None and fval(fa[1]) is not None:
                    rep["central_finite_difference_of_code_values"] = (fval(fa[1]) - fval(fa[0])) / (2 * h)
                key = "derivative-value:" + L_pattern(f)
                used = {k: v for k, v in env.items() if k in f}
                what = "differentiate(%s) of '%s', evaluated at %s while the differentiated evaluator holds %s, %s; the derivative is %r" % (
                    var, f, used, {k: v + 1.0 for k, v in used.items()},
                    ("returns %r" % va) if va is not None else ("raises (%s)" % impl[i][4:100]), vm)
                if key not in reported:
                    reported.add(key)
                    ck.violation(key, what, rep, True)
                continue
        # locate the rule: the constructs of f, each on its own
        culprit = None
        for name, af in atoms(f, tab):
            ia, _ = L.run_lines(ck, exe, ["D x;" + af])
            ma, _ = L.run_lines(ck, driver, ["D x;" + af])
            if L.classify(ia[0]) != ma[0] and not (ia[0].startswith("err") and ma[0].startswith("err")):
                culprit = (name, af, ia[0], ma[0])
                break
        if culprit:
            name, af, ia0, ma0 = culprit
            site = SITE.get(name, "differentiation rule of '%s'" % name)
            rep.update({"minimal_formula": af, "minimal_variable": "x", "code_derivative": ia0, "model_derivative": ma0, "site": site})
            jf, jv = af, "x"
        else:
            name, site, jf, jv = L_pattern(f), "differentiate", f, var
        wit = None
        if a.startswith("ok") or a.startswith("val"):
            wit = judge(ck, exe, driver, rng, jv, jf)
            if wit is None and culprit:
                wit = judge(ck, exe, driver, rng, var, f)
        if wit:
            rep["failing_point"] = wit
            key = "derivative:" + name
            shown = rep.get("code_derivative", impl[i]) if wit["formula"] == rep.get("minimal_formula") else impl[i]
            what = "d/d%s of '%s' returned by the code is %s = %r at %s; the derivative is %r" % (
                wit["variable"], wit["formula"], shown[:100], wit["code_derivative_value"],
                {k: v for k, v in wit["point"].items() if k in wit["formula"] or k == wit["variable"]},
                wit["true_derivative_value(model, proved sound)"] if wit["true_derivative_value(model, proved sound)"] is not None
                else wit["central_finite_difference_of_code_values"])
            found = True
        elif a.startswith("err") and (m.startswith("ok") or m.startswith("val")):
            key = "derivative-rejected:" + name
            what = "differentiate(%s) of '%s' raises (%s); every function of the formula has a differentiation rule" % (var, f, impl[i][:120])
            found = True
        else:
            key = "corr:derivative:" + name
            what = "differentiate(%s) of '%s': code %s, model %s (no point found where the code's derivative is wrong)" % (var, f, a[:100], m[:100])
            found = False
        if key in reported:
            continue
        reported.add(key)
        ck.violation(key, what, rep, found)

    # ------------------------------------------------------------------ diff(...) sub-expressions
    # (Evaluator::treatDiff + DifferentiatedFunctionExpr.cxx; not modelled in Lean).  The derivative the
    # formula language itself offers, diff(f,v), must have the value of differentiate(v) of f (whose rules
    # are tied to the proved model above); differentiating, copying or resolving a formula that contains
    # diff(...) must keep doing so.  Implementation only; a crash is a violation.
    dstat = {"formulas": 0, "compared": 0, "undecided": 0, "different": 0, "crash": 0}
    gd = L.Gen(rng, tab, diff_only=True, safe_only=True)
    dforms = [("y*x**2", ["x", "y"]), ("x**2*y", ["x", "y"]), ("z*y*x**3", ["x", "y", "z"]), ("sin(x*y)+T*x", ["T", "x", "y"]),
              ("exp(y)*cos(x)", ["x", "y"]), ("x**3", ["x"]), ("y/x+x*x*y", ["x", "y"]), ("T*z*y*x", ["T", "x", "y", "z"])]
    for _ in range(60 if ck.quick else 1500):
        f, names = with_var(gd, 3)
        names = [n for n in names if n in ("x", "y", "z", "T")]
        if names and "?" not in f and "[" not in f and "b_2" not in f and "Q" not in f:
            dforms.append((f, names))
    dlines, dplan = [], []       # dplan: (label, formula, i_lhs, i_rhs, tol)
    for f, names in dforms:
        dstat["formulas"] += 1
        env = L.random_point(rng, ["x", "y", "z", "T", "Q"])
        for n in ("x", "y", "z", "T"):
            env[n] = rng.choice([0.75, 1.25, 1.5, 2.0, 0.5, 2.5])
        env["Q"] = 1.0
        b = L.bind_str(env)
        v = rng.choice(names)
        w = rng.choice(names)

        def add(label, lhs, rhs, tol=1e-9):
            dlines.extend([lhs, rhs])
            dplan.append((label, f, len(dlines) - 2, len(dlines) - 1, tol, env, v, w))
        add("value of diff(f,%s) vs differentiate(%s) of f" % (v, v), "V %s;diff(%s,%s)" % (b, f, v), "E %s;%s;%s" % (v, b, f))
        add("d/dQ of Q*diff(f,%s) vs differentiate(%s) of f" % (v, v), "E Q;%s;Q*diff(%s,%s)" % (b, f, v), "E %s;%s;%s" % (v, b, f))
        add("value of diff<2>(f,%s) vs differentiate(%s) of diff(f,%s)" % (v, v, v), "V %s;diff<2>(%s,%s)" % (b, f, v), "E %s;%s;diff(%s,%s)" % (v, b, f, v))
        # second derivative against a central finite difference of the first derivative's values
        h = 1e-5
        em, ep = dict(env), dict(env)
        em[w] -= h
        ep[w] += h
        dlines.extend(["E %s;%s;diff(%s,%s)" % (w, b, f, v), "E %s;%s;%s" % (v, L.bind_str(em), f), "E %s;%s;%s" % (v, L.bind_str(ep), f)])
        dplan.append(("differentiate(%s) of diff(f,%s) vs finite difference of differentiate(%s) of f" % (w, v, v), f, len(dlines) - 3, (len(dlines) - 2, len(dlines) - 1, h), 2e-4, env, v, w))
    dimpl, dcr = L.run_lines(ck, exe, dlines, timeout=1800)
    ck.log("diff(...) stream: %d lines, %d crashes" % (len(dlines), len(dcr)))
    dkeys = set()
    for (label, f, i, j, tol, env, v, w) in dplan:
        a = dimpl[i] if i < len(dimpl) else "missing"
        used = {k: x for k, x in env.items() if re.search(r"\b%s\b" % k, f)}
        if a.startswith("CRASH"):
            if "abandoned" in a:
                continue
            dstat["crash"] += 1
            disagreements += 1
            if "crash" not in dkeys:
                dkeys.add("crash")
                ck.violation("diff:crash", "evaluating '%s' at %s crashes the process (%s)" % (dlines[i].split(";")[-1], used, a[6:90]),
                             {"formula": dlines[i].split(";")[-1], "request": dlines[i], "point": used, "implementation": a,
                              "site": "src/Math/DifferentiatedFunctionExpr.cxx / Evaluator::treatDiff",
                              "stderr_tail": next((c[3] for c in dcr if c[0] == i), "")}, True)
            continue
        va = fval(a)
        if isinstance(j, tuple):
            fm, fp = (fval(dimpl[k]) if k < len(dimpl) else None for k in j[:2])
            vb = (fp - fm) / (2 * j[2]) if fm is not None and fp is not None else None
            rhs_desc = "central finite difference"
        else:
            vb = fval(dimpl[j]) if j < len(dimpl) else None
            rhs_desc = dlines[j]
        if va is None or vb is None or va != va or vb != vb or abs(vb) > 1e8:
            dstat["undecided"] += 1
            continue
        dstat["compared"] += 1
        if abs(va - vb) <= tol * max(1.0, abs(va), abs(vb)):
            continue
        dstat["different"] += 1
        disagreements += 1
        if "value" not in dkeys:
            dkeys.add("value")
            ck.violation("diff:value",
                         "%s: '%s' gives %r at %s, the derivative is %r" % (label, dlines[i].split(";", 1)[1] if dlines[i][0] == "V" else dlines[i][2:], va, used, vb),
                         {"formula": f, "variable": v, "second_variable": w, "point": used, "request": dlines[i], "code_value": va,
                          "reference": rhs_desc, "reference_value": vb, "site": "Evaluator::treatDiff / Evaluator::getVariablesNames / DifferentiatedFunctionExpr.cxx"}, True)

    ck.notes.append("observation: constants created by the differentiation rules are exported with std::to_string (six decimals, e.g. d/dx x**2.5000001 is exported as (2.5)*std::pow(x,1.500000)), so the exported derivative differs slightly from differentiate()->getValue() (1e-7 .. 1e-5 relative seen); such cases are recognised by perturbing those literals by half a unit of the sixth decimal and counted as 'same-to-string' in export_clause, not as a violation of C14 (getValue is exact)")
    ck.assumptions += [
        "M: the model's rule set is tied to the C++ by differential execution (every rule of the table on its own, seeded random formulas); the function table is regenerated from the real FunctionGeneratorManager on every run (T2) and the set of functions with a rule is compared with the model's",
        "soundness is proved over ℝ (Mathlib HasDerivAt) for trees without ExponentDerivative nodes (every parsed formula) at points satisfying explicit side conditions (non-zero divisors, positive bases of variable powers, arguments in the open domain, conditions that do not switch at the point); floating-point evaluation of the derivative is libm, not modelled",
        "the constant tests of the code (`applyChainRule`, constant exponent) are evaluated with doubles; the theorem assumes them exact (hypothesis OpsSound)",
        "not modelled in Lean: derivatives of external functions; diff(...) sub-expressions are checked on the implementation only (value of diff(f,v) against differentiate(v) of f, whose rules are tied to the model; second derivatives against finite differences); second derivatives through ExponentDerivative",
    ]
    return ck.finish({
        "evaluations": len(reqs), "distinct_nontrivial": len(distinct),
        "rule": "requests = corpus + every rule of the dumped table on its own + directed values + seeded random formulas; distinct = distinct canonical implementation answers (rendered derivative / error class / value bits); non-trivial = not a bare leaf",
        "exhaustive": False, "disagreements": disagreements,
        "traces_validated_against_impl": len(reqs) - hist["skipped-by-model"],
        "streams": {"corpus": ncorpus, "rules": sum(1 for r in reqs if r[0] == "rule"), "directed": sum(1 for r in reqs if r[0] == "directed"), "derive": n_d, "unsupported": n_u, "value": n_e},
        "answers": hist, "error_kinds": errk, "export_clause": {"pairs": len(pairs), **xstat}, "generator": {"derive": g.stats, "value": ge.stats},
        "diff_subexpressions": dstat,
        "rules_in_code": sorted(code_rules), "samples": samples,
    })


def L_pattern(f):
    from checks.C13 import pattern
    return pattern(f)
