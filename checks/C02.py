"""C02 — tensor and fourth-order tensor algebra matches index notation (tie: T1 symtrace).

The tracer harness/C02/trace.cxx instantiates tensor<N,Sym>, st2tost2, t2tot2, t2tost2, st2tot2 (N=1,2,3);
the generated Lean definitions are split by family into lean/TfelVerif/C02/Gen*.lean (one module per
family so that a change in one header only rebuilds what depends on it), the fixed theorems are in
lean/TfelVerif/C02/Props*.lean. The python reference below (exact arithmetic over Q(sqrt2), index
notation with plain loops) is support for the failing-input search only.
"""
import random
import re

import types

from checks import c02extra
import emit
import t1
import vlib
from emit import Q2
from m3 import M3, SQ2, q

PROPS = ["TfelVerif.C02." + m for m in (
    "PropsT", "PropsN1", "Props2ST", "Props2TT", "Props2TS", "Props2S2T", "Props3ST", "Props3TT", "Props3TS", "Props3S2T",
    "PropsPF", "PropsCB", "PropsConv", "PropsX", "Props")]
PARTS = [1, 2, 3, 4, 5, 6]     # -DC02_PART=<k> (see main() of the tracer); 6 = harness/C02/trace_extra.hxx
REPO_SRC = ["/src/Exception/ContractViolation.cxx", "/src/Exception/TFELException.cxx", "/src/Math/MathException.cxx",
            "/src/Math/TensorConcept.cxx"]


def group_of(name):
    """generated module of a traced unit"""
    m = re.match(r"N(\d)_([a-z0-9]+)_(.*)", name)
    n, fam, op = m.group(1), m.group(2), m.group(3)
    if fam + "_" + op in c02extra.EXTRA_OPS:
        return "GenX"
    if fam == "t":
        return "GenT"
    if op in ("push_forward", "pull_back"):
        return "GenPF"
    if op == "change_basis":
        return "GenCB"
    if n == "1":
        return "GenN1"
    return "Gen" + n + fam.upper()


# ---------------------------------------------------------------------------------------------------
# python reference: index notation over Q(sqrt2)
ZERO, ONE, HALF = Q2(0), Q2(1), Q2(0.5)
ISQ2 = SQ2 * HALF
R3 = range(3)
VI = {(0, 0): 0, (1, 1): 1, (2, 2): 2, (0, 1): 3, (1, 0): 3, (0, 2): 4, (2, 0): 4, (1, 2): 5, (2, 1): 5}
TI = {(0, 0): 0, (1, 1): 1, (2, 2): 2, (0, 1): 3, (1, 0): 4, (0, 2): 5, (2, 0): 6, (1, 2): 7, (2, 1): 8}
PS = [(0, 0), (1, 1), (2, 2), (0, 1), (0, 2), (1, 2)]
PT = [(0, 0), (1, 1), (2, 2), (0, 1), (1, 0), (0, 2), (2, 0), (1, 2), (2, 1)]
NS = {1: 3, 2: 4, 3: 6}
NT = {1: 3, 2: 5, 3: 9}


def wS(I): return ONE if I < 3 else SQ2
def iwS(I): return ONE if I < 3 else ISQ2
def delta(i, j): return ONE if i == j else ZERO


def t2(f): return [[f(i, j) for j in R3] for i in R3]
def t4(f): return [[[[f(i, j, k, l) for l in R3] for k in R3] for j in R3] for i in R3]


def of_tens(v):            # v: list of N_T stored values
    return t2(lambda i, j: v[TI[i, j]] if TI[i, j] < len(v) else ZERO)


def of_st(v):
    return t2(lambda i, j: iwS(VI[i, j]) * v[VI[i, j]] if VI[i, j] < len(v) else ZERO)


def sto_tens(A, N): return [A[i][j] for (i, j) in PT[:NT[N]]]
def sto_st(A, N): return [wS(I) * A[i][j] for I, (i, j) in enumerate(PS[:NS[N]])]


KIND = {"ST": (VI, VI, True, True), "TT": (TI, TI, False, False), "TS": (VI, TI, True, False), "S2T": (TI, VI, False, True)}


def of4(kind, m):          # m: stored matrix (list of rows)
    ri, ci, rw, cw = KIND[kind]
    nr, nc = len(m), len(m[0])

    def f(i, j, k, l):
        I, J = ri[i, j], ci[k, l]
        if I >= nr or J >= nc:
            return ZERO
        v = m[I][J]
        if rw:
            v = v * iwS(I)
        if cw:
            v = v * iwS(J)
        return v
    return t4(f)


def sto4(kind, C, N, masked=True):
    ri, ci, rw, cw = KIND[kind]
    rows = (PS[:NS[N]] if rw else PT[:NT[N]])
    cols = (PS[:NS[N]] if cw else PT[:NT[N]])
    out = []
    for I, (i, j) in enumerate(rows):
        for J, (k, l) in enumerate(cols):
            v = C[i][j][k][l]
            if rw:
                v = v * wS(I)
            if cw:
                v = v * wS(J)
            out.append(v)
    return out


def s3(f):
    return f(0) + f(1) + f(2)


def app(C, A): return t2(lambda i, j: s3(lambda k: s3(lambda l: C[i][j][k][l] * A[k][l])))
def appL(A, C): return t2(lambda k, l: s3(lambda i: s3(lambda j: A[i][j] * C[i][j][k][l])))
def comp(C, D): return t4(lambda i, j, k, l: s3(lambda m: s3(lambda n: C[i][j][m][n] * D[m][n][k][l])))
def dyad(A, B): return t4(lambda i, j, k, l: A[i][j] * B[k][l])
def tr4(C): return t4(lambda i, j, k, l: C[k][l][i][j])
def symR(C): return t4(lambda i, j, k, l: (C[i][j][k][l] + C[i][j][l][k]) * HALF)
def symL(C): return t4(lambda i, j, k, l: (C[i][j][k][l] + C[j][i][k][l]) * HALF)
def T(A): return t2(lambda i, j: A[j][i])
def mul2(A, B): return t2(lambda i, j: s3(lambda k: A[i][k] * B[k][j]))


def push(F, C):
    # F_im F_jn F_kp F_lq C_mnpq, contracted one index at a time
    C1 = t4(lambda i, n, p, q_: s3(lambda m: F[i][m] * C[m][n][p][q_]))
    C2 = t4(lambda i, j, p, q_: s3(lambda n: F[j][n] * C1[i][n][p][q_]))
    C3 = t4(lambda i, j, k, q_: s3(lambda p: F[k][p] * C2[i][j][p][q_]))
    return t4(lambda i, j, k, l: s3(lambda q_: F[l][q_] * C3[i][j][k][q_]))


ID4 = t4(lambda i, j, k, l: delta(i, k) * delta(j, l))
TRANSP4 = t4(lambda i, j, k, l: delta(i, l) * delta(j, k))
IDS4 = t4(lambda i, j, k, l: (delta(i, k) * delta(j, l) + delta(i, l) * delta(j, k)) * HALF)
IXI4 = t4(lambda i, j, k, l: delta(i, j) * delta(k, l))
THIRD = Q2(1) / Q2(3)
J4 = t4(lambda i, j, k, l: delta(i, j) * delta(k, l) * THIRD)
KS4 = t4(lambda i, j, k, l: IDS4[i][j][k][l] - J4[i][j][k][l])
KT4 = t4(lambda i, j, k, l: ID4[i][j][k][l] - J4[i][j][k][l])
M4 = t4(lambda i, j, k, l: KS4[i][j][k][l] * Q2(1.5))
def rot4(R): return t4(lambda i, j, k, l: R[k][i] * R[l][j])
def tpld4(B): return t4(lambda i, j, k, l: delta(i, k) * B[l][j])
def tprd4(A): return t4(lambda i, j, k, l: A[i][k] * delta(j, l))
def dCdF4(F): return t4(lambda i, j, k, l: delta(i, l) * F[k][j] + F[k][i] * delta(j, l))
def dBdF4(F): return t4(lambda i, j, k, l: delta(i, k) * F[j][l] + F[i][l] * delta(j, k))
def lin4(k, A, B): return t4(lambda i, j, p, q_: k * A[i][j][p][q_] + B[i][j][p][q_] - A[i][j][p][q_] / k)


def m3_of(A): return M3([[A[i][j] for j in R3] for i in R3])
def t2_of(Mx): return [[Mx.a[i][j] for j in R3] for i in R3]


def plane_rot(R, N):
    if N == 3:
        return R
    if N == 2:
        return t2(lambda i, j: R[i][j] if (i < 2 and j < 2) else (ONE if i == j else ZERO))
    return t2(delta)


class Inputs:
    """draws the inputs of one unit and records them under the names the tracer used"""

    def __init__(self, rng, N):
        self.rng, self.N, self.env = rng, N, {}

    def val(self, nonzero=False):
        return q(t1.rnd_rat(self.rng, nonzero))

    def vec(self, name, n):
        v = [self.val() for _ in range(n)]
        for i, x in enumerate(v):
            self.env["%s%d" % (name, i)] = x
        return v

    def mat(self, name, r, c_):
        m = [[self.val() for _ in range(c_)] for _ in range(r)]
        for i in range(r):
            for j in range(c_):
                self.env["%s%d%d" % (name, i, j)] = m[i][j]
        return m

    def st(self, name): return of_st(self.vec(name, NS[self.N]))
    def te(self, name): return of_tens(self.vec(name, NT[self.N]))
    def rot(self, name="r"): return self.mat(name, 3, 3)

    def m4(self, name, kind):
        S, Tn = NS[self.N], NT[self.N]
        r, c_ = {"ST": (S, S), "TT": (Tn, Tn), "TS": (S, Tn), "S2T": (Tn, S)}[kind]
        return of4(kind, self.mat(name, r, c_))

    def scalar(self, name):
        v = self.val(nonzero=True)
        self.env[name] = v
        return v


def fourth_specs():
    """op name -> f(inp: Inputs) -> expected outputs (exact)"""
    F = {}
    def o4(kind): return lambda C, N: sto4(kind, C, N)
    OST, OTT, OTS, OS2T = o4("ST"), o4("TT"), o4("TS"), o4("S2T")
    # ---- st2tost2
    F["st_apply"] = lambda x: (lambda C, s: sto_st(app(C, s), x.N))(x.m4("a", "ST"), x.st("s"))
    F["st_applyL"] = lambda x: (lambda s, C: sto_st(appL(s, C), x.N))(x.st("s"), x.m4("a", "ST"))
    F["st_comp"] = lambda x: (lambda C, D: OST(comp(C, D), x.N))(x.m4("a", "ST"), x.m4("b", "ST"))
    F["st_transpose"] = lambda x: OST(tr4(x.m4("a", "ST")), x.N)
    F["st_dyad"] = lambda x: (lambda s, t_: OST(dyad(s, t_), x.N))(x.st("s"), x.st("t"))
    F["st_add_scale"] = lambda x: (lambda C, D, k: OST(lin4(k, C, D), x.N))(x.m4("a", "ST"), x.m4("b", "ST"), x.scalar("k"))
    for nm, C in (("st_Id", IDS4), ("st_IxI", IXI4), ("st_J", J4), ("st_K", KS4), ("st_M", M4)):
        F[nm] = (lambda C: lambda x: OST(C, x.N))(C)
    F["st_fromRotationMatrix"] = lambda x: (lambda R: OST(IDS4 if x.N == 1 else symR(rot4(plane_rot(R, x.N))), x.N))(x.rot())
    F["st_change_basis"] = lambda x: (lambda C, R: OST(C if x.N == 1 else push(T(plane_rot(R, x.N)), C), x.N))(x.m4("a", "ST"), x.rot())
    F["st_push_forward"] = lambda x: (lambda C, Fm: OST(push(Fm, C), x.N))(x.m4("a", "ST"), x.te("f"))
    F["st_pull_back"] = lambda x: (lambda C, Fm: OST(push(t2_of(m3_of(Fm).inv()), C), x.N))(x.m4("a", "ST"), x.te("f"))

    def getc(x):
        C = x.m4("a", "ST")
        ps = {3: [(i, j) for i in R3 for j in R3], 2: [(0, 0), (0, 1), (1, 0), (1, 1), (2, 2)], 1: [(0, 0), (1, 1), (2, 2)]}[x.N]
        return [C[i][j][k][l] for (i, j) in ps for (k, l) in ps]
    F["st_getComponent"] = getc
    F["st_convert_from_t2tost2"] = lambda x: OST(symR(x.m4("a", "TS")), x.N)
    F["st_comp_ts_s2t"] = lambda x: (lambda C, D: OST(comp(C, D), x.N))(x.m4("a", "TS"), x.m4("b", "S2T"))
    # ---- t2tot2
    F["tt_apply"] = lambda x: (lambda C, A: sto_tens(app(C, A), x.N))(x.m4("a", "TT"), x.te("x"))
    F["tt_applyL"] = lambda x: (lambda A, C: sto_tens(appL(A, C), x.N))(x.te("x"), x.m4("a", "TT"))
    F["tt_comp"] = lambda x: (lambda C, D: OTT(comp(C, D), x.N))(x.m4("a", "TT"), x.m4("b", "TT"))
    F["tt_dyad"] = lambda x: (lambda A, B: OTT(dyad(A, B), x.N))(x.te("x"), x.te("y"))
    for nm, C in (("tt_Id", ID4), ("tt_IxI", IXI4), ("tt_K", KT4), ("tt_transpose_derivative", TRANSP4)):
        F[nm] = (lambda C: lambda x: OTT(C, x.N))(C)
    F["tt_fromRotationMatrix"] = lambda x: (lambda R: OTT(ID4 if x.N == 1 else rot4(plane_rot(R, x.N)), x.N))(x.rot())
    F["tt_change_basis"] = lambda x: (lambda C, R: OTT(C if x.N == 1 else push(T(plane_rot(R, x.N)), C), x.N))(x.m4("a", "TT"), x.rot())
    F["tt_tpld"] = lambda x: OTT(tpld4(x.te("b")), x.N)
    F["tt_tprd"] = lambda x: OTT(tprd4(x.te("x")), x.N)
    F["tt_tpld_comp"] = lambda x: (lambda B, C: OTT(comp(tpld4(B), C), x.N))(x.te("b"), x.m4("a", "TT"))
    F["tt_tprd_comp"] = lambda x: (lambda A, C: OTT(comp(tprd4(A), C), x.N))(x.te("x"), x.m4("a", "TT"))
    F["tt_convert_from_t2tost2"] = lambda x: OTT(x.m4("a", "TS"), x.N)
    F["tt_comp_s2t_ts"] = lambda x: (lambda C, D: OTT(comp(C, D), x.N))(x.m4("a", "S2T"), x.m4("b", "TS"))
    # ---- t2tost2
    F["ts_apply"] = lambda x: (lambda C, A: sto_st(app(C, A), x.N))(x.m4("a", "TS"), x.te("x"))
    F["ts_applyL"] = lambda x: (lambda s, C: sto_tens(appL(s, C), x.N))(x.st("s"), x.m4("a", "TS"))
    F["ts_comp_st_ts"] = lambda x: (lambda C, D: OTS(comp(C, D), x.N))(x.m4("a", "ST"), x.m4("b", "TS"))
    F["ts_comp_ts_tt"] = lambda x: (lambda C, D: OTS(comp(C, D), x.N))(x.m4("a", "TS"), x.m4("b", "TT"))
    F["ts_dyad"] = lambda x: (lambda s, A: OTS(dyad(s, A), x.N))(x.st("s"), x.te("x"))
    F["ts_change_basis"] = lambda x: (lambda C, R: OTS(C if x.N == 1 else push(T(plane_rot(R, x.N)), C), x.N))(x.m4("a", "TS"), x.rot())
    F["ts_convert_from_t2tot2"] = lambda x: OTS(symL(x.m4("a", "TT")), x.N)
    F["ts_dCdF"] = lambda x: OTS(dCdF4(x.te("f")), x.N)
    F["ts_dBdF"] = lambda x: OTS(dBdF4(x.te("f")), x.N)
    # ---- st2tot2
    F["s2t_apply"] = lambda x: (lambda C, s: sto_tens(app(C, s), x.N))(x.m4("a", "S2T"), x.st("s"))
    F["s2t_applyL"] = lambda x: (lambda A, C: sto_st(appL(A, C), x.N))(x.te("x"), x.m4("a", "S2T"))
    F["s2t_comp_tt_s2t"] = lambda x: (lambda C, D: OS2T(comp(C, D), x.N))(x.m4("a", "TT"), x.m4("b", "S2T"))
    F["s2t_comp_s2t_st"] = lambda x: (lambda C, D: OS2T(comp(C, D), x.N))(x.m4("a", "S2T"), x.m4("b", "ST"))
    F["s2t_dyad"] = lambda x: (lambda A, s: OS2T(dyad(A, s), x.N))(x.te("x"), x.st("s"))
    F["s2t_tpld"] = lambda x: OS2T(symR(tpld4(x.st("s"))), x.N)
    F["s2t_tprd"] = lambda x: OS2T(symR(tprd4(x.st("s"))), x.N)
    return F


def tensor_specs():
    F = {}
    def mm(A): return m3_of(A)
    def ot(Mx, N): return Mx.tens(N)
    def os_(Mx, N): return Mx.mandel(N)
    F["t_prod"] = lambda x: (lambda A, B: ot(mm(A) * mm(B), x.N))(x.te("a"), x.te("b"))
    F["t_prod_ts"] = lambda x: (lambda A, s: ot(mm(A) * mm(s), x.N))(x.te("a"), x.st("s"))
    F["t_prod_st"] = lambda x: (lambda s, A: ot(mm(s) * mm(A), x.N))(x.st("s"), x.te("a"))
    F["t_transpose"] = lambda x: ot(mm(x.te("a")).T(), x.N)
    F["t_trace"] = lambda x: [mm(x.te("a")).trace()]
    F["t_det"] = lambda x: [mm(x.te("a")).det()]
    F["t_invert"] = lambda x: ot(mm(x.te("a")).inv(), x.N)
    F["t_ddet"] = lambda x: (lambda A: ot((A.inv() * A.det()).T(), x.N))(mm(x.te("a")))
    F["t_contract"] = lambda x: (lambda A, B: [mm(A).frob(mm(B))])(x.te("a"), x.te("b"))
    F["t_add_scale"] = lambda x: (lambda A, B, k: ot(mm(A) * k + mm(B) - mm(A) * (ONE / k), x.N))(x.te("a"), x.te("b"), x.scalar("k"))

    def cb(x):
        A, R = mm(x.te("a")), mm(plane_rot(x.rot(), x.N))
        return ot(R.T() * A * R, x.N)
    F["t_change_basis"] = cb
    F["t_changeBasis_member"] = cb
    F["t_syme"] = lambda x: (lambda A: os_((A + A.T()) * HALF, x.N))(mm(x.te("a")))
    F["t_unsyme"] = lambda x: ot(mm(x.st("s")), x.N)
    F["t_add_stensor"] = lambda x: (lambda A, s: ot(mm(A) + mm(s), x.N))(x.te("a"), x.st("s"))
    F["t_rcg"] = lambda x: (lambda A: os_(A.T() * A, x.N))(mm(x.te("a")))
    F["t_lcg"] = lambda x: (lambda A: os_(A * A.T(), x.N))(mm(x.te("a")))
    F["t_gl"] = lambda x: (lambda A: os_((A.T() * A - M3.one()) * HALF, x.N))(mm(x.te("a")))
    F["t_push_forward"] = lambda x: (lambda s, A: os_(mm(A) * mm(s) * mm(A).T(), x.N))(x.st("s"), x.te("a"))
    F["t_access"] = lambda x: (lambda A: [A[i][j] for i in R3 for j in R3])(x.te("a"))

    def bffm(x):
        v = x.vec("v", 9)
        A = t2(lambda i, j: v[i + 3 * j])
        return ot(mm(of_tens(sto_tens(A, x.N))), x.N)
    F["t_buildFromFortranMatrix"] = bffm
    F["t_Id"] = lambda x: ot(M3.one(), x.N)

    def polar(x):
        f = x.vec("f", 3)
        return f + [ONE, ONE, ONE]
    F["t_polar"] = polar
    return F


def specs_for(units):
    table = dict(fourth_specs())
    table.update(tensor_specs())
    table.update(c02extra.extra_specs(types.SimpleNamespace(**globals())))
    S = {}
    for u in units:
        m = re.match(r"N(\d)_(.*)", u.name)
        N, op = int(m.group(1)), m.group(2)
        if op in table:
            def f(rng, N=N, g=table[op]):
                x = Inputs(rng, N)
                exp = g(x)
                return x.env, exp
            S[u.name] = f
    return S


# units whose theorem is a composition of other traced units: their index-notation meaning rests on those
DEPENDS = {
    "st_pull_back": ["st_push_forward", "t_invert"],
    "st_change_basis": ["st_fromRotationMatrix", "st_comp"],
    "tt_change_basis": ["tt_fromRotationMatrix", "tt_comp"],
    "ts_change_basis": ["st_fromRotationMatrix", "tt_fromRotationMatrix", "ts_comp_st_ts", "ts_comp_ts_tt"],
}


def unit_of_theorem(thm, names):
    """traced unit a broken theorem talks about: the longest unit name that is a prefix of the theorem name"""
    best = None
    for n in names:
        if thm == n or thm.startswith(n + "_") or thm.startswith(n):
            if best is None or len(n) > len(best):
                best = n
    return best


def run(ck):
    srcs = ["C02/trace.cxx"] + [vlib.REPO + s for s in REPO_SRC]
    nsrcs = ["C02/numeric.cxx"] + [vlib.REPO + s for s in REPO_SRC + ["/src/Math/LUException.cxx"]]
    bins = ck.cxx_many([("c02trace%d" % p, srcs, ("-DC02_PART=%d" % p,)) for p in PARTS]
                       + [("c02numeric", nsrcs, ())], opt="-O0")
    units, by_bin, text = [], {}, ""
    for p in PARTS:
        b = bins["c02trace%d" % p]
        _, us = t1.run_tracer(ck, b, out="trace%d.dag" % p)
        text += open(ck.path("trace%d.dag" % p)).read()
        units += us
        for u in us:
            by_bin[u.name] = b
    # one generated module per family
    groups = {}
    for m in re.finditer(r"unit (\S+)\n.*?end \1\n", text, re.S):
        groups.setdefault(group_of(m.group(1)), []).append(m.group(0))
    for g in sorted(groups):
        dag = ck.write(g + ".dag", "".join(groups[g]))
        ck.emit([dag], "TfelVerif.C02.Gen", "TfelVerif/C02/%s.lean" % g)
    res = ck.lean(PROPS, PROPS)

    # exact differential evaluation of every traced unit against the index-notation reference
    rng = random.Random(ck.seed)
    S = specs_for(units)
    trials = 2 if ck.quick else 12
    found, stats = [], {"units_evaluated": 0, "points": 0, "skipped_division_by_zero": 0}
    for p in PARTS:
        b = bins["c02trace%d" % p]
        # part 6 (second batch): small units, several without theorem of their own: more points
        f, st = t1.search_units(ck, [u for u in units if by_bin[u.name] == b], S, rng, b, trials=trials if p != 6 else 3 * trials)
        found += f
        for k in stats:
            stats[k] += st[k]
    by_unit = {f["unit"]: f for f in found}
    names = [u.name for u in units]
    explained = set()
    if not res.ok:
        def search(fl):
            u = unit_of_theorem(fl.get("theorem") or "", names)
            if u and u in by_unit:
                explained.add(u)
                return by_unit[u]
            return None
        ck.lean_violations(res, search)
    broken_units = {unit_of_theorem(fl.get("theorem") or "", names) for fl in res.failed} if not res.ok else set()
    for f in found:
        m = re.match(r"(N\d)_(.*)", f["unit"])
        deps = [m.group(1) + "_" + d for d in DEPENDS.get(m.group(2), [])]
        hit = [d for d in deps if d in broken_units]
        if f["unit"] not in explained and hit:
            explained.add(f["unit"])
            ck.violation("thm-dep:" + f["unit"], "%s (proved as a composition of %s) disagrees with its index-notation "
                         "definition: the theorem of %s no longer checks" % (f["unit"], ", ".join(deps), ", ".join(hit)), f, True)
    for f in found:
        if f["unit"] not in explained:
            # the reference disagrees with the traced code on a unit whose theorems check (or that has no
            # theorem of its own): either the python reference or the statement is wrong — never silent
            ck.violation("search-oracle:" + f["unit"], "exact evaluation of traced unit %s disagrees with the python "
                         "reference although no theorem about it failed" % f["unit"], f, True)
    # double precision differential harness (polar_decomposition 2D/3D, invert / det of st2tost2): the property's
    # own predicate evaluated in exact rational arithmetic on the answers of the real code
    nviol, nstats = c02extra.run_numeric(ck, bins["c02numeric"], random.Random(1000 + ck.seed))
    for key, what, rep in nviol:
        ck.violation(key, what, rep, True)
    if ck.tier == "thorough" and res.ok:
        for m, log in ck.leanchecker(PROPS):
            ck.violation("leanchecker:" + m, "leanchecker rejects " + m, {"log": log}, False)
    ck.assumptions += [
        "T1: g++ instantiating TFEL with verif::Sym performs the same scalar operations as with double; sym.hxx/glue.hxx/emit.py are correct",
        "exact field semantics: rounding, overflow, underflow not modelled",
        "conventions fixed by the code and taken as the specification: change_basis(.,R) is R^T . R; storage orders and Mandel weights of docs/web/tensors.md",
        "polar_decomposition in 2D/3D (eigen-solver), invert(st2tost2) and det(st2tost2) for N>1 (pivoting LU) are not "
        "proved: they are run in double precision on seeded well-conditioned inputs and the property's predicate "
        "(R^T R = 1, det R > 0, U symmetric positive definite, R U = F; A invert(A) = invert(A) A = Id; det against an "
        "exact cofactor expansion) is evaluated in rational arithmetic with residual bounds 1e-9 / 1e-11 (observed < 1e-13)",
        "3D change_basis of st2tost2/t2tot2/t2tost2 and pull_back are stated as compositions of traced units that are themselves proved in index notation",
    ]
    missing = [u.name for u in units if u.name not in S]
    return ck.finish({
        "units_traced": len(units), "outputs_traced": sum(len(u.outs) for u in units),
        "dag_nodes": sum(len(u.order) for u in units),
        "evaluations": stats["points"], "distinct_nontrivial": stats["points"],
        "rule": "each traced unit evaluated exactly over Q(sqrt2) at seeded random rational stored components and compared "
                "with an independent index-notation reference (plain loops over Fin 3 indices); distinct = points",
        "search_stats": stats, "units_without_reference": missing, "numeric_harness": nstats,
        "samples": [{"unit": u.name, "inputs": u.inputs[:12], "outputs": [o for o, _ in u.outs][:12]} for u in units[:3]],
    })
