"""C03 — symmetric eigen-solvers return a valid spectral decomposition (ties: T1 symtrace for the straight-line
algebra of the solvers + residual report of every EigenSolver on the real code)."""
import math
import os
import random
import re
import sys
from fractions import Fraction

import emit
import vlib
from emit import Q2
from m3 import M3, q

sys.path.insert(0, os.path.join(vlib.VERIF, "checks"))
import c05ref as R  # noqa: E402  (exact helpers: signs, rational orthogonal matrices)

PROPS = ["TfelVerif.C03.Props"]
SOLVERS = ["TFEL", "FSESANALYTICAL", "FSESJACOBI", "FSESQL", "FSESCUPPEN", "FSESHYBRID", "GTEQR", "HARARI"]
# Solver specific tolerances (relative to |A|_F) for the reconstruction / orthonormality / eigen-equation residuals.
# docs/web/tensors.md gives no figures ("more efficient but less accurate than the iterative Jacobi algorithm"), so:
# 1e-3 for the closed-form / analytical family, 1e-10 for the iterative solvers (coordinator's decision 2026-09-22).
# A residual at or above the tolerance (eigenvectors that are not even approximately orthonormal) or a non finite
# output on a finite tensor is a violation, one stable key per (solver, dimension, family).
TOL = {"TFEL": 1e-3, "HARARI": 1e-3, "FSESANALYTICAL": 1e-3, "FSESCUPPEN": 1e-3, "FSESHYBRID": 1e-3,
       "FSESJACOBI": 1e-10, "FSESQL": 1e-10, "GTEQR": 1e-10}

HALF = Q2(Fraction(1, 2))


# ------------------------------------------------------------------------------------- exact references (T1 units)
def fake_sqrt(x): return x * Q2(Fraction(3, 4)) + x * x * Q2(Fraction(1, 7)) + Q2(Fraction(2, 5))
def fake_cos(x): return x * Q2(Fraction(2, 3)) - Q2(Fraction(1, 5))
def fake_sin(x): return x * x * Q2(Fraction(1, 9)) + Q2(Fraction(3, 8))
def fake_atan2(y, x): return y * Q2(Fraction(5, 7)) - x * Q2(Fraction(1, 3)) + Q2(Fraction(1, 2))


def fns(name, args):
    if name == "abs":
        return R.qabs(args[0])
    if name == "max":
        return R.qmax(args[0], args[1])
    if name == "min":
        return R.qmin(args[0], args[1])
    if name == "sqrt":
        return fake_sqrt(args[0])
    if name == "cos":
        return fake_cos(args[0])
    if name == "sin":
        return fake_sin(args[0])
    if name == "atan2":
        return fake_atan2(args[0], args[1])
    raise emit.NotExact(name)


def path_holds(u, val):
    for (cmp_, a, b, res) in u.paths:
        s = R.sign(val[a] - val[b])
        r = {"lt": s < 0, "le": s <= 0, "gt": s > 0, "ge": s >= 0, "eq": s == 0, "ne": s != 0}[cmp_]
        if r != res:
            return False
    return True


def reference(name, rng):
    """(env, expected outputs) — the formulas the theorems are about, with sqrt/cos/sin/atan2 as arbitrary fixed
    functions (the theorems treat them as uninterpreted)"""
    one, two, three = Q2(1), Q2(2), Q2(3)
    if name == "syevc3":
        a = [q(R.rnd(rng)) for _ in range(6)]
        a00, a11, a22, a01, a02, a12 = a
        env = dict(zip(["a00", "a11", "a22", "a01", "a02", "a12"], a))
        m = a00 + a11 + a22
        c1 = (a00 * a11 + a00 * a22 + a11 * a22) - (a01 * a01 + a12 * a12 + a02 * a02)
        c0 = a22 * a01 * a01 + a00 * a12 * a12 + a11 * a02 * a02 - a00 * a11 * a22 - two * a02 * a01 * a12
        p = m * m - three * c1
        qq = m * (p - Q2(Fraction(3, 2)) * c1) - Q2(Fraction(27, 2)) * c0
        sp = fake_sqrt(R.qabs(p))
        phi = Q2(27) * (Q2(Fraction(1, 4)) * c1 * c1 * (p - c1) + c0 * (qq + Q2(Fraction(27, 4)) * c0))
        phi = Q2(Fraction(1, 3)) * fake_atan2(fake_sqrt(R.qabs(phi)), qq)
        # sqrt3 is a constant of the trace: evaluation over Q(sqrt2) cannot represent it -> compare only what is rational
        return env, {"m": m, "c1": c1, "c0": c0, "p": p, "q": qq, "sqrtp": sp, "cosphi": fake_cos(phi),
                     "sinphi": fake_sin(phi)}
    if name.startswith("eigvec_"):
        k = name.split("_")[1]
        for _ in range(200):
            A = [q(R.rnd(rng, -9, 9)) for _ in range(6)]
            vp = q(R.rnd(rng))
            a, d, f = A[0] - vp, A[1] - vp, A[2] - vp
            b, c, e = A[3], A[4], A[5]
            det3, det2, det1 = a * d - b * b, a * f - c * c, d * f - e * e
            ab = [abs(float(x)) for x in (det1, det2, det3)]
            if min(ab) < 1e-6:
                continue
            br = "det3" if (ab[2] >= ab[0] and ab[2] >= ab[1]) else ("det1" if (ab[0] >= ab[1] and ab[0] >= ab[2]) else "det2")
            if br == k:
                break
        else:
            raise RuntimeError("no input for " + name)
        env = {"s0": A[0], "s1": A[1], "s2": A[2], "s3": A[3] * R.SQ2, "s4": A[4] * R.SQ2, "s5": A[5] * R.SQ2, "vp": vp}
        if k == "det3":
            x = [(b * e - c * d) / det3, (b * c - a * e) / det3, one]
            mn = det3
        elif k == "det1":
            x = [one, (c * e - b * f) / det1, (b * e - c * d) / det1]
            mn = det1
        else:
            x = [(c * e - b * f) / det2, one, (b * c - a * e) / det2]
            mn = det2
        n2 = x[0] * x[0] + x[1] * x[1] + x[2] * x[2]
        nr = fake_sqrt(n2)
        return env, {"ok": one, "v0": x[0] / nr, "v1": x[1] / nr, "v2": x[2] / nr, "minor": mn, "nr2": n2, "nr": nr}
    if name.startswith("jacobi_"):
        p_, q_ = int(name[7]), int(name[8])
        neg = name.endswith("neg")
        r_ = 3 - p_ - q_
        w = [q(Fraction(rng.randint(1, 9))) for _ in range(3)]
        if (w[q_] - w[p_]).a == 0:
            w[q_] = w[q_] + one
        if (R.sign(w[q_] - w[p_]) < 0) != neg:
            w[p_], w[q_] = w[q_], w[p_]
        apq = q(Fraction(rng.randint(1, 9), rng.choice([2, 3, 5])))
        # the two other off-diagonal entries are symbols in the trace (zero only in its shadow): the traced formulas
        # are compared with the rotation formulas at general values (the path condition is not imposed for these units)
        off = {(0, 1): q(R.rnd(rng, nonzero=True)), (0, 2): q(R.rnd(rng, nonzero=True)), (1, 2): q(R.rnd(rng, nonzero=True))}
        off[(p_, q_)] = apq
        env = {"a00": w[0], "a11": w[1], "a22": w[2], "a01": off[(0, 1)], "a02": off[(0, 2)], "a12": off[(1, 2)]}
        h = w[q_] - w[p_]
        th = HALF * h / apq
        r1 = fake_sqrt(one + th * th)
        t = (Q2(-1) / (r1 - th)) if neg else (one / (r1 + th))
        r2 = fake_sqrt(one + t * t)
        cc = one / r2
        ss = t * cc
        exp = {"th": th, "r1": r1, "t": t, "r2": r2, "cc": cc, "ss": ss}
        wn = list(w)
        wn[p_] = w[p_] - t * apq
        wn[q_] = w[q_] + t * apq
        exp.update({"w0": wn[0], "w1": wn[1], "w2": wn[2]})
        G = [[one if i == j else R.ZERO for j in range(3)] for i in range(3)]
        G[p_][p_] = cc
        G[q_][q_] = cc
        G[p_][q_] = ss
        G[q_][p_] = -ss
        for i in range(3):
            for j in range(3):
                exp["q%d_%d" % (i, j)] = G[i][j]
        A = M3.sym(w[0], w[1], w[2], off[(0, 1)], off[(0, 2)], off[(1, 2)])
        Gm = M3(G)
        B = Gm.T() * A * Gm
        names = {(0, 1): "b01", (0, 2): "b02", (1, 2): "b12"}
        for (i, j), nm in names.items():
            exp[nm] = R.ZERO if (i, j) == (p_, q_) else B.a[i][j]
        return env, exp
    if name.startswith("sytrd3_"):
        kind = name.split("_")[1]
        a = [q(R.rnd(rng)) for _ in range(6)]
        if kind == "diag":
            a[3] = a[4] = R.ZERO
        else:
            a[3] = q(abs(R.rnd(rng, nonzero=True))) * (one if kind == "pos" else Q2(-1))
            a[4] = q(R.rnd(rng, nonzero=True))
        a00, a11, a22, a01, a02, a12 = a
        env = dict(zip(["a00", "a11", "a22", "a01", "a02", "a12"], a))
        h = a01 * a01 + a02 * a02
        if kind == "diag":
            exp = {"d0": a00, "d1": a11, "d2": a22, "e1": a12, "h": h}
            for i in range(3):
                for j in range(3):
                    exp["q%d_%d" % (i, j)] = one if i == j else R.ZERO
            return env, exp
        g = -fake_sqrt(h) if kind == "pos" else fake_sqrt(h)
        om = one / (h - g * a01)
        u = [R.ZERO, a01 - g, a02]
        A = M3.sym(a00, a11, a22, a01, a02, a12)
        # p = omega A u (rows 1,2 of the trailing block), K, q = p - K u; d, e as in sytrd3
        f1 = a11 * u[1] + a12 * u[2]
        f2 = a12 * u[1] + a22 * u[2]
        K = (u[1] * f1 + u[2] * f2) * HALF * om * om
        q1 = om * f1 - K * u[1]
        q2 = om * f2 - K * u[2]
        exp = {"h": h, "g": g, "omega": om, "e0": g, "d0": a00, "d1": a11 - two * q1 * u[1], "d2": a22 - two * q2 * u[2],
               "e1": a12 - q1 * u[2] - u[1] * q2}
        for i in range(3):
            for j in range(3):
                exp["q%d_%d" % (i, j)] = (one if i == j else R.ZERO) - om * u[i] * u[j]
        return env, exp
    raise KeyError(name)


def search(ck, units, rng, trials):
    found = []
    stats = {"units_evaluated": 0, "points": 0, "path_mismatch_skipped": 0, "skipped": 0, "outputs_compared": 0}
    for u in units:
        stats["units_evaluated"] += 1
        for _ in range(trials):
            try:
                env, exp = reference(u.name, rng)
                val = emit.evaluate(u, env, fns)
            except (ZeroDivisionError, RuntimeError, emit.NotExact):
                stats["skipped"] += 1
                continue
            if not u.name.startswith("jacobi_") and not path_holds(u, val):
                stats["path_mismatch_skipped"] += 1
                continue
            stats["points"] += 1
            for (oname, node) in u.outs:
                if oname not in exp:
                    continue
                stats["outputs_compared"] += 1
                if not (val[node] == exp[oname]):
                    found.append({"unit": u.name, "output": oname, "inputs_exact": {k: repr(v) for k, v in env.items()},
                                  "inputs": {k: float(v) for k, v in env.items()},
                                  "code_value_exact": repr(val[node]), "spec_value_exact": repr(exp[oname]),
                                  "code_value": float(val[node]), "spec_value": float(exp[oname])})
                    break
            else:
                continue
            break
    return found, stats


# ------------------------------------------------------------------------------------- residual report (real code)
def families(rng, n_random):
    """(id, N, a00 a11 a22 a01 a02 a12) — degenerate, nearly degenerate, badly scaled and random spectra"""
    cases = []

    def add(fam, N, m):
        cases.append(("%s#%d" % (fam, len(cases)), N, m))

    def rot(l, N, scale=1.0):
        Rm = R.rnd_orth(rng, two_d=(N == 2))
        Rf = [[float(x) for x in row] for row in Rm.a]
        A = [[sum(Rf[i][k] * l[k] * Rf[j][k] for k in range(3)) * scale for j in range(3)] for i in range(3)]
        return [A[0][0], A[1][1], A[2][2], A[0][1], A[0][2], A[1][2]]
    for N in (1, 2, 3):
        for a in (1.0, -2.5, 1e-8, 1e8):
            for perm in ((a, 0, 0), (0, a, 0), (0, 0, a), (a, a, 0), (a, 0, a), (0, a, a), (a, a, a)):
                add("diag", N, list(perm) + [0, 0, 0])
        add("zero", N, [0, 0, 0, 0, 0, 0])
    for N in (2, 3):
        for _ in range(n_random):
            a, b = rng.uniform(-3, 3), rng.uniform(-3, 3)
            add("repeated", N, rot([a, a, b] if N == 3 else [a, a, b], N))
            add("repeated2", N, rot([a, b, b], N))
            k = rng.choice([6, 8, 10, 12, 14])
            add("near", N, rot([a, a * (1 + 10.0 ** -k), b], N))
            add("near3", N, rot([a, a * (1 + 10.0 ** -k), a * (1 - 3 * 10.0 ** -k)], N))
            s = 10.0 ** rng.choice([-150, -100, -30, -8, 8, 30, 100, 150])
            add("scaled", N, rot([a, b, rng.uniform(-3, 3)], N, s))
            add("mixed", N, rot([a * 1e8, b, rng.uniform(-3, 3) * 1e-8], N))
            add("random", N, rot([a, b, rng.uniform(-3, 3)], N))
            add("rank1", N, rot([a, 0.0, 0.0], N))
    return cases


def sym_eigs(m):
    """eigenvalues of the symmetric 3x3 matrix (a00 a11 a22 a01 a02 a12), trigonometric formula (support code: only
    used to select well separated spectra for the `dense` family)"""
    a00, a11, a22, a01, a02, a12 = m
    p1 = a01 * a01 + a02 * a02 + a12 * a12
    q_ = (a00 + a11 + a22) / 3
    p2 = (a00 - q_) ** 2 + (a11 - q_) ** 2 + (a22 - q_) ** 2 + 2 * p1
    if p2 == 0:
        return [q_, q_, q_]
    p = math.sqrt(p2 / 6)
    b = [[(a00 - q_) / p, a01 / p, a02 / p], [a01 / p, (a11 - q_) / p, a12 / p], [a02 / p, a12 / p, (a22 - q_) / p]]
    detb = (b[0][0] * (b[1][1] * b[2][2] - b[1][2] * b[2][1]) - b[0][1] * (b[1][0] * b[2][2] - b[1][2] * b[2][0])
            + b[0][2] * (b[1][0] * b[2][1] - b[1][1] * b[2][0]))
    r = max(-1., min(1., detb / 2))
    phi = math.acos(r) / 3
    e1 = q_ + 2 * p * math.cos(phi)
    e3 = q_ + 2 * p * math.cos(phi + 2 * math.pi / 3)
    return [e1, 3 * q_ - e1 - e3, e3]


def dense_cases(rng, n):
    """family `dense` (mutation audit 2026-09-22): fully populated, well conditioned symmetric tensors — every
    off-diagonal entry of the dimension is >= 0.2 in magnitude, the eigenvalues are pairwise >= 0.3 apart, entries O(1).
    No solver has a known finding on this family, so (a) the documented coarse tolerances apply with fresh keys
    `residual:<solver>/N<d>:dense`, and (b) the accuracy every solver reaches on the clean tree (<= 4e-14, measured
    over 40 seeds x 12 tensors) is checked with a 100x margin under the keys `accuracy:<solver>/N<d>:dense`."""
    cases = []
    for N in (2, 3):
        k = 0
        while k < n:
            m = [rng.uniform(-2, 2) for _ in range(6)]
            if N == 2:
                m[4] = m[5] = 0.
            off = [m[3]] if N == 2 else m[3:]
            if min(abs(x) for x in off) < 0.2:
                continue
            ev = sorted(sym_eigs(m))
            if min(ev[1] - ev[0], ev[2] - ev[1]) < 0.3:
                continue
            cases.append(("dense#x%d_%d" % (N, k), N, m))
            k += 1
    return cases


def equispaced_cases(rng, n):
    """family `equispaced` (mutation audit 2026-09-22): tensors whose deviator has J3 = 0 (eigenvalues t+x, t, t-x) with
    a non zero trace — the `d = 1` shortcut of the Harari solver and the phi = pi/6 case of the Cardano based ones.
    Diagonal tensors (exactly symmetric floating point sums make d = 1 exactly), hence reported in the family `diag`
    (FSESANALYTICAL has a known finding on diagonal tensors; every other solver is accurate on them)."""
    cases = []
    for k in range(n):
        t = rng.choice([-1, 1]) * rng.uniform(0.3, 3)
        x = rng.uniform(0.1, 3)
        perm = rng.choice([(t + x, t, t - x), (t, t + x, t - x), (t - x, t + x, t)])
        cases.append(("diag#q%d" % k, 3, list(perm) + [0., 0., 0.]))  # diagonal: family `diag` (FSESANALYTICAL has a known finding on diagonal tensors)
    return cases


# accuracy reached by every solver on the `dense` family (relative residuals): clean maximum 3.8e-14 over 40 seeds => bound 5e-12
ACCURACY_DENSE = 5e-12


def residuals(ck, binary, cases):
    text = "".join("%s %d %s\n" % (cid, N, " ".join("%.17g" % x for x in m)) for cid, N, m in cases)
    p = ck.run([binary], input=text, timeout=900)
    if p.returncode != 0:
        return None, p.stderr[-2000:]
    rows = []
    for line in p.stdout.splitlines():
        f = line.split()
        rows.append((f[0], int(f[1]), f[2], [float(x) for x in f[3:7]], f[7] == "1"))
    return rows, None


def run(ck):
    bins = ck.cxx_many([("c03trace", ["C03/trace.cxx", vlib.REPO + "/src/Exception/ContractViolation.cxx"]),
                        ("c03resid", ["C03/residual.cxx", vlib.REPO + "/src/Exception/ContractViolation.cxx"],
                         ["-DNDEBUG"])], opt="-O1")
    p = ck.run([bins["c03trace"]], timeout=600)
    if p.returncode != 0:
        raise vlib.BuildError("tracer c03trace failed on the current tree (value dependent branch on a symbol outside "
                              "concolic mode, contract violation or crash)", p.stdout[-800:] + p.stderr[-3000:])
    dag = ck.write("trace.dag", p.stdout)
    units = emit.parse(p.stdout)
    ck.emit([dag], "TfelVerif.C03.Gen", "TfelVerif/C03/Gen.lean")
    res = ck.lean(PROPS, PROPS)
    rng = random.Random(ck.seed)
    found, stats = search(ck, units, rng, 4 if ck.quick else 40)
    by_unit = {f["unit"]: f for f in found}
    reported = set()
    if not res.ok:
        def find(fl):
            thm = fl.get("theorem") or ""
            cands = [u for u in by_unit if thm.startswith(u) or u.startswith(thm.split("_")[0])]
            if cands:
                reported.add(cands[0])
                return by_unit[cands[0]]
            return None
        ck.lean_violations(res, find)
    for f in found:
        m6 = None
        if "a00" in f["inputs"]:
            m6 = [f["inputs"][k] for k in ("a00", "a11", "a22", "a01", "a02", "a12")]
        elif "s0" in f["inputs"]:
            m6 = [f["inputs"]["s0"], f["inputs"]["s1"], f["inputs"]["s2"]] + [f["inputs"][k] / math.sqrt(2.) for k in ("s3", "s4", "s5")]
        if m6:
            rr, _ = residuals(ck, bins["c03resid"], [("t1", 3, m6)])
            if rr:
                f["real_code_residuals_at_this_tensor"] = {r[2]: r[3] for r in rr}
    for f in found:
        if f["unit"] not in reported:
            ck.violation("unit:" + f["unit"], "traced unit %s disagrees with the reference formulas at an exact input: output %s = %s, expected %s"
                         % (f["unit"], f["output"], f["code_value_exact"], f["spec_value_exact"]), f, True)
    # ---- residual report on the real code
    # directed sub-corpus first (fixed witnesses: the same keys fire at every seed), then seeded random families
    directed = []
    cp = os.path.join(vlib.VERIF, "corpus", "C03", "directed.txt")
    if os.path.exists(cp):
        for line in open(cp):
            f = line.split()
            if not f or f[0].startswith("#"):
                continue
            fam = f[0].split(":")[-1]
            directed.append(("%s#d%d" % (fam, len(directed)), int(f[1]), [float(x) for x in f[2:8]]))
    cases = directed + families(rng, 6 if ck.quick else 120) + dense_cases(rng, 12 if ck.quick else 200) + equispaced_cases(rng, 8 if ck.quick else 100)
    rows, err = residuals(ck, bins["c03resid"], cases)
    report = {}
    keys_fired = []
    if rows is None:
        ck.violation("residual-harness-crash", "the residual harness aborted on the current tree", {"stderr": err}, False)
    else:
        byid = {cid: (N, m) for cid, N, m in cases}
        worst = {}
        for cid, N, solver, r, finite in rows:
            fam = cid.split("#")[0]
            nonfin = (not finite) or any(math.isnan(x) for x in r)
            val = float("inf") if nonfin else max(r)
            e = report.setdefault("%s/N%d" % (solver, N), {})
            if not nonfin:
                e[fam] = max(e.get(fam, 0.0), val)
            else:
                e[fam + ":nonfinite"] = e.get(fam + ":nonfinite", 0) + 1
            if nonfin:
                key = "nonfinite:%s/N%d:%s" % (solver, N, fam)
            elif val >= TOL[solver]:
                key = "residual:%s/N%d:%s" % (solver, N, fam)
            elif fam == "dense" and val >= ACCURACY_DENSE:
                key = "accuracy:%s/N%d:%s" % (solver, N, fam)
            else:
                continue
            # keep the first witness (directed corpus first => deterministic replay)
            if key not in worst:
                worst[key] = (val, cid, r, finite, solver)
        for key, (val, cid, r, finite, solver) in sorted(worst.items()):
            N, m = byid[cid]
            what = ("non finite eigenvalues/eigenvectors" if key.startswith("nonfinite")
                    else ("residual %.3g >= %.0e, the accuracy bound of every solver on well conditioned dense tensors "
                          "(clean tree: <= 4e-14)" % (val, ACCURACY_DENSE) if key.startswith("accuracy")
                          else "residual %.3g >= tolerance %.0e" % (val, TOL[solver])))
            keys_fired.append(key)
            ck.violation(key,
                         "%s: %s for the finite symmetric tensor (a00 a11 a22 a01 a02 a12) = %s"
                         % (key, what, " ".join("%.17g" % x for x in m)),
                         {"solver": solver, "family": cid.split("#")[0], "matrix_a00_a11_a22_a01_a02_a12": m, "N": N,
                          "residuals_recon_orth_eigeq_evdiff": r, "finite": finite, "tolerance": TOL[solver],
                          "replay": "echo 'x %d %s' | work/C03/c03resid   (harness/C03/residual.cxx built against the tree)" % (N, " ".join("%.17g" % x for x in m))}, True)
    if ck.tier == "thorough" and res.ok:
        for m, log in ck.leanchecker(PROPS):
            ck.violation("leanchecker:" + m, "leanchecker rejects " + m, {"log": log}, False)
    ck.assumptions += [
        "T1: g++ instantiating the solvers with verif::Sym performs the same scalar operations as with double; sym.hxx/glue.hxx/emit.py are correct",
        "exact field semantics: rounding, overflow, underflow not modelled; sqrt/cos/sin/atan2 uninterpreted, the laws used are explicit hypotheses of the theorems",
        "harness/C03/trace.cxx: tfel::math::abs/std::max/std::min recorded as nodes, std::fpclassify decided by the shadow value and recorded as a path condition, the default solver's eigenvalue routine (CubicRoots, C10) stubbed; intermediate quantities (theta,t,c,s,...) are recomputed in the harness with the solver's formulas and identified with the solver's own nodes by common subexpression elimination",
        "the residual harness is compiled with -DNDEBUG (release behaviour): in a debug build the default solver aborts on an assert for some nearly triple-degenerate tensors (StensorComputeEigenVectors.hxx:391)",
        "PARTIAL: tolerances, finiteness and convergence are floating point facts: not proved, only measured by the residual report on the real code (solver specific tolerances %s); QL sweeps, Cuppen, Gte, Harari and the is_negligible shortcuts are not traced" % TOL,
    ]
    return ck.finish({
        "units_traced": len(units), "outputs_traced": sum(len(u.outs) for u in units),
        "dag_nodes": sum(len(u.order) for u in units),
        "evaluations": stats["points"] + (len(rows) if rows else 0),
        "distinct_nontrivial": stats["points"] + (len(rows) if rows else 0),
        "rule": "T1 units: exact evaluation over Q(sqrt2) at seeded random rational inputs satisfying the recorded path condition, against the formulas the theorems are about; residual report: one evaluation = one (matrix, solver) pair on the real double code, matrices from the families diag/zero/repeated/near/scaled/mixed/random/rank1 in 1D, 2D, 3D",
        "search_stats": stats,
        "residual_cases": len(cases), "residual_rows": len(rows) if rows else 0,
        "tolerances": TOL, "directed_corpus_cases": len(directed), "violation_keys_fired": keys_fired,
        "max_residual_per_solver_and_family": report,
        "samples": [{"id": cid, "N": N, "matrix": m} for cid, N, m in cases[:3]],
    })
