"""C01 — symmetric tensor algebra matches its 3x3 matrix meaning (tie: T1 symtrace)."""
import random

import t1
import vlib
from emit import Q2
from m3 import M3, SQ2, mandel_inputs, sym_of, q

PROPS = ["TfelVerif.C01.Props"]


def specs():
    """python reference for the failing-input search (support only; the proofs are in Props.lean)"""
    S = {}

    def rr(rng, n=6, nonzero=False):
        return [t1.rnd_rat(rng, nonzero) for _ in range(n)]

    def rot(rng, prefix):
        v = [[t1.rnd_rat(rng) for _ in range(3)] for _ in range(3)]
        env = {"%s%d%d" % (prefix, i, j): q(v[i][j]) for i in range(3) for j in range(3)}
        return env, M3(v)

    for N in (1, 2, 3):
        d = "N%d_" % N
        ns = {1: 3, 2: 4, 3: 6}[N]

        def st(rng, prefix="s", N=N):
            vals = rr(rng)
            if N < 3:
                vals[4] = vals[5] = 0
            if N < 2:
                vals[3] = 0
            return mandel_inputs(prefix, N, vals), sym_of(N, vals)

        def mk(f, N=N):
            return lambda rng: f(rng, N)
        S[d + "trace"] = (lambda st: lambda rng: (lambda e, A: (e, [A.trace()]))(*st(rng)))(st)
        S[d + "det"] = (lambda st: lambda rng: (lambda e, A: (e, [A.det()]))(*st(rng)))(st)
        S[d + "invert"] = (lambda st, N: lambda rng: (lambda e, A: (e, A.inv().mandel(N)))(*st(rng)))(st, N)
        S[d + "square"] = (lambda st, N: lambda rng: (lambda e, A: (e, (A * A).mandel(N)))(*st(rng)))(st, N)
        S[d + "deviator"] = (lambda st, N: lambda rng: (lambda e, A: (e, A.dev().mandel(N)))(*st(rng)))(st, N)

        def two(rng, f, st=st, N=N):
            e1, A = st(rng, "s")
            e2, B = st(rng, "t")
            e1.update(e2)
            return e1, f(A, B)
        S[d + "symmetric_product"] = (lambda two, N: lambda rng: two(rng, lambda A, B: ((A * B + B * A) * Q2(0.5)).mandel(N)))(two, N)
        S[d + "contract"] = (lambda two: lambda rng: two(rng, lambda A, B: [A.frob(B)]))(two)

        def addscale(rng, st=st, N=N):
            e1, A = st(rng, "s")
            e2, B = st(rng, "t")
            a = t1.rnd_rat(rng, nonzero=True)
            e1.update(e2)
            e1["a"] = q(a)
            return e1, (A * q(a) + B - A * (Q2(1) / q(a))).mandel(N)
        S[d + "add_scale"] = addscale

        def cb(rng, st=st, N=N):
            e, A = st(rng)
            er, R = rot(rng, "r")
            e.update(er)
            if N == 2:
                R = M3([[R.a[0][0], R.a[0][1], 0], [R.a[1][0], R.a[1][1], 0], [0, 0, 1]])
            if N == 1:
                return e, A.mandel(1)
            return e, (R.T() * A * R).mandel(N)
        S[d + "change_basis"] = cb
        S[d + "changeBasis_member"] = cb

        def bfm(rng, N=N):
            e, Mx = rot(rng, "m")
            return e, ((Mx + Mx.T()) * Q2(0.5)).mandel(N)
        S[d + "buildFromMatrix"] = bfm

        def bfv(rng, N=N):
            v = rr(rng, 3)
            return {"v%d" % i: q(v[i]) for i in range(3)}, M3.outer(v, v).mandel(N)
        S[d + "buildFromVectorDiadicProduct"] = bfv

        def bfv2(rng, N=N):
            v, w = rr(rng, 3), rr(rng, 3)
            e = {"v%d" % i: q(v[i]) for i in range(3)}
            e.update({"w%d" % i: q(w[i]) for i in range(3)})
            return e, (M3.outer(v, w) + M3.outer(w, v)).mandel(N)
        S[d + "buildFromVectorsSymmetricDiadicProduct"] = bfv2

        def bfe(rng, N=N):
            e, Mx = rot(rng, "m")
            l = rr(rng, 3)
            e.update({"l%d" % i: q(l[i]) for i in range(3)})
            if N == 1:
                return e, [q(x) for x in l]
            if N == 2:
                Mx = M3([[Mx.a[0][0], Mx.a[0][1], 0], [Mx.a[1][0], Mx.a[1][1], 0], [0, 0, 1]])
            return e, (Mx * M3.diag(*l) * Mx.T()).mandel(N)
        S[d + "buildFromEigenValuesAndVectors"] = bfe

        def imp(rng, N=N, ns=ns, voigt=False):
            x = rr(rng)
            e = {"x%d" % i: q(x[i]) for i in range(ns)}
            h = Q2(0.5) if voigt else Q2(1)
            A = sym_of(N, [q(x[0]), q(x[1]), q(x[2])] + [q(v) * h for v in x[3:ns]])
            return e, A.mandel(N)
        S[d + "importTab"] = imp
        S[d + "importVoigt"] = (lambda imp: lambda rng: imp(rng, voigt=True))(imp)

        def exp_(rng, st=st, N=N, ns=ns):
            e, A = st(rng)
            a = A.a
            return e, [a[0][0], a[1][1], a[2][2], a[0][1], a[0][2], a[1][2]][:ns]
        S[d + "exportTab"] = exp_

        def iw(rng, ns=ns):
            x = rr(rng)
            return {"x%d" % i: q(x[i]) for i in range(ns)}, [q(v) for v in x[:ns]]
        S[d + "import_write"] = iw

        def getc(rng, st=st, N=N):
            e, A = st(rng)
            out = []
            for i in range(3):
                for j in range(3):
                    if i == j or N == 3 or (N == 2 and i < 2 and j < 2):
                        out.append(A.a[i][j])
            return e, out
        S[d + "getComponent"] = getc
        for i in range(3):
            for j in range(3):
                if i == j or N == 3 or (N == 2 and i < 2 and j < 2):
                    def setc(rng, st=st, N=N, i=i, j=j):
                        e, A = st(rng)
                        v = t1.rnd_rat(rng)
                        e["v"] = q(v)
                        B = M3([[x for x in r] for r in A.a])
                        B.a[i][j] = q(v)
                        B.a[j][i] = q(v)
                        return e, B.mandel(N)
                    S[d + "setComponent_%d_%d" % (i, j)] = setc
        S[d + "Id"] = (lambda N: lambda rng: ({}, M3.one().mandel(N)))(N)
    return S


def run(ck):
    tracer = ck.cxx("c01trace", ["C01/trace.cxx", vlib.REPO + "/src/Exception/ContractViolation.cxx"], opt="-O0")
    dag, units = t1.run_tracer(ck, tracer)
    ck.emit([dag], "TfelVerif.C01.Gen", "TfelVerif/C01/Gen.lean")
    res = ck.lean(PROPS, PROPS)
    rng = random.Random(ck.seed)
    S = specs()
    # exact differential evaluation of every traced unit against the reference (supports the tie and
    # is the failing-input search when an obligation breaks)
    trials = 4 if ck.quick else 40
    found, stats = t1.search_units(ck, units, S, rng, tracer, trials=trials)
    if not res.ok:
        by_unit = {f["unit"]: f for f in found}

        def search(fl):
            thm = fl.get("theorem") or ""
            cands = [u for u in by_unit if thm.startswith(u) or u.startswith(thm)]
            if cands:
                return by_unit[cands[0]]
            return None
        ck.lean_violations(res, search)
    elif found:
        # theorems check but the reference disagrees with the traced code: the search oracle itself is wrong
        for f in found:
            ck.violation("search-oracle:" + f["unit"], "exact evaluation of traced unit %s disagrees with the python reference although the theorems check" % f["unit"], f, True)
    if ck.tier == "thorough" and res.ok:
        for m, log in ck.leanchecker(PROPS):
            ck.violation("leanchecker:" + m, "leanchecker rejects " + m, {"log": log}, False)
    ck.assumptions += [
        "T1: g++ instantiating TFEL with verif::Sym performs the same scalar operations as with double; sym.hxx/glue.hxx/emit.py are correct",
        "exact field semantics: rounding, overflow, underflow not modelled; sqrt is an uninterpreted symbol",
        "change_basis orientation R^T A R (what the code does in all dimensions; docs/web/tensors.md does not fix it)",
    ]
    missing = [u.name for u in units if u.name not in S]
    return ck.finish({
        "units_traced": len(units), "outputs_traced": sum(len(u.outs) for u in units),
        "dag_nodes": sum(len(u.order) for u in units),
        "evaluations": stats["points"], "distinct_nontrivial": stats["points"],
        "rule": "each traced unit evaluated exactly over Q(sqrt2) at seeded random rational tensors and compared with an independent 3x3 matrix reference; distinct = points (random rationals)",
        "search_stats": stats, "units_without_reference": missing,
        "samples": [{"unit": u.name, "inputs": u.inputs, "outputs": [o for o, _ in u.outs]} for u in units[:3]],
    })
