"""C01 — symmetric tensor algebra matches its 3x3 matrix meaning (tie: T1 symtrace)."""
import math
import random
import struct
from fractions import Fraction

import emit
import t1
import vlib
from emit import Q2
from m3 import M3, SQ2, mandel_inputs, sym_of, q

PROPS = ["TfelVerif.C01.Props", "TfelVerif.C01.Props2", "TfelVerif.C01.Props3", "TfelVerif.C01.Props4"]


def fns(name, args):
    """deterministic interpretation of the recorded function symbols for the exact failing-input search
    (abs/min/max: their meaning; log/sqrt: the correctly rounded double taken as an exact rational; `f`: a fixed
    polynomial). The traced code and the reference apply it to identical exact arguments."""
    x = [float(a) for a in args]
    if name == "abs":
        return args[0] if x[0] >= 0 else -args[0]
    if name == "max":
        return args[1] if x[0] < x[1] else args[0]
    if name == "min":
        return args[1] if x[1] < x[0] else args[0]
    if name == "log":
        if x[0] <= 0:
            raise ZeroDivisionError
        return Q2(Fraction(math.log(x[0])))
    if name == "sqrt":
        if x[0] < 0:
            raise ZeroDivisionError
        return Q2(Fraction(math.sqrt(x[0])))
    if name == "f":
        return args[0] * args[0] * args[0] - args[0] * Q2(2) + Q2(1)
    raise emit.NotExact(name)


def adj(A):
    a = A.a
    return M3([[a[1][1] * a[2][2] - a[1][2] * a[2][1], a[0][2] * a[2][1] - a[0][1] * a[2][2], a[0][1] * a[1][2] - a[0][2] * a[1][1]],
               [a[1][2] * a[2][0] - a[1][0] * a[2][2], a[0][0] * a[2][2] - a[0][2] * a[2][0], a[0][2] * a[1][0] - a[0][0] * a[1][2]],
               [a[1][0] * a[2][1] - a[1][1] * a[2][0], a[0][1] * a[2][0] - a[0][0] * a[2][1], a[0][0] * a[1][1] - a[0][1] * a[1][0]]])


def specs():
    """python reference for the failing-input search (support only; the proofs are in Props.lean)"""
    S = {}

    def rr(rng, n=6, nonzero=False):
        return [t1.rnd_rat(rng, nonzero) for _ in range(n)]

    def rot(rng, prefix):
        v = [[t1.rnd_rat(rng) for _ in range(3)] for _ in range(3)]
        env = {"%s%d%d" % (prefix, i, j): q(v[i][j]) for i in range(3) for j in range(3)}
        return env, M3(v)

    for N in (1, 2, 3):
        d = "N%d_" % N
        ns = {1: 3, 2: 4, 3: 6}[N]

        def st(rng, prefix="s", N=N):
            vals = rr(rng)
            if N < 3:
                vals[4] = vals[5] = 0
            if N < 2:
                vals[3] = 0
            return mandel_inputs(prefix, N, vals), sym_of(N, vals)

        def mk(f, N=N):
            return lambda rng: f(rng, N)
        S[d + "trace"] = (lambda st: lambda rng: (lambda e, A: (e, [A.trace()]))(*st(rng)))(st)
        S[d + "det"] = (lambda st: lambda rng: (lambda e, A: (e, [A.det()]))(*st(rng)))(st)
        S[d + "invert"] = (lambda st, N: lambda rng: (lambda e, A: (e, A.inv().mandel(N)))(*st(rng)))(st, N)
        S[d + "square"] = (lambda st, N: lambda rng: (lambda e, A: (e, (A * A).mandel(N)))(*st(rng)))(st, N)
        S[d + "deviator"] = (lambda st, N: lambda rng: (lambda e, A: (e, A.dev().mandel(N)))(*st(rng)))(st, N)

        def two(rng, f, st=st, N=N):
            e1, A = st(rng, "s")
            e2, B = st(rng, "t")
            e1.update(e2)
            return e1, f(A, B)
        S[d + "symmetric_product"] = (lambda two, N: lambda rng: two(rng, lambda A, B: ((A * B + B * A) * Q2(0.5)).mandel(N)))(two, N)
        S[d + "contract"] = (lambda two: lambda rng: two(rng, lambda A, B: [A.frob(B)]))(two)

        def addscale(rng, st=st, N=N):
            e1, A = st(rng, "s")
            e2, B = st(rng, "t")
            a = t1.rnd_rat(rng, nonzero=True)
            e1.update(e2)
            e1["a"] = q(a)
            return e1, (A * q(a) + B - A * (Q2(1) / q(a))).mandel(N)
        S[d + "add_scale"] = addscale

        def cb(rng, st=st, N=N):
            e, A = st(rng)
            er, R = rot(rng, "r")
            e.update(er)
            if N == 2:
                R = M3([[R.a[0][0], R.a[0][1], 0], [R.a[1][0], R.a[1][1], 0], [0, 0, 1]])
            if N == 1:
                return e, A.mandel(1)
            return e, (R.T() * A * R).mandel(N)
        S[d + "change_basis"] = cb
        S[d + "changeBasis_member"] = cb

        def bfm(rng, N=N):
            e, Mx = rot(rng, "m")
            return e, ((Mx + Mx.T()) * Q2(0.5)).mandel(N)
        S[d + "buildFromMatrix"] = bfm

        def bfv(rng, N=N):
            v = rr(rng, 3)
            return {"v%d" % i: q(v[i]) for i in range(3)}, M3.outer(v, v).mandel(N)
        S[d + "buildFromVectorDiadicProduct"] = bfv

        def bfv2(rng, N=N):
            v, w = rr(rng, 3), rr(rng, 3)
            e = {"v%d" % i: q(v[i]) for i in range(3)}
            e.update({"w%d" % i: q(w[i]) for i in range(3)})
            return e, (M3.outer(v, w) + M3.outer(w, v)).mandel(N)
        S[d + "buildFromVectorsSymmetricDiadicProduct"] = bfv2

        def bfe(rng, N=N):
            e, Mx = rot(rng, "m")
            l = rr(rng, 3)
            e.update({"l%d" % i: q(l[i]) for i in range(3)})
            if N == 1:
                return e, [q(x) for x in l]
            if N == 2:
                Mx = M3([[Mx.a[0][0], Mx.a[0][1], 0], [Mx.a[1][0], Mx.a[1][1], 0], [0, 0, 1]])
            return e, (Mx * M3.diag(*l) * Mx.T()).mandel(N)
        S[d + "buildFromEigenValuesAndVectors"] = bfe

        def imp(rng, N=N, ns=ns, voigt=False):
            x = rr(rng)
            e = {"x%d" % i: q(x[i]) for i in range(ns)}
            h = Q2(0.5) if voigt else Q2(1)
            A = sym_of(N, [q(x[0]), q(x[1]), q(x[2])] + [q(v) * h for v in x[3:ns]])
            return e, A.mandel(N)
        S[d + "importTab"] = imp
        S[d + "importVoigt"] = (lambda imp: lambda rng: imp(rng, voigt=True))(imp)

        def exp_(rng, st=st, N=N, ns=ns):
            e, A = st(rng)
            a = A.a
            return e, [a[0][0], a[1][1], a[2][2], a[0][1], a[0][2], a[1][2]][:ns]
        S[d + "exportTab"] = exp_

        def iw(rng, ns=ns):
            x = rr(rng)
            return {"x%d" % i: q(x[i]) for i in range(ns)}, [q(v) for v in x[:ns]]
        S[d + "import_write"] = iw

        def getc(rng, st=st, N=N):
            e, A = st(rng)
            out = []
            for i in range(3):
                for j in range(3):
                    if i == j or N == 3 or (N == 2 and i < 2 and j < 2):
                        out.append(A.a[i][j])
            return e, out
        S[d + "getComponent"] = getc
        for i in range(3):
            for j in range(3):
                if i == j or N == 3 or (N == 2 and i < 2 and j < 2):
                    def setc(rng, st=st, N=N, i=i, j=j):
                        e, A = st(rng)
                        v = t1.rnd_rat(rng)
                        e["v"] = q(v)
                        B = M3([[x for x in r] for r in A.a])
                        B.a[i][j] = q(v)
                        B.a[j][i] = q(v)
                        return e, B.mandel(N)
                    S[d + "setComponent_%d_%d" % (i, j)] = setc

        # ---- units of trace2.cxx
        S[d + "sigmaeq"] = (lambda st: lambda rng: (lambda e, A: (e, [fns("sqrt", [A.dev().frob(A.dev()) * Q2(Fraction(3, 2))])]))(*st(rng)))(st)

        def conv(rng, st=st, N=N, to_pk2=True):
            def f(A, U):
                if to_pk2:
                    return (adj(U) * A * adj(U) * (Q2(1) / U.det())).mandel(N)
                return (U * A * U * (Q2(1) / U.det())).mandel(N)
            e1, A = st(rng, "s")
            e2, U = st(rng, "u")
            e1.update(e2)
            return e1, f(A, U)
        S[d + "convertCauchyToPK2"] = conv
        S[d + "convertPK2ToCauchy"] = (lambda conv: lambda rng: conv(rng, to_pk2=False))(conv)
        S[d + "detDerivative"] = (lambda st, N: lambda rng: (lambda e, A: (e, adj(A).mandel(N)))(*st(rng)))(st, N)
        S[d + "devDetDerivative"] = (lambda st, N: lambda rng: (lambda e, A: (e, adj(A.dev()).dev().mandel(N)))(*st(rng)))(st, N)
        S[d + "negate"] = (lambda st, N: lambda rng: (lambda e, A: (e, (A * Q2(-1)).mandel(N)))(*st(rng)))(st, N)
        S[d + "product"] = (lambda two, N: lambda rng: two(rng, lambda A, B: (A * B).tens(N)))(two, N)

        def absum(rng, st=st, ns=ns):
            e, A = st(rng)
            r = Q2(0)
            for k in range(ns):
                r = r + fns("abs", [e["s%d" % k]])
            return e, [r]
        S[d + "abs"] = absum
        S[d + "exportToBaseTypeArray"] = iw
        S[d + "buildFromEigenValuesAndVectors3"] = bfe

        def spectral(rng, g, g2=None, N=N, positive=False):
            e, Mx = rot(rng, "m")
            l = [(abs(v) + 1 if positive else v) for v in rr(rng, 3)]
            e.update({"l%d" % i: q(l[i]) for i in range(3)})
            if N == 2:
                Mx = M3([[Mx.a[0][0], Mx.a[0][1], 0], [Mx.a[1][0], Mx.a[1][1], 0], [0, 0, 1]])

            def build(h):
                hl = [h(q(x)) for x in l]
                if N == 1:
                    return hl
                return (Mx * M3.diag(*hl) * Mx.T()).mandel(N)
            return e, build(g) + build(g2 or g)
        S[d + "buildLogarithm"] = (lambda sp: lambda rng: sp(rng, lambda x: fns("log", [x]), positive=True))(spectral)
        S[d + "buildPositivePart"] = (lambda sp: lambda rng: sp(rng, lambda x: fns("max", [Q2(0), x])))(spectral)
        S[d + "buildNegativePart"] = (lambda sp: lambda rng: sp(rng, lambda x: fns("min", [Q2(0), x])))(spectral)
        S[d + "computeIsotropicFunction"] = (lambda sp: lambda rng: sp(rng, lambda x: fns("f", [x]), lambda x: x))(spectral)
        S[d + "Id"] = (lambda N: lambda rng: ({}, M3.one().mandel(N)))(N)

    def one_d(g, positive=False):
        def f(rng):
            v = [(abs(x) + 1 if positive else x) for x in rr(rng, 3)]
            return {"s%d" % i: q(v[i]) for i in range(3)}, [g(q(x)) for x in v]
        return f
    S["N1_logarithm"] = one_d(lambda x: fns("log", [x]), positive=True)
    S["N1_absolute_value"] = one_d(lambda x: fns("abs", [x]))
    S["N1_positive_part"] = one_d(lambda x: fns("max", [x, Q2(0)]))
    S["N1_negative_part"] = one_d(lambda x: fns("min", [x, Q2(0)]))
    return S


VOIGT = {1: {(0, 0): 0, (1, 1): 1, (2, 2): 2},
         2: {(0, 0): 0, (1, 1): 1, (2, 2): 2, (0, 1): 3, (1, 0): 3},
         3: {(0, 0): 0, (1, 1): 1, (2, 2): 2, (0, 1): 3, (1, 0): 3, (0, 2): 4, (2, 0): 4, (1, 2): 5, (2, 1): 5}}


def numeric(ck, binary, rng):
    """value dependent code run on double: tresca(stensor<1>) = max |s_i - s_j| (bit exact: one IEEE
    subtraction and comparisons), VoigtIndex<N>/getComponent over all (i,j) in 0..3 including rejected pairs"""
    n = 60 if ck.quick else 2000
    cases = [(1.0, 1.0, 1.0), (0.0, -0.0, 0.0), (1.0, 2.0, 2.0), (2.0, 1.0, 2.0), (2.0, 2.0, 1.0), (3.0, 2.0, 1.0),
             (1.0, 3.0, 2.0), (1e300, -1e300, 0.0), (1e-310, -1e-310, 3e-310), (-5.0, -7.0, -6.0)]
    while len(cases) < n:
        sc = rng.choice([1.0, 1.0, 1e-200, 1e200, 1e-3, 1e6])
        v = [rng.uniform(-10, 10) * sc for _ in range(3)]
        if rng.random() < 0.2:
            v[rng.randrange(3)] = v[rng.randrange(3)]
        cases.append(tuple(v))
    # sigmaeq on double: states dominated by their hydrostatic part (a deviator norm computed as a difference of
    # two large numbers cancels there although it is algebraically the same expression)
    sq = []
    for N, S in ((1, 3), (2, 4), (3, 6)):
        for pr in (0.1, -0.7, 1.1e8, 2.0 ** 30, -2.0 ** 40, 1.0):
            sq.append((N, [pr] * 3 + [0.0] * (S - 3)))
            for _ in range(2 if ck.quick else 20):
                dv = [rng.uniform(-1, 1) for _ in range(S)]
                sq.append((N, [pr + dv[0], pr + dv[1], pr + dv[2]] + dv[3:]))
        for _ in range(4 if ck.quick else 60):
            sq.append((N, [rng.uniform(-10, 10) for _ in range(S)]))
    req = ["tresca %s %s %s" % tuple(repr(x) for x in c) for c in cases] + \
          ["sigmaeq %d %s" % (N, " ".join(repr(x) for x in v)) for N, v in sq] + ["voigt"]
    p = ck.run([binary], input="\n".join(req) + "\n", timeout=300)
    out = p.stdout.splitlines()
    stats = {"tresca_cases": len(cases), "sigmaeq_cases": len(sq), "voigt_pairs": 0, "voigt_rejected": 0}
    if p.returncode == 0 and len(out) == len(cases) + len(sq) + 48:
        from fractions import Fraction as Fr
        for (N, v), line in zip(sq, out[len(cases):len(cases) + len(sq)]):
            x = [Fr(t) for t in v]
            tr = (x[0] + x[1] + x[2]) / 3
            d2 = sum((t - tr) ** 2 for t in x[:3]) + sum(t * t for t in x[3:])      # |dev M|_F^2 (Mandel storage)
            n2 = sum(t * t for t in x)
            ref = math.sqrt(float(Fr(3, 2) * d2)) if d2 > 0 else 0.0
            got = float(line.split()[1])
            tol = 1e-12 * math.sqrt(float(n2))
            if not (abs(got - ref) <= tol):
                ck.violation("StensorConcept.ixx:sigmaeq<%d>:accuracy" % N,
                             "sigmaeq(stensor<%d>) = %r on the double code, sqrt(3/2) |dev M|_F = %r (difference beyond 1e-12 |M|_F: "
                             "the deviator norm is lost in the hydrostatic part)" % (N, got, ref),
                             {"input": {"s": [repr(t) for t in v]}, "real_code_result": got, "expected": ref, "tolerance": tol}, True)
                break
        out = out[:len(cases)] + out[len(cases) + len(sq):]
        sq = []
    if p.returncode != 0 or len(out) != len(cases) + len(sq) + 48:
        ck.violation("numeric:harness", "C01 numeric harness failed (rc=%d, %d lines)" % (p.returncode, len(out)),
                     {"stderr": p.stderr[-2000:]}, False)
        return stats
    bits = lambda x: struct.pack("<d", x)
    for c, line in zip(cases, out):
        f = line.split()
        a, b, d = c
        exp = max(abs(a - b), abs(a - d), abs(d - b))
        got = [float(f[1]), float(f[2])]
        if any(bits(g) != bits(exp) and not (g == exp) for g in got):
            ck.violation("stensor.ixx:tresca<1>", "tresca(stensor<1>) is not max |s_i - s_j| (the Tresca stress of diag(s0,s1,s2))",
                         {"input": {"s": [repr(x) for x in c]}, "real_code_result": got, "expected": exp}, True)
            break
    for line in out[len(cases):]:
        f = line.split()
        N, i, j = int(f[1]), int(f[2]), int(f[3])
        stats["voigt_pairs"] += 1
        want = VOIGT[N].get((i, j))
        if want is None:
            stats["voigt_rejected"] += 1
            ok = f[4] == "X" and f[5] == "X"
            expv = "contract violation"
        else:
            val = 10. + want
            if want > 2:
                val = val * 0.70710678118654752440
            ok = f[4] == str(want) and f[5] != "X" and float(f[5]) == val
            expv = [want, val]
        if not ok:
            ck.violation("StensorConcept.ixx:VoigtIndex<%d>" % N,
                         "VoigtIndex<%d>(%d,%d)/getComponent do not address the matrix entry (%d,%d) (or accept an index pair outside the dimension)" % (N, i, j, i, j),
                         {"input": {"N": N, "i": i, "j": j, "storage": [10. + k for k in range({1: 3, 2: 4, 3: 6}[N])]},
                          "real_code_result": f[4:], "expected": expv}, True)
    return stats


def run(ck):
    cv = vlib.REPO + "/src/Exception/ContractViolation.cxx"
    bins = ck.cxx_many([("c01trace", ["C01/trace.cxx", cv]), ("c01trace2", ["C01/trace2.cxx", cv]),
                        ("c01numeric", ["C01/numeric.cxx"])], opt="-O0")
    tracer, tracer2 = bins["c01trace"], bins["c01trace2"]
    dag, units1 = t1.run_tracer(ck, tracer)
    dag2, units2 = t1.run_tracer(ck, tracer2, out="trace2.dag")
    units = units1 + units2
    ck.emit([dag], "TfelVerif.C01.Gen", "TfelVerif/C01/Gen.lean")
    ck.emit([dag2], "TfelVerif.C01.Gen2", "TfelVerif/C01/Gen2.lean")
    res = ck.lean(PROPS, PROPS)
    rng = random.Random(ck.seed)
    nstats = numeric(ck, bins["c01numeric"], rng)
    S = specs()
    # exact differential evaluation of every traced unit against the reference (supports the tie and
    # is the failing-input search when an obligation breaks)
    trials = 8 if ck.quick else 40
    # the recorded function symbols (sqrt, log, abs, min, max, f) are interpreted by `fns` on both sides
    orig_eval = emit.evaluate
    emit.evaluate = lambda u, env, f=None: orig_eval(u, env, fns)
    try:
        found, stats = t1.search_units(ck, units1, S, rng, tracer, trials=trials)
        found2, stats2 = t1.search_units(ck, units2, S, rng, tracer2, trials=trials)
    finally:
        emit.evaluate = orig_eval
    found += found2
    stats = {k: stats[k] + stats2[k] for k in stats}
    if not res.ok:
        by_unit = {f["unit"]: f for f in found}

        def search(fl):
            thm = fl.get("theorem") or ""
            base = thm[:-4] if thm.endswith("_den") else thm
            if base in by_unit:
                return by_unit[base]
            # grouped theorems (N2_setComponent_diag ...): a unit whose name the theorem name extends, else
            # a unit extending the theorem name; longest common name first
            cands = sorted([u for u in by_unit if base.startswith(u)], key=len, reverse=True) + \
                sorted([u for u in by_unit if u.startswith(base[:-5] if base.endswith("_diag") else base)], key=len)
            if cands:
                return by_unit[cands[0]]
            return None
        ck.lean_violations(res, search)
    elif found:
        # theorems check but the reference disagrees with the traced code: the search oracle itself is wrong
        for f in found:
            ck.violation("search-oracle:" + f["unit"], "exact evaluation of traced unit %s disagrees with the python reference although the theorems check" % f["unit"], f, True)
    if ck.tier == "thorough" and res.ok:
        for m, log in ck.leanchecker(PROPS):
            ck.violation("leanchecker:" + m, "leanchecker rejects " + m, {"log": log}, False)
    ck.assumptions += [
        "T1: g++ instantiating TFEL with verif::Sym performs the same scalar operations as with double; sym.hxx/glue.hxx/emit.py are correct",
        "exact field semantics: rounding, overflow, underflow not modelled; sqrt is an uninterpreted symbol",
        "change_basis orientation R^T A R (what the code does in all dimensions; docs/web/tensors.md does not fix it)",
    ]
    missing = [u.name for u in units if u.name not in S]
    return ck.finish({
        "units_traced": len(units), "outputs_traced": sum(len(u.outs) for u in units),
        "dag_nodes": sum(len(u.order) for u in units),
        "evaluations": stats["points"], "distinct_nontrivial": stats["points"],
        "rule": "each traced unit evaluated exactly over Q(sqrt2) at seeded random rational tensors and compared with an independent 3x3 matrix reference; distinct = points (random rationals)",
        "search_stats": stats, "units_without_reference": missing, "numeric": nstats,
        "samples": [{"unit": u.name, "inputs": u.inputs, "outputs": [o for o, _ in u.outs]} for u in units[:3]],
    })
