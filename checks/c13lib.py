"""Helpers shared by checks/C13.py and checks/C14.py (evaluator harness, line protocol, generators).

Own files of properties C13/C14 (not a shared library of the framework).
"""
import os
import re
import time
from concurrent.futures import ThreadPoolExecutor

import vlib

# ---------------------------------------------------------------------------------- harness build
# every source of libTFELMathParser the evaluator needs is compiled from the *current tree*;
# src/Math/Evaluator.cxx is compiled as part of harness/C13/harness.cxx (it is #included there).
REPO_SOURCES = ["EvaluatorBase", "EvaluatorTExpr", "BinaryOperator", "Function", "PowerFunction",
                "ConditionalExpr", "LogicalExpr", "Negation", "Number", "Variable", "Expr",
                "BinaryFunction", "DifferentiatedFunctionExpr", "ExternalFunction",
                "ExternalFunctionExpr", "ExternalFunctionExpr2"]
PREBUILT = ("TFELUnicodeSupport", "TFELException", "TFELMath")


def build_harness(ck, name="evalh", sanitize=True):
    """compile the harness + the anchored evaluator sources of the current tree, one object per source
    (4 in parallel, through ccache when present: the cache key is the preprocessed text + flags, so a
    cached object is never stale), link against the prebuilt non-anchored libraries."""
    t0 = time.time()
    math = os.path.join(vlib.REPO, "src", "Math")
    flags = ["-std=c++20", "-O1", "-g0", "-ffp-contract=off", "-fno-fast-math",
             "-I" + os.path.join(vlib.VERIF, "harness"), "-I" + os.path.join(vlib.REPO, "include"),
             "-I" + os.path.join(vlib.BUILD, "include"), "-I" + math, "-DTFEL_VERIF_HOOKS"]
    if not os.path.isdir(os.path.join(vlib.BUILD, "include")):
        flags.append("-I/repo/_build/include")
    san = ["-fsanitize=address,undefined", "-fno-sanitize-recover=all"] if sanitize else []
    cc = ["g++"]
    env = {}
    if os.path.exists("/usr/bin/ccache"):
        cc = ["/usr/bin/ccache", "g++"]
        env = {"CCACHE_DIR": os.path.join(vlib.VERIF, "work", "ccache-C13"), "CCACHE_MAXSIZE": "2G"}
    jobs = [(os.path.join(vlib.VERIF, "harness", "C13", "harness.cxx"), ck.path("harness.o"))]
    for s in REPO_SOURCES:
        src = os.path.join(math, s + ".cxx")
        if not os.path.exists(src):
            raise vlib.BuildError("anchored source %s is missing from the tree" % src, "")
        jobs.append((src, ck.path(s + ".o")))

    def one(job):
        src, obj = job
        p = vlib.sh(cc + flags + san + ["-c", src, "-o", obj], timeout=1800, env=env)
        if p.returncode != 0:
            raise vlib.BuildError("evaluator harness: %s does not compile against the current tree" % os.path.basename(src),
                                  (p.stdout + p.stderr)[-6000:])
        return obj

    with ThreadPoolExecutor(max_workers=4) as ex:
        objs = list(ex.map(one, jobs))
    build = vlib.BUILD if os.path.isdir(os.path.join(vlib.BUILD, "src")) else "/repo/_build"
    libs = []
    for root, _, files in os.walk(build):
        for f in files:
            m = re.match(r"lib(\w+)\.so$", f)
            if m and m.group(1) in PREBUILT:
                libs += ["-L" + root, "-Wl,-rpath," + root, "-l" + m.group(1)]
    out = ck.path(name)
    p = vlib.sh(["g++"] + san + objs + ["-o", out] + libs, timeout=600)
    if p.returncode != 0:
        raise vlib.BuildError("evaluator harness does not link", (p.stdout + p.stderr)[-6000:])
    ck.log("built %s (%d objects) in %.1fs" % (name, len(objs), time.time() - t0))
    return out


# ---------------------------------------------------------------------------------- line protocol
def run_lines(ck, exe, lines, timeout=900, env=None):
    """feed `lines` to a line-protocol program; survive crashes: the request that killed the process
    gets the answer 'CRASH <stderr tail>' and the run resumes after it. Returns (answers, crashes)."""
    answers = []
    crashes = []
    i = 0
    guard = 0
    e = {"ASAN_OPTIONS": "detect_leaks=0:abort_on_error=0:alloc_dealloc_mismatch=1", "UBSAN_OPTIONS": "print_stacktrace=0"}
    if env:
        e.update(env)
    while i < len(lines):
        p = ck.run([exe], input="".join(x + "\n" for x in lines[i:]), timeout=timeout, env=e)
        out = p.stdout.splitlines()
        answers += out[:len(lines) - i]
        i += len(out)
        if i >= len(lines):
            break
        # the process died on request i: confirm on that request alone (a transient failure of the
        # process itself - sanitizer start-up under memory pressure - is not a crash of the evaluator)
        p1 = ck.run([exe], input=lines[i] + "\n", timeout=timeout, env=e)
        o1 = p1.stdout.splitlines()
        if o1:
            answers.append(o1[0])
            i += 1
            continue
        p = p1
        tail = re.sub(r"\s+", " ", p.stderr[-1500:])
        m = re.search(r"(AddressSanitizer: [^=]*|runtime error: [^\n]*|double free[^\n]*|free\(\)[^\n]*|Segmentation[^\n]*)", p.stderr)
        what = m.group(1).strip()[:200] if m else ("exit code %d" % p.returncode)
        crashes.append((i, lines[i], what, tail))
        answers.append("CRASH " + what)
        i += 1
        guard += 1
        if guard > 12:
            answers += ["CRASH (too many crashes, run abandoned)"] * (len(lines) - i)
            break
    return answers, crashes


# ---------------------------------------------------------------------------------- error classes
# innermost message of the exception -> class name used by the Lean model (Model.lean `Err`)
ERR_CLASSES = [
    ("unexpected end of string", "tok-eos"),
    ("expected character", "tok-char"),
    ("unexpected end of line", "eol"),
    ("empty group", "empty-group"),
    ("no conditional expression preceeding", "cond-nocond"),
    ("nothing expression following", "cond-nothing"),
    ("imbricated conditional", "cond-nested"),
    ("no matching ':'", "cond-nocolon"),
    ("empty left conditional", "cond-emptyleft"),
    ("empty right conditional", "cond-emptyright"),
    ("unbalanced parenthesis", "unbalanced"),
    ("invalid variable name", "bad-ident"),
    ("unexpected token", "unexpected-token"),
    ("unknown function", "unknown-function"),
    ("unknown variable", "unknown-variable"),
    ("unterminated group", "unterminated"),
    ("no left logical expression", "log-noleft"),
    ("no right logical expression", "log-noright"),
    ("unmatched parenthesis", "log-unmatched"),
    ("more than one logical operator", "log-many"),
    ("no left part to logical operator", "log-noleftpart"),
    ("no logical operator found", "log-noop"),
    ("no right part to logical operator", "log-norightpart"),
    ("expected '(', read", "log-expectedparen"),
    ("group ended while", "args-open"),
    ("invalid parameter", "bad-parameter"),
    ("group began with an operator", "begin-op"),
    ("group ends by operator", "end-op"),
    ("group two successive operators", "two-ops"),
    ("group three successive operators", "three-ops"),
    ("tgroup has not been reduced", "not-reduced"),
    ("second argument is too small", "div-small"),
    ("invalid entry", "bad-int"),
    ("not read value", "bad-int"),
    ("no parameter given", "nparam"),
    ("too many parameters given", "nparam"),
    ("call to function failed", "call-failed"),
    ("unimplemented feature", "unimplemented"),
    ("no function '", "no-function"),
    ("can't be differentiated", "no-variable"),
    ("Evaluator::getVariablePosition", "no-variable"),
    ("is alredy a variable", "already-variable"),
    ("no parameter '", "no-parameter"),
    ("is not valid", "bad-varname"),
    ("multiply defined", "dup-var"),
]


def classify(ans):
    """canonical form of a harness answer: 'ok ...', 'val ...' unchanged; 'err <msg>' -> 'err <class>'"""
    if not ans.startswith("err "):
        return ans
    msg = ans[4:]
    # Evaluator::analyse wraps the inner message: "... failed (<inner>)"
    k = msg.rfind("' failed (")
    inner = msg[k + 10:].rstrip()[:-1] if k >= 0 else msg
    for key, cls in ERR_CLASSES:
        if key in inner:
            return "err " + cls
    return "err other:" + inner[:80]


# ---------------------------------------------------------------------------------- T2 table
def lean_str(s):
    return '"' + s.replace("\\", "\\\\").replace('"', '\\"') + '"'


def dump_tables(ck, exe):
    """T2: ask the real FunctionGeneratorManager for its tables; returns (dict, lean source)"""
    p = ck.run([exe], input="T\n", timeout=120)
    if p.returncode != 0 or "end" not in p.stdout.split():
        raise vlib.BuildError("table dump of Evaluator::FunctionGeneratorManager failed", (p.stdout + p.stderr)[-3000:])
    tab = {"constants": [], "unary": [], "binary": [], "extops": [], "constref": [], "uval": [], "bval": []}
    for line in p.stdout.splitlines():
        f = line.split()
        if not f:
            continue
        if f[0] == "const":
            tab["constants"].append((f[1], f[2], f[3]))
        elif f[0] == "unary":
            tab["unary"].append((f[1], f[2], f[3] == "rule", f[4]))
        elif f[0] == "binary":
            tab["binary"].append((f[1], f[2] == "rule", f[3]))
        elif f[0] == "extop":
            tab["extops"].append(f[1])
        elif f[0] in ("constref", "uval", "bval"):
            tab[f[0]].append(tuple(f[1:]))
    src = ["/- GENERATED by checks/c13lib.py from the real Evaluator::FunctionGeneratorManager (T2 dump) — do not edit -/",
           "namespace TfelVerif.C13.GenTable",
           "/-- physical constants: name, bits of the double, rendering -/",
           "def constants : List (String × UInt64 × String) := [" +
           ",\n  ".join("(%s, 0x%s, %s)" % (lean_str(n), b, lean_str(s)) for n, b, s in tab["constants"]) + "]",
           "/-- unary functions: registered name, C function, has a differentiation rule -/",
           "def unary : List (String × String × Bool) := [" +
           ",\n  ".join("(%s, %s, %s)" % (lean_str(n), lean_str(c), "true" if r else "false") for n, c, r, _ in tab["unary"]) + "]",
           "/-- binary functions: registered name, has a differentiation rule -/",
           "def binary : List (String × Bool) := [" +
           ", ".join("(%s, %s)" % (lean_str(n), "true" if r else "false") for n, r, _ in tab["binary"]) + "]",
           "/-- external operators (`name<params>(args)`) -/",
           "def extops : List String := [" + ", ".join(lean_str(n) for n in tab["extops"]) + "]",
           "end TfelVerif.C13.GenTable", ""]
    return tab, "\n".join(src)


# ---------------------------------------------------------------------------------- generators
import struct

VARS = ["x", "y", "z", "T", "a[1]", "b_2", "Q"]
NUMS = ["0", "1", "2", "3", "4", "10", "0.5", "1.5", "2.5", ".25", "3.", "1e2", "1.5e-3", "2E+1", "007", "16", "17", "0.1", "1e-5", "12.75"]
OPS = ["+", "-", "*", "/", "**"]
CMPS = ["==", ">", ">=", "<", "<="]


class Gen:
    """type-directed random expression trees, printed with random redundant parentheses / white space.
    A tree is a tuple: ('num',s) ('var',n) ('cst',n) ('neg',e) ('bin',op,a,b) ('fn1',f,e) ('fn2',f,a,b)
    ('pw',n,e) ('cond',c,a,b); logical: ('cmp',op,a,b) ('and',a,b) ('or',a,b) ('not',a) ('lpar',a)"""

    def __init__(self, rng, tab, diff_only=False, safe_only=False):
        self.rng = rng
        self.consts = [c[0] for c in tab["constants"]]
        un = tab["unary"]
        self.unary = [u[0] for u in un if (u[2] or not diff_only)]
        if safe_only:   # functions Lean's Float binds (value correspondence)
            ok = {"exp", "exp2", "cbrt", "fabs", "sqrt", "log", "log10", "log2", "cosh", "sinh", "tanh", "acosh", "asinh",
                  "atanh", "sin", "cos", "tan", "acos", "asin", "atan", "tfel::math::Evaluator::Heavyside"}
            self.unary = [u[0] for u in un if u[1] in ok and (u[2] or not diff_only)]
        self.binary = [] if diff_only else [b[0] for b in tab["binary"]]
        if safe_only:
            self.binary = [b for b in self.binary if b in ("max", "min", "atan2")]
        self.diff_only = diff_only
        self.stats = {"ops": {}, "depth": {}, "nodes": {}}

    def count(self, k, v):
        d = self.stats[k]
        d[v] = d.get(v, 0) + 1

    def tree(self, d, cond_ok=True):
        r = self.rng
        if d <= 0 or r.random() < 0.12:
            k = r.random()
            if k < 0.45:
                return ("var", r.choice(VARS[:4] if r.random() < 0.8 else VARS))
            if k < 0.9:
                return ("num", r.choice(NUMS))
            return ("cst", r.choice(self.consts)) if self.consts else ("num", "1")
        k = r.random()
        if k < 0.55:
            op = r.choice(OPS)
            if op == "**" and r.random() < 0.6:
                # exponent: mostly a literal / small constant expression (integer-power specialisation)
                e = r.choice([("num", r.choice(["2", "3", "0.5", "2.5", "1", "0", "16", "17", "2.0", "1.5"])),
                              ("neg", ("num", r.choice(["1", "2", "0.5", "16", "17"]))),
                              ("bin", r.choice(["+", "-", "*", "/"]), ("num", r.choice(["1", "2", "3", "0.5"])), ("num", r.choice(["1", "2", "4"]))),
                              self.tree(d - 1, False)])
                if r.random() < 0.25:
                    # exponent with constant leaves whose value depends on variables: a parenthesised
                    # conditional / a function of a variable (isConstant must look at every part of a node)
                    v = ("var", r.choice(VARS[:4]))
                    n1, n2 = ("num", r.choice(["2", "3", "1", "0.5"])), ("num", r.choice(["3", "2", "4", "1.5"]))
                    cmp = ("cmp", r.choice(CMPS), v, ("num", r.choice(["0", "1", "0.5"])))
                    choices = [("cond", cmp, n1, n2), ("cond", ("and", cmp, ("cmp", "<", ("var", r.choice(VARS[:4])), ("num", "2"))), n1, n2),
                               ("cond", ("not", cmp), n1, n2), ("cond", cmp, v, n2), ("cond", cmp, n1, ("neg", n2))]
                    if "H" in self.unary:
                        choices.append(("bin", "+", ("fn1", "H", v), n1))
                    if "max" in self.binary:
                        choices += [("fn2", "max", v, n1), ("fn2", "min", n2, v)]
                    e = r.choice(choices)
                return ("bin", op, self.tree(d - 1, False), e)
            return ("bin", op, self.tree(d - 1, False), self.tree(d - 1, False))
        if k < 0.65:
            return ("neg", self.tree(d - 1, False))
        if k < 0.82 and self.unary:
            return ("fn1", r.choice(self.unary), self.tree(d - 1, cond_ok))
        if k < 0.87 and self.binary:
            return ("fn2", r.choice(self.binary), self.tree(d - 1, cond_ok), self.tree(d - 1, cond_ok))
        if k < 0.93:
            return ("pw", r.choice([0, 1, 2, 3, 5, 7, 16, 17, 18, -1, -2, -16, -17, 33]), self.tree(d - 1, cond_ok))
        if cond_ok:
            return ("cond", self.logical(min(d - 1, 2)), self.tree(d - 1, False), self.tree(d - 1, False))
        return ("bin", r.choice(OPS), self.tree(d - 1, False), self.tree(d - 1, False))

    def logical(self, d):
        r = self.rng
        k = r.random()
        if d <= 0 or k < 0.5:
            return ("cmp", r.choice(CMPS), self.tree(1, False), self.tree(1, False))
        if k < 0.7:
            return ("and", self.logical(d - 1), self.logical(d - 1))
        if k < 0.85:
            return ("or", self.logical(d - 1), self.logical(d - 1))
        if k < 0.93:
            return ("not", self.logical(d - 1))
        return ("lpar", self.logical(d - 1))

    def depth(self, t):
        ch = [x for x in t[1:] if isinstance(x, tuple)]
        return 1 + max([self.depth(c) for c in ch], default=0)

    def record(self, t):
        self.count("depth", self.depth(t))
        st = [t]
        while st:
            n = st.pop()
            self.count("nodes", n[0])
            if n[0] in ("bin", "cmp"):
                self.count("ops", n[1])
            st += [x for x in n[1:] if isinstance(x, tuple)]

    def sp(self):
        return self.rng.choice(["", "", "", " ", " ", "  ", "\t"])

    def par(self, s, p):
        if self.rng.random() < p:
            return "(" + self.sp() + s + self.sp() + ")"
        return s

    def show(self, t, ctx="top"):
        """ctx: 'top' (no need of parentheses), 'operand', 'after-minus' (operand right after a - or a unary -)"""
        r = self.rng
        k = t[0]
        if k == "num" or k == "var" or k == "cst":
            return self.par(t[1], 0.04)
        if k == "neg":
            inner = self.show(t[1], "after-minus")
            s = "-" + self.sp() + inner
            return self.par(s, 0.85 if ctx == "after-minus" else 0.25)
        if k == "bin":
            a = self.show(t[2], "operand")
            b = self.show(t[3], "after-minus" if t[1] == "-" else "operand")
            s = a + self.sp() + t[1] + self.sp() + b
            return self.par(s, 0.0 if ctx == "top" else 0.4)
        if k == "fn1":
            return t[1] + self.sp() + "(" + self.sp() + self.show(t[2]) + self.sp() + ")"
        if k == "fn2":
            return t[1] + "(" + self.sp() + self.show(t[2]) + self.sp() + "," + self.sp() + self.show(t[3]) + ")"
        if k == "pw":
            return "power<" + str(t[1]) + ">(" + self.show(t[2]) + ")"
        if k == "cond":
            s = self.showl(t[1]) + self.sp() + "?" + self.sp() + self.show(t[2]) + self.sp() + ":" + self.sp() + self.show(t[3])
            return s if ctx == "top" else "(" + s + ")"
        raise ValueError(k)

    def showl(self, t):
        k = t[0]
        if k == "cmp":
            return self.show(t[2]) + self.sp() + t[1] + self.sp() + self.show(t[3])
        if k == "and":
            return self.showl(t[1]) + self.sp() + "&&" + self.sp() + self.showl(t[2])
        if k == "or":
            return self.showl(t[1]) + self.sp() + "||" + self.sp() + self.showl(t[2])
        if k == "not":
            return "!" + self.sp() + self.showl(t[1])
        return "(" + self.showl(t[1]) + ")"

    def formula(self, maxdepth=8):
        t = self.tree(self.rng.randint(1, maxdepth))
        self.record(t)
        return self.show(t)


TOKEN_RE = re.compile(r"\d+\.?\d*(?:[eE][+-]?\d+)?|\.\d+|[A-Za-z_][A-Za-z_0-9\[\]]*|\*\*|&&|\|\||[<>=]=|.")
JUNK = ["+", "-", "*", "/", "**", "(", ")", ",", "?", ":", "<", ">", "<=", ">=", "==", "=", "&&", "||", "!", "&", "|",
        "x", "y", "foo", "sin", "max", "power", "Cste", "2", "1.5", ".", "#", "$a", "a[", "a]", "1e", "e", "::", "1e999", "%", "^", "2x"]


def mutate(rng, formula, stats):
    """token-level mutation of a (mostly) valid formula: the malformed stream"""
    toks = [t for t in TOKEN_RE.findall(formula) if not t.isspace()]
    if not toks:
        toks = ["x"]
    kind = rng.choice(["delete", "dup", "swap", "insert", "replace", "truncate", "insert2"])
    stats[kind] = stats.get(kind, 0) + 1
    i = rng.randrange(len(toks))
    if kind == "delete":
        del toks[i]
    elif kind == "dup":
        toks.insert(i, toks[i])
    elif kind == "swap" and len(toks) > 1:
        j = min(i + 1, len(toks) - 1)
        toks[i], toks[j] = toks[j], toks[i]
    elif kind == "insert":
        toks.insert(i, rng.choice(JUNK))
    elif kind == "insert2":
        toks.insert(i, rng.choice(JUNK))
        toks.insert(rng.randrange(len(toks) + 1), rng.choice(JUNK))
    elif kind == "replace":
        toks[i] = rng.choice(JUNK)
    else:
        toks = toks[:i]
    out = ""
    for t in toks:
        out += t + rng.choice(["", "", " "])
    out = out.strip()
    if "diff" in out:
        out = out.replace("diff", "dif")
    return out


def dbl_hex(v):
    return "%016x" % struct.unpack("<Q", struct.pack("<d", v))[0]


def hex_dbl(h):
    return struct.unpack("<d", struct.pack("<Q", int(h, 16)))[0]


def random_point(rng, names=VARS):
    vals = [0.0, 1.0, -1.0, 2.0, 0.5, -0.5, 3.0, 0.25, 1.5, 10.0]
    env = {}
    for n in names:
        env[n] = rng.choice(vals) if rng.random() < 0.4 else round(rng.uniform(-3, 3), 3)
    return env


def bind_str(env):
    return ",".join("%s=%s" % (n, dbl_hex(v)) for n, v in env.items())


ANALYSE_PHASE = {"err not-reduced", "err div-small", "err bad-int", "err nparam", "err call-failed", "err unknown-function"}


def same_answer(impl, model):
    """impl: classified harness answer; model: driver answer. Errors raised while the tree is analysed
    (after the reduction) are one class: g++ evaluates the arguments of the node constructors in an
    unspecified order, so which of two such errors surfaces is not determined by the source."""
    if impl == model:
        return True
    if impl in ANALYSE_PHASE and model in ANALYSE_PHASE:
        return True
    return False


def skipped(model):
    return model in ("err dom", "err unmodelled")


# ---------------------------------------------------------------------------------- C++ rendering evaluator
# getCxxFormula() exports a C++ expression. `cxx_eval` evaluates such a string under C++ semantics
# (precedence: unary - !  >  * /  >  + -  >  < <= > >=  >  == !=  >  &&  >  ||  >  ?: right-assoc),
# independently of the Lean model: the exported formula must have the value getValue() returns.
import math

CXX_TOK = re.compile(r"\s*(\d+\.?\d*(?:[eE][+-]?\d+)?|\.\d+(?:[eE][+-]?\d+)?|[A-Za-z_][A-Za-z_0-9]*(?:::[A-Za-z_][A-Za-z_0-9]*)*(?:\[\d+\])?|&&|\|\||[<>=!]=|[-+*/()<>?:,!])")


class CxxError(Exception):
    pass


def _power_pos(n, x):
    if n == 0:
        return 1.0
    if n == 1:
        return x
    if n == 2:
        return x * x
    if n == 3:
        return x * x * x
    t = _power_pos(n // 4, x)
    if n % 4 == 0:
        return t * t * t * t
    return t * t * t * t * _power_pos(n % 4, x)


def _heavy(x):
    return 0.0 if x < 0 else 1.0


CXX_F1 = {"exp": math.exp, "exp2": lambda x: 2.0 ** x, "expm1": math.expm1, "cbrt": lambda x: math.copysign(abs(x) ** (1.0 / 3.0), x),
          "abs": abs, "sqrt": math.sqrt, "ln": math.log, "log": math.log, "log10": math.log10, "log2": math.log2,
          "log1p": math.log1p, "cosh": math.cosh, "sinh": math.sinh, "tanh": math.tanh, "acosh": math.acosh,
          "asinh": math.asinh, "atanh": math.atanh, "sin": math.sin, "cos": math.cos, "tan": math.tan,
          "acos": math.acos, "asin": math.asin, "atan": math.atan, "erf": math.erf, "erfc": math.erfc,
          "tgamma": math.gamma, "lgamma": math.lgamma, "H": _heavy}
CXX_F2 = {"max": lambda a, b: b if a < b else a, "min": lambda a, b: b if b < a else a, "hypot": math.hypot,
          "atan2": math.atan2, "std::pow": lambda a, b: math.pow(a, b)}



def _bind_libm():
    """the exported formula is C++: evaluate its functions with the C library itself (python's math.erf, erfc,
    gamma and lgamma are python's own implementations and differ from glibc in the last digits, which an
    ill-conditioned outer function amplifies beyond any fixed tolerance)"""
    import ctypes, ctypes.util
    try:
        lm = ctypes.CDLL(ctypes.util.find_library("m") or "libm.so.6")
    except OSError:
        return
    def f1(name):
        f = getattr(lm, name); f.restype = ctypes.c_double; f.argtypes = [ctypes.c_double]
        return f
    def f2(name):
        f = getattr(lm, name); f.restype = ctypes.c_double; f.argtypes = [ctypes.c_double, ctypes.c_double]
        return f
    for py, c in (("exp", "exp"), ("exp2", "exp2"), ("expm1", "expm1"), ("cbrt", "cbrt"), ("sqrt", "sqrt"),
                  ("ln", "log"), ("log", "log"), ("log10", "log10"), ("log2", "log2"), ("log1p", "log1p"),
                  ("cosh", "cosh"), ("sinh", "sinh"), ("tanh", "tanh"), ("acosh", "acosh"), ("asinh", "asinh"),
                  ("atanh", "atanh"), ("sin", "sin"), ("cos", "cos"), ("tan", "tan"), ("acos", "acos"),
                  ("asin", "asin"), ("atan", "atan"), ("erf", "erf"), ("erfc", "erfc"), ("tgamma", "tgamma"),
                  ("lgamma", "lgamma")):
        try:
            # python's function first: it decides the exceptions (domain / pole / overflow) exactly as before;
            # the value is the C library's
            CXX_F1[py] = (lambda pf, cf: (lambda x: (pf(x), cf(float(x)))[1]))(CXX_F1[py], f1(c))
        except AttributeError:
            pass
    for py, c in (("hypot", "hypot"), ("atan2", "atan2"), ("std::pow", "pow")):
        try:
            CXX_F2[py] = (lambda pf, cf: (lambda a, b: (pf(a, b), cf(float(a), float(b)))[1]))(CXX_F2[py], f2(c))
        except AttributeError:
            pass


_bind_libm()


def cxx_eval(s, env):
    """value of the C++ expression `s` (a getCxxFormula string) with the variables of `env`;
    raises CxxError when the string is not an expression of the rendering grammar or a function
    leaves its domain"""
    toks = []
    pos = 0
    while pos < len(s):
        if s[pos].isspace():
            pos += 1
            continue
        m = CXX_TOK.match(s, pos)
        if not m:
            raise CxxError("token at %d: %r" % (pos, s[pos:pos + 10]))
        toks.append(m.group(1))
        pos = m.end()
    p = [0]

    def peek():
        return toks[p[0]] if p[0] < len(toks) else None

    def take(t=None):
        x = peek()
        if x is None or (t is not None and x != t):
            raise CxxError("expected %r, found %r" % (t, x))
        p[0] += 1
        return x

    # each parse function returns a thunk (so that ?: && || only evaluate what C++ evaluates)
    def primary():
        t = take()
        if t == "(":
            e = ternary()
            take(")")
            return e
        if re.match(r"[\d.]", t):
            v = float(t)
            return lambda: v
        if re.match(r"[A-Za-z_]", t):
            if t == "FP_ZERO":
                return lambda: "FP_ZERO"
            if t == "tfel::math::power":
                take("<")
                neg = False
                if peek() == "-":
                    take()
                    neg = True
                n = int(take())
                n = -n if neg else n
                take(">")
                take("(")
                a = ternary()
                take(")")

                def pw():
                    x = a()
                    if n < 0:
                        if x == 0:
                            raise CxxError("power of zero")
                        return _power_pos(-n, 1.0 / x)
                    return _power_pos(n, x)
                return pw
            if peek() == "(":
                take("(")
                args = [ternary()]
                while peek() == ",":
                    take(",")
                    args.append(ternary())
                take(")")
                if t == "tfel::math::ieee754::fpclassify" and len(args) == 1:
                    return lambda: "FP_ZERO" if args[0]() == 0 else "FP_OTHER"
                if len(args) == 1 and t in CXX_F1:
                    return lambda: CXX_F1[t](args[0]())
                if len(args) == 2 and t in CXX_F2:
                    return lambda: CXX_F2[t](args[0](), args[1]())
                raise CxxError("unknown function %s/%d" % (t, len(args)))
            if t not in env:
                raise CxxError("unbound variable " + t)
            v = env[t]
            return lambda: v
        raise CxxError("unexpected token %r" % t)

    def unary():
        if peek() == "-":
            take()
            e = unary()
            return lambda: -e()
        if peek() == "!":
            take()
            e = unary()
            return lambda: not e()
        return primary()

    def binary(sub, ops):
        def parse():
            e = sub()
            while peek() in ops:
                o = take()
                r = sub()
                e = (lambda l, r, f: (lambda: f(l(), r())))(e, r, ops[o])
            return e
        return parse

    def div(a, b):
        if b == 0:
            raise CxxError("division by zero")
        return a / b

    mul = binary(unary, {"*": lambda a, b: a * b, "/": div})
    add = binary(mul, {"+": lambda a, b: a + b, "-": lambda a, b: a - b})
    rel = binary(add, {"<": lambda a, b: a < b, "<=": lambda a, b: a <= b, ">": lambda a, b: a > b, ">=": lambda a, b: a >= b})
    eq = binary(rel, {"==": lambda a, b: a == b, "!=": lambda a, b: a != b})

    def land():
        e = eq()
        while peek() == "&&":
            take()
            r = eq()
            e = (lambda l, r: (lambda: bool(l()) and bool(r())))(e, r)
        return e

    def lor():
        e = land()
        while peek() == "||":
            take()
            r = land()
            e = (lambda l, r: (lambda: bool(l()) or bool(r())))(e, r)
        return e

    def ternary():
        c = lor()
        if peek() == "?":
            take("?")
            a = ternary()
            take(":")
            b = ternary()
            return lambda: a() if c() else b()
        return c

    e = ternary()
    if peek() is not None:
        raise CxxError("trailing token %r" % peek())
    try:
        v = e()
    except (ValueError, OverflowError, ZeroDivisionError) as ex:
        raise CxxError("domain: %s" % ex)
    if isinstance(v, bool) or isinstance(v, str):
        raise CxxError("not a number")
    return float(v)


def close(a, b, rel=1e-9):
    if a != a and b != b:
        return True
    if a != a or b != b:
        return False
    if math.isinf(a) or math.isinf(b):
        return a == b
    return abs(a - b) <= rel * max(abs(a), abs(b), 1e-300)


def export_verdict(rendering, env, value, rel=1e-9):
    """'same' / 'different' / 'undecided' : does the exported C++ formula have the evaluator's value?"""
    try:
        v = cxx_eval(rendering, env)
    except CxxError:
        return "undecided", None
    if value is None or value != value or v != v:
        return "undecided", v
    return ("same" if close(v, value, rel) else "different"), v


TOSTRING_LIT = re.compile(r"(?<![\w.])-?\d+\.\d{6}(?![\d.eE])")


def export_verdict_derivative(rendering, env, value):
    """like export_verdict for the rendering of a derivative: the rules export the constants they create
    through std::to_string (six decimals); a difference that a change of those literals by half a unit of
    the sixth decimal explains is 'same-to-string' (an observation), anything larger is 'different'"""
    verdict, v = export_verdict(rendering, env, value, 1e-9)
    if verdict != "different":
        return verdict, v
    tol = 1e-9 * max(abs(v), abs(value))
    lits = list(TOSTRING_LIT.finditer(rendering))
    for m in lits:
        dev = 0.0
        for d in (5e-7, -5e-7):
            alt = rendering[:m.start()] + "(%r)" % (float(m.group(0)) + d) + rendering[m.end():]
            try:
                dev = max(dev, abs(cxx_eval(alt, env) - v))
            except CxxError:
                return "undecided", v
        tol += 1.5 * dev
    if lits and abs(v - value) <= tol:
        return "same-to-string", v
    return "different", v


# ---------------------------------------------------------------------------------- tables against the documented language
# The model follows the dumped tables (T2), so a wrong entry of the table itself (name bound to another libm
# function or to another constant) is judged here, against references stated independently of Evaluator.cxx:
# the harness prints PhysicalConstants<double>::X for the documented meaning of each constant name, and the value
# of every registered function at sample points; the expected function of a *registered name* is CXX_F1/CXX_F2.
UVAL_POINTS = (0.3, 1.7, -0.6, 0.0)
BVAL_POINTS = ((1.7, 0.3), (0.3, 1.7), (-0.6, 0.25))


def table_defects(tab):
    """list of (key, what, replay) for table entries that do not denote the documented constant/function"""
    bad = []
    for row in tab.get("constref", []):
        name, ref, how, got = row
        if ref == "?":
            continue
        if how != "val" or got != ref:
            bad.append(("table:constant:" + name,
                        "the value of '%s*1' is %s; the physical constant of that name (PhysicalConstants.hxx) is %r" % (
                            name, ("%r" % hex_dbl(got)) if how == "val" else "an exception", hex_dbl(ref)),
                        {"formula": name + "*1", "getValue": hex_dbl(got) if how == "val" else None, "expected": hex_dbl(ref),
                         "site": "src/Math/Evaluator.cxx:FunctionGeneratorManager::FunctionGeneratorManager"}))
    for row in tab.get("uval", []):
        name, vals = row[0], row[1:]
        fn = CXX_F1.get(name)
        if fn is None:
            continue
        for x0, h in zip(UVAL_POINTS, vals):
            try:
                want = fn(x0)
            except (ValueError, OverflowError, ZeroDivisionError):
                continue
            if isinstance(want, complex) or want != want:
                continue
            got = None if h == "err" else hex_dbl(h)
            if got is None or not close(got, want, 1e-12):
                bad.append(("table:function:" + name,
                            "%s(x) at x = %r evaluates to %s; the function of that name has the value %r" % (
                                name, x0, "an exception" if got is None else repr(got), want),
                            {"formula": "%s(x)" % name, "point": {"x": x0}, "getValue": got, "expected": want,
                             "site": "src/Math/Evaluator.cxx:FunctionGeneratorManager / Evaluator::Heavyside"}))
                break
    for row in tab.get("bval", []):
        name, vals = row[0], row[1:]
        fn = CXX_F2.get(name)
        if fn is None:
            continue
        for (x0, y0), h in zip(BVAL_POINTS, vals):
            try:
                want = fn(x0, y0)
            except (ValueError, OverflowError, ZeroDivisionError):
                continue
            got = None if h == "err" else hex_dbl(h)
            if got is None or not close(got, want, 1e-12):
                bad.append(("table:function:" + name,
                            "%s(x,y) at (%r, %r) evaluates to %s; the function of that name has the value %r" % (
                                name, x0, y0, "an exception" if got is None else repr(got), want),
                            {"formula": "%s(x,y)" % name, "point": {"x": x0, "y": y0}, "getValue": got, "expected": want,
                             "site": "src/Math/Evaluator.cxx:FunctionGeneratorManager / Evaluator::max / Evaluator::min"}))
                break
    return bad
