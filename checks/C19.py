"""C19 — Kriging interpolants reproduce their training data.

Tie: M (hand-written Lean model of the matrix assembly and of operator(), bit-exact on Float against the
real templates on double, exact on Rat against the real templates on an exact rational scalar) + T1
(covariances / drifts / nugget of the shipped models traced through the real headers).
The linear solve is a hypothesis of the theorems; it is validated on every run (exactly with the rational
scalar, by its exact residual with double).
"""
import random
import struct
from fractions import Fraction

import t1
import vlib

PROPS = ["TfelVerif.C19.Props"]
EPS = 2.0 ** -52

# kind -> (dimension of a point, number of drifts, number of nugget values (-1: one per point))
KINDS = {
    "k1": (1, 2, 1), "k2": (2, 3, 1), "k3": (3, 4, 1), "pw": (1, 1, 1), "cu": (2, 1, -1),
    "f11": (2, 2, 0), "f12": (3, 3, 0), "f13": (4, 4, 0),
    "K1": (1, 2, 0), "K2": (2, 3, 0), "K3": (3, 4, 0),
    "F11": (2, 2, 0), "F12": (3, 3, 0), "F13": (4, 4, 0),
    "kf1": (1, 2, 1), "kf2": (2, 3, 1), "kf3": (3, 4, 1),
    # the tfel::math::vector<double> constructors of the wrappers (and KrigingUtilities::normalize(tfel::math::vector))
    "K1v": (1, 2, 0), "K2v": (2, 3, 0), "K3v": (3, 4, 0),
    "F11v": (2, 2, 0), "F12v": (3, 3, 0), "F13v": (4, 4, 0),
}
VKINDS = ("K1v", "K2v", "K3v", "F11v", "F12v", "F13v")
SITE = {
    "k1": "Kriging<1u,double>", "k2": "Kriging<2u,double>", "k3": "Kriging<3u,double>",
    "pw": "Kriging<1u,double,KrigingPieceWiseLinearModel1D>", "cu": "Kriging<2u,double,CustomL1>",
    "f11": "FactorizedKriging<1u,1u>", "f12": "FactorizedKriging<1u,2u>", "f13": "FactorizedKriging<1u,3u>",
    "K1": "Kriging1D", "K2": "Kriging2D", "K3": "Kriging3D",
    "F11": "FactorizedKriging1D1D", "F12": "FactorizedKriging1D2D", "F13": "FactorizedKriging1D3D",
    "kf1": "parser::KrigedFunction<1u>", "kf2": "parser::KrigedFunction<2u>", "kf3": "parser::KrigedFunction<3u>",
    "K1v": "Kriging1D(tfel::math::vector)", "K2v": "Kriging2D(tfel::math::vector)", "K3v": "Kriging3D(tfel::math::vector)",
    "F11v": "FactorizedKriging1D1D(tfel::math::vector)", "F12v": "FactorizedKriging1D2D(tfel::math::vector)",
    "F13v": "FactorizedKriging1D3D(tfel::math::vector)",
}
WRAPPERS = ("K1", "K2", "K3", "F11", "F12", "F13") + VKINDS
FACTORIZED = ("f11", "f12", "f13", "F11", "F12", "F13", "F11v", "F12v", "F13v")
# data classes inside the property's quantifier ("well-separated"); `scaled` = separated points whose raw
# coordinates are multiplied by a power of two far from 1 (wrappers only: exercises the normalisation)
WELL = ("sep", "grid", "tensor", "scaled", "symm")
SCALES = [1.0, 1000.0, 1.0e-3, 37.5]
TINY, HUGE = [2.0 ** -60, 2.0 ** -75], [2.0 ** 50]      # `scaled` class (a range of 2^-60 is far below 10 eps)
OFFSETS = [0.0, -5.0, 273.15]
# kinds whose covariance contains the 1D cubic |h|^3: the conditioning of the system grows like n^3..n^4;
# the absolute criterion 1e-9 is applied to them for n <= 24 only (beyond: conditioning-aware bound only)
CUBIC1D = ("k1", "kf1", "K1", "f11", "F11", "K1v", "F11v")
EXACT_KINDS = ("k1", "pw", "cu", "f11")
KAPPA = 256.0      # multiple of N*eps*(|M_k|_1 |a|_inf + |f_k|) accepted (largest value seen on separated data: < 20)


def hx(x):
    return "%016x" % struct.unpack(">Q", struct.pack(">d", float(x)))[0]


def unhx(s):
    if s == "nan":
        return float("nan")
    return struct.unpack(">d", struct.pack(">Q", int(s, 16)))[0]


def min_insufficient(kind):
    """largest n rejected with KrigingErrorInsufficientData"""
    d, nb, _ = KINDS[kind]
    if kind in FACTORIZED:
        return max(1, nb - 1)     # n <= Model1::nb (=1) or n <= Model2::nb (= nb - 1)
    return nb


# ------------------------------------------------------------------ generators
def separated(rng, n, d, frac=0.5):
    delta = frac * n ** (-1.0 / d)
    pts, tries = [], 0
    while len(pts) < n:
        p = [rng.random() for _ in range(d)]
        tries += 1
        if tries > 20000 or all(max(abs(a - b) for a, b in zip(p, q)) >= delta for q in pts):
            pts.append(p)
    return pts


def jittered(rng, n, d):
    """every coordinate column is a permuted jittered grid: all coordinates pairwise distinct and separated"""
    cols = []
    for _ in range(d):
        g = [(i + 0.5 + 0.6 * (rng.random() - 0.5)) / n for i in range(n)]
        rng.shuffle(g)
        cols.append(g)
    return [[cols[c][i] for c in range(d)] for i in range(n)]


def dyadic(rng, n, d):
    seen, pts = set(), []
    while len(pts) < n:
        p = tuple(rng.randrange(0, 65) / 64.0 for _ in range(d))
        if p not in seen:
            seen.add(p)
            pts.append(list(p))
    return pts


def make_request(rng, kind, n, cls, nq=2, extra=None, scales=None):
    """extra = c (wrappers only): argument number c of the constructor (0..d-1 coordinate columns, d values) gets
    one element too many; the kind token becomes `<kind>+c` and KrigingErrorInvalidLength is the expected answer"""
    d, nb, nn = KINDS[kind]
    if cls in ("sep", "scaled"):
        pts = separated(rng, n, d)
    elif cls == "symm":
        pts = separated(rng, n, d, frac=0.4)
        pts = [[0.05 + 0.9 * v for v in p] for p in pts]
    elif cls == "grid":
        pts = jittered(rng, n, d)
    elif cls == "dyadic":
        pts = dyadic(rng, n, d)
    elif cls == "tensor":         # factorized kinds: (time grid) x (space points), the typical use
        m1 = rng.randrange(2, 6)
        m2 = max(d + 1, n // m1)    # enough space points for the drifts {x, y, z} to be independent
        ts = [p[0] for p in jittered(rng, m1, 1)]
        xs = separated(rng, m2, d - 1)
        pts = [[t] + x for t in ts for x in xs]
        n = len(pts)
    elif cls == "collinear":      # all points on a line: the drift block is rank deficient in 2D/3D
        base = dyadic(rng, n, 1)
        pts = [[p[0]] + [0.5] * (d - 1) for p in base]
    elif cls == "degenerate":     # a constant column (wrappers: normalize raises)
        pts = [[0.25] + [rng.random() for _ in range(d - 1)] for _ in range(n)]
    else:
        pts = [[rng.random() for _ in range(d)] for _ in range(n)]
    if cls == "symm":
        # columns spanning exactly [-1, 1] (max = -min): point 0 and point 1 are opposite corners
        pts = [[2.0 * v - 1.0 for v in p] for p in pts]
        pts[0] = [-1.0] * d
        pts[1] = [1.0] * d
        q = [2.0 * rng.random() - 1.0 for _ in range(nq * d)]
    elif kind in WRAPPERS and cls == "scaled":
        sc = [rng.choice(scales or TINY + HUGE) for _ in range(d)]
        pts = [[p[c] * sc[c] for c in range(d)] for p in pts]
        q = [rng.random() * sc[c] for _ in range(nq) for c in range(d)]
    elif kind in WRAPPERS and cls != "degenerate":
        sc = [rng.choice(SCALES) for _ in range(d)]
        of = [rng.choice(OFFSETS) for _ in range(d)]
        pts = [[p[c] * sc[c] + of[c] for c in range(d)] for p in pts]
        q = [rng.random() * sc[c] + of[c] for _ in range(nq) for c in range(d)]
    else:
        q = [rng.random() for _ in range(nq * d)]
    if nn == 1:
        nugs = [rng.choice([0.0, 0.0, 0.0, 2.0 ** -rng.randrange(1, 12)])]
    elif nn == -1:
        nugs = [rng.choice([0.0, 0.125, 0.5, 2.0 ** -10]) for _ in range(n)]
    else:
        nugs = []
    f = [rng.uniform(-1, 1) * rng.choice([1.0, 1.0, 100.0]) for _ in range(n)]
    flat = [v for p in pts for v in p]
    token = kind if extra is None else "%s+%d" % (kind, extra)
    line = "%s %d %d %s" % (token, n, nq, " ".join(hx(v) for v in nugs + flat + f + q))
    return {"kind": kind, "n": n, "nq": nq, "cls": cls, "nugs": nugs, "pts": pts, "f": f, "line": line.rstrip(),
            "extra": extra}


def rat(fr):
    return "%d/%d" % (fr.numerator, fr.denominator)


def make_exact_request(rng, kind, n, nq=1):
    d = {"k1": 1, "pw": 1, "cu": 2, "f11": 2}[kind]
    seen, pts = set(), []
    while len(pts) < n:
        p = tuple(Fraction(rng.randrange(0, 9), rng.choice([1, 1, 2])) for _ in range(d))
        if kind == "f11":
            if any(p[0] == q[0] or p[1] == q[1] for q in pts):
                continue
        if p not in seen:
            seen.add(p)
            pts.append(p)
    if kind == "cu":
        nugs = [rng.choice([Fraction(0), Fraction(1, 8), Fraction(1, 2)]) for _ in range(n)]
    elif kind == "f11":
        nugs = []
    else:
        nugs = [rng.choice([Fraction(0), Fraction(0), Fraction(1, 4), Fraction(3)])]
    f = [Fraction(rng.randrange(-6, 7), rng.choice([1, 2, 3])) for _ in range(n)]
    q = [Fraction(rng.randrange(0, 17), 2) for _ in range(nq * d)]
    flat = [v for p in pts for v in p]
    line = "%s %d %d %s" % (kind, n, nq, " ".join(rat(v) for v in nugs + flat + f + q))
    return {"kind": kind, "n": n, "nq": nq, "nugs": nugs, "pts": pts, "f": f, "line": line}


# ------------------------------------------------------------------ answers
def parse_answer(ans, conv):
    """'ok N m .. rhs .. [a ..] [ev ..]' or 'err kind [N m .. rhs ..]' -> dict"""
    f = ans.split()
    if not f:
        return {"status": "missing"}
    if f[0] == "err":
        r = {"status": "err", "err": f[1] if len(f) > 1 else "?"}
        f = f[1:]
        if len(f) < 3:
            return r
    elif f[0] == "ok":
        r = {"status": "ok"}
    else:
        return {"status": f[0]}
    try:
        r["N"] = int(f[1])
        marks = {k: f.index(k) for k in ("m", "rhs", "a", "ev") if k in f}
        order = sorted(marks.items(), key=lambda kv: kv[1])
        for i, (k, pos) in enumerate(order):
            end = order[i + 1][1] if i + 1 < len(order) else len(f)
            r[k + "_raw"] = f[pos + 1:end]
            r[k] = [conv(s) for s in f[pos + 1:end]]
    except (ValueError, IndexError):
        return {"status": "garbled"}
    return r


def nugget_of(req, k):
    if req["kind"] == "cu":
        return req["nugs"][k]
    return req["nugs"][0] if req["nugs"] else 0.0


def assess(req, ia):
    """the property evaluated on the implementation's own answer (double).
    Returns (failures, stats): failures = list of (criterion, detail)."""
    n, N = req["n"], ia["N"]
    M, rhs, a, ev, f = ia["m"], ia["rhs"], ia["a"], ia["ev"], req["f"]
    fails = []
    if len(M) != N * N or len(a) != N or len(ev) < n or len(rhs) != N:
        return [("shape", "answer has inconsistent sizes")], {}
    if any(v != v or abs(v) == float("inf") for v in a + ev[:n]):
        return [("finite", "non finite unknowns or values at training points")], {}
    amax = max(abs(v) for v in a)
    fa = [Fraction(v) for v in a]
    fscale = max([1.0] + [abs(v) for v in f])
    worst_p2 = worst_p3 = worst_abs = 0.0
    for r in range(N):
        row = M[r * N:(r + 1) * N]
        res = float(sum(Fraction(row[j]) * fa[j] for j in range(N)) - Fraction(rhs[r]))
        s = sum(abs(v) for v in row) * amax + abs(rhs[r])
        bound = KAPPA * N * EPS * s
        if s > 0:
            worst_p3 = max(worst_p3, abs(res) / (N * EPS * s))
        if abs(res) > bound:
            fails.append(("solve-residual", "row %d of the assembled system: |M a - rhs| = %.3e > %.3e" % (r, abs(res), bound)))
        if r < n:
            nug = nugget_of(req, r)
            # theorem: K(x_k) = f_k + (cov 0 - nugget_k) a_k, cov 0 = 0 for every shipped model
            e = abs(ev[r] - (f[r] - nug * a[r]))
            worst_abs = max(worst_abs, e / max(fscale, abs(nug * a[r])))
            if s > 0:
                worst_p2 = max(worst_p2, e / (N * EPS * s))
            if e > bound:
                fails.append(("reproduction-conditioning",
                              "training point %d: |K(x_k) - (f_k - nugget_k a_k)| = %.3e exceeds %g N eps (|M_k|_1 |a|_inf + |f_k|) = %.3e"
                              % (r, e, KAPPA, bound)))
            well = req["cls"] in WELL and (req["kind"] not in CUBIC1D or n <= 24)
            if well and e > 1.0e-9 * max(fscale, abs(nug * a[r])):
                fails.append(("reproduction-1e-9",
                              "training point %d of well separated data: K(x_k) = %.17g, expected f_k - nugget_k a_k = %.17g (|diff| = %.3e > 1e-9 relative)"
                              % (r, ev[r], f[r] - nug * a[r], e)))
    return fails, {"p2": worst_p2, "p3": worst_p3, "abs": worst_abs}


def assess_exact(req, ia):
    """exact scalar: the solve must be exact and the theorem must hold exactly on the real templates"""
    n, N = req["n"], ia["N"]
    M, rhs, a, ev, f = ia["m"], ia["rhs"], ia["a"], ia["ev"], req["f"]
    fails = []
    if len(M) != N * N or len(a) != N or len(ev) < n or len(rhs) != N:
        return [("shape", "answer has inconsistent sizes")]
    for r in range(N):
        if sum(M[r * N + j] * a[j] for j in range(N)) != rhs[r]:
            fails.append(("exact-solve", "row %d: the real LUSolve on exact rationals returned a vector that does not solve the assembled system" % r))
            break
    for k in range(n):
        nug = req["nugs"][k] if req["kind"] == "cu" else (req["nugs"][0] if req["nugs"] else Fraction(0))
        if ev[k] != f[k] - nug * a[k]:
            fails.append(("exact-reproduction", "training point %d: K(x_k) = %s but f_k + (cov 0 - nugget_k) a_k = %s (exact arithmetic)"
                          % (k, ev[k], f[k] - nug * a[k])))
            break
    return fails


def build_requests(rng_main, seed, quick):
    """the requests of one run.  The 17 original kinds draw from `rng_main` (the check's generator, used for the
    exact requests afterwards); everything added by the mutation audit (the tfel::math::vector constructors,
    the `scaled` class, the length mismatches) draws from a generator of its own."""
    reqs = []
    rng2 = random.Random("C19-audit-%d" % seed)
    reps = 1 if quick else 12
    for kind in KINDS:
        rng = rng2 if kind in VKINDS else rng_main
        lo = min_insufficient(kind)
        sizes_quick = lambda lo: [lo + 1, lo + 2, rng.randrange(lo + 3, 13), rng.randrange(13, 25), rng.randrange(25, 41)]
        for _ in range(reps):
            for cls in ("sep", "grid"):
                for n in sizes_quick(lo) + ([40] if cls == "grid" else []):
                    reqs.append(make_request(rng, kind, n, cls))
            for n in (lo + 1, rng.randrange(lo + 2, 20)):
                reqs.append(make_request(rng, kind, n, "dyadic"))
            reqs.append(make_request(rng, kind, rng.randrange(lo + 1, 41), "rand"))
            if kind in FACTORIZED:
                for n in (rng.randrange(6, 13), rng.randrange(13, 31)):
                    reqs.append(make_request(rng, kind, n, "tensor"))
            if kind in WRAPPERS:
                # raw coordinates spanning 2^-60 .. 2^50: normalize must not take a small range for a null one
                for n, scales in ((lo + 1, TINY), (rng2.randrange(lo + 2, 13), HUGE), (rng2.randrange(13, 25), None)):
                    reqs.append(make_request(rng2, kind, n, "scaled", scales=scales))
                # raw coordinates spanning exactly [-1, 1]: max + min = 0
                for n in (lo + 2, rng2.randrange(lo + 3, 20)):
                    reqs.append(make_request(rng2, kind, n, "symm"))
        if kind in WRAPPERS:
            # one constructor argument longer than the others: KrigingErrorInvalidLength
            for c in range(1, KINDS[kind][0] + 1):
                reqs.append(make_request(rng2, kind, lo + 2 + c, "sep", extra=c))
        # rejected inputs
        for n in range(1, lo + 1):
            reqs.append(make_request(rng, kind, n, "rand"))
        if kind not in WRAPPERS:
            reqs.append(make_request(rng, kind, 0, "rand"))
        else:
            reqs.append(make_request(rng, kind, lo + 3, "degenerate"))
        if KINDS[kind][0] >= 2 and kind not in ("cu",):
            reqs.append(make_request(rng, kind, lo + 4, "collinear"))
    return reqs


# ------------------------------------------------------------------ the check
def run(ck):
    rng = random.Random(ck.seed)
    common = [vlib.REPO + "/src/Math/KrigingErrors.cxx", vlib.REPO + "/src/Math/LUException.cxx",
              vlib.REPO + "/src/Math/MathException.cxx", vlib.REPO + "/src/Exception/TFELException.cxx",
              vlib.REPO + "/src/Exception/ContractViolation.cxx"]
    from concurrent.futures import ThreadPoolExecutor
    # ---- T1 first: regenerate the covariances / drifts / nugget from the current headers
    tracer = ck.cxx("c19trace", ["C19/trace.cxx", vlib.REPO + "/src/Exception/ContractViolation.cxx"], opt="-O0")
    dag, units = t1.run_tracer(ck, tracer)
    ck.emit([dag], "TfelVerif.C19.Gen", "TfelVerif/C19/Gen.lean")

    # ---- then, side by side: the Lean build (driver + theorems) and the correspondence harnesses
    # (the double harness is compiled in two parts, see harness/C19/harness.cxx)
    def lean_side():
        return ck.lean_exe("c19driver", "TfelVerif/C19/Driver.lean"), ck.lean(PROPS, PROPS)

    def cxx_side():
        return ck.cxx_many([
            ("c19h1", ["C19/harness.cxx", vlib.REPO + "/src/Math/KrigedFunction.cxx",
                       vlib.REPO + "/src/Math/ExternalFunction.cxx"] + common, ["-DC19_PART=1"]),
            ("c19h2", ["C19/harness.cxx"] + common, ["-DC19_PART=2"]),
            ("c19x", ["C19/exact.cxx"] + common),
        ], sanitize=True, opt="-O0", includes=[vlib.REPO + "/src/Math"])
    with ThreadPoolExecutor(max_workers=2) as ex:
        fl = ex.submit(lean_side)
        fc = ex.submit(cxx_side)
        bins = fc.result()
        driver, res = fl.result()

    # ---- requests
    reqs = build_requests(rng, ck.seed, ck.quick)
    text = "".join(r["line"] + "\n" for r in reqs)
    parts = []
    for b in ("c19h1", "c19h2"):
        pi = ck.run([bins[b]], input=text, timeout=1500)
        if pi.returncode != 0:
            ck.violation("harness-crash", "the implementation harness aborted (sanitizer or crash)",
                         {"part": b, "stderr": pi.stderr[-3000:]}, False)
        parts.append(pi.stdout.splitlines())
    impl = []
    for i in range(len(reqs)):
        ans = [p[i] for p in parts if i < len(p) and p[i] != "skip"]
        impl.append(ans[0] if len(ans) == 1 else "missing")
    # the unknowns computed by the real solver are handed to the model (the solve is not modelled)
    mlines = []
    for i, r in enumerate(reqs):
        ia = parse_answer(impl[i] if i < len(impl) else "", unhx)
        r["impl"] = ia
        if ia["status"] == "ok" and "a_raw" in ia:
            mlines.append(r["line"] + " | " + " ".join(ia["a_raw"]))
        else:
            mlines.append(r["line"])
    pm = ck.run([driver], input="".join(l + "\n" for l in mlines), timeout=1500)
    model = pm.stdout.splitlines()

    reported = set()
    failures = []          # concrete property failures on the implementation (used by the theorem search too)
    stats = {"ok": 0, "err": {}, "differing_lines": 0, "max_p2_ratio": 0.0, "max_p3_ratio": 0.0,
             "max_rel_error_well_separated": 0.0, "max_p2_ratio_rand_class": 0.0, "by_kind": {}, "by_class": {}}
    classes = set()
    failed_sites, corr_only = set(), {}

    def report(key, what, rep, found):
        if key in reported:
            return
        reported.add(key)
        ck.violation(key, what, rep, found)

    for i, r in enumerate(reqs):
        ia = r["impl"]
        ma = parse_answer(model[i] if i < len(model) else "", unhx)
        kind, n, cls = r["kind"], r["n"], r["cls"]
        site = SITE[kind]
        stats["by_kind"][kind] = stats["by_kind"].get(kind, 0) + 1
        stats["by_class"][cls] = stats["by_class"].get(cls, 0) + 1
        rep = {"site": site, "kind": kind, "n": n, "class": cls, "request": r["line"], "points": r["pts"],
               "values": r["f"], "nuggets": r["nugs"], "implementation": (impl[i] if i < len(impl) else "missing")[:4000],
               "model": (model[i] if i < len(model) else "missing")[:4000]}
        fails = []
        if r.get("extra") is not None:
            # one constructor argument longer than the others: the only acceptable answer is KrigingErrorInvalidLength
            stats["length_mismatch_requests"] = stats.get("length_mismatch_requests", 0) + 1
            rep["longer_argument"] = r["extra"]
            if not (ia["status"] == "err" and ia.get("err") == "invalid-length"):
                fails = [("length-check", "constructor argument %d has %d elements, the others %d: KrigingErrorInvalidLength expected, got '%s'"
                          % (r["extra"], n + 1, n, (impl[i] if i < len(impl) else "missing")[:60]))]
            else:
                stats["err"]["invalid-length"] = stats["err"].get("invalid-length", 0) + 1
        elif ia["status"] == "ok":
            stats["ok"] += 1
            classes.add((kind, n, cls, bool(any(r["nugs"]))))
            fails, st = assess(r, ia)
            if st and cls in WELL + ("dyadic",):
                stats["max_p2_ratio"] = max(stats["max_p2_ratio"], st["p2"])
                stats["max_p3_ratio"] = max(stats["max_p3_ratio"], st["p3"])
                if cls != "dyadic" and (kind not in CUBIC1D or n <= 24):
                    stats["max_rel_error_well_separated"] = max(stats["max_rel_error_well_separated"], st["abs"])
            elif st:
                stats["max_p2_ratio_rand_class"] = max(stats["max_p2_ratio_rand_class"], st["p2"])
            if cls not in WELL:
                # clustered / dyadic / collinear data may be arbitrarily ill conditioned: outside the property's
                # quantifier ("well-separated"); only exactness-independent criteria are kept
                fails = [f for f in fails if f[0] in ("shape",)]
        else:
            e = ia.get("err", ia["status"])
            stats["err"][e] = stats["err"].get(e, 0) + 1
            if ia["status"] != "err" or e in ("other", "no-capture"):
                fails = [("unexpected-answer", "the harness answered '%s'" % (impl[i] if i < len(impl) else "missing")[:200])]
            elif e == "index-unchecked":
                fails = [("index-check", "setVariableValue with an index beyond the last variable is not rejected (or changes the variables): "
                          "after it getValue() at training point 0 no longer returns the value computed there")]
            elif e == "clone-differs":
                fails = [("copy", "the copy made by resolveDependencies / createFunctionByChangingParametersIntoVariables does not return the value of the original")]
            elif cls in WELL and n > min_insufficient(kind):
                fails = [("no-interpolant", "building the interpolant on %d well separated points failed: %s" % (n, e))]
        # correspondence with the model: same status; matrix, right-hand side, evaluations bit for bit
        same = True
        if ia["status"] == "ok":
            same = ma["status"] == "ok" and all(ia.get(k + "_raw") == ma.get(k + "_raw") for k in ("m", "rhs", "ev")) and ia["N"] == ma.get("N")
        elif ia["status"] == "err" and ia.get("err") == "singular":
            same = ma["status"] == "ok" and all(ia.get(k + "_raw") == ma.get(k + "_raw") for k in ("m", "rhs"))
        elif ia["status"] == "err":
            same = ma["status"] == "err" and ma.get("err") == ia.get("err")
        else:
            same = False
        if not same:
            stats["differing_lines"] += 1
        if fails:
            crit, detail = fails[0]
            rep["criterion"] = crit
            rep["all_failed_criteria"] = [f[0] for f in fails][:10]
            failures.append(rep)
            failed_sites.add(site)
            report("%s:%s" % (site, crit), "%s, n=%d, %s data: %s" % (site, n, cls, detail), rep, True)
        elif not same and site not in corr_only:
            rep["property_holds_on_implementation_output"] = True
            corr_only[site] = ("correspondence Model.lean vs %s broken (n=%d, %s data): assembled matrix / right-hand side / evaluation differ bit-wise; the training data is still reproduced" % (site, n, cls), rep)
    # a site whose outputs differ from the model without any failure of the property itself
    for site, (what, rep) in corr_only.items():
        if site not in failed_sites:
            report("corr:%s" % site, what, rep, False)

    # ---- exact scalar: real templates + real LUSolve on rationals vs the model on Rat
    xreqs = []
    for kind in EXACT_KINDS:
        lo = {"k1": 2, "pw": 1, "cu": 1, "f11": 1}[kind]
        for _ in range(6 if ck.quick else 60):
            xreqs.append(make_exact_request(rng, kind, rng.randrange(lo + 1, lo + 5)))
        xreqs.append(make_exact_request(rng, kind, lo))
    px = ck.run([bins["c19x"]], input="".join(r["line"] + "\n" for r in xreqs), timeout=900)
    if px.returncode != 0:
        ck.violation("exact-harness-crash", "the exact harness aborted", {"stderr": px.stderr[-3000:]}, False)
    ximpl = px.stdout.splitlines()
    xm = []
    for i, r in enumerate(xreqs):
        ia = parse_answer(ximpl[i] if i < len(ximpl) else "", Fraction)
        r["impl"] = ia
        xm.append("q" + r["line"] + ((" | " + " ".join(ia["a_raw"])) if ia["status"] == "ok" and "a_raw" in ia else ""))
    pq = ck.run([driver], input="".join(l + "\n" for l in xm), timeout=900)
    xmodel = pq.stdout.splitlines()
    xstats = {"ok": 0, "err": {}, "differing_lines": 0}
    for i, r in enumerate(xreqs):
        ia = r["impl"]
        ma = parse_answer(xmodel[i] if i < len(xmodel) else "", Fraction)
        site = SITE[r["kind"]].replace("double", "Q") + " [exact rational scalar]"
        rep = {"site": site, "kind": r["kind"], "n": r["n"], "request": r["line"],
               "implementation": (ximpl[i] if i < len(ximpl) else "missing")[:4000],
               "model": (xmodel[i] if i < len(xmodel) else "missing")[:4000]}
        fails = []
        if ia["status"] == "ok":
            xstats["ok"] += 1
            fails = assess_exact(r, ia)
            same = ma["status"] == "ok" and all(ia.get(k) == ma.get(k) for k in ("m", "rhs", "ev"))
        elif ia["status"] == "err":
            e = ia.get("err")
            xstats["err"][e] = xstats["err"].get(e, 0) + 1
            same = (ma["status"] == "err" and ma.get("err") == e) or e in ("overflow", "singular")
            if e in ("other", "no-capture"):
                fails = [("unexpected-answer", "the exact harness answered '%s'" % ximpl[i][:200])]
        else:
            same = False
            fails = [("unexpected-answer", "the exact harness answered '%s'" % (ximpl[i] if i < len(ximpl) else "missing")[:200])]
        if not same:
            xstats["differing_lines"] += 1
        if fails:
            rep["criterion"] = fails[0][0]
            failures.append(rep)
            report("%s:%s" % (site, fails[0][0]), "%s, n=%d: %s" % (site, r["n"], fails[0][1]), rep, True)
        elif not same:
            report("corr:%s" % site, "correspondence of the model on Rat with %s broken (n=%d); the exact identity K(x_k) = f_k - nugget_k a_k still holds" % (site, r["n"]), rep, False)
    if xstats["ok"] < len(xreqs) // 2:
        ck.violation("exact-coverage", "fewer than half of the exact requests were solved (overflow / singular): the exact tie is too thin",
                     {"stats": xstats}, False)

    # ---- theorems (after the correspondence so that a broken obligation can point at a failing input)
    def search(fl):
        return failures[0] if failures else None
    ck.lean_violations(res, search)
    if ck.tier == "thorough" and res.ok:
        for m, log in ck.leanchecker(PROPS):
            ck.violation("leanchecker:" + m, "leanchecker rejects " + m, {"log": log}, False)

    ck.assumptions += [
        "M: Model.lean (matrix assembly `entry`/`rhs`, `evalK`, shipped models, normalisation) is hand-written; it is tied to the C++ by running the real templates on the same requests: bit-exact on double (every matrix cell, right-hand side, every evaluation), exact on a rational scalar",
        "the linear solve is not modelled: theorems assume the unknowns solve the assembled system exactly (C07 proves this of LUSolve in exact arithmetic); validated per run: exactly with the rational scalar, by the exact residual of the double solution (<= %g N eps (|M_r|_1 |a|_inf + |rhs_r|))" % KAPPA,
        "harness: LUSolve::exe<matrix<T>,vector<T>> is explicitly specialised in the harness to record the assembled system before calling the real 4-argument LUSolve::exe (same body as the primary template)",
        "T1: g++ instantiating the kriging models with verif::Sym performs the same scalar operations as with double; abs/sqrt/log are uninterpreted, the facts abs(-t)=abs t, abs 0 = 0, sqrt 0 = 0 are hypotheses",
        "floating point: rounding is not modelled in the theorems; 'conditioning respected' is checked numerically (criterion above and 1e-9 relative on well separated data; 1D cubic kinds only for n <= 24), not proved",
        "existence of a solution (unisolvence for distinct points) is not proved; collinear 2D/3D samples make the system singular",
    ]
    samples = []
    for i in (0, len(reqs) // 3, 2 * len(reqs) // 3, len(reqs) - 1):
        r = reqs[i]
        samples.append({"kind": r["kind"], "n": r["n"], "class": r["cls"], "implementation": (impl[i] if i < len(impl) else "?")[:160],
                        "model": (model[i] if i < len(model) else "?")[:160]})
    if xreqs:
        samples.append({"exact": xreqs[0]["line"], "implementation": (ximpl[0] if ximpl else "?")[:200], "model": (xmodel[0] if xmodel else "?")[:200]})
    return ck.finish({
        "units_traced": len(units), "outputs_traced": sum(len(u.outs) for u in units),
        "evaluations": len(reqs) + len(xreqs), "distinct_nontrivial": len(classes) + xstats["ok"],
        "rule": "requests = 23 instantiations (Kriging<1,2,3>, piecewise-linear, custom per-point nugget, FactorizedKriging<1,M>, the 6 wrappers through their std::vector and through their tfel::math::vector constructors, KrigedFunction<1,2,3> incl. copies and rejected indices) x sizes (smallest accepted .. 40) x data classes (separated, jittered grid, tensor grid for the factorized kinds, separated with raw coordinates scaled by 2^-60..2^50, separated spanning exactly [-1,1], dyadic, clustered, collinear, degenerate, too few points, one constructor argument too long); distinct non-trivial = distinct (kind, n, class, nugget?) for which an interpolant was built and compared cell by cell + exact-scalar requests solved",
        "exhaustive": False, "float_stats": stats, "exact_stats": xstats,
        "property_failures": len(failures),
        "traces_validated_against_impl": len(reqs) + len(xreqs),
        "samples": samples,
    })
