"""C15 — geometric 1D discretisation yields an ordered graded mesh (tie: M, Float bit-exact).

model : lean/TfelVerif/C15/Driver.lean runs Model.lean on Float, in two variants: the code as it is and
        the repaired code (patches/C15-near-uniform.diff); theorems of Props.lean are about this model
impl  : harness/C15/harness.cxx calls the real geometricDiscretization (current tree, ASan/UBSan)
Every request is compared bit for bit (FNV hash over all node bit patterns + last nodes); the property
itself (size, end points, monotonicity, constant ratio) is evaluated on every vector the
implementation returns.
"""
import math
import random
import struct

import vlib

PROPS = ["TfelVerif.C15.Props"]
SITE = "Discretization1D.ixx:geometricDiscretization"


def bits(x):
    return struct.unpack("<Q", struct.pack("<d", x))[0]


def code_ratio(xb, xe, db, de):
    """the ratio r as the code computes it (same double operations)"""
    l = xe - xb
    rdb = db / l
    rde = de / l
    xaux = 0.5 * (rdb - rde) * (rdb - rde)
    if rde < rdb:
        return 1. + xaux - math.sqrt(xaux * (2 + xaux))
    return 1 + xaux + math.sqrt(xaux * (2 + xaux))


def gen_requests(rng, quick):
    reqs = []   # (class, xb, xe, db, de, n)
    ns_small = [1, 2, 3, 4, 5, 7, 10, 16, 17, 33, 100]
    ns_big = [500, 1000, 5000, 20000] if quick else [500, 1000, 5000, 20000, 50000, 100000]
    reps = 6 if quick else 60

    def interval():
        xb = rng.uniform(-50, 50) if rng.random() < 0.8 else 0.
        l = rng.choice([-1, 1]) * 10 ** rng.uniform(-1, 2)
        return xb, xb + l

    def with_ratio(r, xb, xe, n):
        l = xe - xb
        delta = abs(r - 1) / math.sqrt(r)
        t = delta * abs(l)
        u = 10 ** rng.uniform(-3, 0) * abs(l)
        sgn = 1. if l > 0 else -1.
        shift = (-t if r < 1 else t) * sgn
        db = u + max(0., -shift)
        de = db + shift
        return db, de

    for n in ns_small + ns_big:
        for _ in range(reps):
            # graded: total growth r^n between 1e-4 and 1e4
            xb, xe = interval()
            g = 10 ** rng.uniform(-4, 4)
            r = g ** (1. / n)
            db, de = with_ratio(r, xb, xe, n)
            reqs.append(("graded", xb, xe, db, de, n))
            # near-uniform band |r-1| <= 1e-5, both sides
            xb, xe = interval()
            d = 10 ** rng.uniform(-9, math.log10(9.9e-6))
            r = 1 + d if rng.random() < 0.5 else 1 - d
            db, de = with_ratio(r, xb, xe, n)
            reqs.append(("band", xb, xe, db, de, n))
        for _ in range(max(1, reps // 3)):
            xb, xe = interval()
            d = 1e-5 * rng.uniform(0.99, 1.01)
            r = 1 + d if rng.random() < 0.5 else 1 - d
            db, de = with_ratio(r, xb, xe, n)
            reqs.append(("boundary", xb, xe, db, de, n))
            xb, xe = interval()
            db = 10 ** rng.uniform(-3, 1)
            reqs.append(("equal", xb, xe, db, db, n))
    for n in ns_small:
        for _ in range(reps):
            xb, xe = interval()
            l = abs(xe - xb)
            reqs.append(("wild", xb, xe, 10 ** rng.uniform(-2, 0) * l, 10 ** rng.uniform(-2, 0) * l, n))
    # densities equal up to round-off ("ulp-close"): d and d moved by 1..4 ulps, and products such as 0.1*3 vs 0.3;
    # xaux may then be > 0 although the computed ratio rounds to exactly 1
    def ulps(x, k):
        for _ in range(abs(k)):
            x = math.nextafter(x, math.inf if k > 0 else -math.inf)
        return x
    ulp_pairs = [(0.3, 0.1 * 3), (0.1 * 3, 0.3), (0.7, 0.1 * 7), (0.6, 0.2 * 3), (1.1 * 1.1, 1.21)]
    for dd in [0.1, 0.3, 1., 2.5, 17., 1e-3] + [10 ** rng.uniform(-3, 1) for _ in range(2 if quick else 12)]:
        for k in (1, 2, 3, 4, -1, -2, -3, -4):
            ulp_pairs.append((dd, ulps(dd, k)))
    for (db, de) in ulp_pairs:
        for (xb, xe) in [(0., 1.), (1., 0.), (0., 0.5), (-2., -1.), (3., 1.)] + [interval() for _ in range(1 if quick else 4)]:
            for n in (2, 7, 1000):
                reqs.append(("ulp-close", xb, xe, db, de, n))
    # the edges of the near-uniform band: |r - 1| just below / above 1e-5, on both sides of 1
    for n in (2, 7, 100, 1000):
        for fac in (1 - 1e-6, 1 - 1e-9, 1 - 1e-12, 1 - 1e-15, 1., 1 + 1e-15, 1 + 1e-12, 1 + 1e-9, 1 + 1e-6):
            for sgn in (1, -1):
                for _ in range(1 if quick else 4):
                    xb, xe = interval()
                    db, de = with_ratio(1 + sgn * 1e-5 * fac, xb, xe, n)
                    reqs.append(("band-edge", xb, xe, db, de, n))
    reqs.append(("upstream", 2., 17., 0.1, 5., 10))
    # the replayed instances of the near-uniform defect
    reqs.append(("band", 0., 1., 0.1, 0.100009, 1000))
    reqs.append(("band", 0., 1., 0.100009, 0.1, 100000 if not quick else 20000))
    # rejected inputs
    for (xb, xe, db, de, n) in [(1., 1., 1., 1., 3), (0., 1e-320, 1., 1., 3), (0., 1., 0., 1., 3), (0., 1., 1., 1e-310, 3),
                                (0., 1., 1., 1., 0), (0., 1., -0.0, 1., 0), (5., 5., 0., 0., 0)]:
        reqs.append(("invalid", xb, xe, db, de, n))
    return reqs


def parse_stats(s):
    d = {}
    for tok in s.split():
        k, v = tok.split("=")
        d[k] = float(v) if k in ("back", "minlen", "maxabs", "rmin", "rmax", "minpos") else int(v)
    return d


def property_failures(st, n):
    """the property on a returned vector; floating point noise is bounded from the magnitudes involved"""
    bad = []
    if st["size"] != n + 1:
        bad.append("size %d != n+1" % st["size"])
    if not st["first"]:
        bad.append("first node != xb")
    if not st["last"]:
        bad.append("last node != xe")
    if st.get("nonfinite", 0) > 0:
        # NaN / infinite nodes: every comparison below would be vacuous
        bad.append("%d non-finite node(s) (NaN or infinite)" % st["nonfinite"])
        return bad, False
    ulp = math.ulp(st["maxabs"]) if st["maxabs"] > 0 else 5e-324
    if st["back"] > 16 * ulp:
        bad.append("not monotone: step %d goes back by %.6g" % (st["at"], st["back"]))
    if st["zero"] > 0 and st["minpos"] > 1e7 * ulp:
        bad.append("not strictly monotone: %d zero-length element(s) while every other element is resolved" % st["zero"])
    resolved = st["minlen"] > 1e7 * ulp
    if n >= 3 and resolved and st["rmax"] - st["rmin"] > 1e-4 * abs(st["rmax"]):
        bad.append("ratio of consecutive lengths not constant: min %.9g max %.9g" % (st["rmin"], st["rmax"]))
    return bad, resolved


def run(ck):
    rng = random.Random(ck.seed)
    harness = ck.cxx("c15h", ["C15/harness.cxx", vlib.REPO + "/src/Math/Discretization1D.cxx",
                              vlib.REPO + "/src/Math/MathException.cxx", vlib.REPO + "/src/Exception/TFELException.cxx"],
                     sanitize=True)
    driver = ck.lean_exe("c15driver", "TfelVerif/C15/Driver.lean")
    res = ck.lean(PROPS, PROPS)
    reqs = gen_requests(rng, ck.quick)
    text = "".join("%d %d %d %d %d\n" % (bits(xb), bits(xe), bits(db), bits(de), n) for (_, xb, xe, db, de, n) in reqs)
    pi = ck.run([harness], input=text, timeout=3000)
    pm = ck.run([driver], input=text, timeout=3000)
    if pi.returncode != 0:
        ck.violation(SITE + ":harness-abort", "the implementation harness aborted (sanitizer or crash)",
                     {"stderr": pi.stderr[-2500:], "request_index": len(pi.stdout.splitlines())}, False)
    impl = pi.stdout.splitlines()
    model = pm.stdout.splitlines()
    match = {"asis": 0, "fixed": 0, "both": 0, "none": 0}
    hist = {}
    failures = []
    unresolved = 0
    first_none = None
    for i, (cls, xb, xe, db, de, n) in enumerate(reqs):
        a_full = impl[i] if i < len(impl) else "missing"
        a, _, stats = a_full.partition(" # ")
        m = model[i] if i < len(model) else "missing | missing"
        m0, _, m1 = m.partition(" | ")
        hist[cls] = hist.get(cls, 0) + 1
        k = "both" if a == m0 == m1 else ("asis" if a == m0 else ("fixed" if a == m1 else "none"))
        match[k] += 1
        if k == "none" and first_none is None:
            first_none = i
        rep = {"xb": repr(xb), "xe": repr(xe), "db": repr(db), "de": repr(de), "n": n, "class": cls,
               "request": text.splitlines()[i], "implementation": a_full[:600], "model_as_is": m0[:300],
               "model_repaired": m1[:300]}
        if cls == "invalid":
            if not a.startswith("err:"):
                failures.append((i, "invalid", ["invalid input accepted: " + a[:60]], rep))
            continue
        if a.startswith("err:") or a == "missing":
            failures.append((i, cls, ["valid input rejected or no answer: " + a], rep))
            continue
        st = parse_stats(stats)
        bad, resolved = property_failures(st, n)
        unresolved += (not resolved)
        if bad:
            r = code_ratio(xb, xe, db, de)
            in_band = (abs(r - 1) <= 1.e-5) and r != 1
            rep["ratio_r_computed_by_the_code"] = repr(r)
            rep["property_failures"] = bad
            failures.append((i, "near-uniform-band" if in_band else cls, bad, rep))
    variant = "as-is" if match["fixed"] == 0 and match["none"] == 0 else (
        "repaired" if match["asis"] == 0 and match["none"] == 0 else "neither")
    # property violations on the implementation, one per input class
    reported = set()
    for (i, cls, bad, rep) in failures:
        key = "%s:%s" % (SITE, cls)
        if key in reported:
            continue
        reported.add(key)
        ck.violation(key, "geometricDiscretization(xb=%s, xe=%s, db=%s, de=%s, n=%d): %s" % (
            rep["xb"], rep["xe"], rep["db"], rep["de"], rep["n"], "; ".join(bad)), rep, True)
    if variant == "neither":
        i = first_none if first_none is not None else 0
        cls, xb, xe, db, de, n = reqs[i]
        ck.violation("corr:" + SITE, "correspondence broken: the implementation matches neither the model of the code "
                     "as it is nor of the repaired code (as-is only %d, repaired only %d, neither %d), e.g. request %d" % (
                         match["asis"], match["fixed"], match["none"], i),
                     {"request": text.splitlines()[i], "xb": repr(xb), "xe": repr(xe), "db": repr(db), "de": repr(de), "n": n,
                      "implementation": (impl[i] if i < len(impl) else "missing")[:600],
                      "model": (model[i] if i < len(model) else "missing")[:600], "match_counts": match},
                     any(f[0] == i for f in failures))

    def search(fl):
        return failures[0][3] if failures else None
    ck.lean_violations(res, search)
    if ck.tier == "thorough" and res.ok:
        for mod, log in ck.leanchecker(PROPS):
            ck.violation("leanchecker:" + mod, "leanchecker rejects " + mod, {"log": log}, False)
    ck.assumptions += [
        "M: Model.lean is tied to geometricDiscretization by bit-exact differential execution on Float (FNV hash over all "
        "node bit patterns), harness built with -ffp-contract=off; std::sqrt / std::pow are the glibc functions on both sides",
        "theorems are in exact arithmetic (ordered field, pow = r^n, sqrt abstract with the square-root law): rounding, "
        "overflow of r^n and elements below the resolution of double are not modelled; on the implementation the "
        "property is evaluated with noise bounds derived from ulp(max|node|) (monotonicity: backward step > 16 ulp, or a zero-length element while all others exceed 1e7 ulp; "
        "constant ratio: only when every element length exceeds 1e7 ulp, relative spread > 1e-4; a NaN or infinite node is a failure)",
        "the direction of the grading for xe < xb (which end gets the small elements) is not part of the property",
    ]
    big = max(r[5] for r in reqs)
    return ck.finish({
        "evaluations": len(reqs), "distinct_nontrivial": sum(1 for r in reqs if r[0] != "invalid" and r[5] >= 2),
        "rule": "requests = seeded (interval, densities, n) per class {graded r<1/r>1, near-uniform band, band boundary and band "
                "edges (|r-1| = 1e-5 (1 +- 1e-15..1e-6)), equal densities, ulp-close densities (1..4 ulps apart, 0.1*3 vs 0.3), "
                "wild, upstream test, rejected}; distinct = accepted requests with n >= 2 (random reals: all distinct)",
        "classes": hist, "n_max": big, "model_variant_matched": variant, "match_counts": match,
        "property_failures_on_implementation": len(failures), "unresolved_in_double": unresolved,
        "traces_validated_against_impl": len(reqs),
        "samples": ["%s n=%d xb=%r xe=%r db=%r de=%r -> %s" % (reqs[i][0], reqs[i][5], reqs[i][1], reqs[i][2], reqs[i][3],
                                                               reqs[i][4], (impl[i] if i < len(impl) else "?")[:100])
                    for i in (0, 1, len(reqs) // 2, len(reqs) - 8)],
    })
