"""C09 — scalar Newton-bisection root finder is sound and bracket-confined (tie: M, bit-exact).

Model: lean/TfelVerif/C09/Model.lean (`run` = scalarNewtonRaphson + BissectionAlgorithmBase, polymorphic in
the number record; user function = oracle `orc k x`, criterion arbitrary). Theorems:
lean/TfelVerif/C09/Props.lean — (a) soundness of `converged`, (b) iteration/call bounds for EVERY number
record, oracle and criterion; (c) bracket invariant for the exact instance ExtRat (rationals + inf + NaN).
Tie: harness/C09/harness.cxx calls the real template in-process with a scripted / real user function and a
logging criterion; the compiled Lean driver runs the Float instance on the same request lines; returned
tuple, every argument passed to the user function and the number of criterion evaluations are compared
bit for bit. Independently of the model, the property's own predicate is evaluated on every answer of
the implementation.
"""
import collections
import glob
import itertools
import math
import os
import random
import struct

import vlib

PROPS = ["TfelVerif.C09.Props"]
SITE = "include/TFEL/Math/NonLinearSolvers/ScalarNewtonRaphson.ixx:scalarNewtonRaphson"
NAN = float("nan")
INF = float("inf")
DBL_MAX = 1.7976931348623157e308


def bits(x):
    return "%016x" % struct.unpack("<Q", struct.pack("<d", float(x)))[0]


def dbl(s):
    return struct.unpack("<d", struct.pack("<Q", int(s, 16)))[0]


def is_nan_bits(s):
    v = int(s, 16)
    return (v >> 52) & 0x7ff == 0x7ff and v & ((1 << 52) - 1) != 0


def finite(x):
    return x == x and abs(x) != INF


def sgn(v):
    return (1 if 0 < v else 0) - (1 if v < 0 else 0)


def cz(t):
    return "nan" if len(t) == 16 and is_nan_bits(t) else t


def parse(ans):
    """'<conv> <x> <i> n <k> args... c <ncrit> <fv> <dx>[ | ctrue= cx= ci= fv ...]' -> dict or None"""
    try:
        main, _, side = ans.partition(" | ")
        f = main.split()
        conv, x, i = int(f[0]), f[1], int(f[2])
        assert f[3] == "n"
        n = int(f[4])
        args = f[5:5 + n]
        assert f[5 + n] == "c"
        ncrit = int(f[6 + n])
        fv, dx = f[7 + n], f[8 + n]
        d = {"conv": conv, "x": x, "i": i, "n": n, "args": args, "ncrit": ncrit, "fv": fv, "dx": dx}
        if side.startswith("br"):
            d["brs"] = side.split()[1:]
        elif side:
            g = side.split()
            d["ctrue"] = int(g[0].split("=")[1])
            d["cx"] = g[1].split("=")[1]
            d["ci"] = int(g[2].split("=")[1])
            d["fvals"] = g[4:]
        return d
    except (ValueError, IndexError, AssertionError):
        return None


def canon(d):
    """what is compared with the model: tuple, call arguments, criterion count; the (fv, dx) seen by the
    last convergence test only when converged (otherwise the two sides report different things)"""
    if d is None:
        return "unparsable"
    out = [str(d["conv"]), cz(d["x"]), str(d["i"]), "n", str(d["n"])] + [cz(a) for a in d["args"]] + ["c", str(d["ncrit"])]
    if d["conv"]:
        out += [cz(d["fv"]), cz(d["dx"])]
    return " ".join(out)


def predicate(req, d):
    """the property evaluated on the implementation's answer alone; returns (ok, why)"""
    if d is None:
        return False, "unparsable answer"
    im = req["im"]
    x = dbl(d["x"])
    n = d["n"]
    args = [dbl(a) for a in d["args"]]
    fvals = [dbl(v) for v in d.get("fvals", [])]
    # (b)
    if d["i"] > max(im, 0) or d["i"] < 0:
        return False, "(b) %d iterations performed, %d allowed" % (d["i"], im)
    if n > 2 * d["i"] + 3:
        return False, "(b) %d calls of the user function for %d iterations (bound 2i+3)" % (n, d["i"])
    if d["ncrit"] > d["i"] + 1:
        return False, "(b) %d criterion evaluations for %d iterations" % (d["ncrit"], d["i"])
    if im <= 0 and (n != 0 or d["conv"] or d["x"] != bits(req["x0"])):
        return False, "(b) no iteration allowed but the function was called / something else than x0 returned"
    # (a)
    if d["conv"]:
        if not finite(x):
            return False, "(a) converged with a non-finite root %r" % x
        if d["ncrit"] == 0 or not d["ctrue"]:
            return False, "(a) converged although the last evaluation of the user criterion did not return true"
        if d["cx"] != d["x"] or d["ci"] != d["i"]:
            return False, "(a) converged but the criterion was last evaluated on x=%r, i=%d, not on the returned (x=%r, i=%d)" % (dbl(d["cx"]), d["ci"], x, d["i"])
        # the call whose answer is fv: call 0 when no iteration was performed, else the last call
        j = 0 if d["i"] == 0 else n - 1
        if j >= len(args) or bits(args[j]) != d["x"]:
            return False, "(a) converged but the returned root %r is not the point where the function was last evaluated" % x
        if j >= len(fvals) or not finite(fvals[j]):
            return False, "(a) converged although the function value at the returned root is not finite"
        if cz(bits(fvals[j])) != cz(d["fv"]):
            return False, "(a) the criterion was evaluated on f=%r but the function answered %r at the returned root" % (dbl(d["fv"]), fvals[j])
    # (c) supplied sign-changing bracket
    lo, hi = req["xmin0"], req["xmax0"]
    if im > 0 and finite(lo) and finite(hi) and lo < hi and len(fvals) >= 3 and finite(fvals[1]) and finite(fvals[2]) \
            and sgn(fvals[1]) != sgn(fvals[2]):
        for j in range(3, n):
            if not (lo <= args[j] <= hi):
                return False, "(c) bracket [%r, %r] supplied with f=%r, %r of different sign, but call %d evaluates the function at %r" % (lo, hi, fvals[1], fvals[2], j, args[j])
        if d["x"] != bits(req["x0"]) and not (lo <= x <= hi):
            return False, "(c) bracket [%r, %r] supplied but the returned estimate is %r" % (lo, hi, x)
    # (c) again for a genuine function (calls 1 and 2 not scripted): the signs of f at the supplied bounds are
    # recomputed here, independently of where the implementation chose to evaluate the function
    if im > 0 and finite(lo) and finite(hi) and lo < hi and len(req["script"]) <= 1 and 1 <= req["fid"] <= 12 and n > 3:
        flo, fhi = pyfn(req["fid"], lo), pyfn(req["fid"], hi)
        if finite(flo) and finite(fhi) and sgn(flo) != sgn(fhi):
            for j in range(3, n):
                if not (lo <= args[j] <= hi):
                    return False, "(c) bracket [%r, %r] supplied, f(%r)=%r and f(%r)=%r have different signs, but call %d evaluates the function at %r" % (lo, hi, lo, flo, hi, fhi, j, args[j])
            if d["x"] != bits(req["x0"]) and not (lo <= x <= hi):
                return False, "(c) bracket [%r, %r] supplied (f changes sign) but the returned estimate is %r" % (lo, hi, x)
    return True, "ok"


def pyfn(fid, x):
    """value of the harness / driver function number `fid` at x (python floats are IEEE doubles; only the sign and
    the finiteness of the result are used)"""
    def div(a, b):
        if b == 0.0:
            if a == 0.0 or a != a:
                return NAN
            return math.copysign(INF, a) * math.copysign(1.0, b)
        return a / b
    try:
        if fid == 1:
            return x * x - 13.0
        if fid == 2:
            return x * x * x - 2.0 * x - 5.0
        if fid == 3:
            return div(1.0, x) - 2.0
        if fid == 4:
            return x * x
        if fid == 5:
            return (x - 1.0) * (x - 1.0) * (x - 1.0)
        if fid == 6:
            return 1.0
        if fid == 7:
            return div(x, 1.0 + x * x)
        if fid == 8:
            return x - div(2.0, x)
        if fid == 9:
            return NAN if x < 0.0 else x * x - 2.0
        if fid == 10:
            return INF if 3.0 < x else x - 2.0
        if fid == 11:
            return x * x * x
        if fid == 12:
            return -1.0 if x < 1.0 else 1.0
    except OverflowError:
        return INF
    return NAN


def req_line(r, harness=False):
    """request line; for the harness, a request flagged `overload` names the 4-argument overload
    scalarNewtonRaphson(f, c, x0, im) (`run4`), which the model sees as the same request without bracket"""
    s = "%s %s %d %s %s %d %s %d %d" % ("run4" if (harness and r.get("overload")) else "run", bits(r["x0"]), r["im"], bits(r["xmin0"]), bits(r["xmax0"]), r["ck"],
                                         bits(r["cp"]), r["fid"], len(r["script"]))
    for (f, df) in r["script"]:
        s += " %s %s" % (bits(f), bits(df))
    return s


def mk(x0, im, xmin0, xmax0, ck, cp, fid, script, cls):
    return {"x0": float(x0), "im": int(im), "xmin0": float(xmin0), "xmax0": float(xmax0), "ck": ck, "cp": float(cp),
            "fid": fid, "script": [(float(a), float(b)) for a, b in script], "class": cls}


def load_corpus():
    """corpus/C09/*.txt: `x0 im xmin0 xmax0 ck cp fid | f0 d0 f1 d1 ...` (decimal / nan / inf)"""
    out = []
    for f in sorted(glob.glob(os.path.join(vlib.VERIF, "corpus", "C09", "*.txt"))):
        for line in open(f):
            line = line.split("#")[0].strip()
            if not line:
                continue
            head, _, tail = line.partition("|")
            h = head.split()
            t = [float(v) for v in tail.split()]
            out.append(mk(float(h[0]), int(h[1]), float(h[2]), float(h[3]), int(h[4]), float(h[5]), int(h[6]),
                          list(zip(t[0::2], t[1::2])), "corpus"))
    return out


F_VALUES = [-1.0, 0.0, 1.0, INF, NAN]
D_VALUES = [0.0, 1.0, -2.0, NAN]


def exhaustive(maxlen):
    """every script of at most `maxlen` answers over F_VALUES x D_VALUES (then NaN for ever), for a few
    configurations of guess / bounds / budget / criterion"""
    out = []
    pairs = list(itertools.product(F_VALUES, D_VALUES))
    configs = [(0.0, 3, NAN, NAN, 0, 0.5), (0.0, 3, -2.0, 3.0, 0, 0.5), (0.5, 2, -1.0, NAN, 2, 0.0),
               (4.0, 3, -2.0, 3.0, 1, 0.25)]
    for L in range(0, maxlen + 1):
        for sc in itertools.product(pairs, repeat=L):
            for (x0, im, lo, hi, ck, cp) in configs:
                out.append(mk(x0, im, lo, hi, ck, cp, 0, sc, "exhaustive%d" % L))
    return out


def rand_value(rng, kind):
    k = rng.randrange(12)
    if k == 0:
        return NAN
    if k == 1:
        return rng.choice([INF, -INF])
    if k == 2:
        return 0.0
    if k == 3 and kind == "x":
        return rng.choice([DBL_MAX, -DBL_MAX, 1e308, -1e308, 1e-308, 5e-324])
    if k == 4:
        return float(rng.randint(-5, 5))
    if k == 5:
        return rng.uniform(-1, 1) * 10 ** rng.randint(-20, 20)
    return rng.uniform(-10, 10)


def gen_random(rng):
    c = rng.randrange(6)
    im = rng.choice([0, 1, 2, 3, 5, 10, 30, 100, -1])
    ck = rng.choice([0, 0, 0, 1, 1, 2, 3, 4])
    cp = rng.choice([1e-14, 1e-10, 1e-6, 0.5, 3.0, 0.0, NAN])
    if c == 0:      # genuine functions, plain Newton
        fid = rng.randint(1, 12)
        return mk(rng.uniform(-5, 5), im, NAN, NAN, ck, cp, fid, [], "function")
    if c == 1:      # genuine functions with a bracket
        fid = rng.randint(1, 12)
        lo = rng.uniform(-6, 3)
        hi = lo + rng.uniform(0.01, 8)
        return mk(rng.uniform(-8, 8), im, rng.choice([lo, lo, NAN]), rng.choice([hi, hi, NAN, INF]), ck, cp, fid, [], "function+bracket")
    if c == 2:      # scripts of arbitrary values
        L = rng.randint(0, 8)
        sc = [(rand_value(rng, "f"), rand_value(rng, "d")) for _ in range(L)]
        return mk(rand_value(rng, "x"), im, rand_value(rng, "x"), rand_value(rng, "x"), ck, cp, rng.randint(0, 12), sc, "script")
    if c == 3:      # valid sign-changing bracket, then arbitrary answers (NaN / inf / zero derivative)
        lo = rng.uniform(-6, 3) * rng.choice([1, 1, 1e-10, 1e10])
        hi = lo + abs(rng.uniform(0.01, 8) * rng.choice([1, 1, 1e-10, 1e10]))
        s1 = rng.choice([-1, 1])
        L = rng.randint(3, 10)
        sc = [(rand_value(rng, "f"), rand_value(rng, "d")),
              (s1 * abs(rng.uniform(0, 3)), rand_value(rng, "d")), (-s1 * abs(rng.uniform(0.001, 3)), rand_value(rng, "d"))]
        sc += [(rng.choice([NAN, INF, -INF, rng.uniform(-2, 2), 0.0]), rng.choice([0.0, NAN, rng.uniform(-2, 2), INF, 1e-300]))
               for _ in range(L - 3)]
        x0 = rng.choice([rng.uniform(lo, hi), rng.uniform(-10, 10), lo, hi])
        return mk(x0, rng.choice([1, 2, 3, 5, 10, 30]), lo, hi, ck, cp, rng.randint(0, 12), sc, "bracket+script")
    if c == 4:      # hybrid: a function with a few scripted calls spliced in
        fid = rng.randint(1, 12)
        L = rng.randint(1, 4)
        sc = [(rng.choice([NAN, INF, rng.uniform(-3, 3)]), rng.choice([0.0, NAN, rng.uniform(-3, 3)])) for _ in range(L)]
        lo = rng.uniform(-6, 3)
        return mk(rng.uniform(-5, 5), im, rng.choice([lo, NAN]), rng.choice([lo + rng.uniform(0.1, 8), NAN]), ck, cp, fid, sc, "hybrid")
    # extreme magnitudes (bracket width / function values near overflow)
    big = [DBL_MAX, -DBL_MAX, 1e308, -1e308, 8e307, -8e307, 1e300, -1e300, 0.0, 1.0, -1.0]
    lo = rng.choice(big)
    hi = rng.choice(big)
    if hi < lo:
        lo, hi = hi, lo
    L = rng.randint(3, 7)
    sc = [(rng.choice(big + [NAN, INF]), rng.choice(big + [NAN, 0.0])) for _ in range(L)]
    return mk(rng.choice(big), rng.choice([1, 2, 3, 5]), lo, hi, ck, cp, 0, sc, "extreme")


def run(ck):
    rng = random.Random(ck.seed)
    harness = ck.cxx("c09h", ["C09/harness.cxx"], sanitize=True)
    driver = ck.lean_exe("c09driver", "TfelVerif/C09/Driver.lean")
    ck.log("model driver built")

    reqs = load_corpus()
    reqs += exhaustive(2 if ck.quick else 3)
    n_rand = 20000 if ck.quick else 400000
    reqs += [gen_random(rng) for _ in range(n_rand)]
    # the overload (f, c, x0, im): every bracket-less request of the corpus / exhaustive part and one random request
    # in four, replayed through it (generated after the base requests: the base corpus of a seed is unchanged)
    nb = len(reqs) - n_rand
    over = [dict(r, overload=True, **{"class": "overload:" + r["class"]}) for k, r in enumerate(reqs)
            if r["xmin0"] != r["xmin0"] and r["xmax0"] != r["xmax0"] and (k < nb or k % 4 == 0)]
    reqs += over
    lines = [req_line(r) for r in reqs]
    text = "\n".join(lines) + "\n"
    pi = ck.run([harness], input="\n".join(req_line(r, True) for r in reqs) + "\n", timeout=3000)
    pm = ck.run([driver], input=text, timeout=3000)
    impl = pi.stdout.splitlines()
    model = pm.stdout.splitlines()
    ck.log("%d requests run through implementation and model" % len(lines))
    if pi.returncode != 0 or len(impl) != len(lines):
        ck.violation("harness-crash", "the implementation harness aborted (sanitizer report or crash) or lost lines",
                     {"stderr": pi.stderr[-2000:], "lines_in": len(lines), "lines_out": len(impl)}, False)

    res = ck.lean(PROPS, PROPS)

    def search(_failure):
        r2 = random.Random(ck.seed + 104729)
        rs = [gen_random(r2) for _ in range(3000)]
        p2 = ck.run([harness], input="\n".join(req_line(r) for r in rs) + "\n", timeout=600)
        for r, a in zip(rs, p2.stdout.splitlines()):
            ok, why = predicate(r, parse(a))
            if not ok:
                return {"request": r, "implementation": a, "why": why}
        return None
    ck.lean_violations(res, search)

    failures = {}
    disagreements = 0
    hist_class = collections.Counter()
    hist_outcome = collections.Counter()
    hist_calls = collections.Counter()
    distinct = set()
    valid_brackets = 0
    for k, r in enumerate(reqs):
        if k >= len(impl) or k >= len(model):
            break
        d = parse(impl[k])
        m = parse(model[k])
        hist_class[r["class"]] += 1
        if d is not None:
            hist_outcome["converged" if d["conv"] else ("budget-exhausted" if d["i"] == max(r["im"], 0) else "early-return")] += 1
            hist_calls[min(d["n"], 20)] += 1
            if d["n"] > 1:
                distinct.add(lines[k])
            fv = [dbl(v) for v in d.get("fvals", [])]
            if len(fv) >= 3 and finite(r["xmin0"]) and finite(r["xmax0"]) and finite(fv[1]) and finite(fv[2]) and sgn(fv[1]) != sgn(fv[2]) and d["n"] > 3:
                valid_brackets += 1
        ok, why = predicate(r, d)
        same = canon(d) == canon(m)
        if same and ok:
            continue
        if not same:
            disagreements += 1
        if ok and not same and d is not None and m is not None:
            # first call on which the two sides differ: up to there they saw the same history, so the
            # implementation holds the bracket the model records for that call
            brs = m.get("brs", [])
            for j in range(min(len(d["args"]), len(m["args"]))):
                if cz(d["args"][j]) != cz(m["args"][j]):
                    if j < len(brs) and brs[j] != "-":
                        lo, hi = [dbl(t) for t in brs[j].split(":")]
                        a = dbl(d["args"][j])
                        if not (lo <= a <= hi):
                            ok, why = False, "(c) after %d identical calls the algorithm brackets a root in [%r, %r] but evaluates the function at %r" % (j, lo, hi, a)
                    break
        kind = why.split(")")[0].strip("(") if why.startswith("(") else "format"
        found = not ok
        key = "%s%s:%s" % (SITE, "(f,c,x0,im)" if r.get("overload") else "", kind if found else "trace")
        full = key if found else "corr:" + key
        size = (len(r["script"]), r["im"], len(lines[k]))
        rep = {"request": req_line(r, True), "decoded_request": {a: (repr(b) if isinstance(b, float) else b) for a, b in r.items() if a != "script"},
               "script": [[repr(a), repr(b)] for a, b in r["script"]],
               "implementation": impl[k], "model": model[k],
               "implementation_calls": [repr(dbl(a)) for a in (d["args"] if d else [])],
               "model_calls": [repr(dbl(a)) for a in (m["args"] if m else [])],
               "implementation_result": None if d is None else {"converged": d["conv"], "x": repr(dbl(d["x"])), "iterations": d["i"]},
               "why": why if found else "answers differ; the implementation's answer still satisfies (a), (b), (c)"}
        if full not in failures or size < failures[full][0]:
            failures[full] = (size, rep, found)
    ck.log("compared: %d disagreements" % disagreements)
    for full, (_, rep, found) in sorted(failures.items()):
        if found:
            ck.violation(full, "scalarNewtonRaphson: %s [request %s]" % (rep["why"], rep["request"][:160]), rep, True)
        else:
            ck.violation(full, "correspondence Model.lean vs scalarNewtonRaphson broken (calls %s vs %s)" %
                         (rep["implementation_calls"][:8], rep["model_calls"][:8]), rep, False)
    if ck.tier == "thorough":
        for (mname, msg) in ck.leanchecker(PROPS):
            ck.violation("leanchecker:" + mname, "leanchecker rejects %s" % mname, {"msg": msg}, False)

    ck.assumptions += [
        "M: Model.lean is hand-written; tied to ScalarNewtonRaphson.ixx / BissectionAlgorithmBase.ixx by differential execution (returned tuple, every argument passed to the user function, number of criterion evaluations: bit-exact on every request of this run), not by proof",
        "(a), (b) are proved for every number record, hence for the Float instance that is compared with the code; (c) is proved for the exact instance ExtRat (rationals + inf + NaN, IEEE comparisons, single zero): ROUNDING AND OVERFLOW ARE NOT MODELLED — on Float (c) is covered by the direct predicate on the requests of this run only",
        "the user function is an oracle `orc k x` (scripts, genuine functions, hybrids); the theorems hold for every oracle, including ones no real function can produce (different answers at the same point)",
    ]
    samples = []
    for k in (0, 1, len(reqs) // 3, len(reqs) - 1):
        if k < len(impl):
            samples.append({"request": lines[k][:300], "class": reqs[k]["class"], "implementation": impl[k].split(" | ")[0][:300]})
    return ck.finish({
        "evaluations": len(lines), "distinct_nontrivial": len(distinct),
        "rule": "requests = corpus/C09 + every script of length <= %d over f in {-1,0,1,inf,NaN} x df in {0,1,-2,NaN} for 4 configurations (guess, bounds, budget, criterion) + the bracket-less ones replayed through the overload (f, c, x0, im) + seeded random requests from 6 classes (12 genuine functions with/without bracket, arbitrary scripts, valid bracket followed by arbitrary answers, function/script hybrids, extreme magnitudes); distinct = distinct request lines; non-trivial = the user function is called more than once" % (2 if ck.quick else 3),
        "exhaustive": True, "exhaustive_scope": "scripts up to the stated length over the stated alphabet; the random classes are sampled",
        "disagreements": disagreements,
        "class_histogram": dict(hist_class), "outcome_histogram": dict(hist_outcome),
        "calls_histogram (capped at 20)": {str(a): b for a, b in sorted(hist_calls.items())},
        "runs_with_a_valid_supplied_bracket_and_later_calls": valid_brackets,
        "traces_validated_against_impl": len(lines),
        "samples": samples,
    })
