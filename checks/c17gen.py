"""C17 (b) — seeded generator of expression-template / view programs and of their eager meaning.

A *program* declares storages (owned TFEL objects or raw buffers) whose cells are distinct input symbols,
builds views on them, and runs one or two statements `dest (=|+=|-=) expr`, `dest (*=|/=) scalar`.
For each program the generator produces
  * the C++ text of a traced unit (run by the T1 tracer on the real templates),
  * the *eager* value of every storage cell after the program (naive element-wise evaluation of the right-hand
    side into temporaries from the values before the statement, then assignment), as an expression tree over
    the input symbols, renderable as a Lean term and evaluable exactly over Q,
  * the aliasing hazards of each statement (which non element-wise node reads cells of the destination).

Expression trees: ('in', name) ('c', Fraction) ('add',a,b) ('sub',a,b) ('mul',a,b) ('div',a,b) ('neg',a).
"""
import random
from fractions import Fraction

US = "unsigned short"


# ------------------------------------------------------------------ scalar expression trees
def lean_of(e):
    t = e[0]
    if t == "in":
        return e[1]
    if t == "c":
        f = e[1]
        if f.denominator == 1:
            return "(%d : K)" % f.numerator if f >= 0 else "(-%d : K)" % (-f.numerator)
        s = "((%d : K) / %d)" % (abs(f.numerator), f.denominator)
        return s if f >= 0 else "(-%s)" % s
    if t == "neg":
        return "(-%s)" % lean_of(e[1])
    op = {"add": "+", "sub": "-", "mul": "*", "div": "/"}[t]
    return "(%s %s %s)" % (lean_of(e[1]), op, lean_of(e[2]))


def eval_q(e, env):
    t = e[0]
    if t == "in":
        return env[e[1]]
    if t == "c":
        return e[1]
    if t == "neg":
        return -eval_q(e[1], env)
    a, b = eval_q(e[1], env), eval_q(e[2], env)
    if t == "add":
        return a + b
    if t == "sub":
        return a - b
    if t == "mul":
        return a * b
    return a / b


def add(a, b): return ("add", a, b)
def sub(a, b): return ("sub", a, b)
def mul(a, b): return ("mul", a, b)
def div(a, b): return ("div", a, b)
def neg(a): return ("neg", a)


def ssum(xs):
    r = xs[0]
    for x in xs[1:]:
        r = add(r, x)
    return r


# ------------------------------------------------------------------ shapes
ST_SIZE = {1: 3, 2: 4, 3: 6}
T_SIZE = {1: 3, 2: 5, 3: 9}
# transpose of a tensor<D>: component k of transpose(t) is component T_PERM[D][k] of t
T_PERM = {1: [0, 1, 2], 2: [0, 1, 2, 4, 3], 3: [0, 1, 2, 4, 3, 6, 5, 8, 7]}


def shape_size(sh):
    if sh[0] == "vec":
        return sh[1]
    if sh[0] == "mat":
        return sh[1] * sh[2]
    if sh[0] == "st":
        return ST_SIZE[sh[1]]
    if sh[0] == "t":
        return T_SIZE[sh[1]]
    raise ValueError(sh)


def cxx_type(sh, const=False):
    c = "const " if const else ""
    if sh[0] == "vec":
        return "%stvector<%d, Sym>" % (c, sh[1])
    if sh[0] == "mat":
        return "%stmatrix<%d, %d, Sym>" % (c, sh[1], sh[2])
    if sh[0] == "st":
        return "%sstensor<%d, Sym>" % (c, sh[1])
    if sh[0] == "t":
        return "%stensor<%d, Sym>" % (c, sh[1])
    raise ValueError(sh)


class Operand:
    """a named C++ expression denoting an object or view of shape `shape` whose k-th logical component (vectors:
    index; matrices: row major (i,j); tensors: storage order) is the storage cell `cells[k]` = (storage, index)"""

    def __init__(self, cxx, shape, cells, mutable=True, kind="object"):
        self.cxx = cxx
        self.shape = shape
        self.cells = cells
        self.mutable = mutable
        self.kind = kind


class Program:
    def __init__(self, name):
        self.name = name
        self.storages = {}     # name -> (ncells, decl line, fill line, out line)
        self.order = []
        self.decls = []        # C++ lines after the storages (views, scalars)
        self.operands = []
        self.scalars = []      # names of symbolic scalar inputs
        self.stmts = []        # (cxx, dest Operand, op, tree | scalar)
        self.kinds = set()
        self.ops = set()
        self.hazards = []      # per statement list of classes
        self.uid = 0
        self.tag = None        # directed programs of the audit families: key suffix `eager:<tag>`

    def fresh(self, prefix):
        self.uid += 1
        return "%s%d" % (prefix, self.uid)


STORAGE_NAMES = ["u", "v", "w", "p", "q", "r", "s", "t", "x", "y", "z", "g", "h"]


class Gen:
    def __init__(self, rng):
        self.rng = rng

    # ---------------------------------------------------------- storages
    def new_storage(self, P, decl, ncells, fill, out):
        name = STORAGE_NAMES[len(P.order)]
        P.storages[name] = (ncells, decl % {"n": name}, fill % {"n": name}, out % {"n": name})
        P.order.append(name)
        return name

    def buffer(self, P, n):
        """raw memory"""
        return self.new_storage(P, "Sym %%(n)s[%d];" % n, n,
                                "verif::fill_inputs(%%(n)s, \"%%(n)s\", %d);" % n,
                                "c17::out1(\"%%(n)s\", %%(n)s, %d);" % n)

    def owned(self, P, sh):
        n = shape_size(sh)
        if sh[0] == "mat":
            name = self.new_storage(P, cxx_type(sh) + " %(n)s;", n,
                                    "c17::fill2(%%(n)s, \"%%(n)s\", %d, %d);" % (sh[1], sh[2]),
                                    "c17::out2(\"%%(n)s\", %%(n)s, %d, %d);" % (sh[1], sh[2]))
        else:
            name = self.new_storage(P, cxx_type(sh) + " %(n)s;", n,
                                    "verif::fill_inputs(%%(n)s, \"%%(n)s\", %d);" % n,
                                    "c17::out1(\"%%(n)s\", %%(n)s, %d);" % n)
        P.kinds.add("owned:" + sh[0])
        op = Operand(name, sh, [(name, k) for k in range(n)], True, "owned")
        op.storage = name
        return op

    # ---------------------------------------------------------- operands of a given shape
    def pick_buffer(self, P, need, reuse=0.6):
        """an existing raw buffer with at least `need` cells (with probability `reuse`) or a new one"""
        cands = [s for s in P.order if P.storages[s][1].startswith("Sym ") and P.storages[s][0] >= need]
        if cands and self.rng.random() < reuse:
            return self.rng.choice(cands)
        if len(P.order) >= len(STORAGE_NAMES) - 1 and cands:
            return self.rng.choice(cands)
        return self.buffer(P, need + self.rng.randint(0, 6))

    def pick_owned(self, P, pred, make, reuse=0.6):
        cands = [o for o in P.operands if o.kind == "owned" and pred(o.shape)]
        if cands and self.rng.random() < reuse:
            return self.rng.choice(cands)
        o = self.owned(P, make())
        P.operands.append(o)
        return o

    def view_operand(self, P, sh, want_mutable):
        """a fresh view of shape `sh`; the cell list is the *intended* one (base + stride * index)"""
        rng = self.rng
        n = shape_size(sh)
        const = (not want_mutable) and rng.random() < 0.4
        ty = cxx_type(sh, const)
        kinds = ["map", "strided_coalesced", "coalesced"]
        if sh[0] == "vec":
            kinds += ["strided", "row", "col", "rowslice", "colslice", "slice", "viewsarray", "map_tvector"]
        if sh[0] == "mat":
            kinds += ["strided_mat", "submatrix", "viewsarray"]
        if sh[0] == "st":
            kinds += ["viewsarray", "map_tvector"]
        kind = rng.choice(kinds)
        v = P.fresh("a")
        if kind == "map":
            off = rng.randint(0, 3)
            b = self.pick_buffer(P, off + n)
            off = rng.randint(0, P.storages[b][0] - n)
            P.decls.append("auto %s = map<%s>(%s + %d);" % (v, ty, b, off))
            cells = [(b, off + k) for k in range(n)]
        elif kind == "strided":
            S = rng.randint(2, 3)
            need = (n - 1) * S + 1
            b = self.pick_buffer(P, need + rng.randint(0, 2))
            off = rng.randint(0, P.storages[b][0] - need)
            P.decls.append("auto %s = map<%s, FixedSizeVectorIndexingPolicy<%s, %d, %d>>(%s + %d);" % (v, ty, US, n, S, b, off))
            cells = [(b, off + k * S) for k in range(n)]
        elif kind == "strided_mat":
            N, M = sh[1], sh[2]
            S = M + rng.randint(1, 2)
            need = (N - 1) * S + M
            b = self.pick_buffer(P, need + rng.randint(0, 2))
            off = rng.randint(0, P.storages[b][0] - need)
            P.decls.append("auto %s = map<%s, FixedSizeRowMajorMatrixIndexingPolicy<%s, %d, %d, %d>>(%s + %d);" % (v, ty, US, N, M, S, b, off))
            cells = [(b, off + i * S + j) for i in range(N) for j in range(M)]
        elif kind == "strided_coalesced":
            S = rng.randint(1, 3)
            need = (n - 1) * S + 1
            b = self.pick_buffer(P, need + rng.randint(0, 2))
            off = rng.randint(0, P.storages[b][0] - need)
            P.decls.append("auto %s = map_strided<%s>(%s + %d, %d);" % (v, ty, b, off, S))
            cells = [(b, off + k * S) for k in range(n)]
        elif kind == "coalesced":
            b = self.pick_buffer(P, n + rng.randint(0, 3))
            pos = rng.sample(range(P.storages[b][0]), n)
            pt = "const Sym*" if const else "Sym*"
            P.decls.append("std::array<%s, %d> %s_p{%s};" % (pt, n, v, ", ".join("&%s[%d]" % (b, k) for k in pos)))
            P.decls.append("auto %s = map<%s>(%s_p);" % (v, ty, v))
            cells = [(b, k) for k in pos]
        elif kind in ("row", "col", "rowslice", "colslice"):
            K = n
            if kind == "row":
                m = self.pick_owned(P, lambda s: s[0] == "mat" and s[2] == K, lambda: ("mat", rng.randint(2, 3), K))
                N, M = m.shape[1], m.shape[2]
                I = rng.randrange(N)
                P.decls.append("auto %s = %s.row_view<%d>();" % (v, self.cref(m, const), I))
                cells = [(m.storage, I * M + k) for k in range(K)]
            elif kind == "col":
                m = self.pick_owned(P, lambda s: s[0] == "mat" and s[1] == K, lambda: ("mat", K, rng.randint(2, 3)))
                N, M = m.shape[1], m.shape[2]
                I = rng.randrange(M)
                P.decls.append("auto %s = %s.column_view<%d>();" % (v, self.cref(m, const), I))
                cells = [(m.storage, k * M + I) for k in range(K)]
            elif kind == "rowslice":
                m = self.pick_owned(P, lambda s: s[0] == "mat" and s[2] >= K, lambda: ("mat", rng.randint(2, 3), rng.randint(K, max(K, 3))))
                N, M = m.shape[1], m.shape[2]
                I, J = rng.randrange(N), rng.randint(0, M - K)
                P.decls.append("auto %s = %s.row_view<%d, %d, %d>();" % (v, self.cref(m, const), I, J, K))
                cells = [(m.storage, I * M + J + k) for k in range(K)]
            else:
                m = self.pick_owned(P, lambda s: s[0] == "mat" and s[1] >= K, lambda: ("mat", rng.randint(K, max(K, 3)), rng.randint(2, 3)))
                N, M = m.shape[1], m.shape[2]
                I, J = rng.randrange(M), rng.randint(0, N - K)
                P.decls.append("auto %s = %s.column_view<%d, %d, %d>();" % (v, self.cref(m, const), I, J, K))
                cells = [(m.storage, (J + k) * M + I) for k in range(K)]
        elif kind == "submatrix":
            R, C = sh[1], sh[2]
            m = self.pick_owned(P, lambda s: s[0] == "mat" and s[1] >= R and s[2] >= C,
                                lambda: ("mat", rng.randint(R, max(R, 3)), rng.randint(C, max(C, 3))))
            N, M = m.shape[1], m.shape[2]
            I, J = rng.randint(0, N - R), rng.randint(0, M - C)
            P.decls.append("auto %s = %s.submatrix_view<%d, %d, %d, %d>();" % (v, self.cref(m, const), I, J, R, C))
            cells = [(m.storage, (I + i) * M + J + j) for i in range(R) for j in range(C)]
        elif kind == "slice":
            K = n
            w = self.pick_owned(P, lambda s: s[0] == "vec" and s[1] > K, lambda: ("vec", K + rng.randint(1, 2)))
            N = w.shape[1]
            I = rng.randint(0, N - K)
            if I + K == N:
                # `slice<I, N>()` is ill-formed on a tvector<N> (ambiguous with the free function slice<I, N, T>)
                P.decls.append("auto %s = %s.slice<%d>();" % (v, w.cxx, I))
            else:
                P.decls.append("auto %s = %s.slice<%d, %d>();" % (v, w.cxx, I, I + K))
            cells = [(w.storage, I + k) for k in range(K)]
        elif kind == "map_tvector":
            # View of a mathematical object on a slice of an owned tvector: map<T, offset>(tvector&)
            w = self.pick_owned(P, lambda s: s[0] == "vec" and s[1] >= n + 1, lambda: ("vec", n + rng.randint(1, 3)))
            N = w.shape[1]
            off = rng.randint(0, N - n)
            P.decls.append("auto %s = map<%s, %d>(%s);" % (v, cxx_type(sh), off, w.cxx))
            cells = [(w.storage, off + k) for k in range(n)]
            const = False
        else:  # viewsarray
            NV = rng.randint(2, 3)
            stride = n + rng.randint(0, 2)
            off = rng.randint(0, 2)
            need = off + NV * stride
            w = self.pick_owned(P, lambda s: s[0] == "vec" and s[1] >= need and s[1] <= need + 4, lambda: ("vec", need + rng.randint(0, 1)), reuse=0.8)
            va = P.fresh("va")
            P.decls.append("auto %s = map<%d, %s, %d, %d>(%s);" % (va, NV, cxx_type(sh), off, stride, w.cxx))
            i = rng.randrange(NV)
            # (the views are bound to names: a temporary view is not accepted as operand of the product expressions)
            P.decls.append("auto %s = %s[%d];" % (v, va, i))
            cells = [(w.storage, off + i * stride + k) for k in range(n)]
            const = False
            # a second element of the same array is made available as an operand too
            j = (i + 1) % NV
            v2 = P.fresh("a")
            P.decls.append("auto %s = %s[%d];" % (v2, va, j))
            o2 = Operand(v2, sh, [(w.storage, off + j * stride + k) for k in range(n)], True, "view:viewsarray")
            P.operands.append(o2)
        P.kinds.add("view:" + kind)
        op = Operand(v, sh, cells, not const, "view:" + kind)
        P.operands.append(op)
        return op

    @staticmethod
    def cref(m, const):
        return "std::as_const(%s)" % m.cxx if const else m.cxx

    def operand(self, P, sh, want_mutable=False, dest=None, alias=0.35):
        """an operand of shape `sh`: an existing one (possibly the destination itself), a new owned object or a
        new view"""
        rng = self.rng
        cands = [o for o in P.operands if o.shape == sh and (o.mutable or not want_mutable)]
        r = rng.random()
        if dest is not None and dest.shape == sh and r < alias:
            return dest
        if cands and r < 0.6:
            return rng.choice(cands)
        if rng.random() < 0.45:
            o = self.owned(P, sh)
            P.operands.append(o)
            return o
        return self.view_operand(P, sh, want_mutable)

    # ---------------------------------------------------------- scalars
    @staticmethod
    def element(o, k):
        """C++ access to the k-th logical component of an operand, and its storage cell"""
        if o.shape[0] == "mat":
            return "%s(%d, %d)" % (o.cxx, k // o.shape[2], k % o.shape[2]), ("cell", o.cells[k])
        return "%s(%d)" % (o.cxx, k), ("cell", o.cells[k])

    def scalar(self, P, divisor=False, dest=None):
        """a scalar factor: symbolic input, constant (divisors: symbols and non zero integers only), or an element
        of the destination / of another operand (an lvalue scalar living in the storage being assigned)"""
        rng = self.rng
        if dest is not None and dest.shape[0] in ("vec", "mat", "st", "t") and rng.random() < 0.18:
            pool = [o for o in P.operands if o.shape[0] in ("vec", "mat", "st", "t")]
            o = dest if (rng.random() < 0.7 or not pool) else rng.choice(pool)
            P.ops.add("scalar:element")
            return self.element(o, rng.randrange(len(o.cells)))
        r = rng.random()
        if divisor and 0.4 <= r < 0.55:
            r = 0.9
        if r < 0.4:
            name = "k%d" % len(P.scalars)
            P.scalars.append(name)
            P.decls.append("const Sym %s = verif::scalar_input(\"%s\", %s);" % (name, name, repr(1.25 + 0.5 * len(P.scalars))))
            return name, ("in", name)
        if r < 0.55:
            return "Sym(0.5)", ("c", Fraction(1, 2))
        k = rng.choice([2, 3, 4, -2])
        if rng.random() < 0.5:
            return "Sym(%d)" % k, ("c", Fraction(k))
        return "%d" % k, ("c", Fraction(k))

    # ---------------------------------------------------------- expression trees over operands
    def expr(self, P, sh, depth, dest):
        """returns (cxx, tree) with tree nodes ('leaf', Operand) ('neg', e) ('add', e, f) ('sub', e, f)
        ('smul', scalar tree, e) ('divs', e, scalar tree) ('matvec', A, x) ('vecmat', x, A) ('matmat', A, B)
        ('transpose', e) ('deviator', e)"""
        rng = self.rng
        r = rng.random()
        if depth <= 0 or r < 0.18:
            o = self.operand(P, sh, dest=dest)
            return o.cxx, ("leaf", o)
        special = []
        if sh[0] == "vec":
            special = ["matvec", "matvec", "vecmat"]
        elif sh[0] == "mat":
            special = ["matmat"]
        elif sh[0] == "t":
            special = ["transpose"]
        elif sh[0] == "st":
            special = ["deviator"]
        if special and r < 0.42:
            k = rng.choice(special)
            P.ops.add(k)
            if k != "deviator" and rng.random() < 0.75:
                dest = None   # (the forced programs cover v=m*v, m=m*n, ... ; keep most random products alias free)
            # operands of the lazy products are named objects or views: the library does not accept a temporary
            # expression or view there (compile error), so they are leaves
            if k == "matvec":
                K = rng.randint(2, 3)
                a, ta = self.expr(P, ("mat", sh[1], K), 0, dest)
                x, tx = self.expr(P, ("vec", K), 0, dest)
                return "(%s) * (%s)" % (a, x), ("matvec", ta, tx)
            if k == "vecmat":
                K = rng.randint(2, 3)
                x, tx = self.expr(P, ("vec", K), 0, dest)
                a, ta = self.expr(P, ("mat", K, sh[1]), 0, dest)
                return "(%s) * (%s)" % (x, a), ("vecmat", tx, ta)
            if k == "matmat":
                K = rng.randint(2, 3)
                a, ta = self.expr(P, ("mat", sh[1], K), 0, dest)
                b, tb = self.expr(P, ("mat", K, sh[2]), 0, dest)
                return "(%s) * (%s)" % (a, b), ("matmat", ta, tb)
            e, te = self.expr(P, sh, depth - 1, dest)
            return "%s(%s)" % (k, e), (k, te)
        k = rng.choice(["neg", "add", "add", "sub", "sub", "smul", "muls", "divs"])
        P.ops.add(k)
        if k == "neg":
            e, te = self.expr(P, sh, depth - 1, dest)
            return "-(%s)" % e, ("neg", te)
        if k in ("add", "sub"):
            e, te = self.expr(P, sh, depth - 1, dest)
            f, tf = self.expr(P, sh, depth - 1, dest)
            return "(%s) %s (%s)" % (e, "+" if k == "add" else "-", f), (k, te, tf)
        s, ts = self.scalar(P, divisor=(k == "divs"), dest=dest)
        e, te = self.expr(P, sh, depth - 1, dest)
        if k == "smul":
            return "%s * (%s)" % (s, e), ("smul", ts, te)
        if k == "muls":
            return "(%s) * %s" % (e, s), ("smul", ts, te)
        return "(%s) / %s" % (e, s), ("divs", te, ts)

    # ---------------------------------------------------------- programs
    def program(self, name, force=None):
        rng = self.rng
        P = Program(name)
        nst = 1 if rng.random() < 0.6 else 2
        for k in range(nst):
            if force and k == 0:
                self.forced_statement(P, force)
                if force.startswith("rt:") or force.startswith("x:") or force == "a/=2":
                    break
                continue
            sh = rng.choice([("vec", 2), ("vec", 3), ("vec", 3), ("mat", 2, 2), ("mat", 2, 3), ("mat", 3, 3),
                             ("st", 1), ("st", 2), ("st", 3), ("t", 1), ("t", 2)])
            dest = self.operand(P, sh, want_mutable=True)
            r = rng.random()
            if r < 0.12:
                op = rng.choice(["*=", "/="])
                s, ts = self.scalar(P, divisor=(op == "/="), dest=dest)
                P.ops.add(op)
                P.stmts.append(("%s %s %s;" % (dest.cxx, op, s), dest, op, ts))
            else:
                op = rng.choice(["=", "=", "=", "+=", "-="])
                e, te = self.expr(P, sh, rng.randint(1, 3), dest)
                P.ops.add(op)
                P.stmts.append(("%s %s %s;" % (dest.cxx, op, e), dest, op, te))
        return P

    def forced_statement(self, P, what):
        """deterministic coverage of the aliasing patterns named in the property"""
        rng = self.rng
        if what == "a=a+b":
            sh = rng.choice([("vec", 3), ("st", 2), ("mat", 2, 2), ("t", 2)])
            a = self.owned(P, sh); b = self.owned(P, sh)
            P.operands += [a, b]
            P.stmts.append(("%s = %s + %s;" % (a.cxx, a.cxx, b.cxx), a, "=", ("add", ("leaf", a), ("leaf", b))))
        elif what == "a+=2*a":
            sh = rng.choice([("vec", 3), ("st", 1), ("mat", 2, 3)])
            a = self.owned(P, sh)
            P.operands += [a]
            P.stmts.append(("%s += 2 * %s;" % (a.cxx, a.cxx), a, "+=", ("smul", ("c", Fraction(2)), ("leaf", a))))
        elif what == "s=deviator(s)":
            sh = ("st", rng.randint(1, 3))
            a = self.owned(P, sh)
            P.operands += [a]
            P.stmts.append(("%s = deviator(%s);" % (a.cxx, a.cxx), a, "=", ("deviator", ("leaf", a))))
        elif what == "v=m*v":
            n = rng.randint(2, 3)
            m = self.owned(P, ("mat", n, n)); v = self.owned(P, ("vec", n))
            P.operands += [m, v]
            P.stmts.append(("%s = %s * %s;" % (v.cxx, m.cxx, v.cxx), v, "=", ("matvec", ("leaf", m), ("leaf", v))))
        elif what == "v=v*m":
            n = rng.randint(2, 3)
            m = self.owned(P, ("mat", n, n)); v = self.owned(P, ("vec", n))
            P.operands += [m, v]
            P.stmts.append(("%s = %s * %s;" % (v.cxx, v.cxx, m.cxx), v, "=", ("vecmat", ("leaf", v), ("leaf", m))))
        elif what == "m=m*n":
            n = rng.randint(2, 3)
            a = self.owned(P, ("mat", n, n)); b = self.owned(P, ("mat", n, n))
            P.operands += [a, b]
            if rng.random() < 0.5:
                P.stmts.append(("%s = %s * %s;" % (a.cxx, a.cxx, b.cxx), a, "=", ("matmat", ("leaf", a), ("leaf", b))))
            else:
                P.stmts.append(("%s = %s * %s;" % (a.cxx, b.cxx, a.cxx), a, "=", ("matmat", ("leaf", b), ("leaf", a))))
        elif what == "t=transpose(t)":
            a = self.owned(P, ("t", rng.randint(2, 3)))
            P.operands += [a]
            P.stmts.append(("%s = transpose(%s);" % (a.cxx, a.cxx), a, "=", ("transpose", ("leaf", a))))
        elif what == "view=f(storage)":
            # a view of `w` assigned from an expression reading `w` at the same positions
            w = self.owned(P, ("vec", 5)); b = self.owned(P, ("vec", 3))
            P.operands += [w, b]
            a1, a2 = P.fresh("a"), P.fresh("a")
            P.decls.append("auto %s = %s.slice<1, 4>();" % (a1, w.cxx))
            P.decls.append("auto %s = map<const tvector<3, Sym>, 1>(std::as_const(%s));" % (a2, w.cxx))
            v1 = Operand(a1, ("vec", 3), [(w.storage, 1 + k) for k in range(3)], True, "view:slice")
            v2 = Operand(a2, ("vec", 3), [(w.storage, 1 + k) for k in range(3)], False, "view:map_tvector")
            P.operands += [v1, v2]
            P.kinds |= {"view:slice", "view:map_tvector"}
            P.stmts.append(("%s = 2 * %s - %s;" % (a1, a2, b.cxx), v1, "=", ("sub", ("smul", ("c", Fraction(2)), ("leaf", v2)), ("leaf", b))))
        elif what == "shifted-overlap":
            # destination and operand are views of the same buffer shifted by one cell
            b = self.buffer(P, 6)
            a1, a2 = P.fresh("a"), P.fresh("a")
            P.decls.append("auto %s = map<tvector<3, Sym>>(%s + 1);" % (a1, b))
            P.decls.append("auto %s = map<tvector<3, Sym>>(%s + 0);" % (a2, b))
            v1 = Operand(a1, ("vec", 3), [(b, 1 + k) for k in range(3)], True, "view:map")
            v2 = Operand(a2, ("vec", 3), [(b, k) for k in range(3)], True, "view:map")
            P.operands += [v1, v2]
            P.kinds |= {"view:map"}
            P.stmts.append(("%s = %s + %s;" % (a1, a1, a2), v1, "=", ("add", ("leaf", v1), ("leaf", v2))))
        elif what == "row=row+col":
            n = 3
            m = self.owned(P, ("mat", n, n))
            P.operands += [m]
            I = rng.randrange(n)
            a1, a2 = P.fresh("a"), P.fresh("a")
            P.decls.append("auto %s = %s.row_view<%d>();" % (a1, m.cxx, I))
            P.decls.append("auto %s = %s.column_view<%d>();" % (a2, m.cxx, I))
            v1 = Operand(a1, ("vec", n), [(m.storage, I * n + k) for k in range(n)], True, "view:row")
            v2 = Operand(a2, ("vec", n), [(m.storage, k * n + I) for k in range(n)], True, "view:col")
            P.operands += [v1, v2]
            P.kinds |= {"view:row", "view:col"}
            P.stmts.append(("%s = %s + 2 * %s;" % (a1, a1, a2), v1, "=", ("add", ("leaf", v1), ("smul", ("c", Fraction(2)), ("leaf", v2)))))
        elif what == "a/=2":
            # docs/web/tensors.md: "divide tensor a by 2: a/=2;" (integer literal), on an object and through a view
            a = self.owned(P, ("st", rng.randint(1, 3)))
            w = self.owned(P, ("vec", 5))
            P.operands += [a, w]
            a1 = P.fresh("a")
            P.decls.append("auto %s = map<tvector<3, Sym>, 1>(%s);" % (a1, w.cxx))
            v1 = Operand(a1, ("vec", 3), [(w.storage, 1 + k) for k in range(3)], True, "view:map_tvector")
            P.operands.append(v1)
            P.kinds.add("view:map_tvector")
            k = rng.choice([2, 3, 4])
            P.stmts.append(("%s /= 2;" % a.cxx, a, "/=", ("c", Fraction(2))))
            P.stmts.append(("%s /= %d;" % (a1, k), v1, "/=", ("c", Fraction(k))))
        elif what.startswith("rt:"):
            self.runtime_statement(P, what[3:])
        elif what.startswith("x:"):
            P.tag = what[2:]
            getattr(self, "x_" + what[2:].replace("-", "_"))(P)
        else:
            raise ValueError(what)
        P.ops.add(what)

    # ---------------------------------------------------------- directed programs of rarely used entry points
    # (one program per family, every run: element access of lazy expressions, diadic product, eager tmatrix/tvector
    # functions, constructors/import/fill, array-index access, runtime views, const views, view-to-view assignment)
    def sym_scalar(self, P):
        name = "k%d" % len(P.scalars)
        P.scalars.append(name)
        P.decls.append("const Sym %s = verif::scalar_input(\"%s\", %s);" % (name, name, repr(1.25 + 0.5 * len(P.scalars))))
        return name, ("in", name)

    def own(self, P, *sh):
        o = self.owned(P, tuple(sh))
        P.operands.append(o)
        return o

    @staticmethod
    def cellop(storage, k, cxx):
        return Operand(cxx, ("cell",), [(storage, k)], True, "cell")

    def x_scalar_alias_objects(self, P):
        """the scalar operand of a lazy scalar*object / object*scalar / object/scalar node is an element of the
        destination: eager meaning = the scalar is read once, before the assignment"""
        L = lambda o: ("leaf", o)
        E = self.element
        mk = lambda sh: (lambda o: (P.operands.append(o), o)[1])(self.owned(P, sh))
        u, v, w = mk(("vec", 4)), mk(("vec", 3)), mk(("vec", 3))
        m, n = mk(("mat", 2, 3)), mk(("mat", 2, 3))
        s = mk(("st", 3))
        t, r = mk(("t", 2)), mk(("t", 2))
        p, q = mk(("vec", 3)), mk(("vec", 3))
        c, tc = E(u, 0)
        P.stmts.append(("%s = %s / %s;" % (u.cxx, u.cxx, c), u, "=", ("divs", L(u), tc)))
        c, tc = E(v, 1)
        P.stmts.append(("%s = %s * %s;" % (v.cxx, c, w.cxx), v, "=", ("smul", tc, L(w))))
        c, tc = E(m, 0)
        P.stmts.append(("%s = %s / %s - %s;" % (m.cxx, m.cxx, c, n.cxx), m, "=", ("sub", ("divs", L(m), tc), L(n))))
        c, tc = E(s, 2)
        P.stmts.append(("%s = %s * %s;" % (s.cxx, s.cxx, c), s, "=", ("smul", tc, L(s))))
        c, tc = E(t, 3)
        d, td = E(t, 1)
        P.stmts.append(("%s = %s * %s + %s / %s;" % (t.cxx, c, t.cxx, r.cxx, d), t, "=",
                        ("add", ("smul", tc, L(t)), ("divs", L(r), td))))
        c, tc = E(p, 1)
        P.stmts.append(("%s += %s * %s;" % (p.cxx, c, q.cxx), p, "+=", ("smul", tc, L(q))))
        c, tc = E(q, 1)
        P.stmts.append(("%s *= %s;" % (q.cxx, c), q, "*=", tc))
        c, tc = E(w, 2)
        P.stmts.append(("%s /= %s;" % (w.cxx, c), w, "/=", tc))
        P.ops |= {"scalar:element", "=", "+=", "*=", "/=", "smul", "divs"}

    def x_scalar_alias_views(self, P):
        """the same through views: the scalar is read through the view or through the storage it maps"""
        L = lambda o: ("leaf", o)
        E = self.element
        b = self.buffer(P, 7)
        a1 = Operand(P.fresh("a"), ("vec", 4), [(b, 1 + k) for k in range(4)], True, "view:map")
        P.decls.append("auto %s = map<tvector<4, Sym>>(%s + 1);" % (a1.cxx, b))
        c, tc = E(a1, 0)
        P.stmts.append(("%s = %s / %s;" % (a1.cxx, a1.cxx, c), a1, "=", ("divs", L(a1), tc)))
        b2 = self.buffer(P, 9)
        a2 = Operand(P.fresh("a"), ("st", 2), [(b2, 1 + 2 * k) for k in range(4)], True, "view:strided_coalesced")
        P.decls.append("auto %s = map_strided<stensor<2, Sym>>(%s + 1, 2);" % (a2.cxx, b2))
        c, tc = E(a2, 3)
        P.stmts.append(("%s = %s * %s;" % (a2.cxx, c, a2.cxx), a2, "=", ("smul", tc, L(a2))))
        m = self.owned(P, ("mat", 3, 3))
        n = self.owned(P, ("mat", 3, 2))
        a3 = Operand(P.fresh("a"), ("vec", 3), [(m.storage, 3 + k) for k in range(3)], True, "view:row")
        P.decls.append("auto %s = %s.row_view<1>();" % (a3.cxx, m.cxx))
        c, tc = E(m, 4)                                  # m(1, 1): second cell of the row, read through the matrix
        P.stmts.append(("%s = %s / %s;" % (a3.cxx, a3.cxx, c), a3, "=", ("divs", L(a3), tc)))
        a4 = Operand(P.fresh("a"), ("vec", 3), [(n.storage, 2 * k) for k in range(3)], True, "view:col")
        P.decls.append("auto %s = %s.column_view<0>();" % (a4.cxx, n.cxx))
        c, tc = E(n, 4)                                  # n(2, 0): last cell of the column
        d, td = E(a4, 0)
        P.stmts.append(("%s = %s * %s - %s * %s;" % (a4.cxx, c, a4.cxx, a3.cxx, d), a4, "=",
                        ("sub", ("smul", tc, L(a4)), ("smul", td, L(a3)))))
        b3 = self.buffer(P, 6)
        pos = [4, 0, 3]
        a5 = Operand(P.fresh("a"), ("vec", 3), [(b3, k) for k in pos], True, "view:coalesced")
        P.decls.append("std::array<Sym*, 3> %s_p{%s};" % (a5.cxx, ", ".join("&%s[%d]" % (b3, k) for k in pos)))
        P.decls.append("auto %s = map<tvector<3, Sym>>(%s_p);" % (a5.cxx, a5.cxx))
        c, tc = E(a5, 1)
        P.stmts.append(("%s = %s * %s;" % (a5.cxx, a5.cxx, c), a5, "=", ("smul", tc, L(a5))))
        w = self.owned(P, ("vec", 9))
        va = P.fresh("va")
        P.decls.append("auto %s = map<2, tvector<3, Sym>, 1, 4>(%s);" % (va, w.cxx))
        a6 = Operand(P.fresh("a"), ("vec", 3), [(w.storage, 5 + k) for k in range(3)], True, "view:viewsarray")
        a7 = Operand(P.fresh("a"), ("vec", 3), [(w.storage, 1 + k) for k in range(3)], True, "view:viewsarray")
        P.decls.append("auto %s = %s[1];" % (a6.cxx, va))
        P.decls.append("auto %s = %s[0];" % (a7.cxx, va))
        c, tc = E(w, 6)                                  # second cell of the mapped object, read through the tvector
        P.stmts.append(("%s = %s / %s - %s;" % (a6.cxx, a6.cxx, c, a7.cxx), a6, "=", ("sub", ("divs", L(a6), tc), L(a7))))
        c, tc = E(a7, 2)
        P.stmts.append(("%s -= %s * %s;" % (a7.cxx, a6.cxx, c), a7, "-=", ("smul", tc, L(a6))))
        P.operands += [a1, a2, m, n, a3, a4, a5, w, a6, a7]
        P.kinds |= {"view:map", "view:strided_coalesced", "view:row", "view:col", "view:coalesced", "view:viewsarray"}
        P.ops |= {"scalar:element", "=", "-=", "smul", "divs"}

    def set_cell(self, P, o, k, rhs_cxx, tree):
        """`o[k] = rhs;` (vectors) / `o(i, j) = rhs;` (matrices): one storage cell receives one scalar"""
        if o.shape[0] == "mat":
            lhs = "%s(%d, %d)" % (o.cxx, k // o.shape[2], k % o.shape[2])
        else:
            lhs = "%s[%d]" % (o.cxx, k)
        P.stmts.append(("%s = %s;" % (lhs, rhs_cxx), self.cellop(o.cells[k][0], o.cells[k][1], lhs), "=", tree))

    def x_expr_access(self, P):
        L = lambda o: ("leaf", o)
        u, v, w = self.own(P, "vec", 3), self.own(P, "vec", 3), self.own(P, "vec", 8)
        m, n, r = self.own(P, "mat", 2, 3), self.own(P, "mat", 2, 3), self.own(P, "mat", 2, 3)
        s1, s2 = self.own(P, "st", 2), self.own(P, "st", 2)
        k, tk = self.sym_scalar(P)
        two = ("c", Fraction(2))
        e1 = P.fresh("e")
        P.decls.append("const auto %s = %s * %s;" % (e1, m.cxx, u.cxx))
        U, V, M, N, S1, S2 = u.cxx, v.cxx, m.cxx, n.cxx, s1.cxx, s2.cxx
        for (o, d, cxx, t, c) in [
                (w, 0, "(%s + %s)[2]" % (U, V), ("add", L(u), L(v)), 2),            # BinaryOperation operator[]
                (w, 1, "(%s * %s)[1]" % (k, U), ("smul", tk, L(u)), 1),             # ScalarObjectOperation operator[]
                (w, 2, "(%s / %s)[0]" % (U, k), ("divs", L(u), tk), 0),             # ObjectScalarOperation operator[]
                (w, 3, "(-%s)[1]" % U, ("neg", L(u)), 1),                           # UnaryOperation operator[]
                (w, 4, "(%s - %s)(2)" % (U, V), ("sub", L(u), L(v)), 2),            # BinaryOperation operator()
                (w, 5, "%s[1]" % e1, ("matvec", L(m), L(u)), 1),                    # generic Expr operator[] const
                (w, 6, "(%s + %s)[3]" % (S1, S2), ("add", L(s1), L(s2)), 3),
                (w, 7, "(2 * %s)(1)" % S1, ("smul", two, L(s1)), 1),
                (r, 1, "(%s + %s)(1, 0)" % (M, N), ("add", L(m), L(n)), 3),
                (r, 5, "(-%s)(0, 2)" % M, ("neg", L(m)), 2),
                (r, 0, "(%s * %s)(1, 1)" % (k, M), ("smul", tk, L(m)), 4),
                (r, 4, "(%s * %s)(0, 1)" % (M, k), ("smul", tk, L(m)), 1),
                (r, 2, "(%s / %s)(1, 2)" % (M, k), ("divs", L(m), tk), 5),
                (r, 3, "(%s * %s)[2]" % (U, k), ("smul", tk, L(u)), 2)]:
            self.set_cell(P, o, d, cxx, ("comp", t, c))

    def x_diadic_det_cross(self, P):
        L = lambda o: ("leaf", o)
        u, v = self.own(P, "vec", 2), self.own(P, "vec", 3)
        m, n, t = self.own(P, "mat", 2, 3), self.own(P, "mat", 2, 3), self.own(P, "mat", 3, 2)
        a, b, c = self.own(P, "mat", 3, 3), self.own(P, "mat", 2, 2), self.own(P, "mat", 2, 2)
        x, y, w, p = self.own(P, "vec", 3), self.own(P, "vec", 3), self.own(P, "vec", 6), self.own(P, "vec", 2)
        two = ("c", Fraction(2))
        dia = ("diadic", L(u), L(v))
        P.stmts.append(("%s = %s ^ %s;" % (m.cxx, u.cxx, v.cxx), m, "=", dia))
        P.stmts.append(("%s += 2 * (%s ^ %s);" % (n.cxx, u.cxx, v.cxx), n, "+=", ("smul", two, dia)))
        P.stmts.append(("%s = transpose(%s);" % (t.cxx, m.cxx), t, "=", ("mtranspose", L(m), 2, 3)))
        self.set_cell(P, w, 0, "det(%s)" % a.cxx, ("det", L(a)))
        self.set_cell(P, w, 1, "det(%s)" % b.cxx, ("det", L(b)))
        self.set_cell(P, w, 2, "det(%s + %s)" % (b.cxx, c.cxx), ("det", ("add", L(b), L(c))))
        self.set_cell(P, w, 3, "det(2 * %s)" % a.cxx, ("det", ("smul", two, L(a))))
        self.set_cell(P, w, 4, "(%s ^ %s)(1, 2)" % (u.cxx, v.cxx), ("comp", dia, 5))
        P.stmts.append(("%s = cross_product(%s, %s);" % (x.cxx, v.cxx, y.cxx), x, "=", ("cross", L(v), L(y))))
        P.stmts.append(("%s = cross_product(%s, %s);" % (y.cxx, u.cxx, p.cxx), y, "=", ("cross", L(u), L(p))))

    def snapshot(self, P, w, r, off):
        n = len(w.cells)
        cxx = " ".join("%s[%d] = %s[%d];" % (r.cxx, off + i, w.cxx, i) for i in range(n))
        dest = Operand(r.cxx, ("vec", n), [r.cells[off + i] for i in range(n)], True, "cells")
        P.stmts.append((cxx, dest, "=", ("list", [("cell", c) for c in w.cells])))

    def x_ctors_vec(self, P):
        u, v, w, r = self.own(P, "vec", 3), self.own(P, "vec", 3), self.own(P, "vec", 3), self.own(P, "vec", 30)
        b = self.buffer(P, 8)
        f = self.new_storage(P, "fsarray<3, Sym> %(n)s;", 3, "verif::fill_inputs(%(n)s, \"%(n)s\", 3);", "c17::out1(\"%(n)s\", %(n)s, 3);")
        k, tk = self.sym_scalar(P)
        C = lambda o, i: ("cell", o.cells[i])
        B = lambda i: ("cell", (b, i))
        T, W, U, V = "tvector<3, Sym>", w.cxx, u.cxx, v.cxx
        forms = [
            ("%s = %s(%s);" % (W, T, U), [C(u, 0), C(u, 1), C(u, 2)]),                                   # copy constructor, move assignment
            ("%s = %s(%s + %s);" % (W, T, U, V), [("add", C(u, i), C(v, i)) for i in range(3)]),       # constructor from an expression
            ("%s = %s{%s[0], %s[1], %s[2]};" % (W, T, U, V, U), [C(u, 0), C(v, 1), C(u, 2)]),          # initializer list (import)
            ("%s = %s(%s);" % (W, T, k), [tk] * 3),                                                     # value constructor (fill)
            ("%s = %s{%s};" % (W, T, k), [tk] * 3),                                                     # initializer list of size 1 (fill)
            ("%s = %s(%s + 2);" % (W, T, b), [B(2), B(3), B(4)]),                                       # constructor from a pointer (import)
            ("%s = {%s[2], %s[0], %s[1]};" % (W, V, V, V), [C(v, 2), C(v, 0), C(v, 1)]),                # operator=(initializer_list)
            ("%s.fill(%s);" % (W, k), [tk] * 3),
            ("%s = %s(%s);" % (W, T, f), [("cell", (f, i)) for i in range(3)]),                          # tvector(const fsarray&)
            ("%s.copy(%s + 1);" % (W, b), [B(1), B(2), B(3)])]
        for i, (cxx, items) in enumerate(forms):
            P.stmts.append((cxx, w, "=", ("list", items)))
            self.snapshot(P, w, r, 3 * i)

    def x_ctors_mat(self, P):
        u, v = self.own(P, "vec", 3), self.own(P, "vec", 3)
        b = self.buffer(P, 8)
        mm, m2, m3, m4 = self.own(P, "mat", 2, 3), self.own(P, "mat", 2, 2), self.own(P, "mat", 2, 2), self.own(P, "mat", 2, 3)
        m5, m6 = self.own(P, "mat", 3, 2), self.own(P, "mat", 2, 2)
        w, x, y, z = self.own(P, "vec", 3), self.own(P, "vec", 3), self.own(P, "vec", 2), self.own(P, "vec", 1)
        k, tk = self.sym_scalar(P)
        C = lambda o, i: ("cell", o.cells[i])
        B = lambda i: ("cell", (b, i))
        U, V = u.cxx, v.cxx
        one, zero = ("c", Fraction(1)), ("c", Fraction(0))
        for (cxx, dest, items) in [
                ("%s = tmatrix<2, 3, Sym>{%s[0], %s[1], %s[2], %s[0], %s[1], %s[2]};" % (mm.cxx, U, U, U, V, V, V), mm,
                 [C(u, 0), C(u, 1), C(u, 2), C(v, 0), C(v, 1), C(v, 2)]),                               # row major import
                ("%s = tmatrix<2, 2, Sym>({%s[0], %s[1]}, {%s[0], %s[1]});" % (m2.cxx, U, U, V, V), m2,
                 [C(u, 0), C(u, 1), C(v, 0), C(v, 1)]),                                                 # constructor from rows
                ("%s = tmatrix<2, 2, Sym>::Id();" % m3.cxx, m3, [one, zero, zero, one]),
                ("%s = {%s[0], %s[1], %s[2], %s[0], %s[1], %s[2]};" % (m4.cxx, V, V, V, U, U, U), m4,
                 [C(v, 0), C(v, 1), C(v, 2), C(u, 0), C(u, 1), C(u, 2)]),
                ("%s.swap_rows(0, 1);" % m4.cxx, m4, [C(m4, 3), C(m4, 4), C(m4, 5), C(m4, 0), C(m4, 1), C(m4, 2)]),
                # (tmatrix::copy, max, abs_max are not instantiable with g++ 12: `this->size()` as template argument)
                ("%s = tmatrix<3, 2, Sym>(%s + 1);" % (m5.cxx, b), m5, [B(i) for i in range(1, 7)]),          # pointer constructor (import)
                ("%s = tmatrix<2, 2, Sym>(%s);" % (m6.cxx, k), m6, [tk] * 4),
                ("%s = makeTVector3D(%s[0], %s[1], %s);" % (w.cxx, U, V, k), w, [C(u, 0), C(v, 1), tk]),
                ("%s = map([](const Sym& a_) { return a_ * a_; }, %s);" % (x.cxx, U), x, [("mul", C(u, i), C(u, i)) for i in range(3)]),
                ("%s = makeTVector2D(%s[2], %s[0]);" % (y.cxx, V, U), y, [C(v, 2), C(u, 0)]),
                ("%s = makeTVector1D(%s[1]);" % (z.cxx, U), z, [C(u, 1)]),
                ("exportToBaseTypeArray(%s, %s + 3);" % (V, b), Operand(b, ("vec", 3), [(b, 3), (b, 4), (b, 5)], True, "cells"),
                 [C(v, 0), C(v, 1), C(v, 2)])]:
            P.stmts.append((cxx, dest, "=", ("list", items)))

    def x_array_index(self, P):
        u, w = self.own(P, "vec", 3), self.own(P, "vec", 3)
        m, n = self.own(P, "mat", 2, 3), self.own(P, "mat", 2, 3)
        b = self.buffer(P, 12)
        P.decls += [
            "using ix1 = std::array<typename tvector<3, Sym>::size_type, 1>;",
            "using ix2 = std::array<typename tmatrix<2, 3, Sym>::size_type, 2>;",
            "auto a1 = map<tvector<3, Sym>, FixedSizeVectorIndexingPolicy<unsigned short, 3, 2>>(%s + 1);" % b,
            "using jx = std::array<typename decltype(a1)::size_type, 1>;",
            "auto a2 = map_strided<tvector<3, Sym>>(%s + 1, 4);" % b,
            "using kx = std::array<typename decltype(a2)::size_type, 1>;",
            "std::array<Sym*, 3> a3_p{&%s[10], &%s[0], &%s[7]};" % (b, b, b),
            "auto a3 = map<tvector<3, Sym>>(a3_p);",
            "using lx = std::array<typename decltype(a3)::size_type, 1>;"]
        P.kinds |= {"view:strided", "view:strided_coalesced", "view:coalesced"}
        for (cxx, dc, sc) in [
                ("%s[ix1{1}] = std::as_const(%s)[ix1{2}];" % (w.cxx, u.cxx), w.cells[1], u.cells[2]),
                ("%s(ix1{0}) = std::as_const(%s)(ix1{1});" % (w.cxx, u.cxx), w.cells[0], u.cells[1]),
                ("%s(ix2{1, 0}) = std::as_const(%s)(ix2{0, 2});" % (n.cxx, m.cxx), n.cells[3], m.cells[2]),
                ("%s[ix2{1, 1}] = std::as_const(%s)[ix2{0, 1}];" % (n.cxx, m.cxx), n.cells[4], m.cells[1]),
                ("a1(jx{1}) = std::as_const(a1)(jx{2});", (b, 3), (b, 5)),
                ("a2(kx{2}) = std::as_const(a2)(kx{1});", (b, 9), (b, 5)),
                ("a3(lx{0}) = std::as_const(a3)(lx{2});", (b, 10), (b, 7))]:
            P.stmts.append((cxx, self.cellop(dc[0], dc[1], cxx), "=", ("list", [("cell", sc)])))

    def x_runtime_view(self, P):
        """View with a runtime indexing policy (map<vector<T>>(size, pointer)): IndexingPolicies.ixx
        buildIndexingPolicyAndExtractPointerToData, View(pointer, policy)"""
        b = self.buffer(P, 10)
        k, tk = self.sym_scalar(P)
        P.decls += ["auto a1 = map<vector<Sym>>(3, %s + 2);" % b,
                    "auto a2 = map<const vector<Sym>>(3, static_cast<const Sym*>(%s) + 6);" % b]
        a1 = Operand("a1", ("arr", "vector", 3), [(b, 2 + i) for i in range(3)], True, "view:runtime")
        a2 = Operand("a2", ("arr", "vector", 3), [(b, 6 + i) for i in range(3)], False, "view:runtime")
        P.operands += [a1, a2]
        P.kinds.add("view:runtime")
        L = lambda o: ("leaf", o)
        P.stmts.append(("a1 = a1 + a2;", a1, "=", ("add", L(a1), L(a2))))
        P.stmts.append(("a1 *= %s;" % k, a1, "*=", tk))
        P.stmts.append(("a1 -= a2;", a1, "-=", L(a2)))

    def x_const_views(self, P):
        z, u, p, q = self.own(P, "vec", 8), self.own(P, "vec", 3), self.own(P, "vec", 2), self.own(P, "vec", 2)
        n, s, m = self.own(P, "mat", 2, 2), self.own(P, "st", 2), self.own(P, "mat", 3, 3)
        Z, M = z.cxx, m.cxx
        P.decls += [
            "auto a1 = std::as_const(%s).slice<1, 4>();" % Z,
            "auto a2 = std::as_const(%s).slice<5>();" % Z,
            "auto a3 = map<stensor<2, Sym>>(%s);" % Z,
            "auto a4 = map<const stensor<2, Sym>>(std::as_const(%s));" % Z,
            "auto va = map<2, tvector<2, Sym>, 1, 3>(std::as_const(%s));" % Z,
            "auto a5 = va[1];",
            "auto a6 = std::as_const(%s).column_view<1, 0, 2>();" % M,
            "auto a7 = std::as_const(%s).row_view<2, 1, 2>();" % M,
            "auto a8 = std::as_const(%s).submatrix_view<1, 0, 2, 2>();" % M]
        zc = lambda *ks: [(z.storage, k_) for k_ in ks]
        mc = lambda *ks: [(m.storage, k_) for k_ in ks]
        a1 = Operand("a1", ("vec", 3), zc(1, 2, 3), False, "view:slice")
        a2 = Operand("a2", ("vec", 3), zc(5, 6, 7), False, "view:slice")
        a3 = Operand("a3", ("st", 2), zc(0, 1, 2, 3), True, "view:map_tvector")
        a4 = Operand("a4", ("st", 2), zc(0, 1, 2, 3), False, "view:map_tvector")
        a5 = Operand("a5", ("vec", 2), zc(4, 5), False, "view:viewsarray")
        a6 = Operand("a6", ("vec", 2), mc(1, 4), False, "view:colslice")
        a7 = Operand("a7", ("vec", 2), mc(7, 8), False, "view:rowslice")
        a8 = Operand("a8", ("mat", 2, 2), mc(3, 4, 6, 7), False, "view:submatrix")
        P.operands += [a1, a2, a3, a4, a5, a6, a7, a8]
        P.kinds |= {"view:slice", "view:map_tvector", "view:viewsarray", "view:colslice", "view:rowslice", "view:submatrix"}
        L = lambda o: ("leaf", o)
        two = ("c", Fraction(2))
        P.stmts.append(("%s = a1 + a2;" % u.cxx, u, "=", ("add", L(a1), L(a2))))
        P.stmts.append(("%s = a5 + a6;" % p.cxx, p, "=", ("add", L(a5), L(a6))))
        P.stmts.append(("%s = a7 - a6;" % q.cxx, q, "=", ("sub", L(a7), L(a6))))
        P.stmts.append(("%s = 2 * a8;" % n.cxx, n, "=", ("smul", two, L(a8))))
        P.stmts.append(("a3 = a4 + %s;" % s.cxx, a3, "=", ("add", L(a4), L(s))))

    def x_view_assign(self, P):
        b = self.buffer(P, 24)
        k, tk = self.sym_scalar(P)
        P.decls += [
            "auto a1 = map<tvector<3, Sym>>(%s + 0);" % b,
            "auto a2 = map<tvector<3, Sym>>(%s + 4);" % b,
            "auto a3 = map<tvector<3, Sym>>(%s + 8);" % b,
            "std::array<Sym*, 3> c1_p{&%s[12], &%s[3], &%s[14]};" % (b, b, b),
            "std::array<Sym*, 3> c2_p{&%s[13], &%s[11], &%s[15]};" % (b, b, b),
            "auto c1 = map<tvector<3, Sym>>(c1_p);",
            "auto c2 = map<tvector<3, Sym>>(c2_p);",
            "auto s1 = map_strided<tvector<3, Sym>>(%s + 16, 3);" % b,
            "auto s2 = map_strided<tvector<3, Sym>>(%s + 17, 3);" % b]
        mk = lambda name, cells, kind: Operand(name, ("vec", 3), [(b, c) for c in cells], True, kind)
        a1, a2, a3 = mk("a1", (0, 1, 2), "view:map"), mk("a2", (4, 5, 6), "view:map"), mk("a3", (8, 9, 10), "view:map")
        c1, c2 = mk("c1", (12, 3, 14), "view:coalesced"), mk("c2", (13, 11, 15), "view:coalesced")
        s1, s2 = mk("s1", (16, 19, 22), "view:strided_coalesced"), mk("s2", (17, 20, 23), "view:strided_coalesced")
        P.operands += [a1, a2, a3, c1, c2, s1, s2]
        P.kinds |= {"view:map", "view:coalesced", "view:strided_coalesced"}
        L = lambda o: ("leaf", o)
        P.stmts.append(("a1 = a2;", a1, "=", L(a2)))                      # View::operator=(const View&)
        P.stmts.append(("a2 = std::move(a3);", a2, "=", L(a3)))           # View::operator=(View&&)
        P.stmts.append(("c1 = c2;", c1, "=", L(c2)))                      # CoalescedViewBase::operator=(const CoalescedViewBase&)
        P.stmts.append(("c1 *= %s;" % k, c1, "*=", tk))
        P.stmts.append(("c2 /= %s;" % k, c2, "/=", tk))
        P.stmts.append(("c2 /= 2;", c2, "/=", ("c", Fraction(2))))
        P.stmts.append(("s1 /= %s;" % k, s1, "/=", tk))
        P.stmts.append(("s1 *= 3;", s1, "*=", ("c", Fraction(3))))
        P.stmts.append(("s2 = s1;", s2, "=", L(s1)))
        P.stmts.append(("s2 -= c1;", s2, "-=", L(c1)))

    def runtime_statement(self, P, family):
        """containers with a reduced operator set (only what they offer): element-wise statements, aliasing included"""
        rng = self.rng
        n = rng.randint(2, 4)
        if family == "matrix":
            r, c = rng.randint(2, 3), rng.randint(2, 3)
            n = r * c
            mk = lambda: self.new_storage(P, "matrix<Sym> %%(n)s(%d, %d);" % (r, c), n,
                                          "c17::fill2(%%(n)s, \"%%(n)s\", %d, %d);" % (r, c),
                                          "c17::out2(\"%%(n)s\", %%(n)s, %d, %d);" % (r, c))
        else:
            decl = {"vector": "vector<Sym> %%(n)s(%d);", "runtime_array": "runtime_array<Sym> %%(n)s(%d);",
                    "fsarray": "fsarray<%d, Sym> %%(n)s;"}[family] % n
            mk = lambda: self.new_storage(P, decl, n, "verif::fill_inputs(%%(n)s, \"%%(n)s\", %d);" % n,
                                          "c17::out1(\"%%(n)s\", %%(n)s, %d);" % n)
        objs = []
        for _ in range(2):
            name = mk()
            o = Operand(name, ("arr", family, n), [(name, k) for k in range(n)], True, "owned")
            o.storage = name
            objs.append(o)
        P.kinds.add("owned:" + family)
        a, b = objs
        s, ts = self.scalar(P, divisor=True)
        forms = {
            "vector": [("%s = %s + %s * %s;" % (a.cxx, a.cxx, s, b.cxx), "=", ("add", ("leaf", a), ("smul", ts, ("leaf", b)))),
                       ("%s += %s;" % (a.cxx, b.cxx), "+=", ("leaf", b)),
                       ("%s += %s + %s;" % (a.cxx, a.cxx, b.cxx), "+=", ("add", ("leaf", a), ("leaf", b))),
                       ("%s /= %s;" % (a.cxx, s), "/=", ts)],
            "matrix": [("%s += %s;" % (a.cxx, b.cxx), "+=", ("leaf", b)),
                       ("%s -= %s;" % (a.cxx, b.cxx), "-=", ("leaf", b)),
                       ("%s += %s;" % (a.cxx, a.cxx), "+=", ("leaf", a)),
                       ("%s *= %s;" % (a.cxx, s), "*=", ts)],
            "runtime_array": [("%s = %s + %s;" % (a.cxx, a.cxx, b.cxx), "=", ("add", ("leaf", a), ("leaf", b))),
                              ("%s += %s;" % (a.cxx, b.cxx), "+=", ("leaf", b)),
                              ("%s -= %s + %s;" % (a.cxx, a.cxx, b.cxx), "-=", ("add", ("leaf", a), ("leaf", b))),
                              ("%s *= %s;" % (a.cxx, s), "*=", ts)],
            "fsarray": [("%s = %s + %s;" % (a.cxx, b.cxx, a.cxx), "=", ("add", ("leaf", b), ("leaf", a))),
                        ("%s += %s;" % (a.cxx, a.cxx), "+=", ("leaf", a)),
                        ("%s -= %s;" % (a.cxx, b.cxx), "-=", ("leaf", b)),
                        ("%s *= %s;" % (a.cxx, s), "*=", ts)],
        }[family]
        for cxx, op, t in rng.sample(forms, 2):
            P.stmts.append((cxx, a, op, t))


FORCED = ["a=a+b", "a+=2*a", "s=deviator(s)", "v=m*v", "v=v*m", "m=m*n", "t=transpose(t)", "view=f(storage)",
          "shifted-overlap", "row=row+col", "a/=2", "rt:vector", "rt:matrix", "rt:runtime_array", "rt:fsarray",
          "x:expr-access", "x:diadic-det-cross", "x:ctors-vec", "x:ctors-mat", "x:array-index", "x:runtime-view",
          "x:const-views", "x:view-assign", "x:scalar-alias-objects", "x:scalar-alias-views"]


# ------------------------------------------------------------------ eager semantics
def eval_tree(t, state):
    """component list (logical order) of an expression tree from the *current* cell values"""
    k = t[0]
    if k == "leaf":
        return [state[c] for c in t[1].cells]
    if k == "neg":
        return [neg(x) for x in eval_tree(t[1], state)]
    if k in ("add", "sub"):
        a, b = eval_tree(t[1], state), eval_tree(t[2], state)
        f = add if k == "add" else sub
        return [f(x, y) for x, y in zip(a, b)]
    if k == "smul":    # the scalar (possibly a storage cell, even a cell of the destination) is read once, before assigning
        sc = subst(t[1], state)
        return [mul(sc, x) for x in eval_tree(t[2], state)]
    if k == "divs":
        sc = subst(t[2], state)
        return [div(x, sc) for x in eval_tree(t[1], state)]
    if k == "matvec":
        a, x = eval_tree(t[1], state), eval_tree(t[2], state)
        K = len(x)
        N = len(a) // K
        return [ssum([mul(a[i * K + j], x[j]) for j in range(K)]) for i in range(N)]
    if k == "vecmat":
        x, a = eval_tree(t[1], state), eval_tree(t[2], state)
        K = len(x)
        M = len(a) // K
        return [ssum([mul(x[i], a[i * M + j]) for i in range(K)]) for j in range(M)]
    if k == "matmat":
        a, b = eval_tree(t[1], state), eval_tree(t[2], state)
        sa, sb = tree_shape(t[1]), tree_shape(t[2])
        N, K, M = sa[1], sa[2], sb[2]
        return [ssum([mul(a[i * K + l], b[l * M + j]) for l in range(K)]) for i in range(N) for j in range(M)]
    if k == "transpose":
        a = eval_tree(t[1], state)
        D = {3: 1, 5: 2, 9: 3}[len(a)]
        return [a[T_PERM[D][i]] for i in range(len(a))]
    if k == "deviator":
        a = eval_tree(t[1], state)
        tr3 = div(ssum(a[:3]), ("c", Fraction(3)))
        return [sub(a[i], tr3) if i < 3 else a[i] for i in range(len(a))]
    if k == "comp":        # one component (logical order) of an expression: `(expr)[k]`, `(expr)(i, j)`
        return [eval_tree(t[1], state)[t[2]]]
    if k == "list":        # explicit scalar values (cells read before the statement, scalars, constants)
        return [subst(x, state) for x in t[1]]
    if k == "diadic":      # a ^ b: (i, j) -> a_i * b_j
        a, b = eval_tree(t[1], state), eval_tree(t[2], state)
        return [mul(x, y) for x in a for y in b]
    if k == "mtranspose":  # transpose of a tmatrix<N, M>: component (j, i) of the result is (i, j) of the operand
        a = eval_tree(t[1], state)
        N, M = t[2], t[3]
        return [a[i * M + j] for j in range(M) for i in range(N)]
    if k == "det":
        a = eval_tree(t[1], state)
        if len(a) == 4:
            return [sub(mul(a[0], a[3]), mul(a[2], a[1]))]
        m = lambda i, j: a[3 * i + j]
        minor = lambda i, j, p, q: sub(mul(m(1, i), m(2, j)), mul(m(1, p), m(2, q)))
        return [add(sub(mul(m(0, 0), minor(1, 2, 2, 1)), mul(m(0, 1), minor(0, 2, 2, 0))), mul(m(0, 2), minor(0, 1, 1, 0)))]
    if k == "cross":
        a, b = eval_tree(t[1], state), eval_tree(t[2], state)
        if len(a) == 2:
            return [("c", Fraction(0)), ("c", Fraction(0)), sub(mul(a[0], b[1]), mul(a[1], b[0]))]
        return [sub(mul(a[1], b[2]), mul(a[2], b[1])), sub(mul(a[2], b[0]), mul(a[0], b[2])), sub(mul(a[0], b[1]), mul(a[1], b[0]))]
    raise ValueError(k)


def subst(e, state):
    """scalar tree with ('cell', (storage, index)) leaves -> the cell values of `state`"""
    k = e[0]
    if k == "cell":
        return state[e[1]]
    if k in ("in", "c"):
        return e
    if k == "neg":
        return neg(subst(e[1], state))
    return (k, subst(e[1], state), subst(e[2], state))


def tree_shape(t):
    k = t[0]
    if k == "leaf":
        return t[1].shape
    if k in ("neg", "transpose", "deviator"):
        return tree_shape(t[1])
    if k in ("add", "sub"):
        return tree_shape(t[1])
    if k == "smul":
        return tree_shape(t[2])
    if k == "divs":
        return tree_shape(t[1])
    if k == "matvec":
        return ("vec", tree_shape(t[1])[1])
    if k == "vecmat":
        return ("vec", tree_shape(t[2])[2])
    if k == "matmat":
        return ("mat", tree_shape(t[1])[1], tree_shape(t[2])[2])
    raise ValueError(k)


NON_ELEMENTWISE = ("matvec", "vecmat", "matmat", "transpose", "deviator", "diadic", "cross")


def leaves(t, path=()):
    k = t[0]
    if k == "leaf":
        yield t[1], path
    elif k in ("smul",):
        yield from leaves(t[2], path)
    elif k == "divs":
        yield from leaves(t[1], path)
    elif k == "list":
        return   # values copied into temporaries before the statement: no lazy read of the destination
    elif k in ("comp", "mtranspose", "det"):
        yield from leaves(t[1], path + ((k,) if k != "comp" else ()))
    else:
        p = path + ((k,) if k in NON_ELEMENTWISE else ())
        for s in t[1:]:
            yield from leaves(s, p)


def hazards(dest, tree):
    """aliasing classes of a statement `dest op tree`"""
    out = []
    dc = dest.cells
    dset = set(dc)
    for o, path in leaves(tree):
        if not (set(o.cells) & dset):
            continue
        if path:
            out.append(path[0])
        elif any(o.cells[k2] == dc[k] for k in range(len(dc)) for k2 in range(len(o.cells)) if k != k2):
            out.append("elementwise-overlap")
        else:
            out.append("same-position")
    return out


def run_eager(P):
    """final value of every storage cell under eager semantics; also fills P.hazards"""
    state = {}
    for s in P.order:
        for k in range(P.storages[s][0]):
            state[(s, k)] = ("in", "%s%d" % (s, k))
    P.hazards = []
    for (_, dest, op, t) in P.stmts:
        if op in ("*=", "/="):
            cur = [state[c] for c in dest.cells]
            sc = subst(t, state)
            new = [mul(x, sc) if op == "*=" else div(x, sc) for x in cur]
            P.hazards.append([])
        else:
            vals = eval_tree(t, state)
            cur = [state[c] for c in dest.cells]
            if op == "=":
                new = vals
            elif op == "+=":
                new = [add(x, y) for x, y in zip(cur, vals)]
            else:
                new = [sub(x, y) for x, y in zip(cur, vals)]
            P.hazards.append(hazards(dest, t))
        # a destination whose cells are pairwise distinct (every view kind generated here is injective)
        for c, x in zip(dest.cells, new):
            state[c] = x
    return state


# ------------------------------------------------------------------ C++ and Lean text
def cxx_unit(P):
    L = ["  {", "    Unit unit_(\"%s\");" % P.name]
    for s in P.order:
        L.append("    " + P.storages[s][1])
    for s in P.order:
        L.append("    " + P.storages[s][2])
    for d in P.decls:
        L.append("    " + d)
    for (cxx, _, _, _) in P.stmts:
        L.append("    " + cxx)
    for s in P.order:
        L.append("    " + P.storages[s][3])
    L.append("  }")
    return "\n".join(L)


CXX_HEAD = """// GENERATED by checks/c17gen.py (seeded) — C17 (b) traced programs. Do not edit.
#include "tracehelp.hxx"
#include "C17/c17prog.hxx"
#include <array>
#include <utility>
#include "TFEL/Math/tvector.hxx"
#include "TFEL/Math/tmatrix.hxx"
#include "TFEL/Math/stensor.hxx"
#include "TFEL/Math/tensor.hxx"
#include "TFEL/Math/fsarray.hxx"
#include "TFEL/Math/vector.hxx"
#include "TFEL/Math/matrix.hxx"
#include "TFEL/Math/runtime_array.hxx"
#include "TFEL/Math/Array/View.hxx"
#include "TFEL/Math/Array/ViewsArray.hxx"
#include "TFEL/Math/Array/CoalescedView.hxx"
#include "TFEL/Math/Array/StridedCoalescedView.hxx"
using namespace tfel::math;
using verif::Sym;
using verif::Unit;
int main() {
"""


def cxx_file(progs):
    return CXX_HEAD + "\n".join(cxx_unit(P) for P in progs) + "\n  return 0;\n}\n"


def input_names(P):
    """inputs in the order in which the traced unit creates them (storages, then scalars)"""
    names = []
    for s in P.order:
        names += ["%s%d" % (s, k) for k in range(P.storages[s][0])]
    return names + list(P.scalars)


def output_cells(P):
    return [(s, k) for s in P.order for k in range(P.storages[s][0])]


def lean_theorem(P, state, gen_ns):
    ins = input_names(P)
    outs = output_cells(P)
    exp = ",\n     ".join(lean_of(state[c]) for c in outs)
    return ("theorem %s {K : Type} [Field K] [CharZero K] (c c3 : K) (fn : Fns K) (%s : K) :\n"
            "    %s_all c c3 fn %s =\n    [%s] := by\n  c17_eager\n\n"
            % (P.name, " ".join(ins), P.name, " ".join(ins), exp))
