"""C49 — MTest results do not depend on solver options (tie: M; partial by nature).

  1. bit-exact Float correspondence between lean/TfelVerif/C49/Model.lean and the real Cast3M / secant /
     Irons-Tuck / Steffensen acceleration algorithms (mtest/src/*AccelerationAlgorithm.cxx compiled from the
     tree, obtained through the real factory) on seeded call histories, several attempts per object;
  2. the theorems of Props.lean (fixed points preserved, nothing before the trigger, option independent
     convergence predicate) re-checked;
  3. the fixed-point property itself evaluated on every registered algorithm of the implementation;
  4. numerical exploration of the property: complete runs of the real MTest on a mock (non-)linear
     behaviour under many option sets (acceleration algorithm x prediction policy x stiffness matrix type x
     rounding mode x sub-stepping provoked by behaviour failures, halving and dynamic), compared with a
     baseline run at every requested time within tolerances derived from the convergence criteria.
"""
import math
import os
import random

import vlib
from checks import c48lib
from checks import C48 as c48
from checks.c48lib import hx, uh, pretty

PROPS = ["TfelVerif.C49.Props"]
MODELLED = ["Cast3M", "Secant", "IronsTuck", "Steffensen"]
ALL = ["Cast3M", "Secant", "IronsTuck", "Steffensen", "UAnderson", "FAnderson", "AlternateSecant",
       "AlternateDelta2", "Alternate2Delta", "CrossedSecant", "CrossedDelta2", "Crossed2Delta", "Crossed2Deltabis"]
ANCHORED = ["Cast3M", "Secant", "IronsTuck", "Steffensen", "UAnderson", "FAnderson"]
SRC = {"Cast3M": "CastemAccelerationAlgorithm", "Secant": "SecantAccelerationAlgorithm",
       "IronsTuck": "IronsTuckAccelerationAlgorithm", "Steffensen": "SteffensenAccelerationAlgorithm",
       "UAnderson": "UAndersonAccelerationAlgorithm", "FAnderson": "FAndersonAccelerationAlgorithm"}
SITE_ACCUMULATED = "mtest/src/GenericSolver.cxx:execute:end-tolerance:accumulated-rounding-beyond-100ulp"
#: first fixed-point call (1-based) from which the theorems guarantee that u1 is unchanged
FP_FROM = {"Secant": 1, "IronsTuck": 1, "Steffensen": 3, "Cast3M": 3}


def vec(rng, n, scale):
    return [rng.uniform(-1, 1) * scale for _ in range(n)]


def gen_acc(rng, name):
    psz = rng.randint(1, 5)
    trig = rng.choice([-1, -1, 3, 4, 5])
    period = rng.choice([-1, 1, 2, 3]) if name == "Cast3M" else -1
    if name == "IronsTuck" and trig != -1:
        trig = rng.choice([2, 3, 4])
    eeps = rng.choice([1e-12, 1e-8, 0.0])
    seps = rng.choice([1e-3, 1e-6, 0.0])
    nseg = rng.randint(1, 3)
    segs = []
    style = rng.choice(["decay", "random", "stalled", "tiny"])
    for _ in range(nseg):
        n = rng.randint(1, 10)
        calls = []
        base = vec(rng, psz, 1.0)
        for k in range(n):
            sc = {"decay": 0.5 ** k, "random": 1.0, "stalled": 1.0, "tiny": 1e-17}[style]
            if style == "stalled" and k > 1 and rng.random() < 0.5:
                u, du, r = calls[-1]      # identical consecutive calls: zero differences
            else:
                u = [b + x for b, x in zip(base, vec(rng, psz, sc))]
                du = vec(rng, psz, sc)
                r = vec(rng, psz, sc)
            if rng.random() < 0.08:
                r = [0.0] * psz
            if rng.random() < 0.08:
                du = [0.0] * psz
            calls.append((u, du, r))
        segs.append(calls)
    line = "acc %s %d %d %d %s %s %d %s" % (
        name, psz, trig, period, hx(eeps), hx(seps), nseg,
        " ".join("%d %s" % (len(c), " ".join(" ".join(map(hx, u + du + r)) for u, du, r in c)) for c in segs))
    return {"line": line, "name": name, "psz": psz, "style": style, "calls": sum(len(c) for c in segs)}


def gen_fp(rng, name):
    psz = rng.randint(1, 5)
    n = rng.randint(0, 8)
    calls = [(vec(rng, psz, 1.0), vec(rng, psz, 0.5 ** k), vec(rng, psz, 0.5 ** k)) for k in range(n)]
    ustar = vec(rng, psz, 2.0)
    eeps, seps = rng.choice([(1e-12, 1e-3), (1e-12, 1e-3), (0.0, 0.0), (1e-8, 0.0)])
    line = "fp %s %d %s %s %d %s %s 5" % (name, psz, hx(eeps), hx(seps), n,
                                          " ".join(" ".join(map(hx, u + du + r)) for u, du, r in calls),
                                          " ".join(map(hx, ustar)))
    return {"line": line, "name": name, "history": n}


def gen_fresh(rng, name):
    """the result of an attempt is a function of the attempt's inputs only: the same calls S on a fresh
    object and on an object that first went through a polluted attempt P (large / non finite values)"""
    psz = rng.randint(1, 4)
    def calls(n, pollute):
        out = []
        for k in range(n):
            sc = 0.5 ** k
            u, du, r = vec(rng, psz, 1.0), vec(rng, psz, sc), vec(rng, psz, sc)
            if pollute:
                bad = rng.choice([float("nan"), float("inf"), 1e300, -1e300])
                which = rng.choice("udr")
                if which == "u":
                    u[rng.randrange(psz)] = bad
                elif which == "d":
                    du[rng.randrange(psz)] = bad
                else:
                    r[rng.randrange(psz)] = bad
            out.append((u, du, r))
        return out
    P = calls(rng.randint(1, 8), True)
    S = calls(rng.randint(1, 9), False)
    def seg(c):
        return "%d %s" % (len(c), " ".join(" ".join(map(hx, u + du + r)) for u, du, r in c))
    head = "acc %s %d -1 -1 %s %s" % (name, psz, hx(1e-12), hx(1e-3))
    return {"name": name, "psz": psz, "nS": len(S), "polluted": head + " 2 " + seg(P) + " " + seg(S),
            "fresh": head + " 1 " + seg(S)}


def gen_proto(rng):
    dyn = rng.random() < 0.5
    iterMax = rng.choice([2, 3, 5, 8])
    pp = rng.choice([0, 1, 2])
    na = rng.choice([3, 8, 30])
    atts = []
    for i in range(na):
        fail = rng.random() < (0.6 if i == 0 else 0.25)
        if fail:
            kind = rng.choice([1, 2, 3, 4, 0])
            at = rng.randint(1, 3) if kind == 1 else (iterMax + 1 if kind == 0 else 1)
        else:
            kind, at = 0, rng.randint(1, min(iterMax, 4))
        atts.append((kind, rng.choice([1.0, 1.0, 0.5, 1.5]) if dyn else 1.0, at))
    ti = float(rng.randint(0, 3))
    te = ti + rng.choice([1.0, 2.0])
    line = "proto %d %d %d %d %s %s %d %s" % (1 if dyn else 0, 10, iterMax, pp, hx(ti), hx(te), na,
                                              " ".join("%d %s %d" % (k, hx(f), a) for k, f, a in atts))
    return {"line": line, "dyn": dyn, "iterMax": iterMax, "ppolicy": pp, "script": atts, "ti": ti, "te": te}


def expected_protocol(req, n_attempts):
    """calls to the acceleration algorithm attempt by attempt (GenericSolver.cxx: iterate): the algorithm is
    restarted (preExecuteTasks) at the beginning of EVERY attempt, executed after each non converged iteration
    but the last allowed one, and closed (postExecuteTasks) when the Newton loop converges"""
    need = 2 if req["ppolicy"] == 0 else 1
    ev = []
    for kind, _, at in req["script"][:n_attempts]:
        ev.append("a")
        if kind == 4:
            continue
        ev.append("p")
        k = 0
        while True:
            k += 1
            if kind == 1 and at == k:
                break
            conv = k >= need and kind != 2 and not (kind == 0 and k < at)
            if conv:
                ev.append("q")
                break
            if k == req["iterMax"]:
                break
            ev.append("x%d" % k)
    return ev


def poisoned_sets(rng, p, iterMax):
    """the first attempt of the first time step leaves the domain of the law (non finite forces at every
    iteration): it is rejected and the solver sub-steps; every algorithm must then reach the same results"""
    out = []
    pp = rng.choice([0, 1, 2, 4])
    dyn = rng.random() < 0.3
    script = [(2, 1.0)] * iterMax
    for aa in ["none"] + ALL:
        out.append({"aa": aa, "ppolicy": pp, "ktype": 4, "rounding": "ToNearest", "dyn": dyn, "script": script,
                    "iterMax": iterMax, "poisoned": True})
    return out


def option_sets(rng, base):
    """variants of one problem: (label, aa, ppolicy, ktype, rounding, dyn, script)"""
    out = []
    for _ in range(6):
        aa = rng.choice(["none"] + ANCHORED + ANCHORED)
        pp = rng.choice([0, 1, 2, 3, 4])
        kt = rng.choice([4, 4, 1])
        rd = rng.choice(["ToNearest", "ToNearest", "UpWard", "DownWard", "TowardZero"])
        sub = rng.random() < 0.4
        dyn = sub and rng.random() < 0.5
        script = []
        if sub:
            for _ in range(rng.choice([6, 20])):
                script.append((0, rng.choice([0.4, 0.5, 0.3, 0.7])) if rng.random() < 0.3 else (1, rng.choice([1.0, 1.0, 1.5])))
        out.append({"aa": aa, "ppolicy": pp, "ktype": kt, "rounding": rd, "dyn": dyn, "script": script})
    return out


def mt_line(p, o):
    ndv = p["ndv"]
    return "mt %d %s %s %s %s %d %d %d %d %s %d %s %d %s %d %s %d %s" % (
        ndv, hx(p["nl"]), " ".join(hx(p["D"][i][j]) for i in range(ndv) for j in range(ndv)), hx(p["eeps"]), hx(p["seps"]),
        1 if o["dyn"] else 0, 10, o.get("iterMax", 200), o["ppolicy"], o["aa"], o["ktype"], o["rounding"], len(p["times"]),
        " ".join(map(hx, p["times"])), len(p["cons"]), " ".join("%s %d %s" % (k, c, d) for k, c, d, _ in p["cons_desc"]),
        len(o["script"]), " ".join("%d %s" % (ok, hx(f)) for ok, f in o["script"]))


def gen_problem(rng):
    r = c48.gen_mt(rng)
    # keep the textual constraint descriptions: regenerate them from the python data
    cons_desc = []
    for k, c, e in r["cons"]:
        d = ("c %s" % hx(e[1])) if e[0] == "c" else ("l %d %s" % (len(e[1]), c48.pairs(e[1])))
        cons_desc.append((k, c, d, e))
    r["cons_desc"] = cons_desc
    return r


def parse_mt(ans, n, ndv):
    """verdict, {T: (u, s)}, attempts per requested time"""
    f = ans.split()
    res = {}
    atts = []
    per = {}
    i = 1
    while i < len(f):
        if f[i] == "a":
            atts.append((uh(f[i + 1]), uh(f[i + 2])))
            i += 3
        elif f[i] == "T":
            T = uh(f[i + 1])
            u = [uh(w) for w in f[i + 3:i + 3 + n]]
            s = [uh(w) for w in f[i + 4 + n:i + 4 + n + ndv]]
            res[T] = (u, s)
            per[T] = atts
            atts = []
            i += 4 + n + ndv
        else:
            i += 1
    return (f[0] if f else "missing"), res, per


def run(ck):
    rng = random.Random(ck.seed)
    harness = c48lib.build(ck, "c49h", os.path.join(vlib.VERIF, "harness", "C49", "harness.cxx"),
                           c48lib.MTEST_SOURCES + c48lib.ACCEL_SOURCES)
    driver = ck.lean_exe("c49driver", "TfelVerif/C49/Driver.lean")
    res = c48lib.lean_checked(ck, PROPS)
    ck.lean_violations(res)
    if not ck.quick:
        for m, msg in ck.leanchecker(PROPS):
            ck.violation("leanchecker:" + m, "leanchecker rejects " + m, {"log": msg}, False)
    q = ck.quick
    # ---- 1. correspondence on the four modelled algorithms
    accs = [gen_acc(rng, rng.choice(MODELLED)) for _ in range(3000 if q else 80000)]
    # ---- 3. fixed points on every registered algorithm
    fps = [gen_fp(rng, rng.choice(ALL)) for _ in range(1500 if q else 30000)]
    # ---- 4. option sets
    problems = [gen_problem(rng) for _ in range(60 if q else 1500)]
    mt_reqs = []
    for pi_, p in enumerate(problems):
        base = {"aa": "none", "ppolicy": 0, "ktype": 4, "rounding": "ToNearest", "dyn": False, "script": []}
        mt_reqs.append((pi_, base, mt_line(p, base)))
        for o in option_sets(rng, p):
            mt_reqs.append((pi_, o, mt_line(p, o)))
    # poisoned first attempt under every algorithm
    pois = []
    for pi_ in range(len(problems)):
        if pi_ % 3 == 0:
            for o in poisoned_sets(rng, problems[pi_], 12):
                pois.append((pi_, o, mt_line(problems[pi_], o)))
    fresh = [gen_fresh(rng, rng.choice(ALL)) for _ in range(400 if q else 8000)]
    protos = [gen_proto(rng) for _ in range(400 if q else 8000)]
    text_acc = "".join(r["line"] + "\n" for r in accs)
    text = text_acc + "".join(r["line"] + "\n" for r in fps) + "".join(l + "\n" for _, _, l in mt_reqs) + \
        "".join(l + "\n" for _, _, l in pois) + "".join(r["polluted"] + "\n" + r["fresh"] + "\n" for r in fresh) + \
        "".join(r["line"] + "\n" for r in protos)
    pi = c48lib.run_harness(ck, harness, text)
    pm = ck.run([driver], input=text_acc, timeout=1200)
    if pi.returncode != 0:
        ck.violation("harness-crash", "the implementation harness aborted (sanitizer or crash)",
                     {"stderr": pi.stderr[-3000:]}, False)
    impl = pi.stdout.splitlines()
    model = pm.stdout.splitlines()
    disagreements = 0
    hist = {}
    distinct = set()
    classes = {}

    def report(key, found, what, rep):
        old = classes.get(key)
        if old is None or (found and not old[0]) or (found == old[0] and len(rep.get("request", "")) < len(old[2].get("request", ""))):
            classes[key] = (found, what, rep)

    moved = 0
    for i, r in enumerate(accs):
        a = impl[i] if i < len(impl) else "missing"
        m = model[i] if i < len(model) else "missing"
        distinct.add((r["name"], r["style"], min(r["calls"], 12)))
        hist["acc:" + r["name"]] = hist.get("acc:" + r["name"], 0) + 1
        if a != m:
            # NaN payloads may differ in sign only through different but equivalent operation orders: never the
            # case here (same order): any difference counts
            disagreements += 1
            report("corr:mtest/src/%s.cxx:execute" % SRC[r["name"]], False,
                   "correspondence Model.lean vs %s::execute broken" % SRC[r["name"]],
                   {"request": r["line"], "request_decoded": pretty(r["line"])[:3000], "implementation": pretty(a)[:2000],
                    "model": pretty(m)[:2000]})
    off = len(accs)
    fp_obs = {}
    for j, r in enumerate(fps):
        a = impl[off + j] if off + j < len(impl) else "missing"
        f = a.split()
        hist["fp:" + r["name"]] = hist.get("fp:" + r["name"], 0) + 1
        if not f or f[0] != "v":
            report("fp:harness", False, "fixed point request failed: " + a[:200], {"request": r["line"]})
            continue
        flags = f[1:]
        k0 = FP_FROM.get(r["name"])
        if k0 is not None:
            bad = [k + 1 for k, x in enumerate(flags) if x == "0" and k + 1 >= k0]
            if bad:
                disagreements += 1
                report("mtest/src/%s.cxx:execute:fixed-point" % SRC[r["name"]], True,
                       "%s moves u1 away from a fixed point (u1 = u*, du = 0, r = 0) at the %s-th such call" % (r["name"], bad[0]),
                       {"request": r["line"], "request_decoded": pretty(r["line"])[:3000], "implementation": a})
        else:
            last = flags[-1] if flags else "?"
            fp_obs[r["name"]] = fp_obs.get(r["name"], [0, 0])
            fp_obs[r["name"]][0 if last == "1" else 1] += 1
    off += len(fps)
    # option sets versus baseline
    compared = 0
    completed = 0
    by_problem = {}
    for k, (pi_, o, line) in enumerate(mt_reqs):
        a = impl[off + k] if off + k < len(impl) else "missing"
        by_problem.setdefault(pi_, []).append((o, line, a))
    for pi_, runs in by_problem.items():
        p = problems[pi_]
        n = p["ndv"] + sum(1 for kk, _, _ in p["cons"] if kk == "g")
        vb, rb, _ = parse_mt(runs[0][2], n, p["ndv"])
        hist["mt-baseline:" + vb.split(":")[0]] = hist.get("mt-baseline:" + vb.split(":")[0], 0) + 1
        if vb != "end":
            if vb.startswith("err") or vb == "missing":
                report("mt:harness", False, "baseline MTest run failed: " + runs[0][2][:200], {"request": runs[0][1]})
            continue
        lam = 3.0     # Gershgorin lower bound of the stiffness of the generator
        lmax = max(sum(abs(x) for x in row) for row in p["D"]) + 3 * abs(p["nl"])
        tol_e = 10 * (p["eeps"] + p["seps"] / lam)
        tol_s = 10 * (p["seps"] + lmax * p["eeps"]) + lmax * tol_e
        for o, line, a in runs[1:]:
            v, rr, per = parse_mt(a, n, p["ndv"])
            label = "%s/pp%d/kt%d/%s/%s" % (o["aa"], o["ppolicy"], o["ktype"], o["rounding"],
                                            ("dyn" if o["dyn"] else "halving") if o["script"] else "nosub")
            hist["mt:" + v.split(":")[0]] = hist.get("mt:" + v.split(":")[0], 0) + 1
            distinct.add(("mt", o["aa"], o["ppolicy"], o["ktype"], o["rounding"], bool(o["script"]), o["dyn"], v))
            if v.startswith("err") or v == "missing" or v.startswith("exc:other"):
                report("mt:harness", False, "MTest run failed unexpectedly: " + a[:200], {"request": line})
                continue
            if v != "end":
                continue        # the property is about runs that complete (non convergence / max sub-steps: not claimed)
            completed += 1
            for T, (u, s) in rr.items():
                if T not in rb:
                    continue
                ub, sb = rb[T]
                compared += 1
                worst = None
                for c in range(n):
                    if not abs(u[c] - ub[c]) <= tol_e:
                        worst = ("unknown", c, u[c], ub[c], tol_e)
                for c in range(p["ndv"]):
                    if not abs(s[c] - sb[c]) <= tol_s:
                        worst = ("force", c, s[c], sb[c], tol_s)
                if worst:
                    disagreements += 1
                    ti = p["times"][p["times"].index(T) - 1]
                    sig = c48.loop_signature(per.get(T, []), ti, T, o["dyn"], -1.0)
                    atts_T = per.get(T, [])
                    reached = (atts_T[-1][0] + atts_T[-1][1]) if atts_T else T
                    if not sig and abs(reached - T) > 2 * c48.tolmag(ti, T):
                        # the state printed for T is the state at another time: the rounding errors accumulated by
                        # `t += dt` over the sub-steps (systematic under a directed rounding mode) exceed the end
                        # tolerance of the time loop (100 ulp of the times), which then makes one more sub-step
                        sig = SITE_ACCUMULATED
                    site = ("sub-stepping:" + sig) if sig else "mtest/src/GenericSolver.cxx:options:" + label.split("/")[0]
                    report(site, True,
                           "at the requested time %r the %s component %d is %r with options %s and %r with the baseline options "
                           "(tolerance %.3g)%s" % (T, worst[0], worst[1], worst[2], label, worst[3], worst[4],
                                                   "; the time loop stopped at t=%r instead of %r after %d attempts (see property C48)"
                                                   % (reached, T, len(atts_T)) if sig else ""),
                           {"request": line, "baseline_request": runs[0][1], "options": o, "attempts": per.get(T, [])[-6:],
                            "implementation": pretty(a)[:3000], "baseline": pretty(runs[0][2])[:3000]})
                    break
    off += len(mt_reqs)
    # ---- poisoned first attempt: an algorithm under which the run aborts while the others complete
    pois_groups = {}
    for k, (pi_, o, line) in enumerate(pois):
        a = impl[off + k] if off + k < len(impl) else "missing"
        pois_groups.setdefault(pi_, []).append((o, line, a))
    pois_completed = 0
    for pi_, runs in pois_groups.items():
        p = problems[pi_]
        n = p["ndv"] + sum(1 for kk, _, _ in p["cons"] if kk == "g")
        parsed = [(o, line, a) + parse_mt(a, n, p["ndv"]) for o, line, a in runs]
        ends = [x for x in parsed if x[3] == "end"]
        pois_completed += len(ends)
        ref = [x for x in parsed if x[0]["aa"] == "none"]
        if not ref or ref[0][3] != "end":
            continue
        lam = 3.0
        lmax = max(sum(abs(x) for x in row) for row in p["D"]) + 3 * abs(p["nl"])
        tol_e = 10 * (p["eeps"] + p["seps"] / lam)
        tol_s = 10 * (p["seps"] + lmax * p["eeps"]) + lmax * tol_e
        for o, line, a, v, rr, per in parsed:
            hist["poisoned:" + v.split(":")[0]] = hist.get("poisoned:" + v.split(":")[0], 0) + 1
            distinct.add(("poisoned", o["aa"], o["ppolicy"], o["dyn"], v))
            if o["aa"] == "none":
                continue
            src = SRC.get(o["aa"], "AccelerationAlgorithmFactory")
            if v != "end":
                disagreements += 1
                others = sorted(x[0]["aa"] for x in ends)
                report("mtest/src/GenericSolver.cxx:acceleration:abort-after-rejected-attempt", True,
                       "the first attempt of the first time step is rejected (non finite forces) and the solver sub-steps: "
                       "the run then aborts (%s) with the %s acceleration algorithm while it completes without acceleration "
                       "and with %d other algorithms (%s ...)" % (v, o["aa"], len(others) - 1, ", ".join(others[:5])),
                       {"request": line, "options": o, "implementation": pretty(a)[:3000],
                        "reference_request_without_acceleration": ref[0][1], "algorithms_that_complete": others,
                        "attempts": [per.get(T, [])[-8:] for T in list(per)[:2]]})
                continue
            for T, (u, sg) in rr.items():
                ub, sb = ref[0][4].get(T, (None, None))
                if ub is None:
                    continue
                compared += 1
                bad = [c for c in range(n) if not abs(u[c] - ub[c]) <= tol_e] + \
                      [c for c in range(p["ndv"]) if not abs(sg[c] - sb[c]) <= tol_s]
                if bad:
                    disagreements += 1
                    report("mtest/src/%s.cxx:after-rejected-attempt" % src, True,
                           "after a rejected first attempt the results at %r with %s differ from the run without acceleration "
                           "(component %d)" % (T, o["aa"], bad[0]),
                           {"request": line, "reference_request_without_acceleration": ref[0][1], "options": o})
                    break
    off += len(pois)
    # ---- an attempt is a function of its inputs only (restart at preExecuteTasks)
    stale = {}
    for j, r in enumerate(fresh):
        a_p = impl[off + 2 * j] if off + 2 * j < len(impl) else "missing"
        a_f = impl[off + 2 * j + 1] if off + 2 * j + 1 < len(impl) else "missing"
        tail_p = a_p.split()[-r["nS"] * r["psz"]:]
        tail_f = a_f.split()[-r["nS"] * r["psz"]:]
        hist["fresh:" + r["name"]] = hist.get("fresh:" + r["name"], 0) + 1
        if not a_p.startswith("v") or not a_f.startswith("v"):
            report("fresh:harness", False, "request failed: " + (a_p + " / " + a_f)[:200], {"request": r["polluted"]})
            continue
        if tail_p != tail_f:
            stale[r["name"]] = stale.get(r["name"], 0) + 1
            if r["name"] not in ANCHORED:
                continue      # outside the anchors of the property: recorded in the evidence as an observation
            disagreements += 1
            src = SRC.get(r["name"])
            report(("mtest/src/%s.cxx" % src if src else "mtest/src/" + r["name"]) + ":attempt-depends-on-previous-attempt", True,
                   "%s: the same calls give different accelerated iterates on a fresh object and after a previous (polluted) "
                   "attempt followed by preExecuteTasks: the attempt is not a function of its inputs only" % r["name"],
                   {"request": r["polluted"], "fresh_request": r["fresh"], "after_polluted_attempt": pretty(" ".join(tail_p))[:1500],
                    "fresh": pretty(" ".join(tail_f))[:1500]})
    off += 2 * len(fresh)
    # ---- protocol of the calls made by GenericSolver::execute to the acceleration algorithm
    for j, r in enumerate(protos):
        a = impl[off + j] if off + j < len(impl) else "missing"
        f = a.split()
        hist["proto:" + (f[0] if f else "missing").split(":")[0]] = hist.get("proto:" + (f[0] if f else "missing").split(":")[0], 0) + 1
        if not f or f[0].startswith("err") or f[0] == "missing":
            report("proto:harness", False, "protocol request failed: " + a[:200], {"request": r["line"]})
            continue
        ev = f[1:]
        exp = expected_protocol(r, ev.count("a"))
        distinct.add(("proto", r["dyn"], r["ppolicy"], f[0], min(ev.count("a"), 6)))
        if ev != exp:
            disagreements += 1
            k = next((i for i, (x, y) in enumerate(zip(ev + ["-"], exp + ["-"])) if x != y), 0)
            report("mtest/src/GenericSolver.cxx:iterate:acceleration-protocol", True,
                   "GenericSolver::execute does not restart / run / close the acceleration algorithm once per resolution attempt: "
                   "calls %s, expected %s (first difference at event %d)" % (" ".join(ev[:24]), " ".join(exp[:24]), k),
                   {"request": r["line"], "request_decoded": pretty(r["line"]), "script": r["script"], "calls": ev, "expected": exp,
                    "legend": "a = attempt (prepare), p = preExecuteTasks, x<i> = execute at iteration i, q = postExecuteTasks"})
    found_sites = {k.split(":")[0] for k, v in classes.items() if v[0]}
    for key, (found, what, rep) in sorted(classes.items()):
        if key.startswith("corr:") and key.split(":")[1] in found_sites:
            continue      # the same source file is already reported with a concrete failing input
        ck.violation(key, what, rep, found)
    ck.assumptions += [
        "M: Model.lean (Cast3M, secant, Irons-Tuck, Steffensen) is tied to the C++ by differential execution on seeded call histories (bit-exact on Float); it is not generated from the sources",
        "NOT modelled: UAnderson / FAnderson (TFEL/Math/AccelerationAlgorithms templates) and the alternate/crossed variants: only exercised numerically (fixed-point observation, option-set runs)",
        "uniqueness of the converged state (well-posedness of the mechanical problem) is a HYPOTHESIS of the property: the theorems bound the imposed components only; the numerical exploration uses a strictly monotone mock behaviour (stiffness eigenvalues >= 3) and tolerances 10*(eeps + seps/3)",
        "rounding modes are outside any exact model: explored numerically (UpWard, DownWard, TowardZero; Random is not reproducible and left out)",
        "the mock behaviour of harness/C48/mockbehaviour.hxx stands for a generated behaviour",
    ]
    return ck.finish({
        "evaluations": len(accs) + len(fps) + len(mt_reqs) + len(pois) + 2 * len(fresh) + len(protos), "distinct_nontrivial": len(distinct),
        "rule": "acc requests = seeded call histories (geometric decay, random, stalled with repeated calls, tiny values; 1-3 attempts per object; zero residuals/corrections injected) for the four modelled algorithms (distinct = (algorithm, style, #calls bucket)); mt requests = problems x option sets (distinct = (acceleration, prediction, stiffness type, rounding, sub-stepping, mode, verdict) observed)",
        "exhaustive": False, "disagreements": disagreements,
        "traces_validated_against_impl": len(accs),
        "fixed_point_calls_checked_on_implementation": len(fps),
        "observation_unmodelled_algorithms_fixed_point_kept_vs_moved": fp_obs,
        "option_runs_completed": completed, "states_compared_with_baseline": compared,
        "poisoned_first_attempt_runs": len(pois), "poisoned_first_attempt_runs_completed": pois_completed,
        "fresh_vs_polluted_attempts_compared": len(fresh), "observation_algorithms_whose_attempt_depends_on_the_previous_attempt": stale,
        "solver_protocol_traces_checked": len(protos),
        "histogram": hist,
        "samples": [pretty(accs[0]["line"])[:200], pretty(impl[0])[:200] if impl else "?", mt_reqs[1][2][:120] + " ..."],
    })
