"""Shared support of the generated-behaviour checks C41..C44: run the current mfront, compile a tracer against the
generated sources with NumericType / mfront_gb_real = verif::Sym, parse the DAG dumps."""
import os
import re
import shutil
from concurrent.futures import ThreadPoolExecutor

import emit
import vlib

REPO_SRCS = ["/src/Exception/ContractViolation.cxx", "/src/Exception/TFELException.cxx", "/src/Material/BoundsCheck.cxx",
             "/src/Material/MaterialException.cxx", "/src/Math/LUException.cxx", "/src/Math/MathException.cxx"]


def mfront_binary(ck):
    """path of the mfront executable built from the tree under verification"""
    try:
        ck.ensure_targets("mfront")
    except vlib.BuildError as e:
        if "no build tree of its own" not in e.what:
            raise
        # scratch worktree without a build tree (mutation tests of headers / .mfront sources): the code
        # generators of the worktree are NOT exercised; say so
        ck.notes.append("VERIF_REPO has no build tree: mfront of %s used, generator sources of the worktree not exercised" % vlib.BUILD)
        ck.log("WARNING: using the mfront binary of", vlib.BUILD)
    for root, _, files in os.walk(os.path.join(vlib.BUILD, "mfront", "src")):
        if "mfront" in files:
            return os.path.join(root, "mfront")
    raise vlib.BuildError("mfront executable not found under %s" % vlib.BUILD, "")


def lib_dirs():
    dirs = set()
    for root, _, files in os.walk(vlib.BUILD):
        if any(f.endswith(".so") for f in files):
            dirs.add(root)
    return ":".join(sorted(dirs))


def generate(ck, sources, sub="gen"):
    """run `mfront --interface=generic` on .mfront files (relative to the repo or absolute); returns the directory"""
    exe = mfront_binary(ck)
    d = ck.path(sub)
    shutil.rmtree(d, ignore_errors=True)
    os.makedirs(d)
    srcs = [s if os.path.isabs(s) else os.path.join(vlib.REPO, s) for s in sources]
    p = ck.run([exe, "--interface=generic"] + srcs, cwd=d, env={"LD_LIBRARY_PATH": lib_dirs()}, timeout=600)
    if p.returncode != 0:
        raise vlib.BuildError("mfront fails on %s" % " ".join(os.path.basename(s) for s in srcs), (p.stdout + p.stderr)[-4000:])
    return d


def build_tracer(ck, name, src, gen, behaviours, extra_flags=()):
    """compile harness/<src> together with the generated src/<B>.cxx of `behaviours`"""
    R = vlib.REPO
    sources = [src] + [os.path.join(gen, "src", b + ".cxx") for b in behaviours] + [R + s for s in REPO_SRCS]
    return ck.cxx(name, sources, flags=["-fno-access-control"] + list(extra_flags),
                  includes=[gen, os.path.join(gen, "include"), R + "/mfront/include"], opt="-O0")


def build_many(ck, jobs, workers=2):
    """jobs: list of (name, src, gen, behaviours[, flags]); at most `workers` compilations at a time"""
    with ThreadPoolExecutor(max_workers=workers) as ex:
        futs = [(j[0], ex.submit(build_tracer, ck, *j)) for j in jobs]
        return {n: f.result() for n, f in futs}


def run_tracer(ck, binary, out, shadow=None):
    env = {"VERIF_SHADOW": shadow} if shadow else {}
    p = ck.run([binary], env=env, timeout=900)
    if p.returncode != 0:
        raise vlib.BuildError("tracer %s failed on the code generated from the current tree (exit %d)" % (os.path.basename(binary), p.returncode),
                              p.stdout[-500:] + p.stderr[-3000:])
    path = ck.write(out, p.stdout)
    return path, emit.parse(p.stdout)


def shadows(text, unit):
    """node id -> shadow value, output name -> node id of a unit in a dump"""
    m = re.search(r"unit %s\n(.*?)end %s\n" % (re.escape(unit), re.escape(unit)), text, re.S)
    sh, outs = {}, {}
    if m:
        for line in m.group(1).splitlines():
            f = line.split()
            if f[0] == "n":
                sh[int(f[1])] = float(line.split(";")[1])
            elif f[0] == "out":
                outs[f[1]] = int(f[2])
    return sh, outs
