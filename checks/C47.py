"""C47 — the build-target registry (src/targets.lst) survives histories and crashes (tie: M + crash injection).

Parties:
  * the implementation: harness/C47/harness.cxx calling the real `operator<<`, `read<TargetsDescription>` (on the
    tokens of the real CxxTokenizer), `mergeTargetsDescription` compiled from the current tree (ASan/UBSan;
    the token vector handed to the reader is exactly sized so that `*end()` is a reported overflow);
  * the Lean model lean/TfelVerif/C47/Model.lean (through c47driver), on top of the C31 tokenizer model;
  * the property's own predicates, evaluated in python on the implementation's answers:
    read(write t) = t on the stated alphabet, merge = union, every strict prefix of a written registry is
    rejected (or is the whole registry but for its final newline), and after a crash at any write of a run the
    next run either logs the damaged registry or keeps every library registered before.
Thorough tier: the real `mfront` binary is run over histories in a scratch directory with an LD_PRELOAD
interposer that kills it at the k-th open/write/close on targets.lst, for every k.
"""
import os
import random
import select
import shutil
import subprocess
import time
from concurrent.futures import ThreadPoolExecutor

import vlib

PROPS = ["TfelVerif.C47.Props"]
MFRONT_SOURCES = ["TargetsDescription", "LibraryDescription", "SpecificTargetDescription",
                  "CompiledTargetDescriptionBase", "MFrontUtilities", "DSLUtilities"]
UTIL_SOURCES = ["CxxTokenizer", "Token", "CxxTokenizerOptions", "StringAlgorithms", "CxxKeywords"]
LIBS = ["TFELMFront", "MFrontLogStream", "TFELMaterial", "TFELMathParser", "TFELGlossary", "TFELSystem",
        "TFELUtilities", "TFELException", "TFELConfig", "TFELUnicodeSupport", "TFELMath", "TFELNUMODIS"]
SITE_READ = "mfront/src/TargetsDescription.cxx:read<TargetsDescription>"
SITE_MERGE = "mfront/src/TargetsDescription.cxx:mergeTargetsDescription"
SITE_RUN = "mfront/src/MFront.cxx:analyseTargetsFile/writeTargetsDescription"

SAFE = "abcdefghijklmnopqrstuvwxyzABCDEFGHIJKLMNOPQRSTUVWXYZ0123456789/._-+$(){} <>=:;,@#*%!&|^~?[]'\t"
QUOTED = SAFE + '"""'          # list elements: the writer escapes double quotes
HOSTILE = SAFE + '""\\\\\n'


def hx(s):
    return s.encode("latin1").hex() if s else "-"


def unhx(h):
    return "" if h == "-" else bytes.fromhex(h).decode("latin1")


# ----------------------------------------------------------------------------- descriptions (python side)
VEC_FIELDS = ["sources", "cppflags", "include_directories", "ldflags", "link_directories", "link_libraries", "epts",
              "deps"]
TGT_FIELDS = ["deps", "cmds", "sources", "libraries"]


def enc_vec(v):
    return " ".join([str(len(v))] + [hx(x) for x in v])


def enc_desc(d):
    out = [str(len(d["libs"]))]
    for l in d["libs"]:
        out += [hx(l["name"]), hx(l["type"]), hx(l["prefix"]), hx(l["suffix"]), hx(l["install_path"])]
        out += [enc_vec(l[f]) for f in VEC_FIELDS]
    out.append(enc_vec(d["headers"]))
    out.append(str(len(d["targets"])))
    for name in sorted(d["targets"], key=lambda s: s.encode("latin1")):
        out.append(hx(name))
        out += [enc_vec(d["targets"][name][f]) for f in TGT_FIELDS]
    return " ".join(out)


def dec_desc(words):
    it = iter(words)

    def vec():
        n = int(next(it))
        return [unhx(next(it)) for _ in range(n)]
    d = {"libs": [], "headers": [], "targets": {}}
    for _ in range(int(next(it))):
        l = {"name": unhx(next(it)), "type": unhx(next(it)), "prefix": unhx(next(it)), "suffix": unhx(next(it)),
             "install_path": unhx(next(it))}
        for f in VEC_FIELDS:
            l[f] = vec()
        d["libs"].append(l)
    d["headers"] = vec()
    for _ in range(int(next(it))):
        name = unhx(next(it))
        d["targets"][name] = {f: vec() for f in TGT_FIELDS}
    return d


class Gen:
    def __init__(self, rng, cpp, inc):
        self.r, self.cpp, self.inc = rng, cpp, inc

    def s(self, alpha, lo=1, hi=12):
        return "".join(self.r.choice(alpha) for _ in range(self.r.randint(lo, hi)))

    def vec(self, alpha, first=None, nmax=4):
        v = [first] if first is not None else []
        for _ in range(self.r.choice([0, 0, 1, 2, nmax])):
            x = self.s(alpha)
            if x not in v:
                v.append(x)
        return v

    def lib(self, name, alpha, normal=True):
        r = self.r
        raw = SAFE if alpha is QUOTED else alpha
        l = {"name": name, "type": r.choice("SSM"), "prefix": r.choice(["lib", "lib", "", "cyg"]),
             "suffix": r.choice(["so", "so", "dll", "dylib"]),
             "install_path": r.choice(["", "", self.s(raw)])}
        for f in VEC_FIELDS:
            l[f] = self.vec(alpha)
        if normal:
            l["cppflags"] = self.vec(alpha, self.cpp)
            l["include_directories"] = self.vec(alpha, self.inc)
        return l

    def desc(self, alpha, names=None, normal=True, nlibs=None):
        r = self.r
        names = names or ["Umat", "Castem", "Aster", "Generic", "lib-x", "B"]
        n = nlibs if nlibs is not None else r.choice([0, 1, 1, 2, 3])
        d = {"libs": [self.lib(nm, alpha, normal) for nm in r.sample(names, min(n, len(names)))],
             "headers": self.vec(alpha), "targets": {}}
        for _ in range(r.choice([0, 0, 1, 2])):
            name = r.choice(["all", "all", "check", "doc", self.s(SAFE.replace(" ", ""))])
            d["targets"][name] = {f: self.vec(alpha) for f in TGT_FIELDS}
        return d


def is_normal(d, cpp, inc):
    """the hypotheses of read(write t) = t, apart from the alphabet"""
    names = [l["name"] for l in d["libs"]]
    if len(set(names)) != len(names):
        return False
    for l in d["libs"]:
        for f in VEC_FIELDS:
            if "" in l[f] or len(set(l[f])) != len(l[f]):
                return False
        if l["cppflags"][:1] != [cpp] or l["include_directories"][:1] != [inc]:
            return False
    if "" in d["headers"] or "" in d["targets"]:
        return False
    return True


def in_alphabet(d):
    """the alphabet of the round trip: no backslash and no newline anywhere; no double quote in the strings
    written without escaping (names, prefixes, suffixes, installation paths, target names)"""
    def ok(s):
        return not any(c in s for c in '\\\n')

    def okraw(s):
        return ok(s) and '"' not in s
    for l in d["libs"]:
        if not all(okraw(l[k]) for k in ("name", "prefix", "suffix", "install_path")):
            return False
        if not all(ok(x) for f in VEC_FIELDS for x in l[f]):
            return False
    if not all(ok(x) for x in d["headers"]):
        return False
    for n, t in d["targets"].items():
        if not okraw(n) or not all(ok(x) for f in TGT_FIELDS for x in t[f]):
            return False
    return True


def lib_sets(d):
    return {l["name"]: {f: set(x for x in l[f] if x) for f in VEC_FIELDS} for l in d["libs"]}


def contains(big, small):
    """every library / source / entry point ... of `small` is recorded in `big`"""
    b, s = lib_sets(big), lib_sets(small)
    for name, fields in s.items():
        if name not in b:
            return "library %r lost" % name
        for f, vals in fields.items():
            if not vals <= b[name][f]:
                return "library %r: %s lost %r" % (name, f, sorted(vals - b[name][f])[:3])
    if not set(x for x in small["headers"]) <= set(big["headers"]):
        return "headers lost"
    return None


# ----------------------------------------------------------------------------- running
def run_batch(ck, exe, lines, first=None, env=None, max_restarts=60):
    """one answer per request; a request that kills the process gets 'CRASH …' / 'HANG' and the batch resumes"""
    out = [None] * len(lines)
    start = 0
    restarts = 0
    retries = 0
    while start < len(lines):
        text = (first + "\n" if first else "") + "".join(l + "\n" for l in lines[start:])
        p = ck.run([exe], input=text, timeout=1500, env=env)
        got = p.stdout.splitlines()
        if first:
            got = got[1:]
        k = 0
        for g in got:
            if start + k >= len(lines) or g == "HANG":
                break
            out[start + k] = g
            k += 1
        if start + k >= len(lines):
            break
        if got[k:k + 1] == ["HANG"]:
            out[start + k] = "HANG"
        else:
            rep = [l for l in p.stderr.splitlines() if "ERROR" in l or "SUMMARY" in l or "runtime error" in l]
            if not rep and p.returncode >= 0:
                # the process ended without a sanitizer report or a signal: it could not start (overloaded machine,
                # or a library of the build tree being relinked by a concurrent build): not a verdict about the
                # request; wait and run it again, and give up without a verdict when it persists
                retries += 1
                if retries <= 4:
                    time.sleep(5 * retries)
                    start += k
                    continue
                for i in range(start + k, len(lines)):
                    out[i] = "NOT-RUN"
                ck.notes.append("harness/driver could not be started (rc=%d): %d requests not run" %
                                (p.returncode, len(lines) - start - k))
                break
            out[start + k] = "CRASH rc=%d %s" % (p.returncode, " | ".join(rep)[:400])
        retries = 0
        start += k + 1
        restarts += 1
        if restarts > max_restarts:
            for i in range(start, len(lines)):
                out[i] = "NOT-RUN"
            break
    return out


class Session:
    """a harness / driver process kept alive for request-by-request interaction (restarted when it dies)"""

    def __init__(self, ck, exe, first=None, env=None):
        self.ck, self.exe, self.first, self.env = ck, exe, first, env
        self.p = None
        self.restarts = 0

    def start(self):
        e = dict(os.environ)
        if self.env:
            e.update(self.env)
        self.err = open(self.ck.path("session_%s.err" % os.path.basename(self.exe)), "w+")
        self.p = subprocess.Popen([self.exe], stdin=subprocess.PIPE, stdout=subprocess.PIPE, stderr=self.err,
                                  text=True, bufsize=1, env=e, cwd=self.ck.work)
        if self.first:
            self.p.stdin.write(self.first + "\n")
            self.p.stdin.flush()
            self.p.stdout.readline()

    def ask(self, line, _retry=0):
        if self.p is None or self.p.poll() is not None:
            self.start()
        try:
            self.p.stdin.write(line + "\n")
            self.p.stdin.flush()
            ready, _, _ = select.select([self.p.stdout], [], [], 180)
            if ready:
                out = self.p.stdout.readline()
            else:
                self.p.kill()
                out = "HANG\n"
        except (BrokenPipeError, OSError):
            out = ""
        if out.endswith("\n") and out.strip() != "HANG":
            return out.rstrip("\n")
        # the process died on this request
        try:
            self.p.wait(timeout=60)
        except subprocess.TimeoutExpired:
            self.p.kill()
        rc = self.p.returncode
        self.err.seek(0)
        rep = [l for l in self.err.read().splitlines() if "ERROR" in l or "SUMMARY" in l or "runtime error" in l]
        self.p = None
        self.restarts += 1
        if out.strip() == "HANG":
            return "HANG"
        if not rep and rc is not None and rc >= 0:
            # could not start (see run_batch): not a verdict about the request
            if _retry < 4:
                time.sleep(5 * (_retry + 1))
                return self.ask(line, _retry + 1)
            return "NOT-RUN"
        return "CRASH rc=%s %s" % (rc, " | ".join(rep)[:400])

    def close(self):
        if self.p is not None and self.p.poll() is None:
            try:
                self.p.stdin.close()
                self.p.wait(timeout=30)
            except Exception:
                self.p.kill()
        self.p = None


def build_harness(ck):
    jobs = [("m_%s.o" % n, vlib.REPO + "/mfront/src/%s.cxx" % n) for n in MFRONT_SOURCES]
    jobs += [("u_%s.o" % n, vlib.REPO + "/src/Utilities/%s.cxx" % n) for n in UTIL_SOURCES]
    jobs.append(("h_main.o", "C47/harness.cxx"))
    inc = [vlib.REPO + "/mfront/include", vlib.BUILD + "/mfront/include"]
    with ThreadPoolExecutor(max_workers=2) as ex:
        futs = [ex.submit(ck.cxx, name, [src], flags=["-c"], sanitize=True, includes=inc) for name, src in jobs]
        objs = [f.result() for f in futs]
    return ck.cxx("c47h", [], libs=objs + ck.libflags(*LIBS), sanitize=True)


def answer_desc(a):
    """('ok', desc) | ('err', text) | ('crash', text) | ('notrun', '')"""
    if a is None or a == "NOT-RUN":
        return ("notrun", "")
    if a.startswith("ok"):
        return ("ok", dec_desc(a.split()[1:]))
    if a.startswith("err"):
        try:
            return ("err", unhx(a.split()[1])[:300])
        except (ValueError, IndexError):
            return ("err", a[4:300])
    return ("crash", a)


def run(ck):
    rng = random.Random(ck.seed)
    if vlib.BUILD_MATCHES_REPO:
        ck.ensure_targets("TFELMFront", "mfront")
    else:
        ck.notes.append("scratch worktree: the anchored sources are compiled from it into the harness, the other "
                        "symbols come from the libraries of %s; the mfront-binary stage is skipped" % vlib.BUILD)
    harness = build_harness(ck)
    driver = ck.lean_exe("c47driver", "TfelVerif/C47/Driver.lean")
    res = ck.lean(PROPS, PROPS)
    ck.lean_violations(res)
    if not ck.quick:
        for (mod, log) in ck.leanchecker(PROPS):
            ck.violation("leanchecker:" + mod, "leanchecker rejects %s" % mod, {"log": log}, False)
    env = {"ASAN_OPTIONS": "detect_leaks=0:symbolize=0"}

    consts = []
    for _ in range(4):      # the first start of the sanitised harness occasionally fails on an overloaded machine
        consts = (run_batch(ck, harness, ["C"], env=env)[0] or "").split()
        if len(consts) == 3 and consts[0] == "ok":
            break
    if len(consts) != 3 or consts[0] != "ok":
        raise vlib.BuildError("the C47 harness does not run", " ".join(consts)[:2000])
    cpp, inc = unhx(consts[1]), unhx(consts[2])
    kline = "K %s %s" % (hx(cpp), hx(inc))
    g = Gen(rng, cpp, inc)

    reported = set()

    def report(key, what, rep, found):
        if key in reported:
            return
        reported.add(key)
        # keys are matched against known_findings.txt: no white space
        ck.violation("-".join(key.split()), what, rep, found)

    stats = {"roundtrip_alphabet": 0, "roundtrip_excluded": {}, "merge": 0, "prefixes": 0, "prefix_outcomes": {},
             "histories": 0, "runs": 0, "crashes_injected": 0, "crash_outcomes": {}, "disagreements": 0}

    def both(lines):
        a = run_batch(ck, harness, lines, env=env)
        m = run_batch(ck, driver, lines, first=kline)
        return a, m

    def corr(kind, req, a, m):
        """model and implementation must agree (status and payload; error texts are not compared)"""
        sa, sm = (a or "")[:3], (m or "")[:3]
        same = (a == m) if sa == "ok " else (sa == sm)
        if not same:
            stats["disagreements"] += 1
            if a is None or a.startswith("CRASH") or a == "HANG" or a == "NOT-RUN" or m == "NOT-RUN":
                return
            report("corr:%s" % kind, "correspondence Model.lean vs the implementation broken on a %s request" % kind,
                   {"request": req[:3000], "implementation": (a or "")[:1500], "model": (m or "")[:1500]}, False)

    # ---------------------------------------------------------------- (a) read(write t) = t
    n_rt = 120 if ck.quick else 1500
    descs = []
    for i in range(n_rt):
        d = g.desc(HOSTILE if i % 4 == 3 else (QUOTED if i % 4 == 2 else SAFE), normal=(i % 7 != 6))
        descs.append(d)
    wl = ["W " + enc_desc(d) for d in descs]
    wa, wm = both(wl)
    files = []
    for d, req, a, m in zip(descs, wl, wa, wm):
        corr("write", req, a, m)
        files.append(unhx(a.split()[1]) if a and a.startswith("ok") else None)
    rl = ["R " + hx(f) for f in files if f is not None]
    ra, rm = both(rl)
    j = 0
    for d, f in zip(descs, files):
        if f is None:
            continue
        req, a, m = rl[j], ra[j], rm[j]
        j += 1
        st, val = answer_desc(a)
        if st == "notrun":
            continue
        rep = {"description": d, "file": f, "request": req[:2000], "implementation": (a or "")[:1500],
               "model": (m or "")[:1500],
               "replay": "printf '%s\\n' | work/C47/c47h   (harness/C47/harness.cxx)" % req[:200]}
        if st == "crash":
            report(SITE_READ + ":crash", "reading back a registry written by operator<< crashes / sanitizer report: %s"
                   % val[:160], rep, True)
            continue
        corr("read", req, a, m)
        if is_normal(d, cpp, inc) and in_alphabet(d):
            stats["roundtrip_alphabet"] += 1
            if st != "ok" or enc_desc(val) != enc_desc(d):
                report(SITE_READ + ":roundtrip", "read(write t) != t for a description over the stated alphabet "
                       "(%s)" % (val if st == "err" else "different description"), rep, True)
        else:
            why = "normalisation" if in_alphabet(d) else "alphabet"
            out = "error" if st == "err" else ("same" if enc_desc(val) == enc_desc(d) else "different")
            k = why + ":" + out
            stats["roundtrip_excluded"][k] = stats["roundtrip_excluded"].get(k, 0) + 1

    # ---------------------------------------------------------------- (b) merge is a union
    n_m = 150 if ck.quick else 2000
    ml, meta = [], []
    for i in range(n_m):
        names = ["Umat", "Castem", "Aster"]
        d, s1, s2 = (g.desc(SAFE, names) for _ in range(3))
        # same library name => same prefix/suffix/type most of the time (else the merge must throw)
        if rng.random() < 0.85:
            canon = {}
            for x in (d, s1, s2):
                for l in x["libs"]:
                    c = canon.setdefault(l["name"], (l["type"], l["prefix"], l["suffix"]))
                    l["type"], l["prefix"], l["suffix"] = c
        b = rng.choice([0, 1])
        ml.append("M %d %s ; %s" % (b, enc_desc(d), enc_desc(s1)))
        meta.append((d, s1, s2, b))
    ma, mm = both(ml)
    second, second_meta = [], []
    for (d, s1, s2, b), req, a, m in zip(meta, ml, ma, mm):
        st, val = answer_desc(a)
        if st == "notrun":
            continue
        if st == "crash":
            report(SITE_MERGE + ":crash", "mergeTargetsDescription crashes: %s" % val[:160],
                   {"request": req[:2000], "implementation": (a or "")[:800]}, True)
            continue
        corr("merge", req, a, m)
        stats["merge"] += 1
        if st != "ok":
            continue
        for part, nm in ((d, "destination"), (s1, "source")):
            lost = contains(val, part)
            if lost:
                report(SITE_MERGE + ":union", "merge is not a union: %s of the %s" % (lost, nm),
                       {"d": d, "s": s1, "b": b, "merged": val, "request": req[:2000]}, True)
        # idempotence and order-insensitivity need second merges
        second.append("M %d %s ; %s" % (b, enc_desc(val), enc_desc(s1)))
        second_meta.append(("idem", val, None))
        second.append("M %d %s ; %s" % (b, enc_desc(val), enc_desc(s2)))
        second_meta.append(("12", val, (d, s1, s2, b)))
        second.append("M %d %s ; %s" % (b, enc_desc(d), enc_desc(s2)))
        second_meta.append(("2", None, (d, s1, s2, b)))
    sa, sm = both(second)
    third, third_meta = [], []
    pend = {}
    for (kind, val, extra), req, a, m in zip(second_meta, second, sa, sm):
        st, v2 = answer_desc(a)
        corr("merge", req, a, m)
        if st != "ok":
            continue
        if kind == "idem":
            if enc_desc(v2) != enc_desc(val):
                report(SITE_MERGE + ":idempotent", "merging the same description twice changes the result",
                       {"first": val, "second": v2, "request": req[:2000]}, True)
        elif kind == "12":
            pend[id(extra)] = v2
        elif kind == "2":
            d, s1, s2, b = extra
            third.append("M %d %s ; %s" % (b, enc_desc(v2), enc_desc(s1)))
            third_meta.append(extra)
    ta, tm = both(third)
    for extra, req, a, m in zip(third_meta, third, ta, tm):
        st, v21 = answer_desc(a)
        corr("merge", req, a, m)
        v12 = pend.get(id(extra))
        if st == "ok" and v12 is not None:
            if lib_sets(v12) != lib_sets(v21) or set(v12["headers"]) != set(v21["headers"]) or \
                    set(v12["targets"]) != set(v21["targets"]):
                report(SITE_MERGE + ":order", "merging s1 then s2 and s2 then s1 record different sets",
                       {"d": extra[0], "s1": extra[1], "s2": extra[2], "b": extra[3], "s1_then_s2": v12,
                        "s2_then_s1": v21}, True)

    # ---------------------------------------------------------------- (c) prefix-freeness, every cut point
    n_pf = 3 if ck.quick else 25
    for i in range(n_pf):
        d = g.desc(SAFE, nlibs=rng.choice([1, 2]))
        a = run_batch(ck, harness, ["W " + enc_desc(d)], env=env)[0]
        if not a or not a.startswith("ok"):
            continue
        f = unhx(a.split()[1])
        cuts = list(range(len(f) + 1))
        if ck.quick and len(cuts) > 700:
            cuts = sorted(set(rng.sample(cuts, 600) + cuts[-40:] + cuts[:20]))
        pl = ["R " + hx(f[:k]) for k in cuts]
        # once the out-of-bounds read of truncated registries is reported, do not pay a restart for each further one
        limit = 4 if (SITE_READ + ":truncated:out-of-bounds") in reported else 60
        pa = run_batch(ck, harness, pl, env=env, max_restarts=limit)
        pm = run_batch(ck, driver, pl, first=kline)
        for k, req, x, m in zip(cuts, pl, pa, pm):
            if x == "NOT-RUN":
                stats["prefix_outcomes"]["not-run"] = stats["prefix_outcomes"].get("not-run", 0) + 1
                continue
            stats["prefixes"] += 1
            st, val = answer_desc(x)
            kind = st if st != "ok" else ("ok-full" if k >= len(f) - 1 else "ok-smaller")
            if st == "crash":
                kind = "crash:" + ("overflow" if "overflow" in val else "other")
            stats["prefix_outcomes"][kind] = stats["prefix_outcomes"].get(kind, 0) + 1
            rep = {"description": d, "file": f, "cut_at_byte": k, "prefix": f[:k], "request": req[:3000],
                   "implementation": (x or "")[:1200], "model": (m or "")[:600],
                   "replay": "printf 'R %s\\n' | work/C47/c47h   (harness/C47/harness.cxx)" % hx(f[:k])[:400]}
            if st == "crash":
                report(SITE_READ + ":truncated:out-of-bounds",
                       "reading a registry truncated after %d of %d bytes (a crash during writeTargetsDescription) "
                       "dereferences the end of the token list: %s" % (k, len(f), val[:140]), rep, True)
                continue
            corr("read-prefix", req, x, m)
            if k < len(f) - 1 and st == "ok":
                report(SITE_READ + ":truncated:accepted",
                       "a registry truncated after %d of %d bytes is read as a valid smaller registry" % (k, len(f)),
                       rep, True)
            if k >= len(f) - 1 and (st != "ok" or enc_desc(val) != enc_desc(d)) and is_normal(d, cpp, inc):
                report(SITE_READ + ":roundtrip", "the complete registry is not read back", rep, True)

    # ---------------------------------------------------------------- (d) histories with crashes (real read/merge/write)
    n_h = 12 if ck.quick else 150
    hs = Session(ck, harness, env=env)
    ds = Session(ck, driver, first=kline)
    for h in range(n_h):
        stats["histories"] += 1
        registry = None            # file content, None = no file
        recorded = {"libs": [], "headers": [], "targets": {}}   # union of the descriptions of the completed runs
        damaged = False
        names = ["Umat", "Castem", "Aster", "Generic"]
        canon = {}
        for run_i in range(rng.choice([2, 3, 5])):
            d = g.desc(SAFE, names, nlibs=rng.choice([1, 1, 2]))
            d["targets"] = {}
            for l in d["libs"]:
                c = canon.setdefault(l["name"], (l["type"], l["prefix"], l["suffix"]))
                l["type"], l["prefix"], l["suffix"] = c
            req = "U %s %s" % ("none" if registry is None else hx(registry), enc_desc(d))
            a = hs.ask(req)
            m = ds.ask(req)
            if a == "NOT-RUN" or m == "NOT-RUN":
                break
            stats["runs"] += 1
            rep = {"history": h, "run": run_i, "registry_before": registry, "new_description": d,
                   "request": req[:3000], "implementation": (a or "")[:1500], "model": (m or "")[:1500]}
            if a is None or not (a.startswith("ok") or a.startswith("err")):
                key = "truncated:out-of-bounds" if damaged else "crash"
                report(SITE_RUN + ":" + key, "a run on %s registry crashes (%s): neither a report nor a record" %
                       ("a damaged" if damaged else "a", (a or "")[:140]), rep, True)
                outcome = "next-run-crashes"
                stats["crash_outcomes"][outcome] = stats["crash_outcomes"].get(outcome, 0) + 1
                registry, damaged = None, False
                recorded = {"libs": [], "headers": [], "targets": {}}
                continue
            corr("run", req, a, m)
            if a.startswith("err"):
                continue
            _, logged, newhex = a.split()
            new = unhx(newhex)
            back = answer_desc(hs.ask("R " + hx(new)))
            if back[0] == "notrun":
                break
            if damaged:
                outcome = "logged" if logged == "1" else "silent"
                if logged != "1" and back[0] == "ok":
                    lost = contains(back[1], recorded)
                    if lost:
                        outcome = "silent-loss"
                        report(SITE_RUN + ":silent-loss", "after a crash the next run neither reports the damaged "
                               "registry nor keeps what was registered (%s)" % lost, rep, True)
                stats["crash_outcomes"][outcome] = stats["crash_outcomes"].get(outcome, 0) + 1
                if logged == "1":
                    recorded = {"libs": [], "headers": [], "targets": {}}
            elif back[0] == "ok":
                lost = contains(back[1], recorded) or contains(back[1], d)
                if lost:
                    report(SITE_RUN + ":history-union", "the registry after a run does not record the union of the "
                           "runs (%s)" % lost, rep, True)
            if back[0] == "ok":
                recorded = back[1]
            # crash injection: the content after the crash is a prefix of the new content (open(O_TRUNC) + writes)
            if rng.random() < 0.5:
                k = rng.choice([0, 1, len(new) // 2, len(new) - 2, rng.randrange(len(new))])
                registry, damaged = new[:k], True
                stats["crashes_injected"] += 1
            else:
                registry, damaged = new, False

    hs.close()
    ds.close()

    # ---------------------------------------------------------------- thorough: the real mfront binary
    mf = None
    if not ck.quick and vlib.BUILD_MATCHES_REPO:
        mf = mfront_stage(ck, rng, report, stats)

    ck.assumptions += [
        "M: Model.lean (on top of the C31 tokenizer model) is tied to the writer/reader/merge of the tree by "
        "differential execution on seeded random descriptions (exact comparison of the written bytes and of the "
        "descriptions read/merged; error texts are not compared)",
        "filesystem semantics assumed: writeTargetsDescription = open(O_TRUNC) then a sequence of write system calls "
        "whose completed part is a prefix of the new content; a crash leaves {old} U {prefixes of new}",
        "a logged \"can't read file 'src/targets.lst'\" counts as the report of a damaged registry (DESIGN.md decision): "
        "the run then continues and rewrites the registry without the earlier libraries — observed, not an alarm",
        "MFront::exe's de-duplication of specific-target dependencies/commands and the lock (C46) are exercised only "
        "by the thorough-tier runs of the real binary",
    ]
    cov = {
        "evaluations": len(wl) + len(rl) + len(ml) + len(second) + len(third) + stats["prefixes"] + stats["runs"],
        "distinct_nontrivial": stats["roundtrip_alphabet"] + stats["merge"] + stats["prefixes"] + stats["runs"],
        "rule": "distinct = distinct requests (seeded random descriptions; each exercises writer, tokenizer and "
                "reader, or a merge, or one cut point of a written registry, or one run of a history)",
        "exhaustive": False, "samples": [wl[0][:160], rl[0][:160], ml[0][:160]],
    }
    cov.update(stats)
    if mf is not None:
        cov["mfront_binary"] = mf
    return ck.finish(cov)


# ----------------------------------------------------------------------------- the real binary under crash injection
INTERPOSER = r"""
#define _GNU_SOURCE
#include <dlfcn.h>
#include <fcntl.h>
#include <stdarg.h>
#include <stdio.h>
#include <stdlib.h>
#include <string.h>
#include <unistd.h>
#include <signal.h>
#include <sys/uio.h>
#include <semaphore.h>
#include <sys/stat.h>
/* mfront serialises its runs with ONE named semaphore per user (/mfront-<euid>): a killed run would leave it
   locked and block every other mfront of this user on the machine. The runs of this check use a private name. */
sem_t* sem_open(const char* name, int oflag, ...) {
  static sem_t* (*real)(const char*, int, ...) = 0;
  if (!real) real = dlsym(RTLD_NEXT, "sem_open");
  mode_t m = 0; unsigned v = 0;
  if (oflag & O_CREAT) { va_list a; va_start(a, oflag); m = va_arg(a, mode_t); v = va_arg(a, unsigned); va_end(a); }
  const char* sfx = getenv("C47_SEM_SUFFIX");
  char buf[512];
  snprintf(buf, sizeof(buf), "%s%s", name, sfx ? sfx : "-c47");
  return real(buf, oflag, m, v);
}
static int watched[1024];
static int count = 0;
static int ends(const char* p) { size_t n = strlen(p); return n >= 11 && strcmp(p + n - 11, "targets.lst") == 0; }
static void tick(const char* what) {
  const char* k = getenv("C47_KILL_AT");
  const char* log = getenv("C47_LOG");
  if (log) { FILE* f = fopen(log, "a"); if (f) { fprintf(f, "%d %s\n", count, what); fclose(f); } }
  if (k && atoi(k) == count) { raise(SIGKILL); }
  ++count;
}
static int is_write(int flags) { return (flags & O_ACCMODE) != O_RDONLY; }
int open(const char* p, int flags, ...) {
  static int (*real)(const char*, int, ...) = 0;
  if (!real) real = dlsym(RTLD_NEXT, "open");
  mode_t m = 0; if (flags & O_CREAT) { va_list a; va_start(a, flags); m = va_arg(a, mode_t); va_end(a); }
  if (ends(p) && is_write(flags)) tick("open");
  int fd = real(p, flags, m);
  if (fd >= 0 && fd < 1024) watched[fd] = ends(p) && is_write(flags);
  return fd;
}
int open64(const char* p, int flags, ...) {
  static int (*real)(const char*, int, ...) = 0;
  if (!real) real = dlsym(RTLD_NEXT, "open64");
  mode_t m = 0; if (flags & O_CREAT) { va_list a; va_start(a, flags); m = va_arg(a, mode_t); va_end(a); }
  if (ends(p) && is_write(flags)) tick("open");
  int fd = real(p, flags, m);
  if (fd >= 0 && fd < 1024) watched[fd] = ends(p) && is_write(flags);
  return fd;
}
int openat(int d, const char* p, int flags, ...) {
  static int (*real)(int, const char*, int, ...) = 0;
  if (!real) real = dlsym(RTLD_NEXT, "openat");
  mode_t m = 0; if (flags & O_CREAT) { va_list a; va_start(a, flags); m = va_arg(a, mode_t); va_end(a); }
  if (ends(p) && is_write(flags)) tick("open");
  int fd = real(d, p, flags, m);
  if (fd >= 0 && fd < 1024) watched[fd] = ends(p) && is_write(flags);
  return fd;
}
/* libstdc++'s basic_filebuf opens and closes through fopen/fclose (whose open/close are internal to libc) */
static int mode_writes(const char* m) { return strchr(m, 'w') || strchr(m, 'a') || strchr(m, '+'); }
FILE* fopen(const char* p, const char* m) {
  static FILE* (*real)(const char*, const char*) = 0;
  if (!real) real = dlsym(RTLD_NEXT, "fopen");
  if (ends(p) && mode_writes(m)) tick("open");
  FILE* f = real(p, m);
  if (f) { int fd = fileno(f); if (fd >= 0 && fd < 1024) watched[fd] = ends(p) && mode_writes(m); }
  return f;
}
FILE* fopen64(const char* p, const char* m) {
  static FILE* (*real)(const char*, const char*) = 0;
  if (!real) real = dlsym(RTLD_NEXT, "fopen64");
  if (ends(p) && mode_writes(m)) tick("open");
  FILE* f = real(p, m);
  if (f) { int fd = fileno(f); if (fd >= 0 && fd < 1024) watched[fd] = ends(p) && mode_writes(m); }
  return f;
}
int fclose(FILE* f) {
  static int (*real)(FILE*) = 0;
  if (!real) real = dlsym(RTLD_NEXT, "fclose");
  int fd = f ? fileno(f) : -1;
  if (fd >= 0 && fd < 1024 && watched[fd]) { tick("close"); watched[fd] = 0; }
  return real(f);
}
ssize_t write(int fd, const void* b, size_t n) {
  static ssize_t (*real)(int, const void*, size_t) = 0;
  if (!real) real = dlsym(RTLD_NEXT, "write");
  if (fd >= 0 && fd < 1024 && watched[fd]) tick("write");
  return real(fd, b, n);
}
ssize_t writev(int fd, const struct iovec* v, int n) {
  static ssize_t (*real)(int, const struct iovec*, int) = 0;
  if (!real) real = dlsym(RTLD_NEXT, "writev");
  if (fd >= 0 && fd < 1024 && watched[fd]) tick("writev");
  return real(fd, v, n);
}
int close(int fd) {
  static int (*real)(int) = 0;
  if (!real) real = dlsym(RTLD_NEXT, "close");
  if (fd >= 0 && fd < 1024 && watched[fd]) { tick("close"); watched[fd] = 0; }
  return real(fd);
}
"""

MFRONT_FILE = """@Parser MaterialLaw;
@Law %s;
@Material M%d;
@Output y;
@Input T;
T.setGlossaryName("Temperature");
@Function { y = %d. + T; }
"""


def mfront_stage(ck, rng, report, stats):
    """histories of runs of the real binary, a crash injected at every open/write/close on targets.lst"""
    out = {"runs": 0, "crash_points": 0, "outcomes": {}, "syscalls_per_update": {}}
    mfront = None
    for root, _, files in os.walk(os.path.join(vlib.BUILD, "mfront")):
        if "mfront" in files and os.access(os.path.join(root, "mfront"), os.X_OK):
            mfront = os.path.join(root, "mfront")
            break
    if mfront is None:
        ck.notes.append("mfront binary not found under the build tree: binary stage skipped")
        return out
    src = ck.write("interpose.c", INTERPOSER)
    lib = ck.path("libc47interpose.so")
    p = vlib.sh(["gcc", "-shared", "-fPIC", "-O1", "-o", lib, src, "-ldl"])
    if p.returncode != 0:
        raise vlib.BuildError("the crash-injection interposer does not compile", p.stdout + p.stderr)
    libdirs = set()
    for root, _, files in os.walk(vlib.BUILD):
        if any(f.endswith(".so") for f in files):
            libdirs.add(root)
    env = dict(os.environ)
    env["LD_LIBRARY_PATH"] = ":".join(sorted(libdirs)) + ":" + env.get("LD_LIBRARY_PATH", "")
    interfaces = ["c", "c++", "excel", "octave"]  # not cpptest: it legitimately refuses laws without @Bounds
    suffix = "-c47-%d" % os.getpid()
    semfile = "/dev/shm/sem.mfront-%d%s" % (os.geteuid(), suffix)

    def run_mfront(wd, law, itf, kill_at=None, timeout=300):
        """(completed process or None when the run blocks, number of watched system calls)"""
        e = dict(env)
        e["LD_PRELOAD"] = lib
        e["C47_SEM_SUFFIX"] = suffix
        e["C47_LOG"] = os.path.join(wd, "syscalls.log")
        if os.path.exists(e["C47_LOG"]):
            os.remove(e["C47_LOG"])
        if kill_at is not None:
            e["C47_KILL_AT"] = str(kill_at)
        try:
            q = subprocess.run([mfront, "--interface=" + itf, law + ".mfront"], cwd=wd, env=e,
                               stdout=subprocess.PIPE, stderr=subprocess.PIPE, text=True, timeout=timeout)
        except subprocess.TimeoutExpired:
            q = None
        n = 0
        if os.path.exists(e["C47_LOG"]):
            n = len(open(e["C47_LOG"]).read().splitlines())
        return q, n

    def libs_of(wd):
        f = os.path.join(wd, "src", "targets.lst")
        if not os.path.exists(f):
            return None, None
        text = open(f, "rb").read().decode("latin1")
        import re
        return text, set(re.findall(r'library : \{\nname   : "([^"]*)"', text))

    n_hist = 4
    for h in range(n_hist):
        wd = ck.path("mf%d" % h)
        shutil.rmtree(wd, ignore_errors=True)
        os.makedirs(wd)
        laws = []
        for i in range(3):
            law = "Law%d_%d" % (h, i)
            open(os.path.join(wd, law + ".mfront"), "w").write(MFRONT_FILE % (law, i, i))
            laws.append(law)
        registered = set()
        # a first uninterrupted run registers many libraries at once, so that the registry exceeds the stream
        # buffer and the later updates need several write system calls (crash points in the middle of the file)
        bulk = []
        for j in range(28):
            law = "Bulk%d_%d" % (h, j)
            open(os.path.join(wd, law + ".mfront"), "w").write(MFRONT_FILE % (law, 100 + j, j))
            bulk.append(law + ".mfront")
        eb = dict(env)
        eb.update({"LD_PRELOAD": lib, "C47_SEM_SUFFIX": suffix})
        try:
            qb = subprocess.run([mfront, "--interface=c"] + bulk, cwd=wd, env=eb, stdout=subprocess.PIPE,
                                stderr=subprocess.PIPE, text=True, timeout=600)
            out["runs"] += 1
            if qb.returncode == 0:
                registered = libs_of(wd)[1] or set()
                out["bulk_registry_bytes"] = len(libs_of(wd)[0] or "")
        except subprocess.TimeoutExpired:
            ck.notes.append("the bulk mfront run blocked: binary stage stopped")
            return out
        for i, law in enumerate(laws):
            itf = rng.choice(interfaces)
            # dry run on a copy to count the system calls of this update, then crash at every one of them
            probe = wd + "_probe"
            shutil.rmtree(probe, ignore_errors=True)
            shutil.copytree(wd, probe)
            q, n = run_mfront(probe, law, itf)
            out["runs"] += 1
            out["syscalls_per_update"][str(n)] = out["syscalls_per_update"].get(str(n), 0) + 1
            if q is None or q.returncode != 0:
                if q is None:
                    ck.notes.append("an uninterrupted mfront run blocked (lock?): binary stage stopped")
                    if os.path.exists(semfile):
                        os.remove(semfile)
                    shutil.rmtree(probe, ignore_errors=True)
                    return out
                report(SITE_RUN + ":mfront-fails", "mfront fails on a generated material law: %s" % q.stderr[-300:],
                       {"stderr": q.stderr[-1500:], "law": law, "interface": itf}, False)
                shutil.rmtree(probe, ignore_errors=True)
                continue
            for k in range(n):
                trial = wd + "_crash"
                shutil.rmtree(trial, ignore_errors=True)
                shutil.copytree(wd, trial)
                qk, _ = run_mfront(trial, law, itf, kill_at=k)
                out["crash_points"] += 1
                text, _ = libs_of(trial)
                # a later run: the killed process died holding mfront's named semaphore
                law2 = laws[(i + 1) % len(laws)]
                q2, _ = run_mfront(trial, law2, itf, timeout=20)
                if q2 is None:
                    out["later_run_blocked_on_the_lock"] = out.get("later_run_blocked_on_the_lock", 0) + 1
                    if os.path.exists(semfile):
                        os.remove(semfile)
                    q2, _ = run_mfront(trial, law2, itf)
                    if q2 is None:
                        out["outcomes"]["later-run-hangs"] = out["outcomes"].get("later-run-hangs", 0) + 1
                        shutil.rmtree(trial, ignore_errors=True)
                        continue
                text2, libs2 = libs_of(trial)
                reportedlog = "can't read file" in (q2.stdout + q2.stderr)
                if q2.returncode != 0:
                    outcome = "later-run-fails(rc=%d)" % q2.returncode
                    report(SITE_RUN + ":later-run-crashes",
                           "after mfront was killed at system call %d (%d bytes of targets.lst left) the next run "
                           "fails with status %d" % (k, len(text or ""), q2.returncode),
                           {"kill_at": k, "registry_after_crash": text, "stderr": q2.stderr[-1500:],
                            "returncode": q2.returncode}, q2.returncode < 0)
                elif reportedlog:
                    outcome = "logged"
                elif libs2 is not None and registered <= libs2:
                    outcome = "kept"
                else:
                    outcome = "silent-loss"
                    report(SITE_RUN + ":silent-loss", "after mfront was killed at system call %d the next run neither "
                           "reports the damaged registry nor keeps the libraries %s" % (k, sorted(registered)),
                           {"kill_at": k, "registry_after_crash": text, "registry_after_next_run": text2,
                            "registered_before": sorted(registered)}, True)
                out["outcomes"][outcome] = out["outcomes"].get(outcome, 0) + 1
                shutil.rmtree(trial, ignore_errors=True)
            shutil.rmtree(probe, ignore_errors=True)
            # the real (uninterrupted) run
            q, _ = run_mfront(wd, law, itf)
            _, libs = libs_of(wd)
            if libs is not None:
                if not registered <= libs:
                    report(SITE_RUN + ":history-union", "an uninterrupted run dropped libraries %s" %
                           sorted(registered - libs), {"before": sorted(registered), "after": sorted(libs)}, True)
                registered = libs
        shutil.rmtree(wd, ignore_errors=True)
    if os.path.exists(semfile):
        os.remove(semfile)
    return out
