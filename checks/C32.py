"""C32 — string utilities meet their specifications (tie: M, exhaustive + random correspondence).

Three parties answer the same requests:
  * the implementation: harness/C32/harness.cxx calling the real functions of
    src/Utilities/StringAlgorithms.cxx (compiled from the current tree, ASan/UBSan, per-call watchdog);
  * the Lean model (lean/TfelVerif/C32/Model.lean through c32driver) about which Props.lean proves
    the property for all strings;
  * `spec` below: the property's own predicate written independently in python
    (bytes.split / bytes.replace / startswith / a regular expression + exact rationals).
implementation != model  and implementation != spec  -> the property fails on a concrete input;
implementation == spec but model differs             -> the correspondence is broken (no failing input).
"""
import itertools
import os
import random
import re
import struct
from fractions import Fraction

import vlib

PROPS = ["TfelVerif.C32.Props"]
SRC = "src/Utilities/StringAlgorithms.cxx"
ALPHA = [b"a", b"b", b","]
BUDGET_MS = 400
MAX_RESTARTS = 20      # per slice; the remaining requests of the slice are then not run


# ----------------------------------------------------------------------------- encoding
def hx(b):
    return b.hex() if b else "-"


def unhx(h):
    return b"" if h == "-" else bytes.fromhex(h)


def show(b):
    return repr(b)[1:]


def fields_line(fs):
    return "l %d" % len(fs) + "".join(" " + hx(f) for f in fs)


# ----------------------------------------------------------------------------- the property, independently
WS = b" \t\n\x0b\x0c\r"
_DEC = rb"(?P<dip>[0-9]*)(?:(?P<ddot>\.)(?P<dfp>[0-9]*))?(?:[eE](?P<dex>[+-]?[0-9]+))?"
_HEX = rb"0[xX](?P<hip>[0-9a-fA-F]*)(?:(?P<hdot>\.)(?P<hfp>[0-9a-fA-F]*))?(?:[pP](?P<hex>[+-]?[0-9]+))?"
_RE = re.compile(rb"[ \t\n\x0b\x0c\r]*(?P<sign>[+-]?)(?:(?P<inf>[iI][nN][fF](?:[iI][nN][iI][tT][yY])?)|"
                 rb"(?P<nan>[nN][aA][nN](?:\([0-9a-zA-Z_]*\))?)|(?P<hexl>" + _HEX + rb")|(?P<decl>" + _DEC + rb"))",
                 re.DOTALL)


def numeral(s):
    """None, or ('fin', neg, Fraction|None, m, e, base) / ('inf', neg) / ('nan', neg) for a complete numeral"""
    m = _RE.fullmatch(s)
    if not m:
        return None
    neg = m.group("sign") == b"-"
    if m.group("inf") is not None:
        return ("inf", neg)
    if m.group("nan") is not None:
        return ("nan", neg)
    if m.group("hexl") is not None:
        ip, fp, ex = m.group("hip"), m.group("hfp") or b"", m.group("hex")
        if not ip and not fp:
            return None
        return ("fin", neg, int(ip + fp, 16), int(ex or b"0") - 4 * len(fp), 2)
    ip, fp, ex = m.group("dip"), m.group("dfp") or b"", m.group("dex")
    if not ip and not fp:
        return None
    return ("fin", neg, int(ip + fp), int(ex or b"0") - len(fp), 10)


DBL_MIN = Fraction(2) ** -1022


def to_double(neg, m, e, base):
    """correctly rounded binary64 of ±m·base^e as glibc strtod returns it: ('d', bits) or 'err' when
    strtod reports ERANGE (overflow, or a tiny inexact result), which std::stod turns into an exception"""
    sign = 1 << 63 if neg else 0
    if m == 0:
        return ("d", sign)
    mag = (len(str(m)) + e) if base == 10 else (m.bit_length() + e) * 0.30103
    if mag > 400:
        return "err"
    if mag < -400:
        return "err"   # rounds to zero, inexact
    q = Fraction(m) * (Fraction(base) ** e)
    try:
        r = q.numerator / q.denominator     # correctly rounded (round-half-even) int/int division
    except OverflowError:
        return "err"
    if r == float("inf"):
        return "err"
    if Fraction(r) < DBL_MIN:
        # tininess is detected after rounding (x86): round with unbounded exponent
        q2 = q * Fraction(2) ** 600
        r2 = q2.numerator / q2.denominator
        tiny = Fraction(r2) < DBL_MIN * Fraction(2) ** 600
        if tiny and Fraction(r) != q:
            return "err"
    bits = struct.unpack("<Q", struct.pack("<d", r))[0]
    return ("d", bits | sign)


def conv_expect(num):
    """what convert<double> must answer for a parsed numeral (None = rejected)"""
    if num is None:
        return "err"
    if num[0] == "inf":
        return ("d", (0xfff0 if num[1] else 0x7ff0) << 48)
    if num[0] == "nan":
        return ("nan", num[1])
    return to_double(num[1], num[2], num[3], num[4])


def conv_match(expect, impl_line):
    f = impl_line.split()
    if expect == "err":
        return impl_line == "err"
    if len(f) != 2 or f[0] != "d":
        return False
    try:
        bits = int(f[1], 16)
    except ValueError:
        return False
    if expect[0] == "nan":
        is_nan = (bits >> 52) & 0x7ff == 0x7ff and bits & ((1 << 52) - 1) != 0
        return is_nan and bool(bits >> 63) == expect[1]
    return bits == expect[1]


def model_num(line):
    """parsed numeral from the Lean driver's answer"""
    f = line.split()
    if line == "err":
        return None
    if f[:2] == ["num", "fin"]:
        return ("fin", f[2] == "1", int(f[3]), int(f[4]), 10)
    if f[:2] == ["num", "hex"]:
        return ("fin", f[2] == "1", int(f[3]), int(f[4]), 2)
    if f[:2] == ["num", "inf"]:
        return ("inf", f[2] == "1")
    if f[:2] == ["num", "nan"]:
        return ("nan", f[2] == "1")
    return "bad"


def spec(req):
    """the answer the property demands (canonical line; for conv: the expectation object)"""
    op = req[0]
    if op == "tokc":
        s, c, keep = req[1], req[2], req[3]
        fs = s.split(c)
        if not keep:
            fs = [f for f in fs if f]
        return fields_line(fs)
    if op == "tokcd":     # two-argument call: the default is "empty fields not asked for"
        return fields_line([f for f in req[1].split(req[2]) if f])
    if op == "toks":
        s, d = req[1], req[2]
        if not d:
            return "err"      # rejected; must not hang
        fs = s.split(d)
        if fs and fs[-1] == b"":
            fs.pop()          # documented observation: a trailing empty field is not returned
        return fields_line(fs)
    if op == "rep":
        s, s1, s2 = req[1:4]
        return "s " + hx(s.replace(s1, s2) if s1 else s)
    if op == "repcc":
        s, c1, c2 = req[1:4]
        return "s " + hx(bytes(c2[0] if x == c1[0] else x for x in s))
    if op == "repcs":
        s, c, n = req[1:4]
        return "s " + hx(b"".join(n if x == c[0] else bytes([x]) for x in s))
    if op == "sw":
        return "b 1" if req[1].startswith(req[2]) else "b 0"
    if op == "ew":
        return "b 1" if req[1].endswith(req[2]) else "b 0"
    if op == "conv":
        return conv_expect(numeral(req[1]))
    raise ValueError(op)


def req_line(req):
    op = req[0]
    if op == "tokc":
        return "tokc %s %s %d" % (hx(req[1]), hx(req[2]), 1 if req[3] else 0)
    if op == "conv":
        return "conv %s" % hx(req[1])
    return op + "".join(" " + hx(a) for a in req[1:])


SITE = {"tokc": "tokenize(string_view,char,bool)", "toks": "tokenize(string_view,string_view)",
        "rep": "replace_all(string_view,string_view,string_view)", "repcc": "replace_all(string_view,char,char)",
        "repcs": "replace_all(string&,char,string_view)", "sw": "starts_with", "ew": "ends_with",
        "conv": "convert<double>"}


def input_class(req):
    op = req[0]
    if op == "tokc":
        s, c, keep = req[1], req[2], req[3]
        if keep:
            return "keep=true"
        if s == b"" or s.startswith(c):
            return "keep=false:empty-or-leading-delimiter"
        return "keep=false:other"
    if op == "toks":
        if not req[2]:
            return "empty-delimiter"
        if req[1].endswith(req[2]):
            return "trailing-delimiter"
        return "other"
    if op == "rep":
        if not req[2]:
            return "empty-pattern"
        return "pattern-occurs" if req[2] in req[1] else "pattern-absent"
    if op == "conv":
        n = numeral(req[1])
        if n is None:
            return "non-numeral"
        if n[0] != "fin":
            return n[0]
        return "hex-literal" if n[4] == 2 else "decimal-literal"
    return "any"


# ----------------------------------------------------------------------------- request generation
def words(alpha, maxlen, minlen=0):
    for n in range(minlen, maxlen + 1):
        for t in itertools.product(alpha, repeat=n):
            yield b"".join(t)


def canonical_patterns():
    """one representative per renaming of the alphabet (the routines only compare characters)"""
    return [b"a", b"aa", b"a,", b"aaa", b"aa,", b"a,a", b"a,,", b"a,b"]


def exhaustive_requests(quick):
    reqs = []
    L = 8
    strings = list(words(ALPHA, L))
    # tokenize, char delimiter: every string x every letter as delimiter x both flags
    for s in strings:
        for c in ALPHA:
            reqs.append(("tokc", s, c, True))
            reqs.append(("tokc", s, c, False))
    pats = canonical_patterns() if quick else list(words(ALPHA, 3, 1))
    for s in strings:
        for d in pats:
            reqs.append(("toks", s, d))
    reps = [b"", b"b", b"a,a,"] if quick else [b"", b"a,a,"]
    for s in strings:
        for p in pats:
            for r in reps:
                reqs.append(("rep", s, p, r))
        reqs.append(("rep", s, b"", b"b"))          # empty pattern: identity
    small = [s for s in strings if len(s) <= (6 if quick else 8)]
    for s in small:
        for c1 in ALPHA:
            for c2 in ALPHA:
                reqs.append(("repcc", s, c1, c2))
            for n in (b"", c1, b"b", c1 + c1, b"a" + c1 + b","):
                reqs.append(("repcs", s, c1, n))
    s1s = [s for s in strings if len(s) <= (5 if quick else 6)]
    s2s = [s for s in strings if len(s) <= 4]
    for a in s1s:
        for b in s2s:
            reqs.append(("sw", a, b))
            reqs.append(("ew", a, b))
    # convert: every string over small alphabets of numeral characters
    for alpha, n in (([b"1", b".", b"e", b"-", b" "], 6), ([b"0", b"x", b"p", b"A", b"."], 6),
                     ([b"n", b"a", b"(", b")", b"_", b"N"], 5 if quick else 6), ([b"i", b"n", b"f", b"I", b"t", b"y"], 4),
                     ([b"+", b"9", b"E", b"\t", b"0"], 5 if quick else 6)):
        for s in words(alpha, n):
            reqs.append(("conv", s))
    for s in (b"infinity", b"INFINITY", b"-Infinity", b"infinit", b"infinityy", b" +inf", b"nan(0x1F)", b"-nan",
              b"1e308", b"1.8e308", b"1.7976931348623157e308", b"1.7976931348623159e308", b"1e309", b"-1e400",
              b"4.9406564584124654e-324", b"2.4703282292062327e-324", b"2.4703282292062328e-324", b"1e-320",
              b"2.2250738585072014e-308", b"2.2250738585072011e-308", b"2.2250738585072009e-308",
              b"0x1p-1074", b"0x1p-1075", b"0x1.8p-1074", b"0x0.8p-1073", b"0x1p1023", b"0x1p1024",
              b"0x1.fffffffffffffp1023", b"0x1.fffffffffffff8p1023", b"0x1.fffffffffffff7p1023",
              b"0x.8", b"0x1.", b"0x", b"0x.", b"0xg", b"0x1p", b"0x1p+", b"1.", b".1", b".", b"1e+", b"1e+5", b"1E-5",
              b"0e999999999999999999", b"1e99999999999999999999", b"1e-99999999999999999999", b"00012", b"1_0",
              b"1,5", b"1.5f", b"1.5 ", b"\n1.5", b"\x0b\x0c\r1", b"+-1", b"--1", b"+ 1", b"1d5", b"\x001", b"1\x00",
              b"9007199254740993", b"9007199254740992.5", b"0.1", b"0.3", b"123456789012345678901234567890"):
        reqs.append(("conv", s))
    return reqs


def rand_bytes(rng, alpha, n):
    return bytes(rng.choice(alpha) for _ in range(n))


def random_numeral(rng):
    def digits(lo, hi, cls=b"0123456789"):
        return rand_bytes(rng, cls, rng.randint(lo, hi))
    kind = rng.random()
    s = rand_bytes(rng, WS, rng.choice([0, 0, 0, 1, 2]))
    s += rng.choice([b"", b"", b"+", b"-"])
    if kind < 0.6:
        ip, fp = digits(0, rng.choice([1, 3, 20])), digits(0, rng.choice([1, 3, 20]))
        s += ip + (b"." if rng.random() < 0.6 else b"") + fp
        if rng.random() < 0.6:
            s += rng.choice([b"e", b"E"]) + rng.choice([b"", b"+", b"-"]) + \
                str(rng.choice([rng.randint(0, 30), rng.randint(280, 330), rng.randint(0, 5000)])).encode()
    elif kind < 0.85:
        hd = b"0123456789abcdefABCDEF"
        s += rng.choice([b"0x", b"0X"]) + digits(0, rng.choice([1, 4, 18]), hd)
        if rng.random() < 0.6:
            s += b"." + digits(0, rng.choice([1, 4, 18]), hd)
        if rng.random() < 0.6:
            s += rng.choice([b"p", b"P"]) + rng.choice([b"", b"+", b"-"]) + \
                str(rng.choice([rng.randint(0, 60), rng.randint(1000, 1100), rng.randint(0, 9000)])).encode()
    elif kind < 0.92:
        w = rng.choice([b"inf", b"infinity"])
        s += bytes(rng.choice([x, x - 32]) for x in w)
    else:
        s += bytes(rng.choice([x, x - 32]) for x in b"nan")
        if rng.random() < 0.5:
            s += b"(" + rand_bytes(rng, b"0123456789abcxyzABCXYZ_", rng.randint(0, 6)) + b")"
    # near-numerals: one random edit
    r = rng.random()
    if r < 0.35 and s:
        i = rng.randrange(len(s) + 1)
        edit = rng.choice(["ins", "del", "sub"])
        junk = rng.choice(b"0123456789.eEpPxX+-() \t_nafiyINFgz,\x00")
        if edit == "ins":
            s = s[:i] + bytes([junk]) + s[i:]
        elif edit == "del" and i < len(s):
            s = s[:i] + s[i + 1:]
        elif i < len(s):
            s = s[:i] + bytes([junk]) + s[i + 1:]
    return s


def random_requests(rng, n):
    reqs = []
    alphas = [b"ab", b"ab,", b"ab,c", b"\x00\xff,", b" _:\n/a", bytes(range(256))]
    for _ in range(n):
        alpha = rng.choice(alphas)
        ln = rng.choice([rng.randint(0, 12), rng.randint(9, 40), rng.randint(40, 400), rng.randint(400, 3000)])
        s = rand_bytes(rng, alpha, ln)
        op = rng.choice(["tokc", "toks", "rep", "rep", "repcc", "repcs", "sw", "ew", "conv", "conv"])

        def pattern(maxlen=6):
            k = rng.randint(1, maxlen)
            if s and rng.random() < 0.7:
                i = rng.randrange(len(s))
                return s[i:i + k]
            return rand_bytes(rng, alpha, k)
        if op == "tokc":
            reqs.append(("tokc", s, bytes([rng.choice(alpha)]), rng.random() < 0.5))
        elif op == "toks":
            reqs.append(("toks", s, pattern()))
        elif op == "rep":
            p = pattern()
            r = rng.choice([b"", p, p + p, p[:1], rand_bytes(rng, alpha, rng.randint(0, 8)), b"<" + p + b">"])
            reqs.append(("rep", s, p if rng.random() < 0.97 else b"", r))
        elif op == "repcc":
            reqs.append(("repcc", s, bytes([rng.choice(alpha)]), bytes([rng.choice(alpha)])))
        elif op == "repcs":
            c = bytes([rng.choice(alpha)])
            reqs.append(("repcs", s, c, rng.choice([b"", c, c + c, rand_bytes(rng, alpha, rng.randint(0, 5)) + c])))
        elif op in ("sw", "ew"):
            k = rng.randint(0, min(len(s), 10))
            t = (s[:k] if op == "sw" else s[len(s) - k:]) if rng.random() < 0.6 else rand_bytes(rng, alpha, k)
            if rng.random() < 0.1:
                t = s + t
            reqs.append((op, s, t))
        else:
            reqs.append(("conv", random_numeral(rng)))
    for _ in range(n // 2):
        reqs.append(("conv", random_numeral(rng)))      # numerals and near-numerals of the full grammar
    return reqs


# ----------------------------------------------------------------------------- running both sides
CONFIRM_MS = 1500


def run_impl_slice(ck, harness, reqfile, lo, hi):
    """answers of the implementation for requests lo..hi-1; the harness is restarted after a request
    that hung (watchdog) or crashed (sanitizer report, signal).  A watchdog hit is confirmed by running
    that request alone with a larger CPU budget before it is believed (kernel time charged to the
    process under memory pressure can exhaust the small budget)."""
    answers = []
    restarts = 0
    incidents = []
    n = hi - lo
    while len(answers) < n:
        p = ck.run([harness, reqfile, str(lo + len(answers)), str(BUDGET_MS), str(hi)], timeout=3600)
        lines = p.stdout.splitlines()
        answers += lines
        if p.returncode == 0 and len(answers) >= n:
            break
        if not lines or lines[-1] not in ("timeout", "crash"):
            answers.append("died rc=%d" % p.returncode)
        idx = lo + len(answers) - 1
        if answers[-1] == "timeout":
            q = ck.run([harness, reqfile, str(idx), str(CONFIRM_MS), str(idx + 1)], timeout=3600)
            ql = q.stdout.splitlines()
            if q.returncode == 0 and len(ql) == 1 and ql[0] != "timeout":
                answers[-1] = ql[0]
                incidents.append((idx, "spurious-timeout-recovered", ""))
                continue
        incidents.append((idx, answers[-1], p.stderr[-1500:]))
        restarts += 1
        if restarts > MAX_RESTARTS:
            answers += ["not-run"] * (n - len(answers))
            break
    return answers[:n], incidents


def run_impl(ck, harness, reqfile, n, jobs=4):
    from concurrent.futures import ThreadPoolExecutor
    step = max(1, (n + jobs - 1) // jobs)
    slices = [(lo, min(n, lo + step)) for lo in range(0, n, step)]
    with ThreadPoolExecutor(max_workers=jobs) as ex:
        parts = list(ex.map(lambda s: run_impl_slice(ck, harness, reqfile, s[0], s[1]), slices))
    answers, incidents = [], []
    for a, inc in parts:
        answers += a
        incidents += inc
    return answers, incidents


def parse_req(line):
    f = line.split()
    if f[0] == "tokc":
        return ("tokc", unhx(f[1]), unhx(f[2]), f[3] == "1")
    return tuple([f[0]] + [unhx(x) for x in f[1:]])


def replay(ck, harness, driver):
    """bin/check C32 --replay <file>: re-run exactly the recorded request on the implementation and the model"""
    import json
    rec = json.load(open(ck.replay_file))
    line = rec.get("request") or (rec.get("failing_input") or {}).get("request")
    if not line:
        print("replay file has no recorded request")
        return 2
    rf = ck.write("replay.txt", line + "\n")
    impl, _ = run_impl(ck, harness, rf, 1, jobs=1)
    r = parse_req(line)
    mline = "tokc %s %s 0" % (hx(r[1]), hx(r[2])) if r[0] == "tokcd" else line
    model = ck.run([driver], input=mline + "\n").stdout.splitlines()
    want = spec(r)
    ok = conv_match(want, impl[0]) if r[0] == "conv" else impl[0] == want
    print("request        : %s  %s" % (line, [show(x) if isinstance(x, bytes) else x for x in r[1:]]))
    print("implementation : %s" % impl[0])
    print("model          : %s" % (model[0] if model else "?"))
    print("property wants : %s" % (want,))
    print("property holds on the implementation's answer: %s" % ok)
    return 0 if ok else 1


def run(ck):
    rng = random.Random(ck.seed)
    harness = ck.cxx("c32h", ["C32/harness.cxx", os.path.join(vlib.REPO, SRC)], sanitize=True)
    driver = ck.lean_exe("c32driver", "TfelVerif/C32/Driver.lean")
    if getattr(ck, "replay_file", None):
        return replay(ck, harness, driver)
    res = ck.lean(PROPS, PROPS)

    reqs = []
    # corpus: minimised past disagreements and the replayed witnesses of DESIGN §9 first
    reqs += [("tokc", b" a", b" ", False), ("tokc", b"", b" ", False), ("tokc", b"a:bbc::d", b":", False),
             ("tokc", b"a:bbc::d", b":", True), ("toks", b"a,", b","), ("toks", b"a,,b", b","), ("toks", b"", b","),
             ("toks", b"", b""), ("toks", b"a", b""), ("toks", b"ab,", b""),
             ("rep", b"foo bar", b"o", b"a"), ("rep", b"foo bar", b"foo ", b""), ("rep", b"foo bar", b"", b"test")]
    n_corpus = len(reqs)
    reqs += exhaustive_requests(ck.quick)
    n_exh = len(reqs) - n_corpus
    reqs += random_requests(rng, 6000 if ck.quick else 60000)
    n_rand = len(reqs) - n_corpus - n_exh
    reqfile = ck.write("requests.txt", "".join(req_line(r) + "\n" for r in reqs))
    ck.log("%d requests (%d corpus, %d exhaustive, %d random)" % (len(reqs), n_corpus, n_exh, n_rand))

    from concurrent.futures import ThreadPoolExecutor
    with ThreadPoolExecutor(max_workers=1) as ex:
        fut = ex.submit(lambda: ck.run([driver], input=open(reqfile).read(), timeout=3600))
        impl, incidents = run_impl(ck, harness, reqfile, len(reqs))
        recovered = [e for e in incidents if e[1] == "spurious-timeout-recovered"]
        incidents = [e for e in incidents if e[1] != "spurious-timeout-recovered"]
        ck.log("implementation answered (%d watchdog/crash incidents, %d watchdog hits not confirmed)" % (len(incidents), len(recovered)))
        pm = fut.result()
    model = pm.stdout.splitlines()
    ck.log("model answered")

    hist, classes, distinct = {}, {}, set()
    reported = set()
    disagreements = 0
    first_bad = None
    not_run = 0
    observations = {}
    for i, r in enumerate(reqs):
        op = r[0]
        a = impl[i] if i < len(impl) else "missing"
        m = model[i] if i < len(model) else "missing"
        if a == "not-run":
            # the harness hung/crashed too often in this slice (every incident is reported below)
            not_run += 1
            continue
        want = spec(r)
        hist[op] = hist.get(op, 0) + 1
        cls = input_class(r)
        classes[op + ":" + cls] = classes.get(op + ":" + cls, 0) + 1
        distinct.add(r)
        if op == "conv":
            mnum = model_num(m)
            model_ok = mnum != "bad" and conv_expect(mnum) == want
            impl_ok = conv_match(want, a)
            agree = mnum != "bad" and conv_match(conv_expect(mnum), a)
            want_s = want if want == "err" else ("nan sign=%d" % want[1] if want[0] == "nan" else "d %016x" % want[1])
        else:
            model_ok = m == want
            impl_ok = a == want
            agree = a == m
            want_s = want
        if agree and model_ok and impl_ok:
            continue
        disagreements += 1
        key = "%s:%s" % (SITE[op], cls)
        rep = {"function": SITE[op], "site": SRC, "request": req_line(r), "arguments": [show(x) if isinstance(x, bytes) else x for x in r[1:]],
               "implementation": a, "model": m, "property_demands": want_s,
               "property_holds_on_implementation_answer": impl_ok,
               "incident_stderr": next((e[2] for e in incidents if e[0] == i), "")}
        if first_bad is None and not impl_ok:
            first_bad = rep
        if key in reported or ("corr:" + key) in reported:
            continue
        if not impl_ok:
            reported.add(key)
            what = "%s on (%s) answers '%s'; the property demands '%s'" % (
                SITE[op], ", ".join(str(x) for x in rep["arguments"]), a, want_s)
            if a == "timeout":
                what = "%s on (%s) does not return within %d ms of CPU time (watchdog); it must be rejected or answered" % (
                    SITE[op], ", ".join(str(x) for x in rep["arguments"]), BUDGET_MS)
            ck.violation(key, what, rep, True)
        else:
            reported.add("corr:" + key)
            ck.violation("corr:" + key, "correspondence broken for %s on (%s): model '%s', implementation '%s' (which satisfies the property)" % (
                SITE[op], ", ".join(str(x) for x in rep["arguments"]), m, a), rep, False)

    ck.lean_violations(res, lambda fl: first_bad)
    if not ck.quick:
        for (m, log) in ck.leanchecker(PROPS):
            ck.violation("leanchecker:" + m, "leanchecker rejects %s" % m, {"log": log}, False)

    # default third argument of tokenize(string_view,char,bool): `= false` in StringAlgorithms.hxx, i.e. empty
    # fields are kept only when asked.  Implementation only (the two-argument call), judged by the property's own
    # predicate; the three-argument form was compared with the model on the same strings above.
    dreqs = [("tokc", s, c, False) for s in words(ALPHA, 5) for c in ALPHA]
    dfile = ck.write("requests_default.txt", "".join("tokcd %s %s\n" % (hx(r[1]), hx(r[2])) for r in dreqs))
    dimpl, dinc = run_impl(ck, harness, dfile, len(dreqs), jobs=1)
    n_default_bad = 0
    for r, a in zip(dreqs, dimpl):
        want = spec(r)
        if a == want:
            continue
        n_default_bad += 1
        disagreements += 1
        if n_default_bad > 1:
            continue
        ck.violation("tokenize(string_view,char):default-third-argument",
                     "tokenize(%s, %s) (two arguments: empty fields not asked for) answers '%s'; the property demands '%s'" % (
                         show(r[1]), show(r[2]), a, want),
                     {"function": "tokenize(string_view,char,bool = false)", "site": "include/TFEL/Utilities/StringAlgorithms.hxx",
                      "request": "tokcd %s %s" % (hx(r[1]), hx(r[2])), "arguments": [show(r[1]), show(r[2])],
                      "implementation": a, "property_demands": want, "property_holds_on_implementation_answer": False}, True)

    # observations outside the stated quantifier (evidence only)
    obs_reqs = ["repps 666f6f626172 6f 30 3", "repps 616263 62 58 1", "toks 612c 2c", "toks 2c 2c", "toks - 2c",
                "conv 20312e35", "conv 30783130", "conv 696e66", "conv 6e616e283129", "convl 312e35", "convl 3165343030"]
    of = ck.write("obs.txt", "".join(x + "\n" for x in obs_reqs))
    obs, _ = run_impl(ck, harness, of, len(obs_reqs), jobs=1)
    observations = {
        "replace_all(s,s1,s2,ps>0) drops s[0..ps) (no caller in the tree passes ps)":
            "replace_all('foobar','o','0',3) -> %s ; replace_all('abc','b','X',1) -> %s" % (obs[0], obs[1]),
        "tokenize(s,d) with a string delimiter does not return a trailing empty field (`if (b != sl)`); the glossary relies on tokenize('',sep) = []":
            "tokenize('a,',',') -> %s ; tokenize(',',',') -> %s ; tokenize('',',') -> %s" % (obs[2], obs[3], obs[4]),
        "convert<double> accepts everything std::stod consumes completely: leading white space, hexadecimal literals, inf/infinity, nan(...)":
            "' 1.5' -> %s ; '0x10' -> %s ; 'inf' -> %s ; 'nan(1)' -> %s" % (obs[5], obs[6], obs[7], obs[8]),
        "convert<long double> (same grammar, wider range)": "'1.5' -> %s ; '1e400' -> %s" % (obs[9], obs[10]),
    }

    ck.assumptions += [
        "M: Model.lean is tied to StringAlgorithms.cxx by differential execution only (exhaustive over a 3-letter alphabet up to length 8, all patterns up to length 3 in the thorough tier / one pattern per renaming class in the quick tier, plus seeded random long strings over 2..256-letter alphabets)",
        "strings are finite sequences over an alphabet with decidable equality; the C++ `char` is one such alphabet (bytes, embedded NUL included)",
        "convert<double>: the Lean model returns the exact value of the numeral (±m·10^e or ±m·2^e); rounding to binary64 and the ERANGE rejections of glibc strtod (overflow; tiny and inexact) are computed in checks/C32.py with exact rationals, not in Lean",
        "replace_all is modelled for the default start offset ps = 0 (the property's quantifier); tokenize(string delimiter) is modelled as implemented (trailing empty field not returned) — see observations",
    ]
    samples = []
    for i in (0, 1, 4, n_corpus + 7, n_corpus + 59050, n_corpus + n_exh + 3, len(reqs) - 1):
        if i < len(reqs):
            samples.append("%s -> impl '%s' model '%s'" % (req_line(reqs[i])[:80], impl[i][:80], model[i][:80] if i < len(model) else "?"))
    return ck.finish({
        "evaluations": len(reqs), "distinct_nontrivial": len(distinct),
        "rule": "distinct = distinct (function, arguments) requests; every request exercises the loop of its function at least once (the empty string included: it is a boundary case of each loop)",
        "exhaustive": True,
        "exhaustive_domain": "tokenize(char): all strings over {a,b,','} of length <= 8 x 3 delimiters x 2 flags; tokenize(string)/replace_all: same strings x %s; starts_with/ends_with: all pairs |s1|<=%d, |s2|<=4; convert: all strings over 5 small numeral alphabets up to length 4..6" % (
            "one pattern per renaming class (8) up to length 3" if ck.quick else "all 39 patterns up to length 3", 5 if ck.quick else 6),
        "requests_by_function": hist, "requests_by_input_class": classes,
        "corpus": n_corpus, "exhaustive_requests": n_exh, "random_requests": n_rand,
        "default_argument_requests": len(dreqs),
        "disagreements": disagreements, "watchdog_or_crash_incidents": len(incidents) + len([e for e in dinc if e[1] != "spurious-timeout-recovered"]),
        "requests_not_run_after_repeated_hangs": not_run, "watchdog_hits_not_confirmed_with_larger_budget": len(recovered),
        "traces_validated_against_impl": len(reqs) - not_run,
        "observations": observations,
        "samples": samples,
    })
