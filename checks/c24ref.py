"""Exact references (over Q(sqrt2)) for the units traced by harness/C24 and harness/C55.
Support code for the failing-input search and the exact differential evaluation; the proofs are in Lean."""
from fractions import Fraction

from emit import Q2
from m3 import M3, SQ2, q

HALF = Q2(Fraction(1, 2))
ISQ2 = SQ2 * HALF   # 1/sqrt2


def Ebasis(j):
    z = [[Q2(0)] * 3 for _ in range(3)]
    if j < 3:
        z[j][j] = Q2(1)
    else:
        a, b = [(0, 1), (0, 2), (1, 2)][j - 3]
        z[a][b] = ISQ2
        z[b][a] = ISQ2
    return M3(z)


def mandel_vec(A, n):
    return A.mandel({3: 1, 4: 2, 6: 3}[n])


def from_mandel(v):
    v = list(v) + [Q2(0)] * (6 - len(v))
    return M3.sym(v[0], v[1], v[2], v[3] * ISQ2, v[4] * ISQ2, v[5] * ISQ2)


def hadamard(A, B):
    return M3([[A.a[i][j] * B.a[i][j] for j in range(3)] for i in range(3)])


def eig(M, X):
    return M.T() * X * M


def theta(l, e, d):
    return M3([[d[i] if i == j else (e[i] - e[j]) / (l[i] - l[j]) for j in range(3)] for i in range(3)])


def DK2(N, M, Th, X):
    return N * hadamard(Th, eig(M, X)) * N.T()


def g2(l, e, d, s, i, k, j):
    def dd(a, b):
        return (e[a] - e[b]) / (l[a] - l[b])
    if i == k and k == j:
        return s[i] * HALF
    if i == k:
        return (d[i] - dd(i, j)) / (l[i] - l[j])
    if k == j:
        return (dd(i, k) - d[k]) / (l[i] - l[k])
    if i == j:
        return (d[i] - dd(i, k)) / (l[i] - l[k])
    return (dd(i, k) - dd(k, j)) / (l[i] - l[j])


def D2(l, e, d, s, t, x, y, idx=(0, 1, 2)):
    r = Q2(0)
    for i in idx:
        for k in idx:
            for j in idx:
                r = r + t.a[i][j] * g2(l, e, d, s, i, k, j) * (x.a[i][k] * y.a[k][j] + y.a[i][k] * x.a[k][j])
    return r


def fns(name, args):
    """interpretation of the function symbols met in the traces: `abs` exactly; `log1p`, `log`, `exp`
    as fixed injective-looking rational functions (they are uninterpreted in the theorems, so any
    function will do for an exact differential evaluation)."""
    if name == "abs":
        v = args[0]
        return v if float(v) >= 0 else -v
    if name in ("log1p", "log", "exp"):
        v = args[0]
        k = {"log1p": 3, "log": 5, "exp": 7}[name]
        return (v * v * Q2(Fraction(1, k)) + v * Q2(Fraction(k, 7)) + Q2(Fraction(1, k + 1)))
    raise KeyError(name)
