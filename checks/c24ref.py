"""Exact references (over Q(sqrt2)) for the units traced by harness/C24 and harness/C55.
Support code for the failing-input search and the exact differential evaluation; the proofs are in Lean."""
from fractions import Fraction

import emit
from emit import Q2
from m3 import M3, SQ2, q

HALF = Q2(Fraction(1, 2))
ISQ2 = SQ2 * HALF   # 1/sqrt2


def Ebasis(j):
    z = [[Q2(0)] * 3 for _ in range(3)]
    if j < 3:
        z[j][j] = Q2(1)
    else:
        a, b = [(0, 1), (0, 2), (1, 2)][j - 3]
        z[a][b] = ISQ2
        z[b][a] = ISQ2
    return M3(z)


def mandel_vec(A, n):
    return A.mandel({3: 1, 4: 2, 6: 3}[n])


def from_mandel(v):
    v = list(v) + [Q2(0)] * (6 - len(v))
    return M3.sym(v[0], v[1], v[2], v[3] * ISQ2, v[4] * ISQ2, v[5] * ISQ2)


def hadamard(A, B):
    return M3([[A.a[i][j] * B.a[i][j] for j in range(3)] for i in range(3)])


def eig(M, X):
    return M.T() * X * M


def theta(l, e, d):
    return M3([[d[i] if i == j else (e[i] - e[j]) / (l[i] - l[j]) for j in range(3)] for i in range(3)])


def DK2(N, M, Th, X):
    return N * hadamard(Th, eig(M, X)) * N.T()


def g2(l, e, d, s, i, k, j):
    def dd(a, b):
        return (e[a] - e[b]) / (l[a] - l[b])
    if i == k and k == j:
        return s[i] * HALF
    if i == k:
        return (d[i] - dd(i, j)) / (l[i] - l[j])
    if k == j:
        return (dd(i, k) - d[k]) / (l[i] - l[k])
    if i == j:
        return (d[i] - dd(i, k)) / (l[i] - l[k])
    return (dd(i, k) - dd(k, j)) / (l[i] - l[j])


def D2(l, e, d, s, t, x, y, idx=(0, 1, 2)):
    r = Q2(0)
    for i in idx:
        for k in idx:
            for j in idx:
                r = r + t.a[i][j] * g2(l, e, d, s, i, k, j) * (x.a[i][k] * y.a[k][j] + y.a[i][k] * x.a[k][j])
    return r


def fns(name, args):
    """interpretation of the function symbols met in the traces: `abs` exactly; `log1p`, `log`, `exp`
    as fixed injective-looking rational functions (they are uninterpreted in the theorems, so any
    function will do for an exact differential evaluation)."""
    if name == "abs":
        v = args[0]
        return v if float(v) >= 0 else -v
    if name in ("log1p", "log", "exp", "sqrt"):
        v = args[0]
        k = {"log1p": 3, "log": 5, "exp": 7, "sqrt": 11}[name]
        return (v * v * Q2(Fraction(1, k)) + v * Q2(Fraction(k, 7)) + Q2(Fraction(1, k + 1)))
    raise KeyError(name)


# ---------------------------------------------------------------------------------- C24 unit references
import re
import t1


def rq(rng, nonzero=False):
    return q(t1.rnd_rat(rng, nonzero))


def mat_in(prefix, A, n=3):
    return {"%s%d%d" % (prefix, i, j): A.a[i][j] for i in range(n) for j in range(n)}


def tens_of(vals, N):
    """tensor<N> storage -> 3x3 matrix (t00,t11,t22,t01,t10,t02,t20,t12,t21)"""
    v = list(vals) + [Q2(0)] * 9
    if N == 1:
        return M3.diag(v[0], v[1], v[2])
    if N == 2:
        return M3([[v[0], v[3], 0], [v[4], v[1], 0], [0, 0, v[2]]])
    return M3([[v[0], v[3], v[5]], [v[4], v[1], v[7]], [v[6], v[8], v[2]]])


def distinct_vp(rng, pattern=""):
    base = rng.sample([Fraction(1, 2), Fraction(2, 3), Fraction(3, 2), Fraction(2), Fraction(3), Fraction(5, 2), Fraction(1, 3), Fraction(4, 3)], 3)
    a, b, c_ = [Q2(x) for x in base]
    return {"": [a, b, c_], "_eq01": [a, a, c_], "_eq02": [a, b, a], "_eq12": [a, b, b], "_eqall": [a, a, a]}[pattern]


def theta_conf(l, e, d):
    """first divided differences, confluent when two eigenvalues coincide"""
    return M3([[d[i] if (i == j or l[i] == l[j]) else (e[i] - e[j]) / (l[i] - l[j]) for j in range(3)] for i in range(3)])


def g2_conf(l, e, d, s, i, k, j):
    """second divided difference f[l_i,l_k,l_j], confluent (equal eigenvalues = repeated arguments)"""
    idx = sorted([i, k, j], key=lambda a: (float(l[a]), a))
    a, b, c_ = idx
    # group equal values
    if l[a] == l[b] and l[b] == l[c_]:
        return s[a] * HALF
    if l[a] == l[b]:
        # f[x,x,y] = (f'(x) - f[x,y])/(x-y)
        return (d[a] - (e[a] - e[c_]) / (l[a] - l[c_])) / (l[a] - l[c_])
    if l[b] == l[c_]:
        return (d[b] - (e[b] - e[a]) / (l[b] - l[a])) / (l[b] - l[a])
    return ((e[a] - e[b]) / (l[a] - l[b]) - (e[b] - e[c_]) / (l[b] - l[c_])) / (l[a] - l[c_])


def D2_conf(l, e, d, s, t, x, y):
    r = Q2(0)
    for i in range(3):
        for k in range(3):
            for j in range(3):
                co = t.a[i][j] * (x.a[i][k] * y.a[k][j] + y.a[i][k] * x.a[k][j])
                if co == Q2(0):
                    continue
                r = r + co * g2_conf(l, e, d, s, i, k, j)
    return r


class Case:
    """random exact inputs of a handler unit of dimension N"""

    def __init__(s, rng, N, pattern="", orth=False):
        s.N = N
        s.S = {1: 3, 2: 4, 3: 6}[N]
        s.T = {1: 3, 2: 5, 3: 9}[N]
        s.env = {}
        s.l = distinct_vp(rng, pattern)
        m = [[rq(rng) for _ in range(3)] for _ in range(3)]
        if orth or pattern:
            # coalescing-eigenvalue branches use M Mᵀ = 1: exact rational rotation (quaternion / Cayley form)
            while True:
                qa, qb, qc, qd = [Fraction(rng.randint(-3, 3)) for _ in range(4)]
                if N == 2:
                    qb = qc = Fraction(0)
                n2 = qa * qa + qb * qb + qc * qc + qd * qd
                if n2 != 0:
                    break
            R = [[qa * qa + qb * qb - qc * qc - qd * qd, 2 * (qb * qc - qa * qd), 2 * (qb * qd + qa * qc)],
                 [2 * (qb * qc + qa * qd), qa * qa - qb * qb + qc * qc - qd * qd, 2 * (qc * qd - qa * qb)],
                 [2 * (qb * qd - qa * qc), 2 * (qc * qd + qa * qb), qa * qa - qb * qb - qc * qc + qd * qd]]
            m = [[Q2(x / n2) for x in r] for r in R]
        if N == 2:
            m[0][2] = m[1][2] = m[2][0] = m[2][1] = Q2(0)
            m[2][2] = Q2(1)
        s.M = M3(m)
        Fv = [rq(rng, True) for _ in range(3)] + [rq(rng) for _ in range(6)]
        s.Fv = Fv[:s.T]
        s.F = tens_of(s.Fv, N)
        for i in range(s.T):
            s.env["F%d" % i] = s.Fv[i]
        for i in range(3):
            s.env["vp%d" % i] = s.l[i]
        n = 3 if N == 3 else 2
        for i in range(n):
            for j in range(n):
                s.env["m%d%d" % (i, j)] = m[i][j]

    def sym_inputs(s, rng, prefix):
        vals = [rq(rng) for _ in range(6)]
        if s.N < 3:
            vals[4] = vals[5] = Q2(0)
        if s.N < 2:
            vals[3] = Q2(0)
        A = M3.sym(*vals)
        for i, v in enumerate(mandel_vec(A, s.S)):
            s.env["%s%d" % (prefix, i)] = v
        return A

    def mat_inputs(s, rng, prefix):
        A = [[rq(rng) for _ in range(s.S)] for _ in range(s.S)]
        for i in range(s.S):
            for j in range(s.S):
                s.env["%s%d_%d" % (prefix, i, j)] = A[i][j]
        return A

    def handler_members(s, rng, pattern=""):
        """e (consistent with coalescing eigenvalues) and p as free symbols"""
        e = [rq(rng) for _ in range(3)]
        for i in range(3):
            for j in range(i):
                if s.l[i] == s.l[j]:
                    e[i] = e[j]
        s.e = e
        for i in range(3):
            s.env["e%d" % i] = e[i]
        s.p = s.mat_inputs(rng, "p")

    def spectral(s):
        d = [Q2(1) / (Q2(2) * x) for x in s.l]
        sd = [Q2(-1) / (Q2(2) * x * x) for x in s.l]
        return d, sd


def st2_of_map(L, S):
    """Mandel matrix (row major list) of a linear map on symmetric matrices: entry (i,j) = mc_i(L(E_j))"""
    cols = [mandel_vec(L(Ebasis(j)), S) for j in range(S)]
    return [[cols[j][i] for j in range(S)] for i in range(S)]


def log1p_half(x):
    return fns("log1p", [x - Q2(1)]) * HALF


def ref_builder(N, setting, pattern):
    S = {1: 3, 2: 4, 3: 6}[N]

    def f(rng):
        cs = Case(rng, N, pattern)
        l = list(cs.l)
        if N == 2:
            l[2] = cs.Fv[2] * cs.Fv[2]
        e = [log1p_half(x) for x in l]
        d = [Q2(1) / (Q2(2) * x) for x in l]
        Th = theta_conf(l, e, d)
        if N == 2:
            for i in range(2):
                Th.a[i][2] = Th.a[2][i] = Q2(0)
        exp = {}
        for i in range(3):
            exp["e%d" % i] = e[i]
            exp["vpo%d" % i] = l[i]
        if setting == "L":
            P = st2_of_map(lambda X: DK2(cs.M, cs.M, Th, X), S)
            for i in range(S):
                for j in range(S):
                    exp["p%d_%d" % (i, j)] = P[i][j]
            if pattern == "":
                el = mandel_vec(cs.M * M3.diag(*e) * cs.M.T(), S)
                for i in range(S):
                    exp["el%d" % i] = el[i]
                    exp["ea%d" % i] = el[i] if i < 3 else el[i] * SQ2
                for i, v in enumerate(mandel_vec(cs.F.T() * cs.F, S)):
                    exp["C%d" % i] = v
        else:
            Nn = cs.F * cs.M
            for a in range(S):
                row = mandel_vec(DK2(Nn, cs.M, Th, Ebasis(a)), S)
                for b in range(S):
                    exp["p%d_%d" % (a, b)] = row[b]
        return cs.env, exp
    return f


def det3(A):
    return A.det()


def ref_stress(N, kind):
    S = {1: 3, 2: 4, 3: 6}[N]

    def f(rng):
        cs = Case(rng, N)
        cs.handler_members(rng)
        p = cs.p
        exp = {}
        J = cs.F.det()
        if kind in ("L_toPK2", "L_toCauchy", "E_toCauchy"):
            T = cs.sym_inputs(rng, "T")
            Tv = mandel_vec(T, S)
            r = [Q2(2) * sum((Tv[i] * p[i][j] for i in range(S)), Q2(0)) for j in range(S)]
            if kind == "L_toPK2":
                for j in range(S):
                    exp["S%d" % j] = r[j]
            elif kind == "E_toCauchy":
                for j in range(S):
                    exp["s%d" % j] = r[j] / J
            else:
                Sm = from_mandel(r)
                sg = mandel_vec(cs.F * Sm * cs.F.T() * (Q2(1) / J), S)
                for j in range(S):
                    exp["s%d" % j] = sg[j]
        else:
            ip = cs.mat_inputs(rng, "ip")
            X = cs.sym_inputs(rng, "S" if kind == "L_fromPK2" else "s")
            Xv = mandel_vec(X, S)
            r = [sum((Xv[i] * ip[i][j] for i in range(S)), Q2(0)) * HALF for j in range(S)]
            if kind == "E_fromCauchy":
                r = [v * J for v in r]
            for j in range(S):
                exp["T%d" % j] = r[j]
        return cs.env, exp
    return f


def ref_tangent(N, kind, pattern):
    """kind: L_material | E_spatial | E_truesdell"""
    S = {1: 3, 2: 4, 3: 6}[N]

    def f(rng):
        cs = Case(rng, N, pattern)
        cs.handler_members(rng, pattern)
        T = cs.sym_inputs(rng, "T")
        Ks = cs.mat_inputs(rng, "K")
        d, sd = cs.spectral()
        p = cs.p
        Nn = cs.M if kind == "L_material" else cs.F * cs.M
        t = eig(cs.M, T)
        xs = [eig(Nn, Ebasis(a)) for a in range(S)]
        J = cs.F.det()
        exp = {}
        l, e = cs.l, cs.e
        if N == 2:
            # plane: the out-of-plane eigenvalue never interacts with the in-plane ones
            pass
        for a in range(S):
            for b in range(S):
                first = Q2(0)
                for k in range(S):
                    for ll in range(S):
                        first = first + p[k][a] * Ks[k][ll] * p[ll][b]
                v = Q2(4) * first + Q2(4) * D2_conf(l, e, d, sd, t, xs[a], xs[b])
                if kind == "E_truesdell":
                    v = v / J
                exp["Kr%d_%d" % (a, b)] = v
        return cs.env, exp
    return f


def ref_1d(setting, kind):
    def f(rng):
        Fv = [rq(rng, True) for _ in range(3)]
        env = {"F%d" % i: Fv[i] for i in range(3)}
        exp = {}
        J = Fv[0] * Fv[1] * Fv[2]
        if kind == "hencky":
            for i in range(3):
                exp["el%d" % i] = fns("log", [Fv[i]])
                exp["ea%d" % i] = fns("log", [Fv[i]])
            return env, exp
        T = [rq(rng) for _ in range(3)]
        for i in range(3):
            env["T%d" % i] = T[i]
        if kind == "stresses":
            for i in range(3):
                exp["S%d" % i] = T[i] / (Fv[i] * Fv[i])
                exp["Sa%d" % i] = T[i] / (Fv[i] * Fv[i])
                exp["Tb%d" % i] = T[i] * (Fv[i] * Fv[i])
                exp["s%d" % i] = T[i] / J
                exp["Tc%d" % i] = T[i] * J
            return env, exp
        Ks = [[rq(rng) for _ in range(3)] for _ in range(3)]
        for i in range(3):
            for j in range(3):
                env["K%d_%d" % (i, j)] = Ks[i][j]
                v = Ks[i][j] - (Q2(2) * T[i] if i == j else Q2(0))
                exp["Km%d_%d" % (i, j)] = v / (Fv[i] * Fv[i] * Fv[j] * Fv[j])
                exp["Ks%d_%d" % (i, j)] = v
                exp["Kt%d_%d" % (i, j)] = v / J
        return env, exp
    return f


def ref_selfcheck(u):
    """X units of harness/C24/trace.cxx: outputs come in pairs (got<k>, exp<k>), the expectation being composed
    in the harness from covered handler functions; here only the random inputs are chosen (search() equates the
    pairs after the exact evaluation)."""
    import re as _re
    m = _re.match(r"X(\d)_", u.name)
    N = int(m.group(1))

    def f(rng):
        if N == 1:
            env = {}
        else:
            cs = Case(rng, N)
            cs.handler_members(rng)
            env = dict(cs.env)
        for name in u.inputs:
            if name not in env:
                env[name] = rq(rng, True) if (name.startswith("F") or name.startswith("vp")) else rq(rng)
        return env, {}
    return f


def c24_refs(units=()):
    R = {}
    for u in units:
        if u.name.startswith("X"):
            m = re.match(r"X(\d)_E_spatial(_eq\w+)$", u.name)
            R[u.name] = ref_tangent(int(m.group(1)), "E_spatial", m.group(2)) if m else ref_selfcheck(u)
    for st in ("L", "E"):
        for kind in ("hencky", "stresses", "tangent"):
            R["N1_%s_%s" % (st, kind)] = ref_1d(st, kind)
    for N in (2, 3):
        pats = ["", "_eq01"] + (["_eq02", "_eq12", "_eqall"] if N == 3 else [])
        for pt in pats:
            R["N%d_L_builder%s" % (N, pt)] = ref_builder(N, "L", pt)
            R["N%d_E_builder%s" % (N, pt)] = ref_builder(N, "E", pt)
            R["N%d_L_material%s" % (N, pt)] = ref_tangent(N, "L_material", pt)
        R["N%d_E_spatial" % N] = ref_tangent(N, "E_spatial", "")
        R["N%d_E_truesdell" % N] = ref_tangent(N, "E_truesdell", "")
        for kind in ("L_toPK2", "L_fromPK2", "L_toCauchy", "E_toCauchy", "E_fromCauchy"):
            R["N%d_%s" % (N, kind)] = ref_stress(N, kind)
    return R


def search(ck, units, refs, rng, tracer_bin=None, trials=3, only=None):
    """exact differential evaluation of the traced units against the references (name-keyed expected
    outputs); a disagreement is replayed on the real double precision code through VERIF_SHADOW."""
    import re
    found = []
    stats = {"units_evaluated": 0, "points": 0, "outputs_compared": 0, "skipped_division_by_zero": 0,
             "units_without_reference": [u.name for u in units if u.name not in refs]}
    for u in units:
        if u.name not in refs or (only and u.name not in only):
            continue
        stats["units_evaluated"] += 1
        for _ in range(trials):
            try:
                env, expected = refs[u.name](rng)
                val = emit.evaluate(u, env, fns)
            except ZeroDivisionError:
                stats["skipped_division_by_zero"] += 1
                continue
            stats["points"] += 1
            bad = None
            onodes = dict(u.outs)
            expected = dict(expected)
            for oname in onodes:
                if oname.startswith("got") and ("exp" + oname[3:]) in onodes:
                    expected[oname] = val[onodes["exp" + oname[3:]]]
                    stats["selfcheck_pairs"] = stats.get("selfcheck_pairs", 0) + 1
            for oname, node in u.outs:
                exp = expected.get(oname)
                if exp is None:
                    continue
                stats["outputs_compared"] += 1
                if not (val[node] == exp):
                    bad = (oname, val[node], exp)
                    break
            if bad:
                rep = {"unit": u.name, "output": bad[0],
                       "inputs_exact": {k: repr(v) for k, v in env.items()},
                       "code_value_exact": repr(bad[1]), "spec_value_exact": repr(bad[2]),
                       "code_value": float(bad[1]), "spec_value": float(bad[2])}
                if tracer_bin:
                    sh = "".join("%s %s %.17g\n" % (u.name, k, float(v)) for k, v in env.items())
                    shp = ck.write("shadow_%s.txt" % u.name, sh)
                    try:
                        p = ck.run([tracer_bin], env={"VERIF_SHADOW": shp}, timeout=600)
                        m = re.search(r"unit %s\n(.*?)end %s\n" % (re.escape(u.name), re.escape(u.name)), p.stdout, re.S)
                        if m:
                            sh_nodes = {}
                            outs = {}
                            for line in m.group(1).splitlines():
                                f = line.split()
                                if f[0] == "n":
                                    sh_nodes[int(f[1])] = float(line.split(";")[1])
                                elif f[0] == "out":
                                    outs[f[1]] = int(f[2])
                            rep["real_code_double_result"] = sh_nodes.get(outs.get(bad[0]))
                            rep["note"] = ("real_code_double_result = the shipped template instantiated at these inputs, in double "
                                           "precision (uninterpreted functions are the libm ones there, so only compare when the output "
                                           "does not go through log/log1p)")
                    except Exception as e:  # support only
                        rep["replay_error"] = repr(e)
                found.append(rep)
                break
    return found, stats
