"""C13 — Expression evaluator implements the documented formula language (tie: M with a string tie + T2 tables).

The real tfel::math::Evaluator (anchored sources compiled from the current tree, ASan/UBSan) and the Lean
model (lexer -> token list -> treatGroup/treatGroup2 -> TGroup::reduce in the code's order -> tree ->
getCxxFormula rendering) must print the *identical* string for every generated formula, the identical
error class for every malformed one, and bit-identical doubles for getValue(); no float tolerance is used.
"""
import random
import re

import vlib
from checks import c13lib as L

PROPS = ["TfelVerif.C13.Props"]
SITE = "src/Math/Evaluator*.cxx"


def shrink(ck, exe, formula, pred):
    """delta-debug a formula on tokens while `pred(answer)` stays true on the implementation"""
    toks = [t for t in L.TOKEN_RE.findall(formula) if not t.isspace()]
    budget = 40
    changed = True
    while changed and budget > 0:
        changed = False
        for i in range(len(toks)):
            cand = toks[:i] + toks[i + 1:]
            if not cand:
                continue
            budget -= 1
            a, _ = L.run_lines(ck, exe, ["P " + " ".join(cand)])
            if pred(a[0]):
                toks = cand
                changed = True
                break
            if budget <= 0:
                break
    return " ".join(toks)


def shrink_pair(ck, exe, driver, formula, budget=36):
    """delta-debug on tokens while implementation and model both accept the formula and render it
    differently (a smaller formula makes the value comparison of the two parses decisive)"""
    toks = [t for t in L.TOKEN_RE.findall(formula) if not t.isspace()]

    def differs(ts):
        line = ["P " + " ".join(ts)]
        a, _ = L.run_lines(ck, exe, line)
        m, _ = L.run_lines(ck, driver, line)
        return a[0].startswith("ok") and m[0].startswith("ok") and "-DIFF " not in a[0] and a[0] != m[0]

    changed = True
    while changed and budget > 0:
        changed = False
        # whole parenthesised / call sub-terms first, then single tokens
        cands = []
        for i, t in enumerate(toks):
            if t == "(":
                depth = 0
                for j in range(i, len(toks)):
                    depth += toks[j] == "("
                    depth -= toks[j] == ")"
                    if depth == 0:
                        cands.append(toks[:i] + ["x"] + toks[j + 1:])
                        break
        cands += [toks[:i] + toks[i + 1:] for i in range(len(toks))]
        for cand in cands:
            if not cand or len(cand) >= len(toks):
                continue
            budget -= 1
            if differs(cand):
                toks = cand
                changed = True
                break
            if budget <= 0:
                break
    return " ".join(toks)


def shrink_pred(formula, pred, budget=30):
    """delta-debug on tokens (whole parenthesised sub-terms first) while pred(formula) holds"""
    toks = [t for t in L.TOKEN_RE.findall(formula) if not t.isspace()]
    changed = True
    while changed and budget > 0:
        changed = False
        cands = []
        for i, t in enumerate(toks):
            if t == "(":
                depth = 0
                for j in range(i, len(toks)):
                    depth += toks[j] == "("
                    depth -= toks[j] == ")"
                    if depth == 0:
                        cands.append(toks[:i] + ["x"] + toks[j + 1:])
                        break
        cands += [toks[:i] + toks[i + 1:] for i in range(len(toks))]
        for cand in cands:
            if not cand or len(cand) >= len(toks):
                continue
            budget -= 1
            if pred(" ".join(cand)):
                toks = cand
                changed = True
                break
            if budget <= 0:
                break
    return " ".join(toks)


def pattern(formula):
    """input class of a formula: identifiers -> v, numbers -> n"""
    out = []
    for t in L.TOKEN_RE.findall(formula):
        if t.isspace():
            continue
        if re.match(r"[A-Za-z_]", t):
            out.append("v")
        elif re.match(r"[\d.]", t) and t != ".":
            out.append("n")
        else:
            out.append(t)
    return "".join(out)[:40]


def run(ck):
    rng = random.Random(ck.seed)
    exe = L.build_harness(ck)
    tab, src = L.dump_tables(ck, exe)
    ck.write_gen("TfelVerif/C13/GenTable.lean", src)
    ck.log("tables dumped: %s" % {k: len(v) for k, v in tab.items()})
    tdef = L.table_defects(tab)
    for key, what, rep in tdef[:4]:
        ck.violation(key, what, rep, True)
    driver = ck.lean_exe("c13driver", "TfelVerif/C13/Driver.lean")
    ck.log("driver built")
    res = ck.lean(PROPS, PROPS)
    ck.lean_violations(res)
    if ck.tier == "thorough" and res.ok:
        for m, log in ck.leanchecker(PROPS):
            ck.violation("leanchecker:" + m, "leanchecker rejects " + m, {"log": log}, False)

    # ------------------------------------------------------------------ requests
    n_valid, n_mal, n_val, n_q = (2500, 2000, 1200, 300) if ck.quick else (60000, 60000, 30000, 6000)
    reqs = []      # (kind, line, formula)
    corpus = []
    try:
        import glob
        import os
        for f in sorted(glob.glob(os.path.join(vlib.VERIF, "corpus", "C13", "*.txt"))):
            corpus += [l.rstrip("\n") for l in open(f) if l.strip() and not l.startswith("#")]
    except OSError:
        pass
    for l in corpus:
        reqs.append(("corpus", l, l[2:]))
    export_env = {}
    # `**` exponents with constant leaves whose value depends on variables (a conditional is constant iff its
    # condition and both branches are): at points on both sides of the condition, away from the all-zero
    # point where the analysis evaluates constant exponents; every route (getValue, resolveDependencies,
    # copy, getCxxFormula evaluated as C++, model)
    for f in ["x**(y>0 ? 2 : 3)", "2**(x<1 ? y : 3)", "x**(H(y)+1)", "x**max(y,2)", "x**(y<=0 ? 2 : 3)", "x**(y==0 ? 1 : 2)",
              "x**(y>1 && z>1 ? 2 : 3)", "x**(!y>1 ? 2 : 3)", "x**-(y>0 ? 2 : 3)", "(x+1)**(y>0 ? 0.5 : 1.5)*z",
              "x**(2>1 ? 2 : 3)", "x**min(3,y)", "x**(H(y-1)*2)", "z*x**(y>=2 ? 4 : -1)+y"]:
        for env in ({"x": 1.5, "y": 2.5, "z": 3.0}, {"x": 1.5, "y": -2.5, "z": 3.0}, {"x": 0.75, "y": 0.5, "z": -1.0}):
            reqs.append(("export", "P " + f, f))
            export_env[len(reqs)] = env
            reqs.append(("exportv", "V %s;%s" % (L.bind_str(env), f), f))
            reqs.append(("directed", "V %s;%s" % (L.bind_str(env), f), f))
    g = L.Gen(rng, tab)
    for _ in range(n_valid):
        f = g.formula(8)
        reqs.append(("valid", "P " + f, f))
    mstats = {}
    gm = L.Gen(rng, tab)
    for _ in range(n_mal):
        f = L.mutate(rng, gm.formula(4), mstats)
        reqs.append(("malformed", "P " + f, f))
    # directed values: every comparison in the three orderings, the logical connectives' truth tables,
    # every arithmetic operator, every table function and integer power at a safe point
    def vreq(env, f):
        reqs.append(("directed", "V %s;%s" % (L.bind_str(env), f), f))
    for op in L.CMPS:
        for xa, xb in ((1.0, 2.0), (2.0, 2.0), (3.0, 2.0), (-0.0, 0.0)):
            vreq({"x": xa, "y": xb}, "x %s y ? 10 : 20" % op)
            vreq({"x": xa, "y": xb}, "!x %s y ? 10 : 20" % op)
    for c in ("&&", "||"):
        for xa in (-1.0, 1.0):
            for xb in (-1.0, 1.0):
                vreq({"x": xa, "y": xb}, "x > 0 %s y > 0 ? 10 : 20" % c)
                vreq({"x": xa, "y": xb, "z": 1.0}, "x > 0 %s y > 0 %s z < 0 ? 10 : 20" % (c, "||" if c == "&&" else "&&"))
    for op in L.OPS:
        for xa, xb in ((1.5, 2.5), (-3.0, 2.0), (0.1, 0.2), (7.0, -2.0)):
            vreq({"x": xa, "y": xb}, "x %s y" % op)
            vreq({"x": xa, "y": xb}, "x %s - y" % op if op != "-" else "-x - y")
    for u in tab["unary"]:
        for xa in (0.5, 1.5, -0.25):
            vreq({"x": xa}, "%s(x)" % u[0])
    for xa in (0.0, -0.0, 1e-300, -1e-300):
        vreq({"x": xa}, "H(x)")
        vreq({"x": xa, "y": 1.0}, "max(x,y) - min(x,y) + H(x-y)")
    for b in tab["binary"]:
        for xa, xb in ((1.5, 2.5), (2.5, 1.5), (-1.0, -1.0)):
            vreq({"x": xa, "y": xb}, "%s(x,y)" % b[0])
    for n in list(range(-18, 19)) + [33, -33]:
        vreq({"x": 1.1}, "power<%d>(x)" % n)
        vreq({"x": -0.9}, "x**%d" % n)
    for c in tab["constants"]:
        vreq({}, c[0] + "*1")
    gv = L.Gen(rng, tab, safe_only=True)
    for _ in range(n_val):
        f = gv.formula(6)
        reqs.append(("value", "V %s;%s" % (L.bind_str(L.random_point(rng)), f), f))
    # standing check of the export clause, independent of the model: the exported C++ formula, evaluated
    # under C++ semantics (c13lib.cxx_eval), has the value getValue() returns
    n_x = 700 if ck.quick else 15000
    gx = L.Gen(rng, tab)
    for _ in range(n_x):
        f = gx.formula(6)
        env = L.random_point(rng)
        reqs.append(("export", "P " + f, f))
        export_env[len(reqs)] = env
        reqs.append(("exportv", "V %s;%s" % (L.bind_str(env), f), f))
    for f in ["-(x+y)", "z+-(x-y)", "-(x>y ? x : y)", "exp(-(x+y))", "-(x-y)**2/z", "-(-(x+y)-z)", "x*-(y+z)", "-(x*y)", "-x"]:
        env = {"x": 1.25, "y": -0.5, "z": 2.0}
        reqs.append(("export", "P " + f, f))
        export_env[len(reqs)] = env
        reqs.append(("exportv", "V %s;%s" % (L.bind_str(env), f), f))
    gq = L.Gen(rng, tab)
    for _ in range(n_q):
        f = gq.formula(4)
        names = sorted(set(re.findall(r"\b(?:x|y|z|T|Q|b_2)\b", f)))
        rng.shuffle(names)
        k = rng.randint(0, len(names))
        vs, ps = names[:k], names[k:]
        if rng.random() < 0.15 and vs:
            ps = ps + [vs[0]]            # already a variable
        if rng.random() < 0.1:
            ps = ps + ["nope"]           # not a parameter
        if rng.random() < 0.15 and ps:
            ps = ps[:-1]                 # a parameter left unresolved
        reqs.append(("rewrite", "Q %s;%s;%s" % (",".join(vs), ",".join(ps), f), f))

    # directed parameter rewriting: every node kind (logical negation, && / ||, comparison, conditional, unary
    # minus, power<n> special and general, **, unary and binary functions) with a parameter below it
    for f in ["!x > y ? x : -y", "x > y && !y < 1 ? x**y : power<17>(y)", "x > 0 || !y > 0 ? max(x,y) : -(y**33)",
              "-y*x + sin(y)/2**y", "!x < 1 && !y < 1 || y > x ? power<3>(y) : exp(-y)", "x - -y", "y > 1 ? -x : y**-2"]:
        reqs.append(("rewrite", "Q x;y;" + f, f))
        reqs.append(("rewrite", "Q ;x,y;" + f, f))
    lines = [r[1] for r in reqs]
    ck.log("%d requests generated" % len(lines))
    impl, crashes = L.run_lines(ck, exe, lines, timeout=1800)
    ck.log("implementation answered (%d crashes)" % len(crashes))
    model, mcr = L.run_lines(ck, driver, lines, timeout=1800)
    ck.log("model answered")
    if mcr:
        ck.violation("model-crash", "the Lean driver died on a request", {"request": mcr[0][1], "stderr": mcr[0][3]}, False)

    # ------------------------------------------------------------------ export clause (model independent)
    xstat = {"same": 0, "different": 0, "undecided": 0}
    xrep = 0
    for j, env in sorted(export_env.items()):
        if j >= len(impl) or not impl[j - 1].startswith("ok ") or not impl[j].startswith("val "):
            continue
        rend = impl[j - 1][3:].split(" RESOLVE-DIFF ")[0].split(" CLONE-DIFF ")[0]
        val = L.hex_dbl(impl[j].split()[1])
        verdict, rv = L.export_verdict(rend, env, val)
        xstat[verdict] += 1
        if verdict == "different" and xrep < 3:
            xrep += 1
            f = reqs[j][2]

            def still(cand):
                ia, _ = L.run_lines(ck, exe, ["P " + cand, "V %s;%s" % (L.bind_str(env), cand)])
                if not (ia[0].startswith("ok ") and ia[1].startswith("val ")):
                    return False
                return L.export_verdict(ia[0][3:].split(" RESOLVE-DIFF ")[0], env, L.hex_dbl(ia[1].split()[1]))[0] == "different"
            small = shrink_pred(f, still)
            ia, _ = L.run_lines(ck, exe, ["P " + small, "V %s;%s" % (L.bind_str(env), small)])
            srend = ia[0][3:]
            sval = L.hex_dbl(ia[1].split()[1])
            srv = L.export_verdict(srend, env, sval)[1]
            used = {k: v for k, v in env.items() if re.search(r"(?<![A-Za-z_])%s(?![A-Za-z_0-9\[])" % re.escape(k), small)}
            ck.violation("export:" + pattern(small),
                         "getCxxFormula() of '%s' is '%s', which evaluates to %r at %s in C++; Evaluator::getValue() gives %r" % (small, srend, srv, used, sval),
                         {"formula": f, "minimised": small, "point": env, "exported_cxx_formula": srend,
                          "value_of_exported_formula": srv, "getValue": sval,
                          "original_exported_cxx_formula": rend, "original_value_of_exported_formula": rv, "original_getValue": val}, True)

    # ------------------------------------------------------------------ comparison
    hist = {"ok": 0, "val": 0, "skipped-by-model": 0}
    errk = {}
    reported = set()
    disagreements = 0
    samples = []
    distinct = set()
    unclassified = {}
    nshrunk = 0
    for i, (kind, line, f) in enumerate(reqs):
        a = L.classify(impl[i]) if i < len(impl) else "missing"
        m = model[i] if i < len(model) else "missing"
        if a.startswith("err "):
            errk[a[4:]] = errk.get(a[4:], 0) + 1
            if a.startswith("err other:"):
                unclassified[a] = unclassified.get(a, 0) + 1
        elif a.startswith("ok"):
            hist["ok"] += 1
        elif a.startswith("val"):
            hist["val"] += 1
        if not (a.startswith("ok ") and "(" not in a):
            distinct.add(a)       # a bare leaf is trivial
        if len(samples) < 6 and i % 997 == 0:
            samples.append("%s -> impl '%s' model '%s'" % (line[:100], a[:100], m[:100]))
        if a.startswith("CRASH"):
            disagreements += 1
            ncrash_reported = len([k for k in reported if k.startswith("crash:")])
            if ncrash_reported >= 2:
                continue        # further crashes are counted, not minimised one by one
            sig = a[:40]
            small = shrink(ck, exe, f, lambda x: x.startswith(sig)) if kind != "rewrite" and line.startswith("P ") else f
            key = "crash:" + pattern(small)
            if key not in reported:
                reported.add(key)
                cr = [c for c in crashes if c[0] == i]
                ck.violation(key, "Evaluator(\"%s\") crashes the process (%s): a formula must be evaluated or rejected with an exception" % (small, a[6:80]),
                             {"formula": f, "minimised": small, "request": line, "implementation": a, "model": m,
                              "stderr_tail": cr[0][3] if cr else ""}, True)
            continue
        if L.skipped(m):
            hist["skipped-by-model"] += 1
            continue
        if "-DIFF " in a:
            disagreements += 1
            key = "render:resolve-clone:" + pattern(f)
            if len(reported) < 8 and key not in reported:
                reported.add(key)
                if " API-DIFF " in a:
                    what = "the value of '%s' depends on the route through the public API: %s, but %s" % (
                        f, a.split(" API-DIFF ")[0], "; ".join(a.split(" API-DIFF ")[1:])[:300])
                elif " SUBST-DIFF " in a:
                    what = "getCxxFormula(m) of '%s' is not getCxxFormula() with the variables renamed by m: %s" % (f, a.split(" SUBST-DIFF ")[1][:200])
                else:
                    what = "resolveDependencies()/copy changes the rendering or the value of '%s'" % f
                ck.violation(key, what, {"formula": f, "request": line, "implementation": a, "model": m}, True)
            continue
        if L.same_answer(a, m):
            continue
        disagreements += 1
        if len(reported) >= 8:
            continue
        rep = {"formula": f, "request": line, "implementation": impl[i], "model": m}
        if a.startswith("val") and m.startswith("val"):
            va, vm = L.hex_dbl(a.split()[1]), L.hex_dbl(m.split()[1])
            if va != va and vm != vm:
                disagreements -= 1
                continue      # both NaN (sign/payload of a NaN is not part of the value)
            rel = abs(va - vm) / max(abs(va), abs(vm), 1e-300) if va == va and vm == vm else 1.0
            rep.update({"implementation_value": va, "model_value": vm, "relative_difference": rel})
            found = rel > 1e-9
            key = ("value:" if found else "corr:value:") + pattern(f)
            what = "getValue() of '%s' is %r, the formula's value is %r" % (f, va, vm)
        elif a.startswith("ok") and m.startswith("ok"):
            # different parse: is the value different too?  (the property's own predicate)
            if nshrunk < 3 and kind != "rewrite":
                nshrunk += 1
                f = shrink_pair(ck, exe, driver, f)
                rep["minimised"] = f
                ia, _ = L.run_lines(ck, exe, ["P " + f])
                ma, _ = L.run_lines(ck, driver, ["P " + f])
                a, m = L.classify(ia[0]), ma[0]
                rep.update({"implementation_minimised": a, "model_minimised": m})
            pts = [L.random_point(rng) for _ in range(6)]
            vl = ["V %s;%s" % (L.bind_str(p), f) for p in pts]
            ia, _ = L.run_lines(ck, exe, vl)
            ma, _ = L.run_lines(ck, driver, vl)
            found = False
            # (i) the export clause: the implementation's rendering evaluated as C++ against getValue()
            for p, x in zip(pts, ia):
                if x.startswith("val"):
                    vx = L.hex_dbl(x.split()[1])
                    verdict, rv = L.export_verdict(a[3:], p, vx)
                    if verdict == "different":
                        found = True
                        rep.update({"point": p, "exported_cxx_formula": a[3:], "value_of_exported_formula": rv, "getValue": vx})
                        break
            if found:
                key = "export:" + pattern(f)
                what = "getCxxFormula() of '%s' is '%s', which evaluates to %r at %s in C++; Evaluator::getValue() gives %r" % (
                    f, a[3:160], rep["value_of_exported_formula"], {k: v for k, v in rep["point"].items() if k in f}, rep["getValue"])
                if key not in reported:
                    reported.add(key)
                    ck.violation(key, what, rep, True)
                continue
            # (ii) the parse: the implementation's value against the model's value
            for p, x, y in zip(pts, ia, ma):
                if x.startswith("val") and y.startswith("val"):
                    vx, vy = L.hex_dbl(x.split()[1]), L.hex_dbl(y.split()[1])
                    if vx == vx and vy == vy and abs(vx - vy) > 1e-9 * max(abs(vx), abs(vy), 1e-300):
                        found = True
                        rep.update({"point": p, "implementation_value": vx, "model_value": vy})
                        break
            key = ("parse:" if found else "corr:parse:") + pattern(f)
            what = "'%s' is parsed as %s, the formula language gives %s" % (f, a[3:120], m[3:120])
        elif a.startswith("ok") or a.startswith("val"):
            found = True
            key = "accepted:" + pattern(f)
            what = "malformed formula '%s' is accepted (%s); the formula language rejects it (%s)" % (f, a[:80], m)
        elif m.startswith("ok") or m.startswith("val"):
            found = True
            key = "rejected:" + pattern(f)
            what = "well-formed formula '%s' is rejected (%s); expected %s" % (f, impl[i][:160], m[:80])
        else:
            found = False
            key = "corr:error-class:" + a + ":" + m
            what = "error class differs on '%s': implementation %s, model %s" % (f, a, m)
        if key in reported:
            continue
        reported.add(key)
        ck.violation(key, what, rep, found)

    ck.assumptions += [
        "M: Model.lean is tied to the C++ by differential execution only (seeded random formulas, malformed stream, values, parameter rewriting); the function/constant tables are regenerated from the real FunctionGeneratorManager on every run (T2)",
        "numeric evaluation of the built-ins is glibc libm on both sides (Lean Float = C double), not modelled; erf/erfc/tgamma/lgamma/expm1/log1p/hypot values are not compared (not bound by Lean), their parsing/rendering is",
        "not modelled: diff(...) sub-expressions, external functions with arguments / kriged functions, non-ASCII identifiers (getMangledString), errno-based exceptions at the edge of a libm function's domain (model answers 'dom', request skipped)",
        "ASCII formulas on one line; literals without overflow/underflow",
    ]
    if unclassified:
        ck.notes.append("unclassified error messages: %s" % unclassified)
    ck.notes.append("observation (candidate, not counted): chained ** is left-associative in the code (2**3**2 = 64, a**-b**c = (a**(-b))**c); docs/web/math.md only says 'the standard priority of those operators has been respected'")
    ck.notes.append("observation: '&&' splits before '||' (x>0 && y<1 || z==2 is x>0 && (y<1 || z==2)); a comparison whose left side starts with '(' is rejected ('(x+1)>0 ? 1 : 2'); a parenthesised conditional containing parentheses before '?' is rejected; 'Cste::name' inside a conditional branch is rejected (':' search). All are rejected with an exception or rendered as parsed; conditional/logical syntax is not documented in docs/web/math.md")
    return ck.finish({
        "evaluations": len(reqs), "distinct_nontrivial": len(distinct),
        "rule": "requests = corpus + directed + seeded random formulas (type-directed trees to depth 8 printed with random redundant parentheses/white space; token mutations; values; parameter rewriting); distinct = distinct canonical implementation answers (rendered tree / error class / value bits); non-trivial = not a bare leaf",
        "exhaustive": False, "disagreements": disagreements,
        "traces_validated_against_impl": len(reqs) - hist["skipped-by-model"],
        "streams": {"corpus": len(corpus), "valid": n_valid, "malformed": n_mal, "value": n_val, "rewrite": n_q, "export": 2 * len(export_env),
                    "directed": sum(1 for r in reqs if r[0] == "directed")},
        "answers": hist, "error_kinds": errk, "mutation_kinds": mstats,
        "export_clause": {"pairs": len(export_env), **xstat},
        "generator": {"valid": g.stats, "value": gv.stats},
        "tables": {k: len(v) for k, v in tab.items()}, "table_entries_not_denoting_the_documented_object": len(tdef),
        "samples": samples,
    })
