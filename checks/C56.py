"""C56 — crystal slip-system descriptions are crystallographically valid (ties: T2 dump + M correspondence).

The harness includes the tree's src/Material/SlipSystemsDescription.cxx and is linked with the tree's
src/NUMODIS/*.cxx. For EVERY family with Miller (Miller-Bravais) indices in [-3,3] (the property's own
quantifier) the systems returned by the public API are compared, as sets of (Burgers, normal) modulo the
sign of each vector, with the orbit model of lean/TfelVerif/C56/Model.lean run by the native driver; the
file-local getOrientationTensor is compared exactly on integer vectors; normals, directions, orientation
tensors and Schmid factors returned as long double are checked against exact values (the tensor bit for
bit: round-to-nearest 64-bit product of the returned direction and normal); the rank matrix of the
interaction structure is compared exactly with the model of numodis::Hardening and tested for symmetry.
"""
import glob
import itertools
import math
import os
import random
import re
from decimal import Decimal, getcontext
from fractions import Fraction

import vlib

getcontext().prec = 60
PROPS = ["TfelVerif.C56.Props"]
CUBICS = ["Cubic", "FCC", "BCC"]
TOL = Fraction(1, 2 ** 48)
SITE_EXPAND = {"HCP": "src/NUMODIS/HCP.cxx:GenerateEquivalentPlanes/GenerateEquivalentIBurgers",
               "Cubic": "src/NUMODIS/Cubic.cxx:GenerateEquivalentIndices", "FCC": "src/NUMODIS/Cubic.cxx:GenerateEquivalentIndices",
               "BCC": "src/NUMODIS/Cubic.cxx:GenerateEquivalentIndices"}
SQRT3 = Decimal(3).sqrt()
RATIO = Decimal("1.632993162")


# ----------------------------------------------------------------------------- integer crystallography (python side)
def dot(a, b):
    return sum(x * y for x, y in zip(a, b))


def prim(v):
    """plane indices are reduced by their gcd (IPlane constructor): planes are compared modulo scaling"""
    g = 0
    for x in v:
        g = math.gcd(g, abs(x))
    return tuple(v) if g in (0, 1) else tuple(x // g for x in v)


def rep(v):
    for x in v:
        if x > 0:
            return tuple(v)
        if x < 0:
            return tuple(-y for y in v)
    return tuple(v)


G3 = [(p, s) for p in itertools.permutations(range(3)) for s in itertools.product((1, -1), repeat=3)]
G4 = [(p, e, m) for p in itertools.permutations(range(3)) for e in (1, -1) for m in (1, -1)]


def orbit(cs, b, n):
    """independent python evaluation of the family: orbit of (b, n) under the point group, modulo signs"""
    if cs == "HCP":
        return {(rep((e * b[p[0]], e * b[p[1]], e * b[p[2]], m * b[3])), prim(rep((e * n[p[0]], e * n[p[1]], e * n[p[2]], m * n[3]))))
                for p, e, m in G4}
    return {(rep(tuple(s[i] * b[p[i]] for i in range(3))), prim(rep(tuple(s[i] * n[p[i]] for i in range(3))))) for p, s in G3}


def families(cs):
    R = range(-3, 4)
    if cs == "HCP":
        V = [v for v in itertools.product(R, repeat=4) if v[0] + v[1] + v[2] == 0 and any(v)]
    else:
        V = [v for v in itertools.product(R, repeat=3) if any(v)]
    return [(b, n) for n in V for b in V if dot(b, n) == 0], V


def parse_systems(s):
    out = []
    for item in s.split(";"):
        b, n = item.split("|")[:2]
        out.append((tuple(int(x) for x in b.split(",")), tuple(int(x) for x in n.split(","))))
    return out


def vec(v):
    return " ".join(str(x) for x in v)


# ----------------------------------------------------------------------------- long double decoding / exact arithmetic
def parse_la(s):
    """exact value of a C99 hexadecimal floating constant printed by %La"""
    neg = s.startswith("-")
    s = s.lstrip("+-")
    if not s.startswith("0x"):
        raise ValueError(s)
    mant, exp = s[2:].split("p")
    ip, _, fp = mant.partition(".")
    m = int(ip + fp, 16) if (ip + fp) else 0
    v = Fraction(m) * Fraction(2) ** (int(exp) - 4 * len(fp))
    return -v if neg else v


def round64(x):
    """round to nearest (ties to even) value with a 64-bit significand: x87 long double multiplication"""
    if x == 0:
        return Fraction(0)
    a = abs(x)
    e = a.numerator.bit_length() - a.denominator.bit_length()
    if Fraction(2) ** e > a:
        e -= 1
    q = a / Fraction(2) ** (e - 63)
    n = q.numerator // q.denominator
    r = q - n
    if r > Fraction(1, 2) or (r == Fraction(1, 2) and n % 2 == 1):
        n += 1
    v = Fraction(n) * Fraction(2) ** (e - 63)
    return -v if x < 0 else v


def D(fr):
    return Decimal(fr.numerator) / Decimal(fr.denominator)


def cart_a(v):
    """Cartesian coordinates of a Miller-Bravais direction / Burgers vector (HCP.cxx _alattice/_blattice)"""
    h, k, i, l = (Decimal(x) for x in v)
    return (h * SQRT3 / 2 - k * SQRT3 / 2, h / 2 + k / 2 - i, l * RATIO)


def cart_p(v):
    h, k, i, l = (Decimal(x) for x in v)
    return (h * SQRT3 / 12 - k * SQRT3 / 12, h / 12 + k / 12 - i / 6, l / (4 * RATIO))


def unit(v):
    n = sum(x * x for x in v).sqrt()
    return tuple(x / n for x in v)


def expected_vectors(cs, b, n):
    if cs == "HCP":
        return unit(cart_a(b)), unit(cart_p(n))
    return unit(tuple(Decimal(x) for x in b)), unit(tuple(Decimal(x) for x in n))


def close(a, e, tol=TOL):
    return abs(D(a) - e) <= D(tol)


# tensor component k is m[i] * n[j] (XX YY ZZ XY YX XZ ZX YZ ZY)
TIDX = [(0, 0), (1, 1), (2, 2), (0, 1), (1, 0), (0, 2), (2, 0), (1, 2), (2, 1)]


# ----------------------------------------------------------------------------- process handling
def run_lines(ck, exe, lines, timeout=3000):
    """answers of a line-protocol process; a request that kills the process (sanitizer abort) is answered
    'CRASH <summary>' and the remaining requests are sent to a fresh process"""
    out = []
    pos = 0
    crashes = 0
    while pos < len(lines):
        p = ck.run([exe], input="\n".join(lines[pos:]) + "\n", timeout=timeout)
        got = p.stdout.splitlines()
        if p.returncode == 0 and len(got) >= len(lines) - pos:
            out += got[:len(lines) - pos]
            break
        out += got[:len(lines) - pos]
        pos = len(out)
        if pos >= len(lines):
            break
        m = re.search(r"SUMMARY: (.*)", p.stderr)
        out.append("CRASH " + (m.group(1)[:300] if m else "returncode %s %s" % (p.returncode, p.stderr[-300:].replace("\n", " "))))
        pos += 1
        crashes += 1
        if crashes > 200:
            out += ["CRASH too many crashes"] * (len(lines) - pos)
            break
    return out


# ----------------------------------------------------------------------------- compilation
def compile_units(ck, units):
    """one sanitized object per translation unit of the tree under test. An object is reused only when the
    preprocessed text of its unit (every header expanded, same flags) is byte for byte the one it was compiled
    from: the key is the sha256 of `g++ -E -P` — what the compiler proper would see — so any change of the
    tree that reaches a unit recompiles it."""
    import hashlib
    import shutil
    import subprocess
    from concurrent.futures import ThreadPoolExecutor
    if os.environ.get("VERIF_C56_OBJCACHE") != "1":
        # default: every unit is compiled from the tree under test on every run (the reuse below is an opt-in
        # accelerator for repeated runs on a busy machine)
        return ck.cxx_many([("c56_%d.o" % i, [u], ("-c",)) for i, u in enumerate(units)],
                           includes=(vlib.REPO + "/src/Material",), sanitize=True, opt="-O1")
    cache = os.path.join(vlib.VERIF, "work", "C56.objcache")      # work/C56 itself is emptied at the start of every run
    os.makedirs(cache, exist_ok=True)
    base = ["g++", "-std=c++20", "-O1", "-g0", "-ffp-contract=off", "-fno-fast-math",
            "-I" + os.path.join(vlib.VERIF, "harness"), "-I" + os.path.join(vlib.VERIF, "harness", "symtrace"),
            "-I" + os.path.join(vlib.REPO, "include"), "-I" + os.path.join(vlib.BUILD, "include"),
            "-I" + vlib.REPO + "/src/Material", "-DTFEL_VERIF_HOOKS"]

    def key(u):
        src = u if os.path.isabs(u) else os.path.join(vlib.VERIF, "harness", u)
        p = subprocess.run(base + ["-E", "-P", src], capture_output=True, timeout=900)
        if p.returncode != 0:
            return None
        return hashlib.sha256(b"asan+ubsan -O1 v1\n" + p.stdout).hexdigest()
    with ThreadPoolExecutor(max_workers=4) as ex:
        keys = list(ex.map(key, units))
    objs, todo = {}, []
    for i, (u, k) in enumerate(zip(units, keys)):
        name = "c56_%d.o" % i
        hit = k is not None and os.path.exists(os.path.join(cache, k + ".o"))
        if hit:
            shutil.copyfile(os.path.join(cache, k + ".o"), ck.path(name))
            objs[name] = ck.path(name)
        else:
            todo.append((name, [u], ("-c",)))
    ck.log("objects: %d reused (identical preprocessed text), %d compiled" % (len(objs), len(todo)))
    if todo:
        objs.update(ck.cxx_many(todo, includes=(vlib.REPO + "/src/Material",), sanitize=True, opt="-O1"))
        for i, k in enumerate(keys):
            name = "c56_%d.o" % i
            if k is not None and any(t[0] == name for t in todo):
                tmp = os.path.join(cache, k + ".tmp%d" % os.getpid())
                shutil.copyfile(objs[name], tmp)
                os.replace(tmp, os.path.join(cache, k + ".o"))
    # keep the cache small: the 60 most recent objects
    files = sorted((os.path.join(cache, f) for f in os.listdir(cache) if f.endswith(".o")), key=os.path.getmtime)
    for f in files[:-60]:
        os.remove(f)
    return objs


def system_defect(cs, sb, sn, nv, dv, tv, cv=None):
    """the geometric clauses of the property on one system as returned by the public API (exact decoding of the
    long double values): unit normal, unit direction, orthogonal, the right vectors, tensor = direction (x) normal
    (correctly rounded products), climb tensor = normal (x) normal; returns the kind of defect or None"""
    eb, en = expected_vectors(cs, sb, sn)
    if not close(sum(x * x for x in nv), Decimal(1)) or not close(sum(x * x for x in dv), Decimal(1)):
        return "not-unit"
    if not close(sum(x * y for x, y in zip(nv, dv)), Decimal(0)):
        return "not-orthogonal"
    if not all(close(x, e) for x, e in zip(nv, en)) or not all(close(x, e) for x, e in zip(dv, eb)):
        return "wrong-vector"
    if any(tv[k] != round64(dv[p] * nv[q]) for k, (p, q) in enumerate(TIDX)):
        return "tensor-not-dyadic"
    if cv is not None and any(cv[k] != round64(nv[p] * nv[q]) for k, (p, q) in enumerate(TIDX)):
        return "climb-tensor-not-dyadic"
    return None


# ----------------------------------------------------------------------------- the check
STANDARD = {
    "FCC": [[((1, -1, 0), (1, 1, 1))]],
    "BCC": [[((1, -1, 1), (1, 1, 0))], [((1, -1, 1), (1, 1, 0)), ((1, 1, -1), (1, 1, 2))]],
    "Cubic": [[((1, 0, 0), (0, 1, 0))], [((1, -1, 0), (1, 1, 0)), ((1, 0, 0), (0, 1, 1))]],
    "HCP": [[((1, 1, -2, 0), (1, -1, 0, 0)), ((-2, 1, 1, 3), (1, -1, 0, 1)), ((1, 1, -2, 0), (1, -1, 0, 1)), ((1, 1, -2, 0), (0, 0, 0, 1))],
            [((-2, 1, 1, 0), (0, 0, 0, 1)), ((1, 1, -2, 0), (1, -1, 0, 0))],
            [((-1, -1, 2, 3), (1, 1, -2, 2))]],
}


def run(ck):
    rng = random.Random(ck.seed)
    units = ["C56/harness.cxx", vlib.REPO + "/src/Utilities/GenTypeCastError.cxx"] + sorted(glob.glob(vlib.REPO + "/src/NUMODIS/*.cxx"))
    objs = compile_units(ck, units)
    harness = ck.cxx("c56h", [objs["c56_%d.o" % i] for i in range(len(units))], sanitize=True)
    driver = ck.lean_exe("c56driver", "TfelVerif/C56/Driver.lean")
    res = ck.lean(PROPS, PROPS)
    ck.lean_violations(res)
    if ck.tier == "thorough" and res.ok:
        for m, log in ck.leanchecker(PROPS):
            ck.violation("leanchecker:" + m, "leanchecker rejects " + m, {"log": log}, False)

    reported = set()
    hist = {}

    def count(k):
        hist[k] = hist.get(k, 0) + 1

    def report(key, what, rep_, found):
        if key in reported:
            return
        reported.add(key)
        ck.violation(key, what, rep_, found)

    # ------------------------------------------------------------------ (a) family expansion, exhaustive on indices <= 3
    fam = {}
    ex_lines, dr_lines, ex_req = [], [], []
    for cs in CUBICS + ["HCP"]:
        F, V = families(cs)
        fam[cs] = F
        # FCC and BCC share every line of the expansion with Cubic (numodis::FCC/BCC override nothing):
        # exhaustive in the thorough tier, seeded sample + usual families in the quick tier
        Fq = F if (cs in ("Cubic", "HCP") or not ck.quick) else rng.sample(F, 1000) + [f for d in STANDARD[cs] for f in d]
        for b, n in Fq:
            ex_req.append((cs, tuple(b), tuple(n), True))
        # ill-defined families (b.n != 0): both sides must refuse
        for _ in range(60):
            b, n = rng.choice(V), rng.choice(V)
            if dot(b, n) != 0:
                ex_req.append((cs, b, n, False))
    for cs, b, n, ok in ex_req:
        ex_lines.append("expand %s %s %s" % (cs, vec(b), vec(n)))
        dr_lines.append("%s %s %s" % ("orbit4" if cs == "HCP" else "orbit3", vec(b), vec(n)))
    impl = run_lines(ck, harness, ex_lines)
    pm = ck.run([driver], input="\n".join(dr_lines) + "\n", timeout=3000)
    model = pm.stdout.splitlines()
    disagreements = 0
    systems_of = {}
    sizes = {}
    for i, (cs, b, n, ok) in enumerate(ex_req):
        a = impl[i] if i < len(impl) else "missing"
        m = model[i] if i < len(model) else "missing"
        if not ok:
            count("expand:ill-defined")
            if not a.startswith("raise") or m != "bad":
                disagreements += 1
                report("src/NUMODIS/Crystallo.cxx:InitGSystem:ill-defined-family-accepted:%s" % cs,
                       "%s family <%s>{%s} with b.n = %d: implementation '%s', model '%s'" % (cs, vec(b), vec(n), dot(b, n), a[:80], m[:40]),
                       {"structure": cs, "burgers": b, "plane": n, "implementation": a[:300], "model": m[:300]}, not a.startswith("raise"))
            continue
        truth = orbit(cs, b, n)
        try:
            il = parse_systems(a)
        except Exception:
            il = None
        try:
            ms = {(x, prim(y)) for x, y in parse_systems(m)}
        except Exception:
            ms = None
        if il is not None:
            systems_of[(cs, b, n)] = il
            sizes[len(il)] = sizes.get(len(il), 0) + 1
        iset = {(rep(x), prim(rep(y))) for x, y in il} if il is not None else None
        dup = il is not None and len(iset) != len(il)
        orth = il is not None and all(dot(x, y) == 0 for x, y in il)
        holds = il is not None and not dup and orth and iset == truth
        count("expand:%s:%s" % (cs, "ok" if holds else "differs"))
        if not holds or ms != iset:
            disagreements += 1
            kind = "crash" if a.startswith("CRASH") else ("duplicates-up-to-sign" if dup else ("not-orthogonal" if il is not None and not orth else
                   ("incomplete-family" if iset is not None and iset < truth else "wrong-family")))
            rep_ = {"structure": cs, "burgers": b, "plane": n, "implementation": a[:1500], "model": m[:1500],
                    "implementation_count": None if il is None else len(il), "orbit_count": len(truth),
                    "missing_modulo_sign": sorted(truth - iset)[:12] if iset is not None else None,
                    "extra_modulo_sign": sorted(iset - truth)[:12] if iset is not None else None,
                    "property_holds_on_implementation_output": holds}
            if not holds:
                report("%s:%s:%s" % (SITE_EXPAND[cs], kind, cs),
                       "%s family <%s>{%s}: getSlipSystems returns %s systems, the family has %d (%s)" %
                       (cs, vec(b), vec(n), "?" if il is None else len(il), len(truth), kind), rep_, True)
            else:
                report("corr:family:%s" % cs, "orbit model and implementation differ on %s <%s>{%s} although the implementation output is the orbit" % (cs, vec(b), vec(n)), rep_, False)

    ck.log("families done")
    # ------------------------------------------------------------------ (b) orientation tensor on integers (file-local function)
    t_lines = []
    for _ in range(400 if ck.quick else 5000):
        t_lines.append("tensor " + " ".join(str(rng.randint(-9, 9)) for _ in range(6)))
    ti = run_lines(ck, harness, t_lines)
    tm = ck.run([driver], input="\n".join(t_lines) + "\n", timeout=600).stdout.splitlines()
    for i, l in enumerate(t_lines):
        a = ti[i] if i < len(ti) else "missing"
        m = tm[i] if i < len(tm) else "missing"
        v = [int(x) for x in l.split()[1:]]
        n_, m_ = v[:3], v[3:]
        truth = " ".join(str(m_[p] * n_[q]) for p, q in TIDX)
        count("tensor:" + ("ok" if a == truth else "differs"))
        if a != m or a != truth:
            disagreements += 1
            rep_ = {"normal": n_, "direction": m_, "implementation": a, "model": m, "dyadic m(x)n in TFEL order": truth}
            if a != truth:
                report("src/Material/SlipSystemsDescription.cxx:getOrientationTensor", "getOrientationTensor(n=%s, m=%s) = [%s], m(x)n = [%s]" % (n_, m_, a, truth), rep_, True)
            else:
                report("corr:orientationTensor", "model orientationTensor differs from the implementation (which is right)", rep_, False)

    ck.log("tensors done")
    # ------------------------------------------------------------------ (c) normals, directions, tensors through the public API
    g_req = []
    for cs in CUBICS + ["HCP"]:
        std = [f for d in STANDARD[cs] for f in d]
        pool = fam[cs]
        k = (120 if cs in ("Cubic", "HCP") else 40) if ck.quick else 2000
        sample = pool if k >= len(pool) else rng.sample(pool, k)
        for b, n in std + sample:
            g_req.append((cs, tuple(b), tuple(n)))
    g_lines = ["geom %s %s %s" % (cs, vec(b), vec(n)) for cs, b, n in g_req]
    gi = run_lines(ck, harness, g_lines)
    n_geom = 0
    for i, (cs, b, n) in enumerate(g_req):
        a = gi[i] if i < len(gi) else "missing"
        bad = None
        try:
            items = a.split(";")
            for it in items:
                f = it.split("|")
                sb, sn = tuple(int(x) for x in f[0].split(",")), tuple(int(x) for x in f[1].split(","))
                nv = [parse_la(x) for x in f[2].split(",")]
                dv = [parse_la(x) for x in f[3].split(",")]
                tv = [parse_la(x) for x in f[4].split(",")]
                eb, en = expected_vectors(cs, sb, sn)
                n_geom += 1
                if not close(sum(x * x for x in nv), Decimal(1)) or not close(sum(x * x for x in dv), Decimal(1)):
                    bad = ("not-unit", sb, sn, it)
                elif not close(sum(x * y for x, y in zip(nv, dv)), Decimal(0)):
                    bad = ("not-orthogonal", sb, sn, it)
                elif not all(close(x, e) for x, e in zip(nv, en)) or not all(close(x, e) for x, e in zip(dv, eb)):
                    bad = ("wrong-vector", sb, sn, it)
                elif any(tv[k] != round64(dv[p] * nv[q]) for k, (p, q) in enumerate(TIDX)):
                    bad = ("tensor-not-dyadic", sb, sn, it)
                if bad:
                    break
        except Exception as e:  # unparsable answer (raise / crash)
            bad = ("no-answer", b, n, a[:300] + " " + repr(e)[:80])
        count("geom:" + ("ok" if not bad else bad[0]))
        if bad:
            disagreements += 1
            report("src/Material/SlipSystemsDescription.cxx:geometry:%s:%s" % (bad[0], cs),
                   "%s family <%s>{%s}, system <%s>{%s}: %s" % (cs, vec(b), vec(n), vec(bad[1]), vec(bad[2]), bad[0]),
                   {"structure": cs, "family": [b, n], "system": [bad[1], bad[2]], "kind": bad[0], "answer(normal|direction|tensor, %La)": bad[3][:900],
                    "expected_direction_normal": [[str(x)[:24] for x in v] for v in expected_vectors(cs, bad[1], bad[2])] if bad[0] != "no-answer" else None,
                    "tolerance": "2^-48"}, True)

    ck.log("geometry done")
    # ------------------------------------------------------------------ descriptions (several families) for Schmid factors and ranks
    descs = []
    for cs in CUBICS + ["HCP"]:
        for d in STANDARD[cs]:
            descs.append((cs, [tuple(map(tuple, f)) for f in d]))
        for _ in range(3 if ck.quick else 25):
            nf = rng.choice([1, 2, 2, 3])
            d = []
            seen = set()
            tries = 0
            while len(d) < nf and tries < 200:
                tries += 1
                b, n = rng.choice(fam[cs])
                o = frozenset(orbit(cs, b, n))
                if o in seen or len(o) > 24:
                    continue
                seen.add(o)
                d.append((b, n))
            descs.append((cs, d))

    def desc_str(cs, d):
        return "%s %d %s" % (cs, len(d), " ".join(vec(b) + " " + vec(n) for b, n in d))

    # systems of every family used (implementation order)
    need = [(cs, b, n) for cs, d in descs for b, n in d if (cs, b, n) not in systems_of]
    if need:
        extra = run_lines(ck, harness, ["expand %s %s %s" % (cs, vec(b), vec(n)) for cs, b, n in need])
        for (cs, b, n), a in zip(need, extra):
            try:
                systems_of[(cs, b, n)] = parse_systems(a)
            except Exception:
                pass
    # ------------------------------------------------------------------ (d) Schmid factors
    s_req = []
    for cs, d in descs:
        for _ in range(3 if ck.quick else 12):
            if cs == "HCP":
                u, v, w = rng.randint(-4, 4), rng.randint(-4, 4), rng.randint(-4, 4)
                dirv = (u, v, -(u + v), w)
            else:
                dirv = tuple(rng.randint(-5, 5) for _ in range(3))
            if not any(dirv):
                continue
            for i in range(len(d)):
                s_req.append((cs, d, dirv, i))
    s_lines = ["schmid %s %s %d" % (desc_str(cs, d), vec(dirv), i) for cs, d, dirv, i in s_req]
    si = run_lines(ck, harness, s_lines)
    sm_lines, sm_idx = [], []
    for j, (cs, d, dirv, i) in enumerate(s_req):
        for sb, sn in systems_of.get((cs,) + d[i], []):
            sm_lines.append("%s %s %s %s" % ("schmid4" if cs == "HCP" else "schmid3", vec(dirv), vec(sb), vec(sn)))
            sm_idx.append(j)
    sm = ck.run([driver], input="\n".join(sm_lines) + "\n", timeout=600).stdout.splitlines() if sm_lines else []
    expected = {}
    for line, j in zip(sm, sm_idx):
        try:
            N, DD, BB, NN = (Fraction(x) for x in line.split())
            e = D(N) / (D(DD) * (D(BB) * D(NN)).sqrt())
        except Exception:
            e = None
        expected.setdefault(j, []).append(e)
    n_schmid = 0
    for j, (cs, d, dirv, i) in enumerate(s_req):
        a = si[j] if j < len(si) else "missing"
        exp = expected.get(j, [])
        rep_ = {"structure": cs, "families": d, "loading_direction": dirv, "family_index": i,
                "call": "SlipSystemsDescription::getSchmidFactors(d, %d)" % i, "implementation": a[:900],
                "systems_of_family": systems_of.get((cs,) + d[i]), "expected": [str(e)[:22] for e in exp]}
        if a.startswith("CRASH"):
            count("schmid:crash")
            disagreements += 1
            report("src/Material/SlipSystemsDescription.cxx:getSchmidFactors:heap-buffer-overflow",
                   "getSchmidFactors(d, %d) on a %s description whose family %d has %d systems: %s" % (i, cs, i, len(exp), a[6:160]), rep_, True)
            continue
        try:
            vals = [parse_la(x) for x in a.split()[2].split(",")]
        except Exception:
            vals = None
        ok = vals is not None and len(vals) == len(exp) and all(e is not None for e in exp)
        in_range = vals is not None and all(abs(v) <= Fraction(1, 2) + TOL for v in vals)
        right = ok and all(close(v, e) for v, e in zip(vals, exp))
        n_schmid += len(exp)
        count("schmid:" + ("ok" if right and in_range else ("out-of-range" if not in_range else "wrong-value")))
        if not (right and in_range):
            disagreements += 1
            rep_["values"] = None if vals is None else [str(D(v))[:22] for v in vals]
            report("src/Material/SlipSystemsDescription.cxx:getSchmidFactors:%s" % ("out-of-range" if not in_range else "wrong-value"),
                   "getSchmidFactors(d=%s, %d) on %s: returned %s, the Schmid factors (d.b)(d.n) of the %d systems are %s" %
                   (list(dirv), i, cs, rep_["values"] if vals is None else rep_["values"][:4], len(exp), rep_["expected"][:4]), rep_, True)

    ck.log("schmid done")
    # ------------------------------------------------------------------ (e) interaction-matrix structure
    # the rank computation is cubic in the number of systems: keep the descriptions small
    def nsys(cs, d):
        return sum(len(systems_of.get((cs,) + f, [])) for f in d)
    rdescs = [(cs, d) for cs, d in descs if nsys(cs, d) <= (24 if ck.quick else 36)]
    r_lines = ["ranks " + desc_str(cs, d) for cs, d in rdescs]
    ri = run_lines(ck, harness, r_lines)
    rm_lines = []
    for cs, d in rdescs:
        allsys = [s for f in d for s in systems_of.get((cs,) + f, [])]
        # NUMODIS identifies *collinear* index vectors (IDirection / IPlane operator==), the model identifies vectors
        # equal up to sign (its stated domain: index vectors of equal length): hand the model the primitive
        # representative of each vector, so that two families given at different scalings ((0,3,3) and (0,1,1)) are
        # compared as the code compares them
        rm_lines.append(("ranks4 " if cs == "HCP" else "ranks3 ") + " ".join(vec(prim(b)) + " " + vec(prim(n)) for b, n in allsys))
    rm = ck.run([driver], input="\n".join(rm_lines) + "\n", timeout=3000).stdout.splitlines()
    n_pairs = 0
    for j, (cs, d) in enumerate(rdescs):
        a = ri[j] if j < len(ri) else "missing"
        m = rm[j] if j < len(rm) else "missing"
        allsys = [s for f in d for s in systems_of.get((cs,) + f, [])]
        try:
            f = a.split()
            nr, N = int(f[1]), int(f[3])
            mat = [int(x) for x in f[4:]]
            assert len(mat) == N * N and N == len(allsys)
        except Exception:
            count("ranks:no-answer")
            disagreements += 1
            report("src/NUMODIS/Hardening.cxx:ranks:no-answer:%s" % cs, "getInteractionMatrixStructure on %s %s: %s" % (cs, d, a[:200]),
                   {"structure": cs, "families": d, "implementation": a[:600]}, a.startswith("CRASH"))
            continue
        n_pairs += N * N
        asym = [(p, q) for p in range(N) for q in range(p + 1, N) if mat[p * N + q] != mat[q * N + p]]
        count("ranks:%s:%s" % (cs, "symmetric" if not asym else "asymmetric"))
        if asym:
            p, q = asym[0]
            report("src/NUMODIS/Hardening.cxx:getRankInteraction:rank-asymmetry:%s" % cs,
                   "%s %s: rank(g1,g2) = %d but rank(g2,g1) = %d for g1 = <%s>{%s}, g2 = <%s>{%s} (%d of %d unordered pairs differ; %d independent coefficients)" %
                   (cs, d, mat[p * N + q], mat[q * N + p], vec(allsys[p][0]), vec(allsys[p][1]), vec(allsys[q][0]), vec(allsys[q][1]),
                    len(asym), N * (N - 1) // 2, nr),
                   {"structure": cs, "families": d, "g1": allsys[p], "g2": allsys[q], "rank(g1,g2)": mat[p * N + q], "rank(g2,g1)": mat[q * N + p],
                    "number_of_ranks": nr, "asymmetric_pairs": len(asym), "matrix_rows": [mat[r * N:(r + 1) * N] for r in range(N)][:24]}, True)
        if " ".join(str(x) for x in mat) != m.strip():
            disagreements += 1
            report("corr:src/NUMODIS/Hardening.cxx:getRankInteraction:%s" % cs,
                   "rank matrix of %s %s differs from the model of numodis::Hardening" % (cs, d),
                   {"structure": cs, "families": d, "implementation": mat[:200], "model": m[:800]}, False)

    ck.log("ranks done")
    # ------------------------------------------------------------------ (f) every accessor, with and without family index
    # The overloads without index (getSlipSystems(), getSlipPlaneNormals(), getSlipDirections(), getOrientationTensors(),
    # getClimbTensors(), getSchmidFactors(d), getNumberOfSlipSystems()) and the indexed ones for i > 0 are public API
    # too: each family of a description is rendered through both and both renderings are checked.
    a_req = []
    for cs, d in descs:
        if not d:
            continue
        if cs == "HCP":
            u, v, w = rng.randint(-4, 4), rng.randint(-4, 4), rng.randint(1, 4)
            dirv = (u, v, -(u + v), w)
        else:
            dirv = (rng.randint(-5, 5), rng.randint(-5, 5), rng.randint(1, 5))
        a_req.append((cs, d, dirv))
    a_lines = ["all %s %s" % (desc_str(cs, d), vec(dirv)) for cs, d, dirv in a_req]
    ai = run_lines(ck, harness, a_lines)
    n_all = 0

    def parse_family(txt):
        f = txt.strip().split("@")
        fb, fn = f[0].split("|")
        decl = (tuple(int(x) for x in fb.split(",")), tuple(int(x) for x in fn.split(",")))
        cnt = int(f[1])
        syst = parse_systems(f[2]) if f[2] else []
        vecs = [[[parse_la(x) for x in it.split(",")] for it in f[k].split(";")] if f[k] else [] for k in (3, 4, 5, 6)]
        sf = [parse_la(x) for x in f[7].split(",")] if f[7] else []
        return decl, cnt, syst, vecs[0], vecs[1], vecs[2], vecs[3], sf
    for j, (cs, d, dirv) in enumerate(a_req):
        a = ai[j] if j < len(ai) else "missing"
        bad = None
        try:
            head, _, tail = a.partition(" | ")
            indexed, _, overl = tail.partition(" # ")
            if not _:
                indexed, _, overl = tail.partition(" #")
            hf = head.split()
            nf, tot = int(hf[1]), int(hf[3])
            fi = [parse_family(x) for x in indexed.split(" | ")]
            fo = [parse_family(x) for x in overl.split(" | ")] if "size-mismatch" not in overl else None
            if nf != len(d) or len(fi) != len(d):
                bad = ("number-of-families", 0, "getNumberOfSlipSystemsFamilies() = %d for %d declared families" % (nf, len(d)))
            elif fo is None or len(fo) != len(d):
                bad = ("overload-size", 0, "an overload without family index does not return one entry per family")
            for i, fam_ in enumerate(d):
                if bad:
                    break
                truth = orbit(cs, fam_[0], fam_[1])
                for which, (decl, cnt, syst, nvs, dvs, tvs, cvs, sf) in (("indexed", fi[i]), ("all-families", fo[i])):
                    n_all += len(syst)
                    iset = {(rep(x), prim(rep(y))) for x, y in syst}
                    if decl != (tuple(fam_[0]), tuple(fam_[1])):
                        bad = ("getSlipSystemFamily", i, "family %d is reported as %s" % (i, decl))
                    elif iset != truth or len(iset) != len(syst):
                        bad = ("getSlipSystems:%s" % which, i, "the %s accessor returns %d systems for family %d, which are not the %d systems of the family" % (which, len(syst), i, len(truth)))
                    elif cnt != len(truth):
                        bad = ("getNumberOfSlipSystems:%s" % which, i, "count %d for a family of %d systems" % (cnt, len(truth)))
                    elif not (len(nvs) == len(dvs) == len(tvs) == len(cvs) == len(sf) == len(syst)):
                        bad = ("sizes:%s" % which, i, "normals/directions/tensors/climb tensors/Schmid factors: %s entries for %d systems" % ([len(nvs), len(dvs), len(tvs), len(cvs), len(sf)], len(syst)))
                    else:
                        for k_, (sb, sn) in enumerate(syst):
                            kind = system_defect(cs, sb, sn, nvs[k_], dvs[k_], tvs[k_], cvs[k_])
                            if kind:
                                bad = ("%s:%s" % (kind, which), i, "family %d, system <%s>{%s} through the %s accessors: %s" % (i, vec(sb), vec(sn), which, kind))
                                break
                            if abs(sf[k_]) > Fraction(1, 2) + TOL:
                                bad = ("schmid-out-of-range:%s" % which, i, "family %d, system %d: |Schmid factor| > 1/2" % (i, k_))
                                break
                    if bad:
                        break
                if not bad and fi[i] != fo[i]:
                    names = ["family", "count", "getSlipSystems", "getSlipPlaneNormals", "getSlipDirections", "getOrientationTensors", "getClimbTensors", "getSchmidFactors"]
                    diff = [nm for nm, x, y in zip(names, fi[i], fo[i]) if x != y]
                    bad = ("overload-differs:" + ",".join(diff), i, "%s() without family index returns for family %d something else than the accessor with index %d" % (",".join(diff), i, i))
            if not bad and tot != sum(len(orbit(cs, b_, n_)) for b_, n_ in d):
                bad = ("getNumberOfSlipSystems()", 0, "total %d, the families have %s systems" % (tot, [len(orbit(cs, b_, n_)) for b_, n_ in d]))
        except Exception as e:
            bad = ("no-answer", 0, a[:200] + " " + repr(e)[:120])
        count("all:" + ("ok" if not bad else bad[0].split(":")[0]))
        if bad:
            disagreements += 1
            report("src/Material/SlipSystemsDescription.cxx:accessors:%s:%s" % (bad[0], "HCP" if cs == "HCP" else "cubic"),
                   "%s description %s, loading direction %s: %s" % (cs, d, list(dirv), bad[2]),
                   {"structure": cs, "families": d, "loading_direction": dirv, "family_index": bad[1], "kind": bad[0],
                    "request": a_lines[j], "answer": a[:3000]}, bad[0] != "no-answer" or a.startswith("CRASH"))
    ck.log("accessors done")
    # ------------------------------------------------------------------ (g) a family already generated is refused
    # (otherwise a description lists the same systems twice: the 'no duplicates' clause at the level of the description)
    u_req = []
    for cs in CUBICS + ["HCP"]:
        pool = [f for d in STANDARD[cs] for f in d] + rng.sample(fam[cs], 25 if ck.quick else 400)
        for b, n in pool:
            u_req.append((cs, tuple(b), tuple(n), rng.randint(0, 47)))
    u_lines = ["dup %s %s %s %d" % (cs, vec(b), vec(n), k_) for cs, b, n, k_ in u_req]
    ui = run_lines(ck, harness, u_lines)
    for j, (cs, b, n, k_) in enumerate(u_req):
        a = ui[j] if j < len(ui) else "missing"
        count("dup:" + a.split()[0] if a else "dup:missing")
        if not a.startswith("refused"):
            disagreements += 1
            report("src/Material/SlipSystemsDescription.cxx:addSlipSystemsFamily:duplicate-family-accepted:%s" % ("HCP" if cs == "HCP" else "cubic"),
                   "%s: after addSlipSystemsFamily(<%s>{%s}), a system generated by this family is accepted as a second family: %s" % (cs, vec(b), vec(n), a[:120]),
                   {"structure": cs, "first_family": [b, n], "index_of_the_generated_system_added_again": k_, "request": u_lines[j], "answer": a[:400]},
                   a.startswith("accepted") or a.startswith("CRASH"))
    ck.log("duplicates done")
    ck.assumptions += [
        "T2/M: harness/C56/harness.cxx includes the tree's SlipSystemsDescription.cxx and links the tree's src/NUMODIS/*.cxx; the family model (orbit of (b,n) under the point group, modulo the sign of each vector) is tied to getSlipSystems by exhaustive comparison over all index families in [-3,3] (Miller-Bravais: h+k+i=0), which is the property's own quantifier; larger indices are not covered by the correspondence",
        "plane indices are compared after division by their gcd (the IPlane constructor reduces them; Burgers vectors are kept as given)",
        "'equal up to sign' is taken per vector (NUMODIS identifies collinear index vectors), which implies the overall-sign reading",
        "floating-point outputs (long double) are compared with exact algebraic values with the absolute tolerance 2^-48; the orientation tensor is compared bit for bit with the correctly rounded 64-bit product of the returned direction and normal; HCP lattice constants as written in HCP.cxx (c/a = 1.632993162)",
        "Hardening (interaction ranks) is modelled as written, including HCP::Symmetry(k) with independent signs of the three basal indices (96 operations, not the point group 6/mmm); only the rank symmetry is a claim of the property",
    ]
    tot_fam = len([1 for r in ex_req if r[3]])
    return ck.finish({
        "evaluations": len(ex_lines) + len(t_lines) + len(g_lines) + len(s_lines) + len(r_lines) + len(a_lines) + len(u_lines),
        "distinct_nontrivial": len({l for l, r in zip(ex_lines, ex_req) if r[3]}) + len({l for l in t_lines if any(x != "0" for x in l.split()[1:4]) and any(x != "0" for x in l.split()[4:7])}) +
                               len(set(g_lines)) + len(set(s_lines)) + len(set(r_lines)),
        "rule": "requests sent to the implementation, counted once each: family expansions for every (b,n) with indices in [-3,3] and b.n = 0 (Cubic and HCP with h+k+i=0 exhaustively: %d and %d; FCC/BCC sampled in the quick tier) — non-trivial: well-defined families (each is expanded and compared as a set with the orbit); tensor requests with non-zero vectors; geometry, Schmid and rank requests (distinct lines). The finer counts are geometry_systems_checked, schmid_values_checked, rank_pairs_checked" % (len(fam["Cubic"]), len(fam["HCP"])),
        "exhaustive": True, "exhaustive_over": "all slip-system families with Miller / Miller-Bravais indices in [-3,3]: Cubic and HCP in both tiers, FCC and BCC (same code as Cubic) exhaustive in the thorough tier and sampled in the quick tier",
        "families": {cs: len(fam[cs]) for cs in fam}, "families_expanded": len([1 for r in ex_req if r[3]]), "family_size_histogram": {str(k): v for k, v in sorted(sizes.items())},
        "accessor_requests": len(a_lines), "accessor_systems_checked": n_all, "duplicate_family_requests": len(u_lines),
        "geometry_systems_checked": n_geom, "schmid_values_checked": n_schmid, "rank_pairs_checked": n_pairs,
        "descriptions": len(descs), "branch_histogram": hist, "disagreements": disagreements,
        "traces_validated_against_impl": len(ex_lines) + len(t_lines) + len(g_lines) + len(s_lines) + len(r_lines),
        "samples": ["%s -> impl '%s' model '%s'" % (ex_lines[i], impl[i][:70] if i < len(impl) else "?", model[i][:70] if i < len(model) else "?") for i in (0, 5000, len(ex_lines) - 100)] +
                   ["%s -> '%s'" % (s_lines[0][:80], si[0][:80])] if s_lines and si else [],
    })
