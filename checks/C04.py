"""C04 — requested eigenvalue ordering is honoured, ties included (tie: M, exhaustive over order patterns)."""
import itertools
import random

import vlib

PROPS = ["TfelVerif.C04.Props"]
FUNS = ["sortEigenValues", "SortEigenValues2", "SortEigenValues3", "SortEigenVectors2", "SortEigenVectors3", "fsesSort"]
SITE = {"sortEigenValues": "include/TFEL/Math/Stensor/stensor.ixx:sortEigenValues",
        "SortEigenValues2": "Internals/SortEigenValues.hxx:SortEigenValues<2u>",
        "SortEigenValues3": "Internals/SortEigenValues.hxx:SortEigenValues<3u>",
        "SortEigenVectors2": "Internals/SortEigenVectors.hxx:SortEigenVectors<2u>",
        "SortEigenVectors3": "Internals/SortEigenVectors.hxx:SortEigenVectors<3u>",
        "fsesSort": "include/FSES/Utilities.ixx:fses::sort"}


def property_holds(fn, o, inp, out):
    """the property itself, evaluated on an implementation answer"""
    f = out.split()
    if len(f) < 4 or f[0] != "v":
        return False
    try:
        v = [int(x) for x in f[1:4]]
    except ValueError:
        return False
    two_d = fn.endswith("2")
    if two_d:
        if v[2] != inp[2] or sorted(v[:2]) != sorted(inp[:2]):
            return False
        ok = True if o == "uns" else (v[0] <= v[1] if o == "asc" else v[0] >= v[1])
    else:
        if sorted(v) != sorted(inp):
            return False
        ok = True if o == "uns" else (v == sorted(inp) if o == "asc" else v == sorted(inp, reverse=True))
    if o == "uns" and v != list(inp):
        ok = False
    if not ok:
        return False
    if "idx" in f:
        try:
            idx = [int(x) for x in f[f.index("idx") + 1:]]
        except ValueError:
            return False   # rows-inconsistent etc.: eigenvectors no longer paired with their eigenvalue
        if sorted(idx) != [0, 1, 2] or any(inp[idx[j]] != v[j] for j in range(3)):
            return False
    return True


def canon(ans):
    """compare values exactly; the index triple is checked semantically (ties may legitimately differ)"""
    f = ans.split()
    return " ".join(f[:4])


def run(ck):
    rng = random.Random(ck.seed)
    harness = ck.cxx("c04h", ["C04/harness.cxx", vlib.REPO + "/src/Exception/ContractViolation.cxx"], sanitize=True)
    driver = ck.lean_exe("c04driver", "TfelVerif/C04/Driver.lean")
    res = ck.lean(PROPS, PROPS)
    ck.lean_violations(res)
    # requests: exhaustive over {0,1,2}^3 (all 13 weak orders of three values) x 3 orderings x 6 routines,
    # then seeded random integer triples with many ties
    reqs = []
    for fn in FUNS:
        for o in ("asc", "desc", "uns"):
            for t in itertools.product(range(3), repeat=3):
                reqs.append((fn, o, t))
    n_rand = 2000 if ck.quick else 200000
    for _ in range(n_rand):
        span = rng.choice([2, 3, 5, 1000])
        reqs.append((rng.choice(FUNS), rng.choice(["asc", "desc", "uns"]),
                     tuple(rng.randint(-span, span) for _ in range(3))))
    text = "".join("%s %s %d %d %d\n" % (fn, o, t[0], t[1], t[2]) for fn, o, t in reqs)
    pi = ck.run([harness], input=text, timeout=900)
    pm = ck.run([driver], input=text, timeout=900)
    if pi.returncode != 0:
        ck.violation("harness-crash", "the implementation harness aborted (sanitizer or crash)",
                     {"stderr": pi.stderr[-2000:]}, False)
    impl = pi.stdout.splitlines()
    model = pm.stdout.splitlines()
    patterns = set()
    disagreements = 0
    reported = set()
    for i, (fn, o, t) in enumerate(reqs):
        a = impl[i] if i < len(impl) else "missing"
        m = model[i] if i < len(model) else "missing"
        ranks = tuple(sorted(set(t)).index(x) for x in t)
        patterns.add((fn, o, ranks))
        holds = property_holds(fn, o, t, a)
        if canon(a) != canon(m) or not holds:
            disagreements += 1
            key = "%s:%s" % (SITE[fn], "ties" if len(set(t)) < 3 else "distinct")
            if key in reported:
                continue
            reported.add(key)
            rep = {"function": fn, "site": SITE[fn], "ordering": o, "input": list(t),
                   "implementation": a, "model": m, "property_holds_on_implementation_output": holds}
            if not holds:
                ck.violation(key, "%s(%s) on %s returns '%s': not the requested ordering of the input" % (fn, o, list(t), a), rep, True)
            else:
                ck.violation("corr:" + key, "correspondence Model.lean vs %s broken on %s (implementation output still sorted)" % (fn, list(t)), rep, False)
    ck.assumptions += [
        "M: Model.lean is tied to the C++ by differential execution (exhaustive over the 13 weak orders of three values x orderings x routines; the routines only compare values, so their behaviour depends on the order pattern alone)",
        "values are finite (no NaN): `a <= b` is modelled as not (b < a)",
    ]
    return ck.finish({
        "evaluations": len(reqs), "distinct_nontrivial": len(patterns),
        "rule": "requests = all triples over {0,1,2} (every weak order, ties included) x {asc,desc,uns} x 6 routines, plus seeded random integer triples; distinct = (routine, ordering, rank pattern) classes; non-trivial = every class (each exercises a comparison chain)",
        "exhaustive": True, "disagreements": disagreements,
        "traces_validated_against_impl": len(reqs),
        "samples": ["%s %s %s -> impl '%s' model '%s'" % (reqs[i][0], reqs[i][1], list(reqs[i][2]), impl[i] if i < len(impl) else "?", model[i] if i < len(model) else "?") for i in (0, 40, 200, 486)],
    })
