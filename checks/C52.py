"""C52 — tfel-check verdicts are independent of parallelism (tie: M; the real binary is run).

* lean/TfelVerif/C52/Model.lean: transition system of TFELCheck::execute (one task per .check file: private
  block, mutex, line-by-line copy into the log, futures, wait, fold) and the verdict function of one check
  (TestLauncher::execute). Props.lean: for EVERY interleaving, exit status = FAILURE iff some task failed or
  threw; the log is a permutation of the blocks, each contiguous; never interleaved at any time.
* tie: tfel-check is rebuilt from the sources of the tree (tfel-check.cxx, TestLauncher.cxx, PCLogger.cxx,
  ThreadPool.cxx, ProcessManager.cxx + harness/C52/hook.cxx, a seeded yield in the hook points of the pool)
  and run on seeded directories of generated `.check` files (passing/failing commands, output checks,
  `shall_fail`, comparisons of result files, unmet requirements, a malformed file) for -j 1..16.
  For every run: the verdict of every check and the exit status are compared with the model (native driver),
  the log is compared with the model's log for the observed order of the blocks, and the property's own
  predicate is evaluated on the outputs alone (every check has exactly one well-formed block, the multiset of
  blocks and the exit status are the same for every -j).
"""
import hashlib
import os
import random
import re
import shutil
import subprocess
import time

import vlib

PROPS = ["TfelVerif.C52.Props"]
TREE_SOURCES = [("tfel-check", "tfel-check/src/tfel-check.cxx"), ("TestLauncher", "tfel-check/src/TestLauncher.cxx"),
                ("PCLogger", "tfel-check/src/PCLogger.cxx"), ("ThreadPool", "src/System/ThreadPool.cxx"),
                ("ProcessManager", "src/System/ProcessManager.cxx"),
                # not an anchor, but the signal dispatch ProcessManager relies on (one ProcessManager per command
                # and per thread): compiled from the tree so that a repair of it can be checked on a scratch worktree
                ("SignalManager", "src/System/SignalManager.cxx")]
LIBS = ["TFELMFront", "TFELCheck", "TFELSystem", "TFELConfig", "MFrontLogStream", "TFELMaterial", "TFELNUMODIS",
        "TFELGlossary", "TFELUtilities", "TFELMathParser", "TFELUnicodeSupport", "TFELMathKriging",
        "TFELMathCubicSpline", "TFELMath", "TFELException"]
DEFINES = ("TFEL_VERIF_HOOKS", "TFEL_ARCH64", "LINUX64", "UNIX64", "THREAD", 'VERSION="5.2.0-dev"', "HAVE_FENV")
SITE = "tfel-check/src/tfel-check.cxx:TFELCheck::execute"


def includes():
    return [os.path.join(vlib.REPO, "mfront", "include"), os.path.join(vlib.REPO, "tfel-check", "include"),
            os.path.join(vlib.BUILD, "mfront", "include"), os.path.join(vlib.BUILD, "tfel-check", "include")]


def build_binary(ck, name, extra_flags=(), tag=""):
    """the real tfel-check, rebuilt from the anchored sources of the tree (content-addressed object cache)"""
    cache = os.path.join(vlib.VERIF, "work", "C52cache")
    os.makedirs(cache, exist_ok=True)
    units = [(n, os.path.join(vlib.REPO, s)) for n, s in TREE_SOURCES]
    units.append(("hook", os.path.join(vlib.VERIF, "harness", "C52", "hook.cxx")))
    kw = dict(includes=includes(), defines=DEFINES)

    def one(u):
        n, src = u
        ii = ck.cxx(n + tag + ".ii", [src], flags=["-E", "-P"], **kw)
        key = hashlib.sha256(open(ii, "rb").read() + ("|O1|" + " ".join(extra_flags)).encode()).hexdigest()[:24]
        os.remove(ii)
        obj = os.path.join(cache, "%s%s-%s.o" % (n, tag, key))
        if not os.path.exists(obj):
            tmp = ck.cxx(n + tag + ".o", [src], flags=["-c", "-fPIE"] + list(extra_flags), **kw)
            shutil.move(tmp, obj + ".tmp%d" % os.getpid())
            os.replace(obj + ".tmp%d" % os.getpid(), obj)
            old = sorted((f for f in os.listdir(cache) if f.startswith(n + tag + "-") and f.endswith(".o")),
                         key=lambda f: os.path.getmtime(os.path.join(cache, f)), reverse=True)
            for f in old[8:]:
                try:
                    os.remove(os.path.join(cache, f))
                except OSError:
                    pass
        else:
            os.utime(obj)
        return obj

    from concurrent.futures import ThreadPoolExecutor
    with ThreadPoolExecutor(max_workers=2) as ex:
        objs = list(ex.map(one, units))
    empty = ck.write("empty%s.cxx" % tag, "")
    for attempt in range(4):
        try:
            return ck.cxx(name, [empty], flags=list(extra_flags) + ["-pthread"], libs=objs + ck.libflags(*LIBS))
        except vlib.BuildError as e:
            if attempt == 3 or not any(w in e.log for w in ("file truncated", "file format not recognized",
                                                            "cannot find -l", "undefined reference to",
                                                            "No such file", "not found under")):
                raise
            ck.log("link failed (concurrent relink of the build tree?), retrying in 30 s")
            time.sleep(30)


# ----------------------------------------------------------------------------- generated test directories
RUN_SH = """#!/bin/sh
# usage: run.sh <exit status> <milliseconds> <token>
case "$2" in
  0) ;;
  ?) sleep "0.00$2" ;;
  *) sleep "0.0$2" ;;
esac
echo "$3"
exit "$1"
"""


#: designed checks present in every tree: (commands as (fails, expected_output matches or None, shall_fail), comparisons)
DESIGNED = [
    ([(False, None, False)], [False, True]),      # a failing comparison followed by a passing one
    ([(True, None, False)], [True]),              # a failing command forgiven (or not) by a passing comparison
    ([(True, None, False)], []),                  # a failing command, nothing to forgive it
    ([(True, None, True)], []),                   # a command which shall fail, and does
    ([(False, False, False)], []),                # unexpected output
    ([(False, True, False), (False, None, False)], [True, True]),
]


def gen_check(rng, d, name, k, big=False, designed=None):
    """one .check file and its model-side description"""
    spec = {"name": name, "dir": d, "req": True, "cmds": [], "cmps": [], "malformed": False, "files": {}}
    lines = []
    if designed is not None:
        cmds, cmps = designed
        for c, (fail, out, shall) in enumerate(cmds):
            tok = "tok%d_%d" % (k, c)
            cmd = "sh run.sh %d %d %s" % (1 if fail else 0, rng.choice([0, 2, 5]), tok)
            if out is not None:
                lines.append('@Command "%s"{expected_output : "%s"};' % (cmd, tok if out else tok + "x"))
            elif shall:
                lines.append('@Command "%s"{shall_fail : true};' % cmd)
            else:
                lines.append('@Command "%s";' % cmd)
            spec["cmds"].append({"ranOk": not fail, "outputOk": out, "shallFail": shall, "cmd": cmd})
        if cmps:
            lines.append("@Precision 1.e-6;")
        for c, same in enumerate(cmps):
            cur, ref = "%s-cur%d.res" % (name, c), "%s-ref%d.res" % (name, c)
            rows = [(i * 0.5, rng.uniform(1, 10)) for i in range(6)]
            spec["files"][cur] = "".join("%r %r\n" % r for r in rows)
            spec["files"][ref] = "".join("%r %r\n" % (t, v if same else v + 1.0) for t, v in rows)
            spec["cmps"].append(same)
            lines.append('@Test "%s" "%s" 2;' % (cur, ref))
        return spec, "\n".join(lines) + "\n"
    kind = rng.random()
    if kind < 0.05:
        spec["malformed"] = True
        return spec, '@Command "sh run.sh 0 1 x"\n@Oops;\n'      # missing ';' then an unknown keyword
    if kind < 0.12:
        spec["req"] = False
        lines.append('@Requires {"verif::no_such_component"};')
    ncmd = 40 if (big and rng.random() < 0.03) else rng.choice([1, 1, 2, 2, 3, 5] if big else [1, 1, 2, 2, 3])
    for c in range(ncmd):
        fail = rng.random() < 0.22
        ms = rng.choice([0, 1, 2, 5, 10, 20, 40])
        tok = "tok%d_%d" % (k, c)
        cmd = "sh run.sh %d %d %s" % (1 if fail else 0, ms, tok)
        opt = rng.random()
        out_ok, shall = None, False
        if opt < 0.2:
            exp = tok if rng.random() < 0.7 else tok + "x"
            out_ok = exp == tok
            lines.append('@Command "%s"{expected_output : "%s"};' % (cmd, exp))
        elif opt < 0.35:
            shall = True
            lines.append('@Command "%s"{shall_fail : true};' % cmd)
        else:
            lines.append('@Command "%s";' % cmd)
        spec["cmds"].append({"ranOk": not fail, "outputOk": out_ok, "shallFail": shall, "cmd": cmd})
    ncmp = rng.choice([0, 0, 1, 1, 2])
    if ncmp:
        lines.append("@Precision 1.e-6;")
    for c in range(ncmp):
        cur, ref = "%s-cur%d.res" % (name, c), "%s-ref%d.res" % (name, c)
        rows = [(i * 0.5, rng.uniform(1, 10)) for i in range(6)]
        same = rng.random() < 0.7
        missing = (not same) and rng.random() < 0.3
        spec["files"][cur] = "".join("%r %r\n" % r for r in rows)
        if not missing:
            spec["files"][ref] = "".join("%r %r\n" % (t, v if same else v + 1.0) for t, v in rows)
        spec["cmps"].append(same)
        lines.append('@Test "%s" "%s" 2;' % (cur, ref))
    return spec, "\n".join(lines) + "\n"


def gen_tree(rng, root, nchecks, big=False):
    os.makedirs(root)
    specs = []
    ndirs = max(1, nchecks // 4)
    for k in range(nchecks):
        d = "d%02d" % rng.randrange(ndirs)
        if rng.random() < 0.15:
            d = d + "/sub"
        os.makedirs(os.path.join(root, d), exist_ok=True)
        with open(os.path.join(root, d, "run.sh"), "w") as f:
            f.write(RUN_SH)
        name = "t%03d" % k
        spec, text = gen_check(rng, d, name, k, big, DESIGNED[k] if k < len(DESIGNED) else None)
        with open(os.path.join(root, d, name + ".check"), "w") as f:
            f.write(text)
        for fn, content in spec["files"].items():
            with open(os.path.join(root, d, fn), "w") as f:
                f.write(content)
        specs.append(spec)
    return specs


UNTIL_SH = """#!/bin/sh
# usage: until.sh <token>: tell that the command has started, wait for the file `go`, print the token
: > "ready.$1"
while [ ! -e go ]; do sleep 0.01; done
echo "$1"
"""


def gen_barrier_tree(root, n):
    """n checks of one command each; the commands all wait for the same file, so that the n tasks end (and
    take the log mutex) at the same moment: the schedule in which the log synchronisation matters most"""
    os.makedirs(os.path.join(root, "d"))
    with open(os.path.join(root, "d", "until.sh"), "w") as f:
        f.write(UNTIL_SH)
    specs = []
    for k in range(n):
        name = "b%03d" % k
        cmd = "sh until.sh tok%d" % k
        with open(os.path.join(root, "d", name + ".check"), "w") as f:
            f.write('@Command "%s";\n' % cmd)
        specs.append({"name": name, "dir": "d", "req": True, "malformed": False, "files": {}, "cmps": [],
                      "cmds": [{"ranOk": True, "outputOk": None, "shallFail": False, "cmd": cmd}]})
    return specs


UNTIL2_SH = """#!/bin/sh
# usage: until2.sh <token> <seconds>: tell that the command has started, wait for the file `go`, sleep, print the token
: > "ready.$1"
while [ ! -e go ]; do sleep 0.01; done
sleep "$2"
echo "$1"
"""

#: checks whose file names contain several dots and share what precedes the first one:
#: (stem, token printed and expected by the first command, seconds slept after the barrier, second command)
DOTTED = [
    ("stage.1", "stage-one-prints-a-long-line-AAAAAAAAAAAAAAAA", "0", True),
    ("stage.2", "s2", "0.2", True),
    ("stage.3.x", "stage-three-x", "0.1", False),
    ("run.a", "run-a-output-BBBBBBBB", "0", False),
    ("run.b", "rb", "0.15", False),
    ("a.b.c", "abc", "0.05", False),
    ("solo", "solo-output", "0", False),
]


def gen_dotted_tree(root):
    """checks named `stage.1.check`, `stage.2.check`, ...: every check validates the output of its own command
    (`expected_output`, a different text for each) and the commands all overlap in time (they wait for the same
    file). Each check must only use files named from its own full stem (<stem>-Exec-k.out, <stem>.checklog,
    TEST-<stem>.xml): its verdict must not depend on what runs at the same time."""
    os.makedirs(os.path.join(root, "d"))
    with open(os.path.join(root, "d", "until2.sh"), "w") as f:
        f.write(UNTIL2_SH)
    specs = []
    for stem, tok, delay, second in DOTTED:
        cmd = "sh until2.sh %s %s" % (tok, delay)
        text = '@Command "%s"{expected_output : "%s"};\n' % (cmd, tok)
        cmds = [{"ranOk": True, "outputOk": True, "shallFail": False, "cmd": cmd}]
        if second:
            cmd2 = "sh until2.sh %s-second 0" % tok
            text += '@Command "%s";\n' % cmd2
            cmds.append({"ranOk": True, "outputOk": None, "shallFail": False, "cmd": cmd2})
        with open(os.path.join(root, "d", stem + ".check"), "w") as f:
            f.write(text)
        specs.append({"name": stem, "dir": "d", "req": True, "malformed": False, "files": {}, "cmps": [], "cmds": cmds})
    return specs


def produced_files(root):
    d = os.path.join(root, "d")
    return sorted(f for f in os.listdir(d) if f.endswith(".checklog") or (f.startswith("TEST-") and f.endswith(".xml"))
                  or re.search(r"-Exec-\d+\.out$", f))


def expected_files(specs):
    out = []
    for s in specs:
        out += [s["name"] + ".checklog", "TEST-" + s["name"] + ".xml"]
        out += ["%s-Exec-%d.out" % (s["name"], k + 1) for k in range(len(s["cmds"]))]
    return sorted(out)


def release_when_ready(root, n, limit=120.0):
    """creates d/go once n commands are waiting (or after `limit` seconds); returns the thread"""
    import threading
    d = os.path.join(root, "d")
    for f in os.listdir(d):
        if f == "go" or f.startswith("ready."):
            os.remove(os.path.join(d, f))

    def work():
        t0 = time.time()
        while time.time() - t0 < limit:
            if sum(1 for f in os.listdir(d) if f.startswith("ready.")) >= n:
                break
            time.sleep(0.02)
        open(os.path.join(d, "go"), "w").close()
    th = threading.Thread(target=work)
    th.start()
    return th


# ----------------------------------------------------------------------------- observation of one run
ANSI = re.compile(r"\x1b\[[0-9;]*m|\x1b\[?[0-9;]*[A-Za-z]")


def parse_log(text):
    """blocks of tfel-check.log: list of (test name or None, list of lines)"""
    blocks, cur = [], []
    for line in text.split("\n"):
        cur.append(line)
        if line == "======":
            blocks.append(cur)
            cur = []
    tail = [l for l in cur if l != ""]
    out = []
    for b in blocks:
        name = None
        for l in b:
            m = re.match(r"\* beginning of test '(.*)'$", l)
            if m:
                name = m.group(1)
                break
        out.append((name, b))
    return out, tail


def block_verdict(b):
    """(well-formed, verdict) of a block: header lines, one result line for the end of the test, terminator"""
    name = None
    if len(b) < 4 or not b[0].startswith("entering directory '"):
        return False, None
    m = re.match(r"\* beginning of test '(.*)'$", b[1])
    if not m or b[-1] != "======":
        return False, None
    name = m.group(1)
    # colour sequences of PCTextDriver (the reset sequence ends with SI, 0x0f)
    end = "".join(c for c in ANSI.sub("", b[-2]) if ord(c) >= 32)
    if not end.startswith("* end of test '%s" % name[:40]):
        return False, None
    if end.rstrip().endswith("[SUCCESS]"):
        return True, True
    if end.rstrip().endswith("[ FAILED]"):
        return True, False
    return False, None


def failed_command(b):
    """a `** Exec-k …` line of the block reports a failure"""
    for l in b[2:-2]:
        t = "".join(c for c in ANSI.sub("", l) if ord(c) >= 32)
        if t.startswith("** Exec-") and t.rstrip().endswith("[ FAILED]"):
            return True
    return False


def has_comparison(b):
    return any(ANSI.sub("", l).startswith("** Compare-") for l in b[2:-2])


def failed_comparison(b):
    """a `** Compare-k …` line of the block reports a failure"""
    for l in b[2:-2]:
        t = "".join(c for c in ANSI.sub("", l) if ord(c) >= 32)
        if t.startswith("** Compare-") and t.rstrip().endswith("[ FAILED]"):
            return True
    return False


def run_once(binary, root, j, yseed, extra=(), timeout=300, _attempt=0):
    for f in ("tfel-check.log",):
        try:
            os.remove(os.path.join(root, f))
        except OSError:
            pass
    env = dict(os.environ)
    env["C52_YIELD_SEED"] = str(yseed)
    # own process group: a hung run is killed with the commands it started
    p = subprocess.Popen([binary, "-j", str(j)] + list(extra), cwd=root, env=env, stdout=subprocess.PIPE,
                         stderr=subprocess.PIPE, start_new_session=True)
    try:
        _, err = p.communicate(timeout=timeout)
        rc = p.returncode
    except subprocess.TimeoutExpired:
        import signal
        try:
            os.killpg(p.pid, signal.SIGKILL)
        except OSError:
            pass
        _, err = p.communicate()
        rc = "timeout"
    try:
        text = open(os.path.join(root, "tfel-check.log"), errors="replace").read()
    except OSError:
        text = ""
    err = err.decode(errors="replace")
    if rc == 127 and _attempt < 4 and any(w in err for w in ("error while loading shared libraries",
                                                             "symbol lookup error", "undefined symbol")):
        time.sleep(30)      # a shared library of the build tree is being relinked by another check
        return run_once(binary, root, j, yseed, extra, timeout, _attempt + 1)
    return rc, text, err[-2000:]


def hexline(l):
    return "L" + l.encode().hex()


def test_name(spec):
    return "./%s/%s.check" % (spec["dir"], spec["name"])


# ----------------------------------------------------------------------------- the check
def run(ck):
    rng = random.Random(ck.seed)
    q = ck.quick
    if vlib.BUILD_MATCHES_REPO:
        ck.ensure_targets("TFELCheck", "TFELMFront", "TFELSystem")
    else:
        ck.notes.append("scratch worktree without its own build tree: the anchored sources are compiled from the "
                        "worktree into the tfel-check binary; the prebuilt libraries of %s provide the rest" % vlib.BUILD)
    binary = build_binary(ck, "c52-tfel-check")
    driver = ck.lean_exe("c52driver", "TfelVerif/C52/Driver.lean")
    res = ck.lean(PROPS, PROPS)
    ck.lean_violations(res)
    if not q:
        for m, msg in ck.leanchecker(PROPS):
            ck.violation("leanchecker:" + m, "leanchecker rejects " + m, {"log": msg}, False)

    classes = {}

    def report(key, found, what, rep):
        old = classes.get(key)
        if old is None or (found and not old[0]):
            classes[key] = (found, what, rep)

    def ask(lines):
        p = ck.run([driver], input="".join(l + "\n" for l in lines), timeout=600)
        return p.stdout.splitlines()

    stats = {"runs": 0, "checks": 0, "verdicts_compared": 0, "orders": set(), "jobs": {}, "failing_runs": 0,
             "status_hist": {}, "blocks": 0}
    samples = []
    ntrees = 2 if q else 6
    jobs_list = [1, 5, 16] if q else list(range(1, 17))
    for tr in range(ntrees + 2):
        dotted = tr == ntrees + 1   # last: multi-dot file names sharing a prefix, output checks, overlapping commands
        barrier = tr == ntrees      # the tree whose 16 tasks end at the same moment
        nchecks = rng.choice([7, 9]) if q else rng.choice([8, 12, 20, 40])
        if tr == ntrees - 1:
            nchecks = max(nchecks, 12 if q else 24)
        root = ck.path("tree%d" % tr)
        specs = (gen_dotted_tree(root) if dotted else gen_barrier_tree(root, 16) if barrier
                 else gen_tree(rng, root, nchecks, big=not q))
        discard = barrier or dotted or (tr % 2 == 0)    # every other tree is run with --discard-commands-failure=false
        extra = [] if discard else ["--discard-commands-failure=false"]
        # model verdicts
        vlines = []
        for s in specs:
            if s["malformed"]:
                vlines.append(None)
                continue
            toks = ["verdict", "1" if s["req"] else "0", "1" if discard else "0", str(len(s["cmds"]))]
            for c in s["cmds"]:
                toks += ["1" if c["ranOk"] else "0", "-" if c["outputOk"] is None else ("1" if c["outputOk"] else "0"),
                         "1" if c["shallFail"] else "0"]
            toks += [str(len(s["cmps"]))] + ["1" if x else "0" for x in s["cmps"]]
            vlines.append(" ".join(toks))
        ans = ask([v for v in vlines if v is not None])
        it = iter(ans)
        model_verdict = {}
        for s, v in zip(specs, vlines):
            model_verdict[test_name(s)] = False if v is None else (next(it, "missing") == "1")
        expected_status = 1 if any(not v for v in model_verdict.values()) else 0
        stats["checks"] += len(specs)
        reference = None      # blocks of the first run (-j 1), by test name
        # the last tree is also run repeatedly with the largest number of jobs (many short commands in parallel)
        stress = [16] * (3 if q else 20) if tr == ntrees - 1 else []
        jl = jobs_list if (not q or tr == 0) else [1, 16]
        if barrier:
            jl, stress = [16] * (4 if q else 15), []
        if dotted:
            # -j 1 (reference), several jobs, then every check alone (given on the command line)
            jl, stress = ([1, 16, 2] if q else [1, 2, 3, 4, 8, 16, 16]), []
            jl = jl + [("alone", s) for s in specs]
        verdict_ref = {}
        for j in jl + stress:
            alone = None
            if isinstance(j, tuple):
                alone, j = j[1], 1
            yseed = rng.randrange(1, 2 ** 31) if j > 1 else 0
            if dotted:
                for f in produced_files(root):
                    os.remove(os.path.join(root, "d", f))
            th = release_when_ready(root, 1 if alone else min(j, len(specs))) if (barrier or dotted) else None
            rc, text, err = run_once(binary, root, j, yseed,
                                     list(extra) + (["d/%s.check" % alone["name"]] if alone else []))
            if th is not None:
                th.join()
            if alone:
                # one check given on the command line: its verdict must be the one it gets among the others
                stats["runs"] += 1
                bl, _ = parse_log(text)
                wf, v = block_verdict(bl[0][1]) if len(bl) == 1 else (False, None)
                n0 = test_name(alone)
                if not wf or v != verdict_ref.get(n0, v) or (rc == 1) != (v is False):
                    report("tfel-check/src/TestLauncher.cxx:TestLauncher:verdict-depends-on-the-other-checks", True,
                           "%s run alone: exit status %s, verdict %s; verdict %s when run with the other checks (-j 1)" %
                           (n0, rc, v, verdict_ref.get(n0)),
                           {"tree": "seed %d: d/%s" % (ck.seed, ", d/".join(x["name"] + ".check" for x in specs)),
                            "checks": [{"name": test_name(x), "commands": [c["cmd"] for c in x["cmds"]]} for x in specs],
                            "alone": n0, "exit_status": rc, "log": text[-1500:]})
                continue
            stats["runs"] += 1
            stats["jobs"][j] = stats["jobs"].get(j, 0) + 1
            stats["status_hist"][rc] = stats["status_hist"].get(rc, 0) + 1
            blocks, tail = parse_log(text)
            rep = {"tree": "seed %d, tree %d%s: %d checks%s" % (ck.seed, tr, " (all the commands wait for the same file and end together)" if barrier else
                                                          " (d/stage.1.check, d/stage.2.check, ...: several dots, shared prefixes, expected_output, overlapping commands)" if dotted else "",
                                                          len(specs), "" if discard else ", --discard-commands-failure=false"),
                   "jobs": j, "yield_seed": yseed, "exit_status": rc, "stderr": err[-600:],
                   "checks": [{"name": test_name(s), "commands": [c["cmd"] for c in s["cmds"]],
                               "model_verdict": model_verdict[test_name(s)]} for s in specs][:40]}
            names = [n for n, _ in blocks]
            stats["blocks"] += len(blocks)
            stats["orders"].add(tuple(names))
            # --- the property's own predicate on the outputs of the implementation
            ok = True
            if rc == "timeout":
                ok = False
                report(SITE + ":hang", True, "tfel-check -j %d on %d checks did not terminate (killed after 300 s)" %
                       (j, len(specs)), rep)
            elif rc not in (0, 1):
                ok = False
                report(SITE + ":crash", True, "tfel-check -j %d on %d checks ended with status %s (%d blocks in the log)" %
                       (j, len(specs), rc, len(blocks)), rep)
            if tail:
                ok = False
                report(SITE + ":log-blocks", True, "tfel-check.log (-j %d) ends with an unterminated block: %r" % (j, tail[:3]),
                       dict(rep, log_tail=tail[:10]))
            expected_names = sorted(test_name(s) for s in specs)
            if sorted(n or "?" for n in names) != expected_names:
                ok = False
                missing = sorted(set(expected_names) - set(names))
                dup = sorted(n for n in set(names) if names.count(n) > 1)
                report(SITE + ":log-blocks", True,
                       "tfel-check.log (-j %d): blocks do not match the checks one to one (missing %s, repeated %s, %d blocks for %d checks)"
                       % (j, missing[:3], dup[:3], len(blocks), len(specs)), rep)
            observed_verdict = {}
            for n, b in blocks:
                wf, v = block_verdict(b)
                if not wf:
                    ok = False
                    report(SITE + ":log-blocks", True,
                           "tfel-check.log (-j %d): the block of %s is not well formed (interleaved or truncated)" % (j, n),
                           dict(rep, block=b[:12]))
                else:
                    observed_verdict[n] = v
                    if v and failed_comparison(b):
                        ok = False
                        report("tfel-check/src/TestLauncher.cxx:execute:verdict", True,
                               "%s is reported as a success although one of its comparisons failed" % n,
                               dict(rep, block=b[:16]))
                    elif v and failed_command(b) and (not discard or not has_comparison(b)):
                        # documented: a command's failure is discarded only by default and only if there are comparisons
                        ok = False
                        report("tfel-check/src/TestLauncher.cxx:execute:verdict", True,
                               "%s is reported as a success although one of its commands failed and %s" %
                               (n, "no comparison is declared" if not has_comparison(b) else
                                "--discard-commands-failure=false was given"), dict(rep, block=b[:16]))
            any_failed = any(v is False for v in observed_verdict.values())
            if ok and (rc == 1) != any_failed:
                ok = False
                report(SITE + ":exit-status", True,
                       "tfel-check -j %d exits with %d but %s check failed according to its own log" %
                       (j, rc, "a" if any_failed else "no"), rep)
            if dotted and rc in (0, 1):
                got, want_files = produced_files(root), expected_files(specs)
                if got != want_files:
                    ok = False
                    report("tfel-check/src/TestLauncher.cxx:TestLauncher:private-files", False,
                           "the checks do not each write their own files (-j %d): missing %s, unexpected %s" %
                           (j, sorted(set(want_files) - set(got))[:4], sorted(set(got) - set(want_files))[:4]),
                           dict(rep, produced=got, expected=want_files))
            if not verdict_ref:
                verdict_ref.update(observed_verdict)
            else:
                for n, v in observed_verdict.items():
                    if n in verdict_ref and verdict_ref[n] != v:
                        report("tfel-check/src/TestLauncher.cxx:TestLauncher:verdict-depends-on-the-other-checks", True,
                               "the verdict of %s depends on the number of jobs: %s with -j %s, %s with -j %d" %
                               (n, verdict_ref[n], jl[0], v, j),
                               dict(rep, block=next((b for m, b in blocks if m == n), [])[:10]))
                        break
            if reference is None:
                reference = {"rc": rc, "blocks": {n: b for n, b in blocks}}
            elif ok:
                if rc != reference["rc"]:
                    report(SITE + ":exit-status", True,
                           "exit status depends on the number of jobs: %d with -j %d, %d with -j %d" %
                           (reference["rc"], jl[0], rc, j), rep)
                for n, b in blocks:
                    if reference["blocks"].get(n) != b:
                        report(SITE + ":log-blocks", True,
                               "the block of %s differs between -j %d and -j %d" % (n, jl[0], j),
                               dict(rep, block=b[:12], reference_block=(reference["blocks"].get(n) or [])[:12]))
                        break
            # --- correspondence with the model
            for n, v in observed_verdict.items():
                stats["verdicts_compared"] += 1
                if n in model_verdict and model_verdict[n] != v:
                    s = next(x for x in specs if test_name(x) == n)
                    report("corr:tfel-check/src/TestLauncher.cxx:execute:verdict", False,
                           "verdict of %s: implementation %s, model %s" % (n, v, model_verdict[n]),
                           dict(rep, check=s["cmds"], comparisons=s["cmps"], requirements_met=s["req"]))
            if ok and rc != expected_status:
                report("corr:" + SITE + ":exit-status", False,
                       "exit status %d, the model predicts %d" % (rc, expected_status), rep)
            if ok and reference is not None:
                # model log for the observed order of the blocks, with the blocks of the first run
                order_names = names
                idx = {test_name(s): k for k, s in enumerate(specs)}
                toks = ["log", str(len(specs))]
                for s in specs:
                    b = reference["blocks"].get(test_name(s), [])
                    out = "ok" if model_verdict[test_name(s)] else "failed"
                    toks += [out, str(len(b))] + [hexline(l) for l in b]
                toks += [str(len(order_names))] + [str(idx[n]) for n in order_names]
                a = ask([" ".join(toks)])
                a = a[0] if a else "missing"
                want = " ".join(["status=%d" % rc] + [hexline(l) for _, b in blocks for l in b])
                if a != want:
                    report("corr:" + SITE + ":log", False,
                           "the log of -j %d is not the one of the model for the observed order of the blocks (%s)" %
                           (j, a[:60]), rep)
            if len(samples) < 6:
                samples.append({"jobs": j, "checks": len(specs), "exit_status": rc, "order": names[:8]})
        shutil.rmtree(root, ignore_errors=True)

    for key, (found, what, rep) in sorted(classes.items()):
        ck.violation(key, what, rep, found)

    ck.assumptions += [
        "ThreadPool: every submitted task runs exactly once and wait() returns only when all are done "
        "(assumption of the model; proved for the pool's own model in C29)",
        "the status of each command is the one reported by ProcessManager (C30); std::exit paths on bad inputs are sequential",
        "hand-written model tied by running the real binary on seeded generated inputs, not by translation; "
        "schedules are perturbed by seeded yields in the hook points of the pool, not enumerated",
        "an exception escaping the `exe` lambda (none is generated here) loses the block of its check: the theorems "
        "only claim the blocks of the tasks that returned"]
    return ck.finish({
        "evaluations": stats["runs"], "distinct_nontrivial": len(stats["orders"]),
        "rule": "distinct orders of the blocks observed in tfel-check.log over all the runs",
        "samples": samples, "exhaustive": False,
        "checks_generated": stats["checks"], "blocks_parsed": stats["blocks"],
        "verdicts_compared_with_model": stats["verdicts_compared"],
        "runs_per_jobs": stats["jobs"], "exit_status_histogram": stats["status_hist"]})
