"""C27 — out-of-bounds policies behave as documented (tie: M, model + differential correspondence).

Runtime half : the real tfel::material::BoundsCheck<N> templates (BoundsCheck.hxx + src/Material/BoundsCheck.cxx
               compiled into harness/C27/harness.cxx) against Model.lean on scalars (double/float/long double/int),
               quantities, stensor<N,double>, stensor<N,qt> — values on / next to (1 ulp) / away from the bounds,
               three policies + omitted policy argument; what is compared: exception (kind, component), warnings
               printed on std::cerr (kinds, components, order), or nothing.
Emission half: the real mfront::writeBoundsChecks / writePhysicalBoundsChecks (CodeGeneratorUtilities.cxx of the
               current tree compiled into harness/C27/emit.cxx, VariableDescription from libTFELMFront) against
               the text produced by Model.lean on exhaustive flags + random VariableDescriptions.
On a differing line the property's own predicate is evaluated (in python, from the request alone) on the
implementation's answer: violated -> failing input; still satisfied -> broken correspondence.
"""
import itertools
import os
import random
import re

import vlib

PROPS = ["TfelVerif.C27.Props"]
NCOMP = {1: 3, 2: 4, 3: 6}
POLICIES = ["warning", "strict", "none", "dflt"]
KINDS = ["lower", "upper", "both"]
SCALAR_FORMS = ["s", "sf", "sl", "si", "q", "qq"]
TENSOR_FORMS = ["t", "tq", "tqq"]
MODEL_FORM = {"s": "s", "sf": "s", "sl": "s", "si": "s", "q": "q", "qq": "s", "t": "t", "tq": "tq", "tqq": "t"}
SITE = {"lower": "lowerBoundCheck", "upper": "upperBoundCheck", "both": "lowerAndUpperBoundsChecks"}
FORMDESC = {"s": "double", "sf": "float", "sl": "long double", "si": "int", "q": "qt<Stress> value, double bounds",
            "qq": "qt<Stress> value and bounds", "t": "stensor<N,double>", "tq": "stensor<N,qt<Stress>>, double bounds",
            "tqq": "stensor<N,qt<Stress>>, qt bounds"}


def libflags(libs):
    """link flags for the prebuilt TFEL libraries: the build tree of the tree under test when it has one,
    else /repo/_build (scratch worktrees have no build tree; the anchored sources are compiled into the
    harness from the tree under test anyway)"""
    for build in (vlib.BUILD, "/repo/_build"):
        dirs = {}
        for root, _, files in os.walk(build):
            for f in files:
                m = re.match(r"lib(\w+)\.so$", f)
                if m and m.group(1) in libs:
                    dirs[m.group(1)] = root
        if all(l in dirs for l in libs):
            out = []
            for l in libs:
                out += ["-L" + dirs[l], "-Wl,-rpath," + dirs[l], "-l" + l]
            return out, build
    raise vlib.BuildError("prebuilt TFEL libraries not found: %s" % ", ".join(libs), "")


def out_of(kind, v, lb, ub):
    return {"lower": v < lb, "upper": v > ub, "both": v < lb or v > ub}[kind]


def expected_runtime(form, n, kind, pol, lb, ub, vs):
    """the PROPERTY evaluated from the request alone: (thrown component or None / '-' , list of warned components)"""
    tensor = form in TENSOR_FORMS
    outs = [i for i, v in enumerate(vs) if out_of(kind, v, lb, ub)]
    p = "strict" if pol == "dflt" else pol
    if p == "none" or not outs:
        return None, []
    if p == "strict":
        return (outs[0] if tensor else "-"), []
    return None, [(i if tensor else "-") for i in outs]


def parse_answer(a):
    m = re.match(r"thrown=(\S+) warned=(\S+)$", a)
    if not m:
        return None

    def ev(s):
        if s == "-":
            return []
        r = []
        for e in s.split(","):
            k, _, c = e.partition("@")
            r.append((k, c if c == "-" else (int(c) if c.isdigit() else c)))
        return r
    return ev(m.group(1)), ev(m.group(2))


def property_holds_runtime(req, ans):
    form, n, kind, pol, lb, ub, vs = req
    pa = parse_answer(ans)
    if pa is None:
        return False
    thrown, warned = pa
    et, ew = expected_runtime(form, n, kind, pol, lb, ub, vs)
    if (et is None) != (not thrown):
        return False
    if thrown and (len(thrown) != 1 or thrown[0][1] != et):
        return False
    # warnings: exactly the out-of-bounds components, in order (the split 2D quantity overload may say it twice
    # for inverted bounds: once as lower, once as upper — same component, still "warned")
    wc = [c for _, c in warned]
    if form == "q" and n == 2 and kind == "both":
        wc = sorted(set(wc), key=wc.index)
    return wc == ew


def top_args(stmt):
    """arguments of the outermost call of an emitted statement"""
    stmt = stmt.replace("->", "\u2192")      # `this->x`: not a closing angle bracket
    i = stmt.index("(")
    depth, cur, args, instr = 0, "", [], False
    for ch in stmt[i:]:
        if ch == '"':
            instr = not instr
        if not instr:
            if ch in "(<[":
                depth += 1
                if depth == 1:
                    continue
            elif ch in ")>]":
                depth -= 1
                if depth == 0:
                    args.append(cur)
                    break
            elif ch == "," and depth == 1:
                args.append(cur)
                cur = ""
                continue
        cur += ch
    return [a.strip().replace("\u2192", "->") for a in args]


def property_holds_emission(req, text, lo="", up=""):
    """physical bounds: no policy argument; standard bounds: the policy expression verbatim as last argument;
    one statement (two with the end-of-step value) of the declared kind, checking the variable (then its
    end-of-step value) against the declared bound(s) in the order (lower, upper); nothing without bounds"""
    stmts = [s for s in text.replace("\\n", "\n").split(";\n") if s]
    if not req["has"]:
        return stmts == []
    if len(stmts) != (2 if req["checkEnd"] else 1):
        return False
    nb = 2 if req["kind"] == "both" else 1
    nt = req["type"] if req["scalar"] else "tfel::math::numeric_type<%s>" % req["type"]
    want_bounds = {"lower": [lo], "upper": [up], "both": [lo, up]}[req["kind"]]
    want_bounds = ["static_cast<%s>(%s)" % (nt, b) for b in want_bounds]
    this = "this->" if req["addThis"] else ""
    want_expr = [this + req["name"], this + req["name"] + "+this->d" + req["name"]]
    want_label = ['"%s"' % req["name"], '"%s+d%s"' % (req["name"], req["name"])]
    for k, s in enumerate(stmts):
        if "::" + SITE[req["kind"]] + "(" not in s or ("BoundsCheck<%s>" % req["dim"]) not in s:
            return False
        try:
            a = top_args(s)
        except ValueError:
            return False
        if a[0] != want_label[k] or a[1] != want_expr[k] or a[2:2 + nb] != want_bounds:
            return False
        if req["physical"]:
            if len(a) != 2 + nb:
                return False
        else:
            if len(a) != 3 + nb or a[-1] != req["policy"].strip():
                return False
    return True



def lean_checked(ck, mods, props):
    """ck.lean, re-run once when a props module could not be audited although lake succeeded (its .olean was
    momentarily missing: the lake build directory is shared); still unaudited afterwards = broken obligation"""
    res = ck.lean(mods, props)
    if res.ok and res.failed:
        ck.lean_results.pop()
        res = ck.lean(mods, props)
        if res.ok and res.failed:
            res.ok = False
    return res

def run(ck):
    rng = random.Random(ck.seed)
    # ------------------------------------------------------------------ build
    src = vlib.REPO + "/src/"
    harness = ck.cxx("c27h", ["C27/harness.cxx", src + "Material/BoundsCheck.cxx", src + "Material/MaterialException.cxx",
                              src + "Exception/TFELException.cxx"], sanitize=True)
    # libTFELMFront only provides the classes around the anchored function (VariableDescription, SupportedTypes);
    # CodeGeneratorUtilities.cxx itself is compiled into the harness from the tree under test. For a scratch
    # worktree without a build tree of its own the support library of the fallback build tree is used as is.
    if getattr(vlib, "BUILD_MATCHES_REPO", os.path.isdir(os.path.join(vlib.REPO, "_build"))):
        ck.ensure_targets("TFELMFront")
    lf, used_build = libflags(["TFELMFront", "TFELConfig", "TFELUtilities", "TFELException", "TFELGlossary", "TFELSystem"])
    emitter = ck.cxx("c27e", ["C27/emit.cxx", vlib.REPO + "/mfront/src/CodeGeneratorUtilities.cxx"],
                     includes=[vlib.REPO + "/mfront/include", "/repo/_build/include"], libs=lf)
    driver = ck.lean_exe("c27driver", "TfelVerif/C27/Driver.lean")
    res = lean_checked(ck, PROPS, PROPS)
    ck.lean_violations(res)
    if ck.tier == "thorough" and res.ok:
        for m_, log in ck.leanchecker(PROPS):
            ck.violation("leanchecker:" + m_, "leanchecker rejects " + m_, {"log": log}, False)

    # ------------------------------------------------------------------ runtime requests
    reqs = []
    LB, UB = 0, 12          # decoded: 0.0 and 1.0; -1/1 and 11/13 are their floating-point neighbours
    pos = [-6, -3, -1, 0, 1, 6, 11, 12, 13, 15, 30]
    bounds = [(LB, UB), (6, 6), (UB, LB)]     # two-sided, degenerate, inverted
    for form in SCALAR_FORMS:
        for n in (1, 2, 3):
            for kind in KINDS:
                for pol in POLICIES:
                    for (lb, ub) in bounds:
                        for v in pos:
                            reqs.append((form, n, kind, pol, lb, ub, (v,)))
    comp_vals = [-1, 6, 13]
    for form in TENSOR_FORMS:
        for n in (1, 2, 3):
            full = list(itertools.product(comp_vals, repeat=NCOMP[n]))
            if ck.quick and n == 3 and form != "t":
                full = rng.sample(full, 200)
            for kind in KINDS:
                for pol in POLICIES:
                    for vs in full:
                        reqs.append((form, n, kind, pol, LB, UB, vs))
    n_rand = 4000 if ck.quick else 150000
    for _ in range(n_rand):
        form = rng.choice(SCALAR_FORMS + TENSOR_FORMS * 2)
        n = rng.choice((1, 2, 3))
        lb = rng.randint(-20, 20)
        ub = lb + rng.choice([0, 1, 2, 3, 12, 40]) if rng.random() < 0.9 else lb - rng.randint(1, 5)
        cnt = NCOMP[n] if form in TENSOR_FORMS else 1
        vs = tuple(rng.choice([lb - 1, lb, lb + 1, ub - 1, ub, ub + 1, rng.randint(-60, 60)]) for _ in range(cnt))
        reqs.append((form, n, rng.choice(KINDS), rng.choice(POLICIES), lb, ub, vs))

    def line(r, model):
        form = MODEL_FORM[r[0]] if model else r[0]
        return "rt %s %d %s %s %d %d %s\n" % (form, r[1], r[2], r[3], r[4], r[5], " ".join(str(v) for v in r[6]))
    pi = ck.run([harness], input="".join(line(r, False) for r in reqs) + "nan\n", timeout=1800)
    pm = ck.run([driver], input="".join(line(r, True) for r in reqs), timeout=1800)
    if pi.returncode != 0:
        ck.violation("harness-crash", "the runtime harness aborted (sanitizer or crash)", {"stderr": pi.stderr[-2000:]}, False)
    impl = pi.stdout.splitlines()
    model = pm.stdout.splitlines()
    nan_obs = impl[len(reqs)] if len(impl) > len(reqs) else "?"
    classes = set()
    hist = {"throw": 0, "warn": 0, "silent": 0}
    disagreements = 0
    reported = set()
    for i, r in enumerate(reqs):
        a = impl[i] if i < len(impl) else "missing"
        m = model[i] if i < len(model) else "missing"
        et, ew = expected_runtime(*r)
        outs = tuple(out_of(r[2], v, r[4], r[5]) for v in r[6])
        if any(outs):
            classes.add((r[0], r[1], r[2], r[3], outs))
        hist["throw" if a.startswith("thrown=") and not a.startswith("thrown=-") else
             ("warn" if not a.endswith("warned=-") else "silent")] += 1
        holds = property_holds_runtime(r, a)
        if a != m or not holds:
            disagreements += 1
            cls = "out" if any(outs) else "in"
            key = "BoundsCheck<%d>::%s[%s]:%s:%s" % (r[1], SITE[r[2]], r[0], r[3], cls)
            if key in reported:
                continue
            reported.add(key)
            rep = {"call": "tfel::material::BoundsCheck<%d>::%s" % (r[1], SITE[r[2]]), "operand_types": FORMDESC[r[0]],
                   "policy": r[3] if r[3] != "dflt" else "(argument omitted)", "lower_bound_code": r[4], "upper_bound_code": r[5],
                   "value_codes": list(r[6]),
                   "decoding": "code n=3q+r -> q/4 (r=0), next floating-point value above q/4 (r=1), next below (q+1)/4 (r=2); ints: n",
                   "request_line": line(r, False).strip(), "implementation": a, "model": m,
                   "expected_by_property": {"thrown_component": et, "warned_components": ew},
                   "property_holds_on_implementation_output": holds}
            if not holds:
                ck.violation(key, "BoundsCheck<%d>::%s (%s), policy %s, bounds codes [%d,%d], value codes %s: observed '%s', the property requires thrown=%s warned=%s" %
                             (r[1], SITE[r[2]], FORMDESC[r[0]], r[3], r[4], r[5], list(r[6]), a, et, ew), rep, True)
            else:
                ck.violation("corr:" + key, "correspondence Model.lean vs BoundsCheck.hxx broken on '%s' (impl '%s', model '%s'); property still holds on the implementation's answer" %
                             (line(r, False).strip(), a, m), rep, False)

    # ------------------------------------------------------------------ emission requests
    ereqs = []
    types = [("real", 1), ("stress", 1), ("temperature", 1), ("strain", 1), ("StressStensor", 0), ("StrainStensor", 0),
             ("Stensor", 0), ("TVector", 0), ("DisplacementTVector", 0)]
    dims = ["N", "1u", "2u", "3u"]
    pols = ["policy", "this->policy", "tfel::material::None", "p", "bp"]

    def mk(name, ty, has, kind, lo, up, dim, pol, at, ce, ph):
        return {"name": name, "type": ty[0], "scalar": ty[1], "has": has, "kind": kind, "lower": lo, "upper": up,
                "dim": dim, "policy": pol, "addThis": at, "checkEnd": ce, "physical": ph}
    for ty in (types[0], types[2], types[4]):
        for has, kind, at, ce, ph in itertools.product((0, 1), KINDS, (0, 1), (0, 1), (0, 1)):
            ereqs.append(mk("T", ty, has, kind, "0", "100", "N", "policy", at, ce, ph))

    def num():
        c = rng.random()
        if c < 0.3:
            return str(rng.randint(-1000, 1000))
        if c < 0.6:
            return repr(round(rng.uniform(-1e3, 1e3), rng.randint(0, 12)))
        if c < 0.8:
            return "%.17g" % rng.uniform(-1, 1)
        return "%de%d" % (rng.randint(-99, 99), rng.randint(-300, 300))
    n_em = 1500 if ck.quick else 30000
    for _ in range(n_em):
        name = "".join(rng.choice("abcdefgTpsE_") for _ in range(rng.randint(1, 6)))
        if name[0] == "_":
            name = "v" + name
        if rng.random() < 0.3:
            name += "[%d]" % rng.randint(0, 9)
        lo, up = num(), num()
        if float(lo) > float(up):
            lo, up = up, lo
        ereqs.append(mk(name, rng.choice(types), int(rng.random() < 0.85), rng.choice(KINDS), lo, up, rng.choice(dims),
                        rng.choice(pols), rng.randint(0, 1), rng.randint(0, 1), rng.randint(0, 1)))

    def eline(q):
        return "em\t" + "\t".join(str(q[k]) for k in ("name", "type", "has", "kind", "lower", "upper", "dim", "policy",
                                                         "addThis", "checkEnd", "physical")) + "\n"
    pe = ck.run([emitter], input="".join(eline(q) for q in ereqs), timeout=900)
    eimpl = [l.split("\t") for l in pe.stdout.split("\n")]
    mlines = []
    for i, q in enumerate(ereqs):
        a = eimpl[i] if i < len(eimpl) else ["missing"]
        lo, up = (a[1], a[2]) if len(a) == 4 else ("?", "?")
        mlines.append("em\t" + "\t".join(str(x) for x in (q["name"], q["scalar"], q["type"], q["has"], q["kind"], lo, up, q["dim"],
                                                           q["policy"], q["addThis"], q["checkEnd"], q["physical"])) + "\n")
    pm2 = ck.run([driver], input="".join(mlines), timeout=900)
    emodel = pm2.stdout.split("\n")
    eclasses = set()
    e_dis = 0
    for i, q in enumerate(ereqs):
        a = eimpl[i] if i < len(eimpl) else ["missing"]
        m = emodel[i] if i < len(emodel) else "missing"
        if len(a) != 4:
            e_dis += 1
            ck.violation("corr:emission:exception", "the real writeBoundsChecks raised or the harness failed on %s: %s" % (q, a), {"request": q, "answer": a}, False)
            break
        text = a[3]
        eclasses.add((q["scalar"], q["has"], q["kind"], q["addThis"], q["checkEnd"], q["physical"]))
        holds = property_holds_emission(q, text, a[1], a[2]) and int(a[0]) == q["scalar"]
        if text != m or not holds:
            e_dis += 1
            key = "CodeGeneratorUtilities.cxx:%s:%s" % ("writePhysicalBoundsChecks" if q["physical"] else "writeBoundsChecks", q["kind"])
            if key in reported:
                continue
            reported.add(key)
            rep = {"variable_description": q, "emitted_by_implementation": text.replace("\\n", "\n"), "emitted_by_model": m.replace("\\n", "\n"),
                   "property_holds_on_implementation_output": holds}
            if not holds:
                ck.violation(key, "%s(%s %s, bounds type %s, checkEndOfTimeStepValue=%d) emits '%s': %s" %
                             ("writePhysicalBoundsChecks" if q["physical"] else "writeBoundsChecks", q["type"], q["name"], q["kind"], q["checkEnd"],
                              text, "a policy argument on a physical-bounds check / wrong statement" if q["physical"] else
                              "the policy expression is not passed verbatim / wrong statement"), rep, True)
            else:
                ck.violation("corr:" + key, "correspondence Model.lean vs writeBoundsChecks broken on %s" % q, rep, False)

    # ------------------------------------------------------------------ generator wrappers (BehaviourCodeGeneratorBase.cxx)
    # Which checks a generated behaviour contains: BehaviourCodeGeneratorBase::writeBoundsChecks /
    # writePhysicalBoundsChecks (one statement per element of an array variable), writeBehaviourCheckBounds (physical
    # bounds always; standard bounds unless the policy is fixed to None) and the end of writeBehaviourIntegrator
    # (persistent variables after integration). The sources of the tree under test are compiled into harness/C27/gen.cxx;
    # the expected statements are those of the real mfront::write(Physical)BoundsChecks (validated above) for every
    # element of every bounded variable.
    msrc = vlib.REPO + "/mfront/src/"
    gsrcs = ["C27/gen.cxx"] + [msrc + n + ".cxx" for n in (
        "BehaviourCodeGeneratorBase", "CodeGeneratorUtilities", "AbstractBehaviourCodeGenerator",
        "FiniteStrainBehaviourTangentOperatorConversion", "FiniteStrainBehaviourTangentOperatorConversionPath",
        "MFrontMaterialPropertyInterface", "PerformanceProfiling", "CMaterialPropertyInterfaceBase")]
    ginc = [vlib.REPO + "/mfront/include", "/repo/_build/include"]
    gobjs = ck.cxx_many([("c27g_%d.o" % i, [u], ("-c",)) for i, u in enumerate(gsrcs)], includes=ginc, opt="-O0")
    lf2, _ = libflags(["TFELMFront", "TFELConfig", "TFELUtilities", "TFELException", "TFELGlossary", "TFELSystem",
                       "TFELMaterial", "TFELMath", "TFELMathParser", "TFELUnicodeSupport", "MFrontLogStream"])
    generator = ck.cxx("c27g", [gobjs["c27g_%d.o" % i] for i in range(len(gsrcs))], libs=lf2, opt="-O0")
    CATS = ["mp", "sv", "asv", "esv", "loc"]

    def gbounds(kind, lo, up):
        return "-" if kind is None else {"lower": "lower,%s" % lo, "upper": "upper,%s" % up, "both": "both,%s,%s" % (lo, up)}[kind]
    greqs = []
    n_gen = 250 if ck.quick else 5000
    for gi in range(n_gen):
        pol = rng.choice(["None", "Warning", "Strict"])
        runtime = rng.randint(0, 1)
        disabled = 1 if rng.random() < 0.2 else 0
        if gi < 12:      # directed: every category x array, every policy setting
            pol, runtime, disabled = ["None", "Warning", "Strict"][gi % 3], (gi // 3) % 2, (gi // 6) % 2
        vs = []
        for k in range(rng.randint(1, 6) if gi >= 12 else 5):
            cat = CATS[k] if gi < 12 else rng.choice(CATS)
            ty = rng.choice(types)
            size = rng.choice([1, 1, 2, 3]) if gi >= 12 else [1, 2, 3, 1, 2][(k + gi) % 5]
            pk = rng.choice([None, "lower", "upper", "both"])
            plo, pup = rng.randint(-50, 0), rng.randint(100, 200)
            # standard bounds compatible with the physical ones (inside them, and bounded wherever they are)
            choices = [None, pk] if pk else [None, "lower", "upper", "both"]
            sk = rng.choice(choices)
            slo, sup = plo + rng.randint(1, 20), pup - rng.randint(1, 20)
            if gi < 12:
                pk, sk = ["both", "lower", "upper", "both", None][k], ["both", "lower", "upper", None, "both"][k]
            vs.append({"cat": cat, "type": ty, "name": "v%d%s" % (k, cat), "size": size, "pk": pk, "plo": str(plo), "pup": str(pup),
                       "sk": sk, "slo": str(slo), "sup": str(sup)})
        greqs.append({"policy": pol, "runtime": runtime, "disabled": disabled, "vars": vs})

    def gline(g):
        return "gen\t%s\t%d\t%d\t%s\n" % (g["policy"], g["runtime"], g["disabled"], ";".join(
            "%s:%s:%s:%d:%s:%s" % (v["cat"], v["type"][0], v["name"], v["size"], gbounds(v["pk"], v["plo"], v["pup"]),
                                   gbounds(v["sk"], v["slo"], v["sup"])) for v in g["vars"]))
    # statements of the real mfront::write(Physical)BoundsChecks for every element
    el_req, el_idx = [], {}
    for g in greqs:
        for v in g["vars"]:
            names = [v["name"]] if v["size"] == 1 else ["%s[%d]" % (v["name"], i) for i in range(v["size"])]
            for nm in names:
                for ph in (1, 0):
                    kind = v["pk"] if ph else v["sk"]
                    if kind is None:
                        continue
                    for ce in (0, 1):
                        key = (nm, v["type"][0], kind, v["plo"] if ph else v["slo"], v["pup"] if ph else v["sup"], ph, ce)
                        if key not in el_idx:
                            el_idx[key] = len(el_req)
                            el_req.append(mk(nm, v["type"], 1, kind, key[3], key[4], "N", "policy", 1, ce, ph))
    pel = ck.run([emitter], input="".join(eline(q) for q in el_req), timeout=900)
    el_out = [l.split("\t") for l in pel.stdout.split("\n")]

    def stmts_of(key):
        a = el_out[el_idx[key]]
        q = el_req[el_idx[key]]
        if len(a) != 4 or not property_holds_emission(q, a[3], a[1], a[2]):
            return None
        return [x + ";" for x in a[3].replace("\\n", "\n").split(";\n") if x]

    def expected_generator(g):
        def part(cats_end, ph):
            out = []
            for cat, ce in cats_end:
                # persistent variables: the state variables, then the auxiliary state variables
                for v in [w for c_ in cat for w in g["vars"] if w["cat"] == c_]:
                    kind = v["pk"] if ph else v["sk"]
                    if kind is None:
                        continue
                    names = [v["name"]] if v["size"] == 1 else ["%s[%d]" % (v["name"], i) for i in range(v["size"])]
                    for nm in names:
                        st = stmts_of((nm, v["type"][0], kind, v["plo"] if ph else v["slo"], v["pup"] if ph else v["sup"], ph, ce))
                        if st is None:
                            return None
                        out += st
            return out
        order = [(("mp",), 0), (("sv", "asv"), 0), (("esv",), 1), (("loc",), 0)]
        phys, std = part(order, 1), part(order, 0)
        iphys, istd = part([(("sv", "asv"), 0)], 1), part([(("sv", "asv"), 0)], 0)
        if None in (phys, std, iphys, istd):
            return None, None
        check_bounds = not (not g["runtime"] and g["policy"] == "None")
        return phys + (std if check_bounds else []), ([] if g["disabled"] else iphys + istd)
    pg = ck.run([generator], input="".join(gline(g) for g in greqs), timeout=900)
    gout = pg.stdout.split("\n")
    g_dis = 0
    gclasses = set()
    for i, g in enumerate(greqs):
        a = gout[i].split("\t") if i < len(gout) else ["missing"]
        exp_cb, exp_int = expected_generator(g)
        if exp_cb is None:
            continue      # the element statements themselves are wrong: reported by the emission part above
        if len(a) != 2 or a[0] == "exception":
            g_dis += 1
            key = "corr:BehaviourCodeGeneratorBase.cxx:generator-harness"
            if key not in reported:
                reported.add(key)
                ck.violation(key, "the generator harness failed on %s: %s" % (gline(g).strip(), a[:2]), {"request": g, "answer": a[:3]}, False)
            continue
        got_cb = [l.strip() for l in a[0].replace("\\n", "\n").split("\n") if "BoundsCheck<" in l]
        got_int = [] if a[1] == "none" else [l.strip() for l in a[1].replace("\\n", "\n").split("\n") if "BoundsCheck<" in l]
        for v in g["vars"]:
            gclasses.add((v["cat"], v["size"] > 1, v["pk"], v["sk"], g["policy"], g["runtime"], g["disabled"]))
        for site, got, exp in (("writeBehaviourCheckBounds", got_cb, exp_cb), ("writeBehaviourIntegrator", got_int, exp_int)):
            if a[1].startswith("exception") and site == "writeBehaviourIntegrator":
                got = None
            if got == exp:
                continue
            g_dis += 1
            same_multiset = got is not None and sorted(got) == sorted(exp)
            missing = [x for x in exp if got is None or x not in got]
            extra = [x for x in (got or []) if x not in exp]
            key = "BehaviourCodeGeneratorBase.cxx:%s:%s" % (site, "order" if same_multiset else ("missing-check" if missing else "unexpected-check"))
            if key in reported:
                continue
            reported.add(key)
            rep = {"behaviour_description": g, "request_line": gline(g).strip(), "site": site, "emitted_statements": got,
                   "required_statements": exp, "missing": missing, "unexpected": extra, "integrator_answer": a[1][:300] if got is None else None}
            if same_multiset or got is None:
                ck.violation("corr:" + key, "%s emits the required bounds checks in another order / could not be run (%s)" % (site, gline(g).strip()[:200]), rep, False)
            else:
                ck.violation(key, "%s, default policy %s, runtime modification %d, runtime checks disabled %d: the generated code %s" %
                             (site, g["policy"], g["runtime"], g["disabled"],
                              ("lacks the check '%s'" % missing[0]) if missing else ("contains the check '%s' that no declared bound asks for" % extra[0])), rep, True)
    ck.log("generator wrappers: %d descriptions, %d disagreements" % (len(greqs), g_dis))

    ck.assumptions += [
        "generator: BehaviourCodeGeneratorBase.cxx (writeBoundsChecks, writePhysicalBoundsChecks, writeBehaviourCheckBounds, end of "
        "writeBehaviourIntegrator) of the tree under test is compiled into harness/C27/gen.cxx and run on seeded BehaviourDescriptions "
        "(UNDEFINEDHYPOTHESIS, small strain); required statements = those of the real mfront::write(Physical)BoundsChecks for every element "
        "of every bounded variable, in the order material properties, persistent, external state (also end of step), local variables",
        "M: Model.lean is hand-written; it is tied to BoundsCheck.hxx/BoundsCheck.cxx and to CodeGeneratorUtilities.cxx only on the "
        "requests the correspondence ran (exhaustive over forms x N x kinds x policies x positions around the bounds incl. 1-ulp "
        "neighbours, tensors over {below, inside, above}^ncomp; seeded random beyond)",
        "the routines only compare values: integer codes are decoded by a strictly increasing map, so the model runs on Int",
        "default argument `p = Strict` is observed by calling the real templates without the policy argument (policy 'dflt')",
        "emission: number formatting is the C++ stream's (precision 14 as set by the behaviour generators), passed through to the model; "
        "v.isScalar() is SupportedTypes' (cross-checked against the expected flag of the 9 types used)",
        "libraries other than the anchored sources come from %s" % used_build,
        "NaN values are outside the property's quantifier; observed: a NaN value under Strict gives '%s'" % nan_obs,
    ]
    idx = [0, len(reqs) // 5, len(reqs) // 2, len(reqs) - 1]
    return ck.finish({
        "evaluations": len(reqs) + len(ereqs) + len(greqs),
        "distinct_nontrivial": len(classes) + len(eclasses) + len(gclasses),
        "generator_requests": len(greqs), "generator_classes": len(gclasses),
        "rule": "runtime: distinct (operand form, N, check kind, policy, per-component out/in pattern) with at least one component out of "
                "bounds (measured on the request list); emission: distinct (scalar, has bounds, bounds type, addThis, end-of-step, physical) "
                "flag combinations (measured)",
        "exhaustive": True,
        "runtime_requests": len(reqs), "emission_requests": len(ereqs),
        "runtime_classes": len(classes), "emission_classes": len(eclasses),
        "disagreements": disagreements + e_dis + g_dis,
        "outcome_histogram": hist,
        "traces_validated_against_impl": len(reqs) + len(ereqs),
        "nan_observation": nan_obs,
        "samples": ["%s -> impl '%s' model '%s'" % (line(reqs[i], False).strip(), impl[i] if i < len(impl) else "?",
                                                   model[i] if i < len(model) else "?") for i in idx] +
                   ["%s -> %s" % (eline(ereqs[j]).strip().replace("\t", " | "), eimpl[j][3] if len(eimpl[j]) == 4 else eimpl[j])
                    for j in (1, len(ereqs) - 1)],
    })
