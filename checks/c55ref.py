"""Exact references (over Q(sqrt2), with dual numbers for exact derivatives) for the units traced by
harness/C55/trace.cxx. Support code for the exact differential evaluation / failing-input search."""
from fractions import Fraction

import emit
from emit import Q2
from checks import c24ref
from checks.c24ref import HALF, ISQ2, SQ2, rq, fns

ZERO = Q2(0)
ONE = Q2(1)
TWO = Q2(2)


class D:
    """dual number a + b eps over Q2 (exact first derivative)"""
    __slots__ = ("a", "b")

    def __init__(s, a, b=None):
        s.a = a
        s.b = ZERO if b is None else b

    def __add__(s, o): o = dl(o); return D(s.a + o.a, s.b + o.b)
    __radd__ = __add__
    def __sub__(s, o): o = dl(o); return D(s.a - o.a, s.b - o.b)
    def __rsub__(s, o): return dl(o) - s
    def __neg__(s): return D(-s.a, -s.b)
    def __mul__(s, o): o = dl(o); return D(s.a * o.a, s.a * o.b + s.b * o.a)
    __rmul__ = __mul__
    def __truediv__(s, o): o = dl(o); return D(s.a / o.a, (s.b * o.a - s.a * o.b) / (o.a * o.a))
    def __rtruediv__(s, o): return dl(o) / s


def dl(x):
    if isinstance(x, D):
        return x
    if isinstance(x, Q2):
        return D(x)
    return D(Q2(Fraction(x)))


# ---- small generic 3x3 matrix algebra on lists (entries: Q2 or D)
def mm(A, B):
    return [[A[i][0] * B[0][j] + A[i][1] * B[1][j] + A[i][2] * B[2][j] for j in range(3)] for i in range(3)]


def tr_(A):
    return [[A[j][i] for j in range(3)] for i in range(3)]


def add(A, B):
    return [[A[i][j] + B[i][j] for j in range(3)] for i in range(3)]


def sub(A, B):
    return [[A[i][j] - B[i][j] for j in range(3)] for i in range(3)]


def scal(k, A):
    return [[k * A[i][j] for j in range(3)] for i in range(3)]


def ident(one=ONE, zero=ZERO):
    return [[one if i == j else zero for j in range(3)] for i in range(3)]


def det(A):
    return (A[0][0] * (A[1][1] * A[2][2] - A[1][2] * A[2][1]) - A[0][1] * (A[1][0] * A[2][2] - A[1][2] * A[2][0])
            + A[0][2] * (A[1][0] * A[2][1] - A[1][1] * A[2][0]))


def inv(A):
    d = det(A)
    r = [[None] * 3 for _ in range(3)]
    for i in range(3):
        for j in range(3):
            rr = [k for k in range(3) if k != i]
            cc = [k for k in range(3) if k != j]
            m = A[rr[0]][cc[0]] * A[rr[1]][cc[1]] - A[rr[0]][cc[1]] * A[rr[1]][cc[0]]
            r[j][i] = (m if (i + j) % 2 == 0 else -m) / d
    return r


def trace(A):
    return A[0][0] + A[1][1] + A[2][2]


TPOS = [(0, 0), (1, 1), (2, 2), (0, 1), (1, 0), (0, 2), (2, 0), (1, 2), (2, 1)]
TSIZE = {1: 3, 2: 5, 3: 9}
SSIZE = {1: 3, 2: 4, 3: 6}


def tens(A, N):
    return [A[i][j] for (i, j) in TPOS[:TSIZE[N]]]


def of_tens(v, N, zero=ZERO):
    A = [[zero] * 3 for _ in range(3)]
    for k, (i, j) in enumerate(TPOS[:TSIZE[N]]):
        A[i][j] = v[k]
    return A


def mandel(A, N):
    r = [A[0][0], A[1][1], A[2][2]]
    if N >= 2:
        r.append(SQ2 * A[0][1])
    if N == 3:
        r += [SQ2 * A[0][2], SQ2 * A[1][2]]
    return r


def of_mandel(v, N):
    v = list(v) + [ZERO] * 6
    A = [[ZERO] * 3 for _ in range(3)]
    A[0][0], A[1][1], A[2][2] = v[0], v[1], v[2]
    if N >= 2:
        A[0][1] = A[1][0] = v[3] * ISQ2
    if N == 3:
        A[0][2] = A[2][0] = v[4] * ISQ2
        A[1][2] = A[2][1] = v[5] * ISQ2
    return A


def tbasis(j, N):
    A = [[ZERO] * 3 for _ in range(3)]
    i, k = TPOS[j]
    A[i][k] = ONE
    return A


def sbasis(j):
    return [[x for x in r] for r in c24ref.Ebasis(j).a]


# ---- Saint-Venant Kirchhoff through the Green-Lagrange strategy
def svk_S(F, la, mu):
    E = scal(HALF, sub(mm(tr_(F), F), ident()))
    return add(scal(la * trace(E), ident()), scal(TWO * mu, E)), E


def stress_in_measure(F, S, sm, N):
    """sm: 0 Cauchy (Mandel), 1 PK2 (Mandel), 2 PK1 (tensor storage)"""
    if sm == 1:
        return mandel(S, N)
    if sm == 2:
        return tens(mm(F, S), N)
    return mandel(scal(ONE / det(F), mm(mm(F, S), tr_(F))), N)


def dualize(A, Xd):
    """A + eps Xd"""
    return [[D(A[i][j], Xd[i][j]) for j in range(3)] for i in range(3)]


def behaviour(N, ps, E, la, mu):
    """the mock small-strain behaviour: (stress matrix, tangent as Mandel matrix, axial strain or None).
    Plane stress hypotheses (ps): the axial strain is eliminated from sigma_zz = 0."""
    Ss = SSIZE[N]
    ax = None
    ezz = None
    E = [[x for x in r] for r in E]
    if ps:
        ax = 2 if N == 2 else 1
        E[ax][ax] = ZERO
        ezz = -(la / (la + TWO * mu)) * trace(E)
        E[ax][ax] = ezz
        ls = TWO * mu * la / (la + TWO * mu)
    else:
        ls = la
    S = add(scal(la * trace(E), ident()), scal(TWO * mu, E))
    C = [[(ls if (i < 3 and j < 3) else ZERO) + (TWO * mu if i == j else ZERO) for j in range(Ss)] for i in range(Ss)]
    if ps:
        for i in range(Ss):
            C[ax][i] = ZERO
            C[i][ax] = ZERO
    return S, C, ezz


def contract(Cmat, X, N):
    """Mandel 4th order tensor applied to a symmetric matrix"""
    Ss = SSIZE[N]
    xv = mandel(X, N)
    r = [sum((Cmat[i][j] * xv[j] for j in range(Ss)), ZERO) for i in range(Ss)]
    return of_mandel(r, N)


def symm(A):
    return scal(HALF, add(A, tr_(A)))


def gl_reference(N, sm, to, F0, F1, la, mu, ps=False, ezz0=None):
    """Green-Lagrange strategy. Plane stress: the axial component of the given F is 0 and the interface adds
    sqrt(1 + 2 ezz) to it (ezz0 at the beginning of the step, the behaviour's output at the end)."""
    E1 = scal(HALF, sub(mm(tr_(F1), F1), ident()))
    exp = {}
    for i, v in enumerate(mandel(E1, N)):
        exp["e%d" % i] = v
    S1, C, ezz1 = behaviour(N, ps, E1, la, mu)
    F1 = [[x for x in r] for r in F1]
    F0 = [[x for x in r] for r in F0]
    if ps:
        ax = 2 if N == 2 else 1
        exp["ezz"] = ezz1
        F1[ax][ax] = F1[ax][ax] + fns("sqrt", [ONE + TWO * ezz1])
        F0[ax][ax] = F0[ax][ax] + fns("sqrt", [ONE + TWO * ezz0])
    for i, v in enumerate(stress_in_measure(F1, S1, sm, N)):
        exp["s%d" % i] = v
    Ss, Ts = SSIZE[N], TSIZE[N]
    if to == 1:
        for i in range(Ss):
            for j in range(Ss):
                exp["K%d_%d" % (i, j)] = C[i][j]
        return exp
    # chain rule on an arbitrary dF: dS = C : sym(F^T dF) (dual numbers carry the first order terms exactly)
    for j in range(Ts):
        X = tbasis(j, N)
        if to == 3:
            # derivative with respect to DF = F1 F0^{-1} at fixed F0: dF1 = X F0
            X = mm(X, F0)
        Fd = dualize(F1, X)
        Sd = dualize(S1, contract(C, symm(mm(tr_(F1), X)), N))
        if to == 0:
            col = mandel_d(scal_d(D(ONE) / det(Fd), mm(mm(Fd, Sd), tr_(Fd))), N)
        elif to == 2:
            col = tens(mm(Fd, Sd), N)
        else:
            col = mandel_d(mm(mm(Fd, Sd), tr_(Fd)), N)  # Kirchhoff stress
        for i, v in enumerate(col):
            exp["K%d_%d" % (i, j)] = v.b
    return exp


def svk_S_dual(F, la, mu):
    one, zero = D(ONE), D(ZERO)
    I = ident(one, zero)
    E = scal_d(D(HALF), sub(mm(tr_(F), F), I))
    return add(scal_d(la * trace(E), I), scal_d(D(TWO) * mu, E)), E


def scal_d(k, A):
    return [[k * A[i][j] for j in range(3)] for i in range(3)]


def mandel_d(A, N):
    r = [A[0][0], A[1][1], A[2][2]]
    if N >= 2:
        r.append(D(SQ2) * A[0][1])
    if N == 3:
        r += [D(SQ2) * A[0][2], D(SQ2) * A[1][2]]
    return r


# ---- Hencky strategy: composition of the C24 reference (Daleckii-Krein, second divided differences) with the
#      elastic law and the stress / tangent conversions written as first order variations
def hk_reference(N, sm, to, F0, F1, la, mu, l, M, ps=False, ezz0=None):
    from m3 import M3
    Ss, Ts = SSIZE[N], TSIZE[N]
    l = list(l)
    if N == 2:
        l[2] = F1[2][2] * F1[2][2]
    if N == 1:
        raise NotImplementedError
    e = [c24ref.log1p_half(x) for x in l]
    d = [ONE / (TWO * x) for x in l]
    sd = [Q2(-1) / (TWO * x * x) for x in l]
    Mm = M3(M)
    Fm = M3(F1)
    Th = c24ref.theta_conf(l, e, d)
    if N == 2:
        for i in range(2):
            Th.a[i][2] = Th.a[2][i] = ZERO
    El = Mm * M3.diag(*e) * Mm.T()
    exp = {}
    for i, v in enumerate(El.mandel(N)):
        exp["e%d" % i] = v
    Tl, C, ezz1 = behaviour(N, ps, [[x for x in r] for r in El.a], la, mu)
    T = M3(Tl)
    if ps:
        # the interface overwrites the axial component of F by exp(ezz) before converting the stresses
        exp["ezz"] = ezz1
        F1 = [[x for x in r] for r in F1]
        F0 = [[x for x in r] for r in F0]
        F1[2][2] = fns("exp", [ezz1])
        F0[2][2] = fns("exp", [ezz0])
        Fm = M3(F1)
    eul = (to == 0)
    Nn = Fm * Mm if eul else Mm
    J = Fm.det()
    # S-like quantity: 2 (T | p): Lagrangian -> S, Eulerian -> tau
    R = c24ref.DK2(Nn, Mm, Th, T) * TWO
    if eul:
        sig = R * (ONE / J)
    else:
        sig = Fm * R * Fm.T() * (ONE / J)
    sigl = [[x for x in r] for r in sig.a]
    Fl = [[x for x in r] for r in Fm.a]
    if sm == 0:
        sv = mandel(sigl, N)
    elif sm == 1:
        iF = inv(Fl)
        sv = mandel(scal(J, mm(mm(iF, sigl), tr_(iF))), N)
    else:
        iF = inv(Fl)
        sv = tens(scal(J, mm(sigl, tr_(iF))), N)
    for i, v in enumerate(sv):
        exp["s%d" % i] = v
    # tangent: material / spatial moduli from the C24 reference with Ks = elastic stiffness
    t = c24ref.eig(Mm, T)
    xs = [c24ref.eig(Nn, c24ref.Ebasis(a)) for a in range(Ss)]
    # p as Mandel matrix: rows a = (T-side), columns b: entry = mc_b(DK2(Nn, M, Th, E_a))
    prow = [DK_row(Nn, Mm, Th, a, N) for a in range(Ss)]

    def moduli(a, b):
        first = ZERO
        for k in range(Ss):
            for ll in range(Ss):
                if C[k][ll] == ZERO:
                    continue
                first = first + prow[k][a] * C[k][ll] * prow[ll][b]
        return Q2(4) * first + Q2(4) * c24ref.D2_conf(l, e, d, sd, t, xs[a], xs[b])
    Cm = [[moduli(a, b) for b in range(Ss)] for a in range(Ss)]   # material (L) or spatial (E) moduli
    if to == 1:
        for a in range(Ss):
            for b in range(Ss):
                exp["K%d_%d" % (a, b)] = Cm[a][b]
        return exp
    taul = scal(J, sigl)
    iF = inv(Fl)

    def contract(Cmat, X):
        return globals()["contract"](Cmat, X, N)
    sym = symm
    for j in range(Ts):
        X = tbasis(j, N)
        if to == 3:
            X = mm(X, F0)
        if to == 2:
            # dP = dF S + F (Cse : sym(F^T dF)),  S = F^-1 tau F^-T
            Sm = mm(mm(iF, taul), tr_(iF))
            dS = contract(Cm, sym(mm(tr_(Fl), X)))
            col = tens(add(mm(X, Sm), mm(Fl, dS)), N)
        else:
            Lg = mm(X, iF)
            if eul:
                cd = contract(Cm, sym(Lg))
            else:
                # spatial moduli = push-forward of the material moduli: c : d = F (Cse : (F^T d F)) F^T
                cd = mm(mm(Fl, contract(Cm, mm(mm(tr_(Fl), sym(Lg)), Fl))), tr_(Fl))
            dtau = add(cd, add(mm(Lg, taul), mm(taul, tr_(Lg))))
            if to == 3:
                col = mandel(dtau, N)
            else:
                # d sigma = d tau / J - sigma tr(L)
                col = mandel(sub(scal(ONE / J, dtau), scal(trace(Lg), sigl)), N)
        for i, v in enumerate(col):
            exp["K%d_%d" % (i, j)] = v
    return exp


def DK_row(Nn, Mm, Th, a, N):
    return c24ref.DK2(Nn, Mm, Th, c24ref.Ebasis(a)).mandel(N)


def unit_ref(name):
    strat, Ns, sms, tos = name.split("_")
    N, sm, to = int(Ns[1]), int(sms[2]), int(tos[2])
    ps = Ns.endswith("p")
    ax = 2 if N == 2 else 1

    def f(rng):
        env = {}
        ezz0 = None
        if ps:
            ezz0 = rq(rng)
            env["ezza"] = ezz0
        Ts = TSIZE[N]
        F0v = [rq(rng, True) for _ in range(3)] + [rq(rng) for _ in range(6)]
        F1v = [rq(rng, True) for _ in range(3)] + [rq(rng) for _ in range(6)]
        for i in range(Ts):
            env["Fa%d" % i] = F0v[i]
            env["F%d" % i] = F1v[i]
        if ps and strat == "GL":
            # the axial component handed by the caller is the constant 0 in the traced units
            F0v[ax] = ZERO
            F1v[ax] = ZERO
        F0 = of_tens(F0v[:Ts], N)
        F1 = of_tens(F1v[:Ts], N)
        for i in range(9):
            env["sa%d" % i] = rq(rng)
        la, mu = rq(rng, True), rq(rng, True)
        env["la"], env["mu"] = la, mu
        if strat == "GL":
            return env, gl_reference(N, sm, to, F0, F1, la, mu, ps, ezz0)
        l = c24ref.distinct_vp(rng)
        M = [[rq(rng) for _ in range(3)] for _ in range(3)]
        if N == 2:
            M[0][2] = M[1][2] = M[2][0] = M[2][1] = ZERO
            M[2][2] = ONE
        # decomposition answered for the first handler (F0): independent random values
        la_ = c24ref.distinct_vp(rng)
        n = 3 if N == 3 else 2
        for i in range(3):
            env["vp%d" % i] = l[i]
            env["vpa%d" % i] = la_[i]
        for i in range(n):
            for j in range(n):
                env["m%d%d" % (i, j)] = M[i][j]
                env["ma%d%d" % (i, j)] = rq(rng)
        if N == 1:
            return env, hk1d_reference(sm, to, F0, F1, la, mu, ps, ezz0)
        if to in (0,) or to == 1 or to == 2:
            pass
        return env, hk_reference(N, sm, to, F0, F1, la, mu, l, M, ps, ezz0)
    return f


def hk1d_reference(sm, to, F0, F1, la, mu, ps=False, ezz0=None):
    """1D: everything is diagonal; E_log,i = log F_i. Plane stress: F_zz (index 1) is overwritten by exp(ezz)."""
    Fv = [F1[i][i] for i in range(3)]
    F0v = [F0[i][i] for i in range(3)]
    e = [fns("log", [x]) for x in Fv]
    exp = {}
    for i in range(3):
        exp["e%d" % i] = e[i]
    Tm, C, ezz1 = behaviour(1, ps, [[e[i] if i == j else ZERO for j in range(3)] for i in range(3)], la, mu)
    T = [Tm[i][i] for i in range(3)]
    if ps:
        exp["ezz"] = ezz1
        Fv[1] = fns("exp", [ezz1])
        F0v[1] = fns("exp", [ezz0])
    J = Fv[0] * Fv[1] * Fv[2]
    for i in range(3):
        sig = T[i] / J
        exp["s%d" % i] = {0: sig, 1: T[i] / (Fv[i] * Fv[i]), 2: T[i] / Fv[i]}[sm]
    for i in range(3):
        for j in range(3):
            dT = C[i][j] / Fv[j]          # dT_i/dF_j
            if to == 1:
                v = (C[i][j] - (TWO * T[i] if i == j else ZERO)) / (Fv[i] * Fv[i] * Fv[j] * Fv[j])
            elif to == 2:
                v = dT / Fv[i] - (T[i] / (Fv[i] * Fv[i]) if i == j else ZERO)
            elif to == 0:
                v = dT / J - T[i] / (J * Fv[j])
            else:
                v = dT * F0v[j]
            exp["K%d_%d" % (i, j)] = v
    return exp
