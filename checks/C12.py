"""C12 — quadrature and Runge-Kutta schemes achieve their stated order (ties: T1 + M).

T1: harness/C12/trace.cxx instantiates GaussKronrodQuadrature::integrate and one step of
    RungeKutta2/4/42/54 with a recording scalar -> Gen.lean (exact rationals, theorems of Props.lean)
    and GenFloat.lean (the same traced rule over Float, used by the executable model).
M : lean/TfelVerif/C12/Driver.lean = traced rule + Model.lean (operator() dispatch, bisection refinement,
    step-size control) on Float, compared bit for bit with the real code (harness/C12/harness.cxx).
The property itself is evaluated on the implementation for every request (exact rational references).
"""
import math
import os
import random
import struct
import sys
from fractions import Fraction as Fr

import t1
import vlib

PROPS = ["TfelVerif.C12.Mono1", "TfelVerif.C12.Mono2", "TfelVerif.C12.Props", "TfelVerif.C12.PropsRK"]
INF = float("inf")
NAN = float("nan")


def b(x):
    return str(struct.unpack("<Q", struct.pack("<d", x))[0])


def d(tok):
    return struct.unpack("<d", struct.pack("<Q", int(tok)))[0]


def poly_spec(c):
    return "poly " + " ".join(b(x) for x in c)


def poly_int(c, a, bb):
    """exact integral of sum c_j x^j over [a, bb] (rationals)"""
    a, bb = Fr(a), Fr(bb)
    return sum(Fr(cj) * (bb ** (j + 1) - a ** (j + 1)) / (j + 1) for j, cj in enumerate(c))


def poly_scale(c, a, bb):
    m = max(abs(a), abs(bb), 1.)
    return abs(bb - a) * sum(abs(cj) * m ** j for j, cj in enumerate(c)) + 1e-300


ANALYTIC = {
    # name: (exact integral as a function of (a, b)), possibly infinite bounds
    "expm2": lambda a, bb: 0.5 * math.sqrt(math.pi) * (math.erf(bb) - math.erf(a)),
    "lorentz": lambda a, bb: math.atan(bb) - math.atan(a),
    "sin": lambda a, bb: math.cos(a) - math.cos(bb),
    "expm": lambda a, bb: math.exp(-a) - (0. if bb == INF else math.exp(-bb)),
    "gaussd": lambda a, bb: (0.25 * math.sqrt(math.pi) * (math.erf(bb) - math.erf(a))
                            - 0.5 * ((0. if abs(bb) == INF else bb * math.exp(-bb * bb))
                                     - (0. if abs(a) == INF else a * math.exp(-a * a)))),
    "runge": lambda a, bb: (math.atan(5 * bb) - math.atan(5 * a)) / 5,
}
UNBOUNDED_OK = {"expm2": "both", "lorentz": "both", "gaussd": "both", "runge": "both", "expm": "right"}


def gen_requests(rng, quick):
    reqs = []  # dict(kind, line, ...)
    reps = 1 if quick else 8

    def rnd_poly(deg):
        return [float(rng.randint(-3, 3)) if rng.random() < 0.6 else round(rng.uniform(-2, 2), 3) for _ in range(deg + 1)]

    def rnd_interval():
        a = round(rng.uniform(-4, 4), 2)
        w = round(10 ** rng.uniform(-1, 0.7), 3)
        return (a, a + w) if rng.random() < 0.5 else (a + w, a)

    # Gauss-Kronrod on polynomials of every degree 0..25 (exact up to 22; estimate vanishes up to 13)
    for deg in range(0, 26):
        for _ in range(2 * reps):
            c = rnd_poly(deg)
            if c[-1] == 0.:
                c[-1] = 1.
            a, bb = rnd_interval()
            reqs.append({"kind": "gk1poly", "deg": deg, "c": c, "a": a, "b": bb,
                         "line": "gk1|%s|%s %s" % (poly_spec(c), b(a), b(bb))})
            reqs.append({"kind": "gk1poly", "deg": deg, "c": c, "a": bb, "b": a, "swap_of": len(reqs) - 1,
                         "line": "gk1|%s|%s %s" % (poly_spec(c), b(bb), b(a))})
            tol = 10 ** rng.uniform(-12, -6)
            n = rng.choice([0, 1, 2, 5, 12])
            reqs.append({"kind": "gkppoly", "deg": deg, "c": c, "a": a, "b": bb, "tol": tol, "n": n,
                         "line": "gkp|%s|%s %s %s %d" % (poly_spec(c), b(a), b(bb), b(tol), n)})
            reqs.append({"kind": "gkppoly", "deg": deg, "c": c, "a": bb, "b": a, "tol": tol, "n": n, "swap_of": len(reqs) - 1,
                         "line": "gkp|%s|%s %s %s %d" % (poly_spec(c), b(bb), b(a), b(tol), n)})
    # the monomials on [-1, 1] and [0, 1] (the statements of Props.lean, on the implementation)
    for k in range(0, 23):
        c = [0.] * k + [1.]
        for (a, bb) in ((-1., 1.), (0., 1.)):
            reqs.append({"kind": "gk1poly", "deg": k, "c": c, "a": a, "b": bb,
                         "line": "gk1|%s|%s %s" % (poly_spec(c), b(a), b(bb))})
    # analytic integrands, finite / half infinite / infinite intervals, with and without refinement
    for name in ANALYTIC:
        for _ in range(3 * reps):
            a, bb = rnd_interval()
            tol = 10 ** rng.uniform(-11, -5)
            n = rng.choice([3, 8, 20])
            reqs.append({"kind": "gk1fun", "f": name, "a": a, "b": bb, "line": "gk1|%s|%s %s" % (name, b(a), b(bb))})
            reqs.append({"kind": "gk1fun", "f": name, "a": bb, "b": a, "swap_of": len(reqs) - 1,
                         "line": "gk1|%s|%s %s" % (name, b(bb), b(a))})
            reqs.append({"kind": "gkpfun", "f": name, "a": a, "b": bb, "tol": tol, "n": n,
                         "line": "gkp|%s|%s %s %s %d" % (name, b(a), b(bb), b(tol), n)})
        mode = UNBOUNDED_OK.get(name)
        ivs = []
        if mode == "both":
            x = round(rng.uniform(-2, 2), 2)
            ivs = [(-INF, INF), (INF, -INF), (x, INF), (INF, x), (-INF, x), (x, -INF), (-1.7976931348623157e308, x)]
        elif mode == "right":
            x = round(rng.uniform(-1, 2), 2)
            ivs = [(x, INF), (INF, x), (x, 1.7976931348623157e308)]
        for (a, bb) in ivs:
            if abs(a) < 1e308 and abs(bb) < 1e308 or (abs(a) == INF or abs(bb) == INF):
                reqs.append({"kind": "gk1fun", "f": name, "a": a, "b": bb, "line": "gk1|%s|%s %s" % (name, b(a), b(bb))})
            tol = 10 ** rng.uniform(-10, -6)
            reqs.append({"kind": "gkpfun", "f": name, "a": a, "b": bb, "tol": tol, "n": 25,
                         "line": "gkp|%s|%s %s %s 25" % (name, b(a), b(bb), b(tol))})
    # bounds without a value
    for (a, bb) in [(NAN, 1.), (0., NAN), (NAN, NAN), (INF, INF), (-INF, -INF), (NAN, INF)]:
        reqs.append({"kind": "novalue", "a": a, "b": bb, "line": "gk1|sin|%s %s" % (b(a), b(bb))})
        reqs.append({"kind": "novalue", "a": a, "b": bb, "line": "gkp|sin|%s %s %s 5" % (b(a), b(bb), b(1e-8))})
    reqs.append({"kind": "norefine", "line": "gkp|sin|%s %s %s 0" % (b(0.), b(1.), b(1e-8))})

    # Runge-Kutta: y' = p(t), deg p < order
    def exe_cases():
        cases = [(0.1, 0., 1.), (0.3, 0., 1.), (0.25, 0., 1.), (0.125, -1., 2.), (1., 0., 1.), (2., 0., 1.), (0.7, 0.3, 0.3)]
        for _ in range(4 * reps):
            h = round(10 ** rng.uniform(-2, 0), 3)
            t0 = round(rng.uniform(-2, 2), 2)
            cases.append((h, t0, t0 + round(rng.uniform(0.05, 3), 2)))
            k = rng.randint(1, 40)
            h2 = rng.choice([0.5, 0.25, 0.125, 0.0625])
            cases.append((h2, t0, t0 + k * h2))        # exactly divisible in binary
        return cases
    for (name, order) in (("rk2exe", 2), ("rk4exe", 4)):
        for (h, t0, t1_) in exe_cases():
            c = rnd_poly(rng.randint(0, order - 1))
            y0 = round(rng.uniform(-1, 1), 2)
            reqs.append({"kind": name, "c": c, "h": h, "t0": t0, "t1": t1_, "y0": y0,
                         "line": "%s|%s|%s %s %s %s" % (name, poly_spec(c), b(h), b(t0), b(t1_), b(y0))})
    for _ in range(12 * reps + 6):
        ti = round(rng.uniform(-1, 1), 2)
        tf = ti + round(10 ** rng.uniform(-1, 0.5), 3)
        dt0 = (tf - ti) * rng.choice([0.05, 0.3, 0.45, 0.55, 0.7, 0.9, 1.0, 1.5])
        eps = 10 ** rng.uniform(-8, -1)
        y0 = round(rng.uniform(-1, 1), 2)
        c = rnd_poly(rng.randint(0, 3))
        reqs.append({"kind": "rk42", "c": c, "ti": ti, "tf": tf, "dt0": dt0, "eps": eps, "y0": y0,
                     "line": "rk42|%s|%s %s %s %s %s" % (poly_spec(c), b(ti), b(tf), b(dt0), b(eps), b(y0))})
        c1, c2 = rnd_poly(rng.randint(0, 4)), rnd_poly(rng.randint(0, 4))
        z0 = round(rng.uniform(-1, 1), 2)
        reqs.append({"kind": "rk54", "c": c1, "c2": c2, "ti": ti, "tf": tf, "dt0": dt0, "eps": eps, "y0": y0, "z0": z0,
                     "line": "rk54|%s;%s|%s %s %s %s %s %s" % (poly_spec(c1), poly_spec(c2), b(ti), b(tf), b(dt0), b(eps), b(y0), b(z0))})
    # the replayed instances
    reqs.append({"kind": "rk42", "c": [1.], "ti": 0., "tf": 1., "dt0": 0.7, "eps": 1e-3, "y0": 0.,
                 "line": "rk42|%s|%s %s %s %s %s" % (poly_spec([1.]), b(0.), b(1.), b(0.7), b(1e-3), b(0.))})
    reqs.append({"kind": "rk54", "c": [1.], "c2": [2.], "ti": 0., "tf": 1., "dt0": 0.3, "eps": 1e-3, "y0": 0., "z0": 0.,
                 "line": "rk54|%s;%s|%s %s %s %s %s %s" % (poly_spec([1.]), poly_spec([2.]), b(0.), b(1.), b(0.3), b(1e-3), b(0.), b(0.))})
    # the one-shot requests again with quantity-typed bounds (qt<Time,double>): same model line, same predicates
    twin = {}
    for i in range(len(reqs)):
        r = reqs[i]
        if r["line"].startswith("gk1|"):
            q = dict(r)
            q["line"], q["mline"], q["quantity"] = "gk1q|" + r["line"][4:], r["line"], True
            if "swap_of" in r:
                q["swap_of"] = twin[r["swap_of"]]
            twin[i] = len(reqs)
            reqs.append(q)
    return reqs


def run(ck):
    rng = random.Random(ck.seed)
    repo_srcs = [vlib.REPO + "/src/Math/MathException.cxx", vlib.REPO + "/src/Exception/TFELException.cxx",
                 vlib.REPO + "/src/Exception/ContractViolation.cxx"]
    bins = ck.cxx_many([("c12trace", ["C12/trace.cxx"] + repo_srcs, ("-O0",)),
                        ("c12h", ["C12/harness.cxx"] + repo_srcs, ())],
                       includes=(os.path.join(vlib.VERIF, "harness", "C12"),))
    dag, units = t1.run_tracer(ck, bins["c12trace"])
    ck.emit([dag], "TfelVerif.C12.Gen", "TfelVerif/C12/Gen.lean")
    tmp = ck.path("GenFloat.lean")
    p = ck.run([sys.executable, os.path.join(vlib.VERIF, "harness", "C12", "emit_float.py"), dag, tmp])
    if p.returncode != 0:
        raise vlib.BuildError("emit_float.py failed on the Gauss-Kronrod trace", p.stdout + p.stderr)
    ck.write_gen("TfelVerif/C12/GenFloat.lean", open(tmp).read())
    driver = ck.lean_exe("c12driver", "TfelVerif/C12/Driver.lean")
    res = ck.lean(PROPS, PROPS)

    reqs = gen_requests(rng, ck.quick)
    text = "".join(r["line"] + "\n" for r in reqs)
    pi = ck.run([bins["c12h"]], input=text, timeout=3000)
    impl = pi.stdout.splitlines()
    if pi.returncode != 0 or len(impl) != len(reqs):
        ck.violation("harness-abort", "the implementation harness aborted or lost requests",
                     {"stderr": pi.stderr[-2500:], "answers": len(impl), "requests": len(reqs)}, False)
    # model side: the quadrature requests as they are; the adaptive Runge-Kutta runs as trace validations
    mlines = []
    for i, r in enumerate(reqs):
        if r["kind"].startswith("gk") or r["kind"] in ("novalue", "norefine"):
            mlines.append(r.get("mline", r["line"]))
        elif r["kind"] in ("rk42", "rk54"):
            a = impl[i] if i < len(impl) else ""
            if " trace" in a:
                head, _, tr = a.partition(" trace")
                toks = tr.split()
                hd = head.split()
                fin_dt = hd[-1]
                # loop-head states, then the final state: t = last t + last dt (every pass before the exit is an
                # accepted one, see Model.lean), dt = the time increment returned by the solver
                if len(toks) >= 2:
                    t_last, dt_last = d(toks[-2]), d(toks[-1])
                    toks = toks + [b(t_last + dt_last), fin_dt]
                    r["t_final"] = t_last + dt_last
                else:   # no pass through the loop
                    r["t_final"] = r["ti"]
                    toks = [b(r["ti"]), fin_dt]
                mlines.append("ctl|%s|%s" % (b(r["tf"]), " ".join(toks)))
            else:
                mlines.append("ctl|%s|" % b(r["tf"]))
        else:
            mlines.append("noop")
    pm = ck.run([driver], input="".join(x + "\n" for x in mlines), timeout=3000)
    model = pm.stdout.splitlines()

    viol = {}     # key -> (what, rep, found)

    qsuffix = [""]

    def report(key, what, rep, found):
        key += qsuffix[0]
        if key not in viol:
            viol[key] = (what, rep, found)

    stats = {"gk_bitexact": 0, "gk_poly_exact_checked": 0, "gk_estimate_checked": 0, "swap_checked": 0,
             "analytic_within_tol": 0, "no_value": 0, "rk_exe": 0, "rk_exe_overshoot": 0, "rk_adaptive": 0,
             "rk_adaptive_early_exit": 0, "traces_valid": 0, "max_poly_rel_err": 0., "max_est_rel": 0.}
    for i, r in enumerate(reqs):
        a = impl[i] if i < len(impl) else "missing"
        m = model[i] if i < len(model) else "missing"
        k = r["kind"]
        qsuffix[0] = ":quantity-bounds" if r.get("quantity") else ""
        rep = {"request": r["line"], "implementation": a, "model": m,
               **{kk: (repr(v) if isinstance(v, float) else v) for kk, v in r.items() if kk not in ("line",)}}
        if k.startswith("gk") or k in ("novalue", "norefine"):
            if a != m:
                report("corr:GaussKronrodQuadrature:%s" % k,
                       "correspondence broken: traced rule + Model.lean (Float) and the real operator() differ on '%s': "
                       "impl '%s' model '%s'" % (r["line"][:60], a[:60], m[:60]), rep, False)
            else:
                stats["gk_bitexact"] += 1
        if a in ("missing", "bad-op"):
            report("harness:" + k, "no answer from the implementation for " + r["line"][:80], rep, False)
            continue
        if k in ("novalue", "norefine"):
            stats["no_value"] += 1
            if a != "none":
                report("GaussKronrodQuadrature::operator():%s" % k,
                       "a value is returned for bounds (%r, %r) that admit none" % (r.get("a"), r.get("b")), rep, True)
            continue
        if k in ("gk1poly", "gkppoly"):
            if a == "none":
                continue   # refinement budget exhausted (allowed)
            toks = a.split()
            val = d(toks[0])
            exact = poly_int(r["c"], r["a"], r["b"])
            S = poly_scale(r["c"], r["a"], r["b"])
            if r["deg"] <= 22:
                stats["gk_poly_exact_checked"] += 1
                rel = abs(Fr(val) - exact) / Fr(S)
                stats["max_poly_rel_err"] = max(stats["max_poly_rel_err"], float(rel))
                if rel > Fr(1, 10 ** 11):
                    rep["exact_integral"] = float(exact)
                    report("GaussKronrodQuadrature::integrate:polynomial-degree<=22",
                           "degree %d polynomial on [%r, %r]: returned %r, exact integral %r" % (
                               r["deg"], r["a"], r["b"], val, float(exact)), rep, True)
            if k == "gk1poly" and r["deg"] <= 13:
                est = d(toks[1])
                stats["gk_estimate_checked"] += 1
                stats["max_est_rel"] = max(stats["max_est_rel"], est / S)
                if est > 1e-11 * S:
                    report("GaussKronrodQuadrature::integrate:estimate-degree<=13",
                           "degree %d polynomial on [%r, %r]: error estimate %r does not vanish" % (
                               r["deg"], r["a"], r["b"], est), rep, True)
        if k in ("gk1fun", "gkpfun") and a != "none":
            val = d(a.split()[0])
            sgn = 1.
            lo, hi = r["a"], r["b"]
            big = 1.7e308
            lo2 = -INF if lo <= -big else (INF if lo >= big else lo)
            hi2 = -INF if hi <= -big else (INF if hi >= big else hi)
            exact = ANALYTIC[r["f"]](lo2, hi2)
            if k == "gk1fun":
                # one-shot value: no tolerance is requested, but a rule that reports a negligible error estimate
                # must not be grossly wrong (wrong change of variable, wrong sign, missing factor)
                est = d(a.split()[1])
                stats["oneshot_checked"] = stats.get("oneshot_checked", 0) + 1
                sc = max(1., abs(exact))
                if est <= 1e-6 * sc and abs(val - exact) > 1e-3 * sc:
                    rep["exact_integral"] = exact
                    report("GaussKronrodQuadrature::operator():one-shot-value:%s" % r["f"],
                           "integral of %s over (%r, %r): one-shot value %r with error estimate %g, exact %r" % (
                               r["f"], lo, hi, val, est, exact), rep, True)
            if k == "gkpfun":
                stats["analytic_within_tol"] += 1
                if abs(val - exact) > r["tol"] + 1e-12 * max(1., abs(exact)):
                    rep["exact_integral"] = exact
                    report("GaussKronrodQuadrature::operator()(params):tolerance:%s" % r["f"],
                           "integral of %s over (%r, %r): returned %r, exact %r, requested tolerance %g" % (
                               r["f"], lo, hi, val, exact, r["tol"]), rep, True)
        if "swap_of" in r:
            j = r["swap_of"]
            a0 = impl[j] if j < len(impl) else "missing"
            stats["swap_checked"] += 1
            ok = (a == "none" and a0 == "none")
            if a != "none" and a0 not in ("none", "missing"):
                t_, t0_ = a.split(), a0.split()
                ok = (d(t_[0]) == -d(t0_[0])) and t_[1:] == t0_[1:]
            if not ok:
                rep["other_orientation"] = a0
                report("GaussKronrodQuadrature::operator():swapped-bounds",
                       "I(b,a) is not -I(a,b): '%s' vs '%s'" % (a, a0), rep, True)
        if k in ("rk2exe", "rk4exe"):
            cls = "RungeKutta2" if k == "rk2exe" else "RungeKutta4"
            toks = a.split()
            tfin, y = d(toks[0]), d(toks[1])
            stats["rk_exe"] += 1
            exact = Fr(r["y0"]) + poly_int(r["c"], r["t0"], r["t1"])
            S = abs(r["y0"]) + poly_scale(r["c"], r["t0"], r["t1"])
            if r["t0"] < r["t1"] and tfin != r["t1"]:
                stats["rk_exe_overshoot"] += 1
                rep["exact_solution_at_end"] = float(exact)
                report("%s::exe:overshoot" % cls,
                       "%s::exe(%r, %r) with h=%r stops at t=%r (y=%r; the solution at the final time is %r)" % (
                           cls, r["t0"], r["t1"], r["h"], tfin, y, float(exact)), rep, True)
            elif abs(Fr(y) - exact) > Fr(S) / 10 ** 10:
                rep["exact_solution_at_end"] = float(exact)
                report("%s::exe:value" % cls, "%s::exe(%r, %r), h=%r, y'=p(t) of degree %d: y=%r, exact %r" % (
                    cls, r["t0"], r["t1"], r["h"], len(r["c"]) - 1, y, float(exact)), rep, True)
            if len(toks) > 3 and d(toks[3]) != r["h"]:
                report("%s::exe:time-step-not-restored" % cls, "exe changes the time step h: %r -> %r" % (r["h"], d(toks[3])),
                       rep, True)
        if k in ("rk42", "rk54"):
            cls = "RungeKutta42" if k == "rk42" else "RungeKutta54"
            stats["rk_adaptive"] += 1
            if a.startswith("error:"):
                report("%s::iterate:%s" % (cls, a), "%s::iterate fails on a valid problem: %s" % (cls, a), rep, True)
                continue
            if not m.startswith("valid"):
                report("corr:%s::iterate:step-control" % cls,
                       "the recorded (t, dt) sequence of %s::iterate is not a run of Model.ctlLoop" % cls, rep, False)
            else:
                stats["traces_valid"] += 1
            toks = a.split()
            tfin = r.get("t_final", r["ti"])
            ys = [(d(toks[0]), r["c"], r["y0"])] + ([(d(toks[1]), r["c2"], r["z0"])] if k == "rk54" else [])
            rep["t_final"] = repr(tfin)
            if tfin != r["tf"] and abs(tfin - r["tf"]) > 64 * math.ulp(max(abs(r["tf"]), abs(r["ti"]))):
                stats["rk_adaptive_early_exit"] += 1
                rep["exact_solution_at_tf"] = [float(Fr(y0) + poly_int(c, r["ti"], r["tf"])) for (_, c, y0) in ys]
                rep["returned"] = [v for (v, _, _) in ys]
                report("%s::iterate:early-exit" % cls,
                       "%s::iterate on [%r, %r], initial dt=%r, eps=%g stops at t=%r: returns %r, the solution at the final "
                       "time is %r" % (cls, r["ti"], r["tf"], r["dt0"], r["eps"], tfin, rep["returned"],
                                       rep["exact_solution_at_tf"]), rep, True)
            else:
                for (v, c, y0) in ys:
                    exact = Fr(y0) + poly_int(c, r["ti"], r["tf"])
                    S = abs(y0) + poly_scale(c, r["ti"], r["tf"])
                    if abs(Fr(v) - exact) > Fr(S) / 10 ** 10:
                        rep["exact_solution_at_tf"] = float(exact)
                        report("%s::iterate:value" % cls, "%s::iterate: y(tf)=%r, exact %r for y'=p(t) of degree %d" % (
                            cls, v, float(exact), len(c) - 1), rep, True)
    for key, (what, rep, found) in viol.items():
        ck.violation(key, what, rep, found)

    def search(fl):
        for key, (what, rep, found) in viol.items():
            if found:
                return rep
        return None
    ck.lean_violations(res, search)
    if ck.tier == "thorough" and res.ok:
        for mod, log in ck.leanchecker(PROPS):
            ck.violation("leanchecker:" + mod, "leanchecker rejects " + mod, {"log": log}, False)
    ck.assumptions += [
        "T1: g++ instantiating the templates with the recording scalar performs the same operations as with double "
        "(harness/C12/symq.hxx gives it `double` as base type, as a quantity qt<Unit,double> has); tfel::math::abs of a "
        "symbol is recorded as an uninterpreted |.|; sym.hxx/glue.hxx/emit.py/emit_float.py are correct",
        "exact real arithmetic in the theorems (the floating literals of the code as exact dyadic rationals); rounding is "
        "not modelled: 'up to rounding' = the explicit 4e-15 / 8e-15 bounds for the 15-digit constants",
        "M: Model.lean (operator() dispatch, bisection, the three changes of variable in Driver.lean, step-size control) is "
        "tied to the code by bit-exact differential execution (quadrature) and by validation of recorded (t, dt) runs "
        "(Runge-Kutta 42/54); libm exp/sin/atan shared by both sides",
        "tolerance behaviour for non-polynomial integrands is a theorem only relative to a reliable error estimate "
        "(refine_within_tolerance); on the implementation it is checked on six analytic integrands",
        "RungeKutta54<1,...> does not compile (eval of a scalar): the N=2 instantiation is used",
    ]
    cov = {
        "units_traced": len(units), "dag_nodes": sum(len(u.order) for u in units),
        "evaluations": len(reqs), "distinct_nontrivial": len({r["line"] for r in reqs}),
        "rule": "requests = seeded polynomials of every degree 0..25 on random intervals in both orientations (one-shot and "
                "refined), monomials on [-1,1] and [0,1], six analytic integrands on finite / half-infinite / infinite "
                "intervals, NaN and same-sign infinite bounds, every one-shot request again with quantity-typed bounds qt<Time,double>, Runge-Kutta runs with y'=p(t), deg p < order, for exe "
                "(divisible, rounded, non-divisible spans) and iterate (initial steps from 5% to 150% of the span); "
                "distinct = distinct request lines",
        "statistics": stats, "traces_validated_against_impl": stats["gk_bitexact"] + stats["traces_valid"],
        "samples": [reqs[i]["line"][:100] + " -> " + (impl[i] if i < len(impl) else "?")[:80]
                    for i in (0, 2, len(reqs) // 2, len(reqs) - 1)],
    }
    return ck.finish(cov)
