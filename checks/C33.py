"""C33 — Unicode mangling is faithful and reversible (ties: T2 table dump + M correspondence).

T2: harness/C33/dump.cxx (linked with src/UnicodeSupport/UnicodeSupport.cxx of the current tree) prints
    getSupportedUnicodeCharactersDescriptions() as lean/TfelVerif/C33/GenTable.lean on every run; the theorems
    of Props.lean are re-checked against it (table facts by kernel evaluation, lifted to all byte strings by
    the general lemmas of Lemmas.lean).
M:  the Lean model (sequential replace_all loop over the generated table) is compared with the real
    getMangledString and the real `process` of tfel-unicode-filt on generated strings; the property itself
    is evaluated independently in python on the implementation's answers.
"""
import os
import random
import re

import vlib

PROPS = ["TfelVerif.C33.Props"]
PFX = b"tfel_unicode_mangling_"
SRC = "src/UnicodeSupport/UnicodeSupport.cxx"
FILT = "tfel-unicode-filt/src/tfel-unicode-filt.cxx"


def hx(b):
    return b.hex() if b else "-"


def unhx(h):
    return b"" if h == "-" else bytes.fromhex(h)


def parse_table(lean_text):
    """[(uc bytes, mangled bytes)] from the generated Lean file"""
    out = []
    for m in re.finditer(r"\(\[([0-9, ]*)\], \[([0-9, ]*)\]\)", lean_text):
        a = bytes(int(x) for x in m.group(1).split(",") if x.strip())
        b = bytes(int(x) for x in m.group(2).split(",") if x.strip())
        out.append((a, b))
    return out


def table_defects(table):
    """the table part of the property, evaluated in python: list of (key, what, details)"""
    bad = []
    seen_uc, seen_m = {}, {}
    for i, (uc, m) in enumerate(table):
        try:
            ch = uc.decode("utf-8")
        except UnicodeDecodeError:
            ch = None
        if ch is None or len(ch) != 1 or ord(ch) >= 0x10000 or ord(ch) < 0x80:
            bad.append(("table:ill-formed-character", "entry %d: %r is not one UTF-8 encoded code point in U+0080..U+FFFF" % (i, uc),
                        {"entry": i, "uc": repr(uc), "mangled": m.decode("latin-1")}))
            continue
        want = PFX + ("%04X" % ord(ch)).encode()
        if m != want:
            bad.append(("table:name-does-not-encode-code-point",
                        "entry %d: character U+%04X (%s) has mangled name '%s'; its code point gives '%s'" % (
                            i, ord(ch), ch, m.decode("latin-1"), want.decode()),
                        {"entry": i, "uc": repr(uc), "code_point": "U+%04X" % ord(ch), "mangled": m.decode("latin-1"),
                         "expected": want.decode()}))
        if uc in seen_uc:
            bad.append(("table:duplicate-character", "entries %d and %d describe the same character %r" % (seen_uc[uc], i, uc),
                        {"entries": [seen_uc[uc], i], "uc": repr(uc)}))
        if m in seen_m:
            bad.append(("table:duplicate-name", "entries %d and %d have the same mangled name '%s'" % (seen_m[m], i, m.decode("latin-1")),
                        {"entries": [seen_m[m], i], "mangled": m.decode("latin-1")}))
        seen_uc.setdefault(uc, i)
        seen_m.setdefault(m, i)
    return bad


class Oracle:
    """the property's own predicates, independent of the Lean model"""

    def __init__(self, table):
        self.table = table
        self.by_uc = dict(table)
        alts = sorted(self.by_uc, key=len, reverse=True)
        self.re_uc = re.compile(b"|".join(re.escape(u) for u in alts)) if alts else None
        self.by_m = {m: u for u, m in table}
        malts = sorted(self.by_m, key=len, reverse=True)
        self.re_m = re.compile(b"|".join(re.escape(m) for m in malts)) if malts else None

    def mangle(self, s):
        return self.re_uc.sub(lambda mo: self.by_uc[mo.group(0)], s) if self.re_uc else s

    def demangle(self, s):
        return self.re_m.sub(lambda mo: self.by_m[mo.group(0)], s) if self.re_m else s

    def clean(self, s):
        """made of supported characters and ASCII bytes only"""
        rest = self.re_uc.sub(b"", s) if self.re_uc else s
        return all(c < 128 for c in rest)

    def check_mangle(self, s, out):
        """None or (class, explanation)"""
        if out is None:
            return ("no-answer", "no answer")
        for uc, _ in self.table:
            if uc in out:
                return ("supported-character-left", "supported character %r is still present in the mangled string" % uc)
        if out != self.mangle(s):
            return ("not-character-wise", "mangled string differs from the character-wise replacement %r" % self.mangle(s))
        if self.clean(s) and any(c >= 128 for c in out):
            return ("non-ascii-output", "input made of supported characters and ASCII, output is not ASCII")
        return None

    def check_roundtrip(self, s, back):
        if PFX in s:
            return None          # outside the quantifier
        if back != s:
            return ("roundtrip", "tfel-unicode-filt maps the mangled string to %r, not to the original" % back)
        return None


UNSUPPORTED = ["é", "ß", "€", "→", "∑", "√", "中", "𝛼", "😀", "Ͱ", "΢", "₀́", "²", "ϑ", "Ω"]


def gen_requests(table, rng, n_rand, all_pairs):
    ucs = [u for u, _ in table]
    ms = [m for _, m in table]
    reqs = []
    # every entry alone, in ASCII context, and next to every other entry (order dependence of the loop)
    for u in ucs:
        reqs += [u, b"x" + u + b"y", u + u, b"_" + u + b"1 = " + u + b"*2;"]
    for m in ms:
        reqs += [m, m + b"0", b"a" + m]
    for a in ucs:
        for b in (ucs if all_pairs else [rng.choice(ucs) for _ in range(6)] + [a]):
            reqs.append(a + b)
    # broken UTF-8: proper prefixes/suffixes of the characters, alone and around a full character
    for u in ucs:
        for k in range(1, len(u)):
            reqs += [u[:k], u[k:], u[:k] + u, u + u[k:], u[k:] + u[:k], u[:k] + ucs[0], ucs[-1][:1] + u]
    # fragments of the mangling prefix and of names
    frag = [PFX, PFX[:-1], PFX + b"03B1", PFX + b"03b1", PFX + b"ZZZZ", PFX + b"03B", b"tfel_" + PFX + b"0391", PFX[:10] + PFX,
            b"t" + ms[0] if ms else b"", PFX * 2]
    reqs += frag
    for f in frag:
        for u in ucs[:3] + ucs[-3:]:
            reqs += [f + u, u + f]
    ascii_pool = b"abcxyzT_019 +-*/=();.,<>[]{}\t\"'\\"
    unsupported = [c.encode("utf-8") for c in UNSUPPORTED]
    for _ in range(n_rand):
        parts = []
        kind = rng.random()
        for _ in range(rng.choice([1, 2, 5, 12, 40, 150])):
            r = rng.random()
            if r < 0.45:
                parts.append(bytes(rng.choice(ascii_pool) for _ in range(rng.randint(1, 6))))
            elif r < 0.85:
                parts.append(rng.choice(ucs))
            elif r < 0.92 and kind > 0.3:
                parts.append(rng.choice(unsupported))
            elif r < 0.96 and kind > 0.6:
                parts.append(bytes([rng.randrange(128, 256)]))      # stray high byte (invalid UTF-8)
            elif kind > 0.8:
                parts.append(rng.choice([PFX, PFX[:rng.randint(1, len(PFX))], rng.choice(ms), rng.choice(ms)[:-1], rng.choice(ms).lower()]))
            else:
                parts.append(rng.choice(ucs))
        reqs.append(b"".join(parts))
    # no NUL: `process` and getMangledString go through C strings for the table only, but mfront identifiers never contain NUL
    seen, out = set(), []
    for s in reqs:
        if s not in seen:
            seen.add(s)
            out.append(s)
    return out


def run_pair(ck, harness, driver, lines):
    text = "".join(l + "\n" for l in lines)
    pi = ck.run([harness], input=text, timeout=1800)
    pm = ck.run([driver], input=text, timeout=1800)
    return pi, pi.stdout.splitlines(), pm.stdout.splitlines()


def docs_symbols(path):
    """non-ASCII characters listed in the symbol tables of docs/web/unicode.md (observation only)"""
    syms = set()
    try:
        for line in open(path, encoding="utf-8"):
            if line.startswith("|"):
                for cell in line.strip().strip("|").split("|"):
                    c = cell.strip()
                    if c and all(ord(x) >= 128 for x in c):
                        syms.add(c)
    except OSError:
        pass
    return syms


def run(ck):
    rng = random.Random(ck.seed)
    dump = ck.cxx("c33dump", ["C33/dump.cxx", os.path.join(vlib.REPO, SRC)])
    p = ck.run([dump])
    if p.returncode != 0 or "def table" not in p.stdout:
        raise vlib.BuildError("the table dump program failed", p.stdout[-2000:] + p.stderr[-2000:])
    ck.write_gen("TfelVerif/C33/GenTable.lean", p.stdout)
    table = parse_table(p.stdout)
    ck.log("table dumped: %d entries" % len(table))
    harness = ck.cxx("c33h", ["C33/harness.cxx", os.path.join(vlib.REPO, SRC),
                              os.path.join(vlib.REPO, "src/Utilities/StringAlgorithms.cxx")],
                     includes=[os.path.join(vlib.REPO, "tfel-unicode-filt/src")], sanitize=True)
    driver = ck.lean_exe("c33driver", "TfelVerif/C33/Driver.lean")
    if getattr(ck, "replay_file", None):
        import json
        rec = json.load(open(ck.replay_file))
        h = rec.get("input_hex") or (rec.get("failing_input") or {}).get("input_hex")
        rq = rec.get("request") or (rec.get("failing_input") or {}).get("request")
        if h is None and rq and rq.startswith("filt"):
            want = rec.get("expected_stdout") or (rec.get("failing_input") or {}).get("expected_stdout")
            got = ck.run([harness], input=rq + "\n").stdout.strip()
            out = unhx(got.split()[2]) if got.startswith("o ") and len(got.split()) == 3 else None
            print("request          : %s" % rq)
            print("tfel-unicode-filt : %r" % (out if out is not None else got))
            print("expected stdout  : %s" % want)
            return 0 if repr(out) == want else 1
        if h is None:
            print("replay file has no recorded input string; table findings are replayed by the dump itself:")
            print(table_defects(table)[:5])
            return 1 if table_defects(table) else 0
        s = unhx(h)
        _, i1, m1 = run_pair(ck, harness, driver, ["mangle " + h])
        out = unhx(i1[0][2:]) if i1 and i1[0].startswith("s ") else None
        _, i2, m2 = run_pair(ck, harness, driver, ["demangle " + hx(out or b"")])
        back = unhx(i2[0][2:]) if i2 and i2[0].startswith("s ") else None
        oracle = Oracle(table)
        b1, b2 = oracle.check_mangle(s, out), oracle.check_roundtrip(s, back)
        print("input            : %r" % s)
        print("getMangledString : %r   (model %s)" % (out, m1[0] if m1 else "?"))
        print("filter on it     : %r   (model %s)" % (back, m2[0] if m2 else "?"))
        print("property         : mangling %s, round trip %s" % (b1 or "ok", b2 or "ok"))
        return 1 if (b1 or b2) else 0
    res = ck.lean(PROPS, PROPS)

    # --- the table part of the property, in python (failing-input search for the table theorems)
    tdef = table_defects(table)
    oracle = Oracle(table)

    # --- correspondence
    strings = gen_requests(table, rng, 1500 if ck.quick else 15000, not ck.quick)
    lines1 = ["mangle " + hx(s) for s in strings] + ["demangle " + hx(s) for s in strings]
    pi, impl1, model1 = run_pair(ck, harness, driver, lines1)
    crashed = pi.returncode != 0
    n = len(strings)
    mangled = []
    for i in range(n):
        a = impl1[i] if i < len(impl1) else ""
        mangled.append(unhx(a[2:]) if a.startswith("s ") else None)
    lines2 = ["demangle " + hx(m if m is not None else b"") for m in mangled]
    pi2, impl2, model2 = run_pair(ck, harness, driver, lines2)
    crashed = crashed or pi2.returncode != 0
    if crashed:
        ck.violation("harness-crash", "the implementation harness aborted (sanitizer report or crash)",
                     {"stderr": (pi.stderr + pi2.stderr)[-3000:]}, False)
    ck.log("correspondence: %d strings, 3 calls each" % n)

    reported = set()
    disagreements = 0
    first_bad = None
    stats = {"with_supported": 0, "clean": 0, "invalid_utf8": 0, "contains_prefix": 0, "roundtrip_checked": 0}

    def report(key, what, rep, found):
        nonlocal first_bad
        if found and first_bad is None:
            first_bad = rep
        if key in reported:
            return
        reported.add(key)
        ck.violation(key, what, rep, found)

    for i, s in enumerate(strings):
        am = impl1[i] if i < len(impl1) else "missing"
        mm = model1[i] if i < len(model1) else "missing"
        ad = impl1[n + i] if n + i < len(impl1) else "missing"
        md = model1[n + i] if n + i < len(model1) else "missing"
        ab = impl2[i] if i < len(impl2) else "missing"
        mb = model2[i] if i < len(model2) else "missing"
        if oracle.mangle(s) != s:
            stats["with_supported"] += 1
        if oracle.clean(s):
            stats["clean"] += 1
        try:
            s.decode("utf-8")
        except UnicodeDecodeError:
            stats["invalid_utf8"] += 1
        if PFX in s:
            stats["contains_prefix"] += 1
        out = mangled[i]
        rep = {"input": repr(s), "input_hex": hx(s), "getMangledString": am, "model_mangle": mm,
               "filter_on_mangled": ab, "model_filter_on_mangled": mb, "filter_on_input": ad, "model_filter_on_input": md}
        bad = oracle.check_mangle(s, out)
        if bad:
            disagreements += 1
            report("getMangledString:" + bad[0], "getMangledString(%r): %s" % (s, bad[1]), dict(rep, site=SRC), True)
        elif am != mm:
            disagreements += 1
            report("corr:getMangledString", "correspondence broken: model and getMangledString differ on %r (the answer satisfies the property)" % s,
                   dict(rep, site=SRC), False)
        back = unhx(ab[2:]) if ab.startswith("s ") else None
        if out is not None:
            if PFX not in s:
                stats["roundtrip_checked"] += 1
            rb = oracle.check_roundtrip(s, back)
            if rb:
                disagreements += 1
                report("tfel-unicode-filt:" + rb[0], "on getMangledString(%r) = %r: %s" % (s, out, rb[1]), dict(rep, site=FILT), True)
            elif ab != mb:
                disagreements += 1
                report("corr:tfel-unicode-filt", "correspondence broken: model and tfel-unicode-filt differ on %r" % out, dict(rep, site=FILT), False)
        # the filter on arbitrary input: character-wise replacement of the names
        want = "s " + hx(oracle.demangle(s))
        if ad != want:
            disagreements += 1
            report("tfel-unicode-filt:not-name-wise", "tfel-unicode-filt on %r answers %s; replacing each mangled name by its character gives %s" % (s, ad, want),
                   dict(rep, site=FILT), True)
        elif ad != md:
            disagreements += 1
            report("corr:tfel-unicode-filt-direct", "correspondence broken: model and tfel-unicode-filt differ on %r" % s, dict(rep, site=FILT), False)

    # --- the tool's own main(): command-line arguments and standard input (implementation only, judged by the
    # property's predicate: each argument / each input line is answered by one output line holding the original)
    main_lines, main_want, main_desc = [], [], []

    def add_args(args):
        main_lines.append("filtargs " + " ".join(hx(a) for a in args))
        main_want.append(b"".join(oracle.demangle(a) + b"\n" for a in args))
        main_desc.append(("arguments", args))

    def add_stdin(data):
        main_lines.append("filtstdin " + hx(data))
        ls = data.split(b"\n")
        if ls and ls[-1] == b"":
            ls.pop()
        main_want.append(b"".join(oracle.demangle(l) + b"\n" for l in ls))
        main_desc.append(("stdin", data))

    pool = [m for m in mangled if m is not None and b"\0" not in m and b"\n" not in m]
    for m in pool[:40] + [b"", b" ", b"a b", b"\t" + (pool[1] if len(pool) > 1 else b"x") + b"  " + (pool[2] if len(pool) > 2 else b"y")]:
        add_args([m])
        add_stdin(m)
        add_stdin(m + b"\n")
    for _ in range(250 if ck.quick else 2500):
        k = rng.choice([1, 2, 2, 3, 5])
        args = [rng.choice(pool) for _ in range(k)]
        add_args(args)
        doc = b"\n".join(rng.choice(pool) if rng.random() < 0.9 else b"" for _ in range(rng.choice([1, 2, 3, 6])))
        add_stdin(doc + rng.choice([b"", b"\n", b"\n\n"]))
    for d in (b"", b"\n", b"\n\n", b"a", b"a\n", b"a\nb", b"a\n\nb\n", b" a  b \n", b"\ta\n"):
        add_stdin(d)
    pim = ck.run([harness], input="".join(l + "\n" for l in main_lines), timeout=1800)
    main_impl = pim.stdout.splitlines()
    if pim.returncode != 0:
        ck.violation("harness-crash-main", "the implementation harness aborted while running tfel-unicode-filt's main()",
                     {"stderr": pim.stderr[-3000:]}, False)
    main_bad = 0
    for i, (line, want) in enumerate(zip(main_lines, main_want)):
        a = main_impl[i] if i < len(main_impl) else "missing"
        if a == "o 0 " + hx(want):
            continue
        main_bad += 1
        disagreements += 1
        kind, inp = main_desc[i]
        got = unhx(a.split()[2]) if a.startswith("o ") and len(a.split()) == 3 else None
        report("tfel-unicode-filt:main:" + kind,
               "tfel-unicode-filt run with %s %r writes %r; one line per %s holding its demangled form is %r" % (
                   kind, inp, got if got is not None else a, "argument" if kind == "arguments" else "input line", want),
               {"site": FILT, "mode": kind, "input": repr(inp), "request": line, "implementation": a,
                "stdout": repr(got), "expected_stdout": repr(want)}, True)

    for (key, what, det) in tdef:
        # behaviour of the real code on the offending entry
        report(key, what, dict(det, site=SRC + ":getSupportedUnicodeCharactersDescriptions"), True)

    ck.lean_violations(res, lambda fl: (tdef[0][2] if tdef else first_bad))
    if not ck.quick:
        for (m, log) in ck.leanchecker(PROPS):
            ck.violation("leanchecker:" + m, "leanchecker rejects %s" % m, {"log": log}, False)

    # observation: documentation vs table
    docs = docs_symbols(os.path.join(vlib.REPO, "docs/web/unicode.md"))
    tset = set()
    for u, _ in table:
        try:
            tset.add(u.decode("utf-8"))
        except UnicodeDecodeError:
            pass
    ck.assumptions += [
        "T2: harness/C33/dump.cxx calls the accessor the property names and prints every entry (the entry count is printed and proved equal to the length of the generated list)",
        "M: Model.lean (sequential replace_all loop over the generated table) is tied to getMangledString and to tfel-unicode-filt's process() by differential execution only; replace_all itself is the model of C32",
        "bytes are natural numbers below 256 in the C++; the Lean theorems hold for lists of arbitrary naturals, in particular for every byte string, valid UTF-8 or not; strings containing NUL are not exercised (C strings in the table)",
        "tfel-unicode-filt is exercised through its process() function and through its main() (renamed, compiled from the tree into the harness; argv built by the harness, std::cin/std::cout redirected to string buffers), not through the installed binary",
    ]
    samples = []
    for i in (0, 1, len(strings) // 2, len(strings) - 1):
        samples.append("%r -> mangled %r -> filtered back %r" % (strings[i][:60], (mangled[i] or b"")[:90],
                                                              (unhx(impl2[i][2:]) if i < len(impl2) and impl2[i].startswith("s ") else b"?")[:60]))
    return ck.finish({
        "evaluations": 3 * n, "distinct_nontrivial": stats["with_supported"],
        "rule": "distinct input strings (deduplicated) x 3 calls (getMangledString, filter on the mangled string, filter on the input); non-trivial = strings containing at least one supported character",
        "exhaustive": True,
        "exhaustive_domain": "the whole table (%d entries): every entry alone and in ASCII context, every mangled name, %s, every proper prefix/suffix of every entry; table facts proved for all entries by kernel evaluation" % (
            len(table), "7 partners per entry" if ck.quick else "every ordered pair of entries"),
        "table_entries": len(table), "strings": n, "string_statistics": stats,
        "main_function_runs": len(main_lines), "main_function_disagreements": main_bad,
        "disagreements": disagreements, "table_defects_found_by_python": len(tdef),
        "traces_validated_against_impl": 3 * n,
        "observations": {
            "documented symbols (docs/web/unicode.md tables) missing from the table": sorted(docs - tset),
            "table characters not listed in docs/web/unicode.md tables": sorted(tset - docs),
        },
        "samples": samples,
    })
