"""C22 — finite-difference / invariance report on the REAL double-precision criteria (harness/C22/fdcheck.cxx).

Support for checks/C22.py (mutation audit 2026-09-22): covers what the symbolic tracer does not reach — Hosford and
Barlat in 2D/3D (eigen-solver based, with their coalescing-eigenvalue branches), the derivatives of Mohr-Coulomb on
its three Lode regions, the porous criteria (GTN, Rousselier-Tanguy-Besson, Michel-Suquet) including the derivatives
with respect to the porosity, the orthotropic Cazacu criteria in 3D, the Hill tensors and their axes conventions.
Every quantity is a residual that is zero in exact arithmetic; the tolerances below are >= 100 x the largest value
measured on the clean tree over seeds 1..12 (see TOL), far below the effect of a wrong coefficient/index/sign (>= 1e-3).
"""
import math

SDIM = {1: 3, 2: 4, 3: 6}

# metric -> tolerance (see the module docstring; measured clean maxima in the comments of checks/meta/C22.json)
TOL = {
    "vdiff": 1e-10, "ndiff": 1e-9, "nfd": 1e-5, "dfd": 1e-4, "homog": 1e-9, "iso": 1e-9,
    "fdf": 1e-5, "ndf": 1e-4, "pdiff": 1e-10, "ho2": 1e-11, "bh": 1e-11,
    "hq": 1e-12, "hsym": 1e-14, "hmk": 1e-14, "hconv": 1e-14,
}
# looser bounds where the clean code itself is less accurate (documented reason)
TOL_SPECIAL = {
    # inner Newton loop converged to seps-relative accuracy only
    ("gtn", "vdiff"): 1e-8, ("rtb", "vdiff"): 1e-8, ("gtn", "homog"): 1e-8, ("rtb", "homog"): 1e-8,
    ("gtn", "iso"): 1e-8, ("rtb", "iso"): 1e-8, ("gtn", "pdiff"): 1e-8, ("rtb", "pdiff"): 1e-8,
}


def _rot(rng, N):
    a, b, c = (rng.uniform(-1.5, 1.5) if N == 3 else 0.), (rng.uniform(-1.5, 1.5) if N == 3 else 0.), (rng.uniform(-1.5, 1.5) if N >= 2 else 0.)
    ca, sa, cb, sb, cc, sc = math.cos(a), math.sin(a), math.cos(b), math.sin(b), math.cos(c), math.sin(c)
    return [[cc * cb, cc * sb * sa - sc * ca, cc * sb * ca + sc * sa], [sc * cb, sc * sb * sa + cc * ca, sc * sb * ca - cc * sa], [-sb, cb * sa, cb * ca]]


def from_principal(rng, N, sp):
    R = _rot(rng, N)
    m = [[sum(R[i][l] * sp[l] * R[j][l] for l in range(3)) for j in range(3)] for i in range(3)]
    s2 = math.sqrt(2.)
    return [m[0][0], m[1][1], m[2][2], s2 * m[0][1], s2 * m[0][2], s2 * m[1][2]][:SDIM[N]]


def rnd_stress(rng, N, scale=1.):
    """random stress with well separated principal values (gaps >= 0.3 scale)"""
    while True:
        sp = [rng.uniform(-2, 2) for _ in range(3)]
        if min(abs(sp[0] - sp[1]), abs(sp[0] - sp[2]), abs(sp[1] - sp[2])) > 0.3 and abs(sum(sp)) > 0.3:
            break
    return [x * scale for x in from_principal(rng, N, sp)]


def coalescing_stress(rng, N, which, rotated=True):
    a, b = rng.uniform(0.5, 2.), rng.uniform(-2., -0.5)
    if rng.random() < 0.5:
        a, b = b, a
    sp = {0: [a, a, b], 1: [a, b, a], 2: [b, a, a]}[which]
    if N == 2:
        # only the two in-plane values can be rotated into each other
        return [a, a, b, 0.]
    if N == 1:
        return sp
    if not rotated:
        # diagonal tensor: the eigen-solver returns the values in storage order, which selects the branch
        return sp + [0., 0., 0.]
    return from_principal(rng, N, sp)


def mc_case(rng, N, region):
    ang = math.radians(rng.choice([20., 30., 35.]))
    ltd = rng.choice([20., 25.])
    lt = math.radians(ltd)
    par = [rng.choice([0.5, 0.75, 2.]), ang, lt, rng.choice([0.0625, 0.25])]
    deg = {"mid": rng.uniform(3., 0.75 * ltd), "pos": rng.uniform(ltd + 1., 28.), "neg": -rng.uniform(ltd + 1., 28.)}[region]
    if region == "mid":
        deg *= rng.choice([1, -1])
    t = math.radians(deg)
    k, pm = 2 * rng.uniform(0.5, 3.) / math.sqrt(3.), rng.uniform(-2., 1.)
    sp = [pm + k * math.sin(t + 2 * math.pi / 3), pm + k * math.sin(t), pm + k * math.sin(t - 2 * math.pi / 3)]
    return par, from_principal(rng, N, sp)


def cases(rng, quick):
    """[(id, crit, N, params, stress)] — seeded"""
    out = []
    rep = 2 if quick else 12

    def add(crit, N, p, s, tag=""):
        out.append(("%s%s#%d" % (crit, tag, len(out)), crit, N, list(p), list(s)))
    for N in (1, 2, 3):
        for _ in range(rep):
            sc = rng.choice([1., 250.])
            add("hosford", N, [rng.choice([6., 8., 5., 4.5])], rnd_stress(rng, N, sc))
            add("hosford_int", N, [rng.choice([2, 4, 6, 8])], rnd_stress(rng, N, sc))
            add("barlat", N, [rng.uniform(0.6, 1.4) for _ in range(18)] + [rng.choice([6., 8.])], rnd_stress(rng, N, sc))
            add("barlat", N, [1.] * 18 + [rng.choice([6., 8., 5.])], rnd_stress(rng, N, sc), ":unit")
            add("drucker", N, [rng.uniform(-3, 3)], rnd_stress(rng, N, sc))
            add("cazacu04i", N, [rng.uniform(-2, 2)], rnd_stress(rng, N, sc))
            ab = [rng.uniform(0.8, 1.25) for _ in range(17)]
            add("cazacu01", N, ab + [rng.uniform(-2, 2)], rnd_stress(rng, N, sc))
            add("cazacu04o", N, ab + [rng.uniform(-1.5, 1.5)], rnd_stress(rng, N, sc))
            q1 = rng.uniform(1.2, 1.6)
            for f in (rng.uniform(0.02, 0.1), rng.uniform(0.2, 0.25)):
                add("gtn", N, [f, 0.15, 0.3, q1, rng.uniform(0.9, 1.1), q1 * q1 * rng.uniform(0.8, 1.)], rnd_stress(rng, N, sc))
            add("rtb", N, [rng.uniform(0.01, 0.2), rng.uniform(1.5, 2.5), rng.uniform(0.8, 1.2)], rnd_stress(rng, N, sc))
            add("ms", N, [rng.uniform(0.01, 0.3), rng.uniform(3., 10.)], rnd_stress(rng, N, sc))
            add("hill", N, [rng.uniform(0.2, 1.5) for _ in range(6)], rnd_stress(rng, N, sc))
        for region in ("mid", "pos", "neg"):
            for _ in range(rep):
                par, s = mc_case(rng, N, region)
                add("mc", N, par, s, ":" + region)
        # coalescing principal stresses (eps branches of the eigen-based second derivatives)
        for which in ((0,) if N == 2 else (0, 1, 2)):
            if N == 1:
                continue  # 1D: no eigenvector term
            for _ in range(1 if quick else 4):
                add("hosford", N, [rng.choice([6., 8.])], coalescing_stress(rng, N, which), ":eq")
                add("barlat", N, [1.] * 18 + [rng.choice([6., 8.])], coalescing_stress(rng, N, which), ":unit:eq")
                if N == 3:
                    add("hosford", N, [rng.choice([6., 8.])], coalescing_stress(rng, N, which, False), ":eqd")
                    add("barlat", N, [1.] * 18 + [rng.choice([6., 8.])], coalescing_stress(rng, N, which, False), ":unit:eqd")
                    # explicit Jacobi solver on a diagonal tensor: eigenvalues in storage order => branch (0,1), (0,2), (1,2)
                    add("hosford_j", N, [rng.choice([6., 8.])], coalescing_stress(rng, N, which, False), ":eqd")
                    add("barlat_j", N, [1.] * 18 + [rng.choice([6., 8.])], coalescing_stress(rng, N, which, False), ":unit:eqd")
    return out


def run(ck, binary, cs):
    text = "".join("%s %s %d %d %s %s\n" % (cid, crit, N, len(p), " ".join("%.17g" % x for x in p), " ".join("%.17g" % x for x in s))
                   for cid, crit, N, p, s in cs)
    p = ck.run([binary], input=text, timeout=900)
    rows = {}
    for line in p.stdout.splitlines():
        f = line.split()
        if len(f) < 3:
            continue
        d = {}
        for kv in f[3:]:
            k, _, v = kv.partition("=")
            try:
                d[k] = float(v)
            except ValueError:
                d[k] = v
        rows[f[0]] = d
    return rows, (p.returncode, p.stderr[-2000:])


def judge(cs, rows):
    """-> (violations [(key, what, replay)], report {crit/N: {metric: max}}, branch histogram)"""
    viol = {}
    report = {}
    hist = {}
    for cid, crit, N, p, s in cs:
        d = rows.get(cid)
        fam = cid.split("#")[0]
        base = crit.replace("_int", "").replace("_j", "")
        replay = {"criterion": crit, "N": N, "parameters": p, "stress_mandel_components": s, "case": fam,
                  "replay": "echo '%s %s %d %d %s %s' | work/C22/c22fdcheck" % (cid, crit, N, len(p), " ".join("%.17g" % x for x in p), " ".join("%.17g" % x for x in s))}
        if d is None or "error" in d:
            key = "fd:%s/N%d:no-result" % (base, N)
            viol.setdefault(key, (key, "%s, N=%d: the real code raised / produced no result at an admissible input (%s)" % (crit, N, (d or {}).get("error", "crash")), replay))
            continue
        if "branch" in d:
            hist["%s/N%d:branch%d" % (base, N, int(d["branch"]))] = hist.get("%s/N%d:branch%d" % (base, N, int(d["branch"])), 0) + 1
        if "lode" in d:
            hist["mc/N%d:%s" % (N, fam.split(":")[-1])] = hist.get("mc/N%d:%s" % (N, fam.split(":")[-1]), 0) + 1
        for m, v in d.items():
            if m in ("v", "branch", "lode") or not isinstance(v, float):
                continue
            tol = TOL_SPECIAL.get((base, m), TOL.get(m))
            if tol is None:
                continue
            if m == "dfd" and ":eq" in fam:
                # coalescing principal stresses: the default (Cardano based) eigen-solver loses ~half of the digits near a
                # double eigenvalue, also at the finite-difference points (measured clean maximum 7.4e-6)
                tol *= 10
            e = report.setdefault("%s/N%d" % (base, N), {})
            if not math.isnan(v):
                e[m] = max(e.get(m, 0.), v)
            if math.isnan(v) or math.isinf(v) or v > tol:
                key = "fd:%s/N%d:%s" % (base, N, m)
                if key not in viol:
                    r = dict(replay)
                    r.update({"metric": m, "measured": v, "tolerance": tol, "all_metrics": d})
                    viol[key] = (key, "%s, N=%d: %s = %.3g exceeds %.0e (%s) at stress %s, parameters %s" % (
                        crit, N, m, v, tol, METRIC_DOC.get(m, m), s, p), r)
    return list(viol.values()), report, hist


METRIC_DOC = {
    "vdiff": "the value, normal and second-derivative variants return different equivalent stresses",
    "ndiff": "the normal returned by the second-derivative variant differs from the normal variant's",
    "nfd": "the returned normal is not the gradient (4th order finite differences) of the equivalent stress",
    "dfd": "the returned second derivative is not the gradient of the normal",
    "homog": "degree-one homogeneity f(2.5 s) = 2.5 f(s) fails",
    "iso": "isotropy f(R s R^T) = f(s) fails",
    "fdf": "the returned d seq / d f is not the derivative of the equivalent stress w.r.t. the porosity",
    "ndf": "the returned d n / d f is not the derivative of the normal w.r.t. the porosity",
    "pdiff": "d seq / d f differs between the normal and second-derivative variants",
    "ho2": "Hosford with exponent 2 differs from the von Mises stress",
    "bh": "Barlat with unit linear transformations differs from Hosford",
    "hq": "s:H:s differs from F(s11-s22)^2+G(s22-s33)^2+H(s33-s11)^2+2L s12^2+2M s13^2+2N s23^2",
    "hsym": "the Hill tensor is not symmetric", "hmk": "makeHillTensor differs from hillTensor",
    "hconv": "computeHillTensor/makeHillTensor<hypothesis, axes convention> is not the documented renaming of the material axes",
}
