"""C08 — fixed-size nonlinear solvers never claim false convergence (tie: M, scripted child, bit-exact traces).

Lean: TfelVerif/C08/{Model,Lemmas,Props}.lean — generic model of TinyNonLinearSolverBase::solveNonLinearSystem /
solveNonLinearSystem2 and theorems for every child (oracle, solver, hooks). Solvers.lean: Float instances of the six
solvers with a scripted oracle; Driver.lean prints the event trace.
Harness: harness/C08/harness.cxx — the same scripted child derived from each real solver class, every hook logging.
The check compares the traces (events, iter, return value, zeros/fzeros/delta_zeros/matrix bit patterns) and
evaluates the property's own predicate on every implementation trace.
"""
import itertools
import math
import random
import struct

import vlib

PROPS = ["TfelVerif.C08.Props"]
SOLVERS = ["nr", "broyden", "broyden2", "pdlnr", "pdlbroyden", "lm"]
SITE = {
    "nr": "TinyNewtonRaphsonSolver.ixx:computeNewCorrection",
    "broyden": "TinyBroydenSolver.ixx",
    "broyden2": "TinyBroyden2Solver.ixx",
    "pdlnr": "TinyPowellDogLegNewtonRaphsonSolver.ixx",
    "pdlbroyden": "TinyPowellDogLegBroydenSolver.ixx",
    "lm": "TinyLevenbergMarquardtSolver.ixx",
}
BASE = "TinyNonLinearSolverBase.ixx:solveNonLinearSystem"
INF = float("inf")
NAN = float("nan")


# ---------------------------------------------------------------- bit patterns
def hx(x):
    return "%016x" % struct.unpack("<Q", struct.pack("<d", x))[0]


def unhx(s):
    if s == "nan":
        return NAN
    return struct.unpack("<d", struct.pack("<Q", int(s, 16)))[0]


def vec(v):
    return " ".join(hx(float(x)) for x in v)


# ---------------------------------------------------------------- requests
class Req:
    """one scripted run; `line` is what both the harness and the Lean driver read"""

    def __init__(self, solver, n, itermax, eps, x0, A, cq, b, J0, dflt, script, dmax=INF, lo=-INF, hi=INF,
                 radius=1.0, lm=(1e-6, 1e-4, 0.25, 0.75, 1e-8), dz0=None, fz1=None, cls="random"):
        self.solver, self.n, self.itermax, self.eps = solver, n, itermax, eps
        self.x0, self.A, self.cq, self.b, self.J0 = x0, A, cq, b, J0
        self.dflt, self.script = dflt, script
        self.dmax, self.lo, self.hi, self.radius, self.lm = dmax, lo, hi, radius, lm
        self.dz0 = dz0 if dz0 is not None else [0.0] * n
        self.fz1 = fz1 if fz1 is not None else [0.0] * n
        self.cls = cls

    @staticmethod
    def entry(e):
        ok, kind, f, J = e
        s = "%d %d" % (1 if ok else 0, kind)
        if kind in (1, 2):
            s += " " + vec(f)
        if kind == 2:
            s += " " + vec(J)
        return s

    @property
    def line(self):
        head = "%s %d %d %s %s %s %s %s %s" % (self.solver, self.n, self.itermax, hx(self.eps), hx(self.dmax),
                                            hx(self.lo), hx(self.hi), hx(self.radius), vec(self.lm))
        parts = [head, vec(self.x0), vec(self.dz0), vec(self.fz1), vec(self.J0), vec(self.A), vec(self.cq),
                 vec(self.b), self.entry(self.dflt), str(len(self.script))] + [self.entry(e) for e in self.script]
        return " ".join(parts)

    def entry_of_call(self, k):
        return self.script[k] if k < len(self.script) else self.dflt


def identity(n):
    return [1.0 if i == j else 0.0 for i in range(n) for j in range(n)]


WEIRD = [NAN, INF, -INF, 1e308, -1e308, 1e-320, 0.0, -0.0, 1e200, 3.0, 4.0]


def rand_matrix(rng, n, kind):
    if kind == "dominant":
        m = [rng.randint(-9, 9) / 8.0 for _ in range(n * n)]
        for i in range(n):
            m[i * n + i] = (abs(m[i * n + i]) + n * 1.25) * rng.choice([1, 1, 1, -1])
        return m
    if kind == "identity":
        return identity(n)
    if kind == "singular":          # two equal rows (or the zero matrix for n = 1)
        m = [rng.randint(-9, 9) / 4.0 for _ in range(n * n)]
        if n == 1:
            return [0.0]
        i, j = rng.sample(range(n), 2)
        for k in range(n):
            m[j * n + k] = m[i * n + k]
        return m
    if kind == "zero":
        return [0.0] * (n * n)
    if kind == "pivot":             # small leading entries: exercises the pivoting rule of LUDecomp
        m = [rng.randint(-9, 9) / 8.0 for _ in range(n * n)]
        for i in range(n):
            m[i * n + i] = rng.choice([0.0, 1e-300, 1e-3, 0.05, 1.0])
        return m
    if kind == "weird":
        m = [rng.randint(-9, 9) / 8.0 for _ in range(n * n)]
        for _ in range(rng.randint(1, 2)):
            m[rng.randrange(n * n)] = rng.choice(WEIRD)
        return m
    return [rng.uniform(-2, 2) for _ in range(n * n)]


def rand_residual(rng, n, kind):
    if kind == "small":
        return [rng.choice([0.0, 1e-13, -1e-14, 1e-300]) for _ in range(n)]
    if kind == "big":
        return [rng.randint(-40, 40) / 8.0 or 1.0 for _ in range(n)]
    if kind == "weird":
        f = [rng.randint(-40, 40) / 8.0 for _ in range(n)]
        f[rng.randrange(n)] = rng.choice(WEIRD[:6])
        return f
    if kind == "overflow":          # finite components whose squared sum overflows: norm = +inf
        return [rng.choice([1e200, -1e190, 1e160]) for _ in range(n)]
    return [rng.uniform(-3, 3) for _ in range(n)]


def rand_entry(rng, n):
    r = rng.random()
    if r < 0.40:
        return (True, 3, None, None)
    if r < 0.50:
        return (False, rng.choice([0, 0, 1, 3]), rand_residual(rng, n, rng.choice(["small", "big", "weird"])), None)
    if r < 0.58:
        return (True, 1, rand_residual(rng, n, "small"), None)
    if r < 0.68:
        return (True, 1, rand_residual(rng, n, rng.choice(["weird", "overflow", "big"])), None)
    if r < 0.72:
        return (True, 0, None, None)
    kindf = rng.choice(["big", "big", "rand", "weird", "small"])
    kindj = rng.choice(["dominant", "identity", "singular", "zero", "pivot", "weird", "rand"])
    return (True, 2, rand_residual(rng, n, kindf), rand_matrix(rng, n, kindj))


def random_request(rng, solver, maxn):
    n = rng.choice([1, 1, 2, 2, 3, 3] + list(range(4, maxn + 1)) * 2)
    itermax = rng.choice([0, 1, 2, 3, 4, 5, 6, 8, 10, 12, 16, 20, 30])
    A = rand_matrix(rng, n, rng.choice(["dominant"] * 5 + ["pivot", "singular", "rand"]))
    cq = [rng.choice([0.0, 0.0, 0.125, -0.25, 0.5]) for _ in range(n)]
    xs = [rng.randint(-16, 16) / 8.0 for _ in range(n)]
    b = [sum(A[i * n + j] * xs[j] for j in range(n)) + cq[i] * xs[i] * xs[i] for i in range(n)]
    x0 = [rng.choice([0.0, 0.0, rng.randint(-24, 24) / 8.0]) for _ in range(n)]
    if solver == "broyden2":
        J0 = rng.choice([identity(n), [(1.0 / A[i * n + i] if (i == j and A[i * n + i] not in (0.0,)) else 0.0)
                                       for i in range(n) for j in range(n)], rand_matrix(rng, n, "rand")])
    else:
        J0 = rng.choice([identity(n), list(A), list(A), rand_matrix(rng, n, "rand"), rand_matrix(rng, n, "singular")])
    eps = rng.choice([1e-12, 1e-10, 1e-8, 1e-8, 1e-6, 1e-3, 1.0, 0.0, INF, NAN, 5.0])
    dflt = rng.choice([(True, 3, None, None)] * 6 + [(False, 0, None, None), (True, 0, None, None),
                                                     (True, 1, rand_residual(rng, n, "weird"), None)])
    script = [rand_entry(rng, n) for _ in range(rng.choice([0, 0, 1, 1, 2, 3, 4, 6]))]
    kw = {}
    if rng.random() < 0.15:
        kw["dmax"] = rng.choice([0.5, 2.0, 0.0])
    if rng.random() < 0.15:
        kw["lo"], kw["hi"] = rng.choice([(-3.0, 3.0), (0.0, INF), (-1.0, 1.0)])
    kw["radius"] = rng.choice([1.0, 1.0, 0.1, 1e-3, 10.0, INF, 0.0])
    if rng.random() < 0.3:
        kw["lm"] = (rng.choice([1e-6, 1e-3, 1.0, 0.0]), rng.choice([1e-4, 0.5, -1.0]), 0.25, 0.75,
                    rng.choice([1e-8, 1e-2]))
    if rng.random() < 0.25:          # delta_zeros / fzeros_1 as left by a previous resolution (zero after construction)
        kw["dz0"] = [rng.randint(-8, 8) / 4.0 for _ in range(n)]
        kw["fz1"] = [rng.randint(-8, 8) / 4.0 for _ in range(n)]
    return Req(solver, n, itermax, eps, x0, A, cq, b, J0, dflt, script, cls="random", **kw)


def structural_requests(quick):
    """exhaustive over the outcomes the driver loops branch on: every word of length <= 3 over
    {F fail, N NaN residual, O overflowing norm, S converged residual, B big residual + regular matrix,
     Z big residual + singular matrix, K big residual, matrix kept} x default entry x iterMax 0..4 x solver"""
    out = []
    for n in ([1] if quick else [1, 2, 4]):
        sym = {
            "F": (False, 0, None, None),
            "N": (True, 1, [NAN] + [0.0] * (n - 1), None),
            "O": (True, 1, [1e200] * n, None),
            "S": (True, 1, [1e-14] * n, None),
            "B": (True, 2, [3.0] + [4.0] * (n - 1), [2.0 if i == j else 0.0 for i in range(n) for j in range(n)]),
            "Z": (True, 2, [3.0] + [4.0] * (n - 1), [0.0] * (n * n)),
            "K": (True, 1, [0.5] * n, None),
        }
        words = [w for k in range(0, 4) for w in itertools.product(sorted(sym), repeat=k)]
        for solver in SOLVERS:
            for itermax in range(0, 5):
                for d in ("F", "S", "B"):
                    for w in words:
                        out.append(Req(solver, n, itermax, 1e-8, [1.0] * n, identity(n), [0.0] * n, [0.0] * n,
                                       identity(n), sym[d], [sym[c] for c in w], cls="structural"))
    return out


def sparse_nonfinite_requests(maxn):
    """a residual evaluation answers NaN / +inf / -inf in exactly one component and exact 0.0 in all the others
    (every position, last one included), all-NaN, and NaN next to a tiny non-zero component; at the first
    evaluation and after k = 1, 2 successful steps; then the oracle converges (S) or fails (F).
    A correct driver must never return success on such an answer: its norm is not finite."""
    out = []
    for solver in SOLVERS:
        for n in range(2, maxn + 1):
            reg = [2.0 if i == j else 0.0 for i in range(n) for j in range(n)]
            step = (True, 2, [3.0] + [4.0] * (n - 1), reg)        # finite residual, regular matrix: a correction
            pats = []
            for pos in range(n):
                for v in (NAN, INF, -INF):
                    f = [0.0] * n
                    f[pos] = v
                    pats.append(f)
                    g = [1e-300] * n                              # the same next to tiny non-zero components
                    g[pos] = v
                    pats.append(g)
                    h = [-0.0] * n
                    h[pos] = v
                    pats.append(h)
            pats.append([NAN] * n)
            pats.append([INF] * n)
            for f in pats:
                for k in (0, 1, 2):
                    for d in ((True, 1, [1e-14] * n, None), (False, 0, None, None)):
                        out.append(Req(solver, n, 6, 1e-8, [1.0] * n, identity(n), [0.0] * n, [0.0] * n,
                                       identity(n), d, [step] * k + [(True, 1, f, None)], cls="sparse-nonfinite"))
    return out


def tie_requests():
    """convergence criterion exactly on the boundary: norm == epsilon (must NOT converge: `e < epsilon`)"""
    out = []
    for solver in SOLVERS:
        for n in (2, 3):
            f = [3.0, 4.0] + [0.0] * (n - 2)
            for eps, fz in ((5.0, f), (0.0, [0.0] * n), (5.000000000000001, f), (4.999999999999999, f)):
                out.append(Req(solver, n, 3, eps, [0.0] * n, identity(n), [0.0] * n, [0.0] * n, identity(n),
                               (True, 1, fz, None), [], cls="boundary"))
    return out


# ---------------------------------------------------------------- the property, on an implementation trace
def parse_trace(line):
    """-> (events, final dict) or None"""
    if ";ret=" not in line:
        return None
    body, _, fin = line.rpartition(";ret=")
    evs = [e.split() for e in body.split(";")]
    t = fin.split()
    try:
        final = {"ret": t[0] == "1"}
        i = 1
        while i < len(t) and "=" in t[i]:
            k, v = t[i].split("=")
            final[k] = int(v)
            i += 1
        cur = None
        for x in t[i:]:
            if x in ("z", "f", "dz", "J"):
                cur = x
                final[cur] = []
            else:
                final[cur].append(x)
    except (ValueError, KeyError, TypeError):
        return None
    return evs, final


def fnorm(bits):
    r = 0.0
    for s in bits:
        x = unhx(s)
        r = r + x * x
    return math.sqrt(r) if r == r and r >= 0 else r


def poly_residual(req, zbits):
    n = req.n
    z = [unhx(s) for s in zbits]
    out = []
    for i in range(n):
        r = 0.0
        for j in range(n):
            r = r + req.A[i * n + j] * z[j]
        r = r + req.cq[i] * z[i] * z[i]
        r = r - req.b[i]
        out.append("nan" if r != r else hx(r))
    return out


def ulps(a, b):
    """distance in units in the last place between two finite doubles of the same sign (else a large number)"""
    if a != a or b != b or abs(a) == INF or abs(b) == INF or (a < 0) != (b < 0):
        return 1 << 62
    return abs(struct.unpack("<q", struct.pack("<d", a))[0] - struct.unpack("<q", struct.pack("<d", b))[0])


def property_violations(req, line):
    """list of (key, description) for the clauses of C08 violated by this implementation trace.
    A key starting with "corr:" is NOT a failing input of the property (a reported norm that differs from the
    recomputed one by rounding only, with a finite residual that satisfies the criterion): it is reported as a
    correspondence break."""
    p = parse_trace(line)
    if p is None:
        return [("malformed", "no trace: %r" % line[:120])]
    evs, fin = p
    bad = []
    if any(e and e[0] == "RUNAWAY" for e in evs):
        bad.append(("no-termination", "the solver was still running after %d calls to the child (bound for iterMax=%d: %d), iter=%s"
                    % (len(evs) - 1, req.itermax, 24 * (req.itermax + 2) + 24, fin.get("iter"))))
    res = [(k, e) for k, e in enumerate(evs) if e and e[0] == "R"]
    # iteration counter
    if fin.get("iter", 0) > req.itermax:
        bad.append(("iter>iterMax", "returned iter=%d > iterMax=%d" % (fin["iter"], req.itermax)))
    for e in evs:
        if e and e[0] in ("E", "R", "K", "U") and int(e[1]) >= req.itermax:
            bad.append(("iter>=iterMax-in-loop", "child called (%s) with iter=%s, iterMax=%d" % (e[0], e[1], req.itermax)))
            break
    if len(res) > max(req.itermax, 0):
        bad.append(("residual-count", "%d residual evaluations > iterMax=%d" % (len(res), req.itermax)))
    if fin["ret"]:
        tail = evs[-5:]
        shape = len(tail) == 5 and [t[0] for t in tail] == ["R", "N", "S", "C", "OK"]
        if not shape:
            if res and res[-1][1][2] == "0":
                bad.append(("success-after-failed-residual",
                            "success although the last computeResidual (iter=%s) returned false" % res[-1][1][1]))
            bad.append(("success-shape", "success not preceded by residual/norm/report/convergence: %s" % tail))
            return bad
        r, nrm, _, c, _ = tail
        zi, fi = r.index("z"), r.index("f")
        zb, fb = r[zi + 1:fi], r[fi + 1:]
        if r[2] != "1":
            bad.append(("success-after-failed-residual", "success although the last computeResidual returned false"))
        if zb != fin["z"]:
            bad.append(("zeros-modified", "returned zeros %s differ from those of the last residual evaluation %s" % (fin["z"], zb)))
        if fb != fin["f"]:
            bad.append(("fzeros-modified", "returned fzeros differ from the last residual evaluation"))
        e = unhx(nrm[1])
        comps = [unhx(x) for x in fin["f"]]
        nonfinite = [i for i, x in enumerate(comps) if x != x or abs(x) == INF]
        if nonfinite:
            bad.append(("non-finite-residual", "success claimed with a non-finite residual: fzeros[%d] = %r (fzeros = %s), reported norm %r"
                        % (nonfinite[0], comps[nonfinite[0]], [("nan" if x != x else x) for x in comps], e)))
        if e != e or e in (INF, -INF):
            bad.append(("non-finite-norm", "success with residual norm %s" % nrm[1]))
        if not (e < req.eps):
            bad.append(("criterion", "success with norm %r not < epsilon %r" % (e, req.eps)))
        if c[1] != "1":
            bad.append(("criterion-flag", "success with checkConvergence = false"))
        ne = fnorm(fin["f"])        # independent recomputation (sum of squares left to right, sqrt)
        if not nonfinite and e == e and hx(ne) != nrm[1]:
            if ne == ne and abs(ne) != INF and not (ne < req.eps) and ulps(e, ne) > 4:
                bad.append(("criterion", "success although the norm of the returned residual, %r, is not < epsilon %r (reported norm %r)"
                            % (ne, req.eps, e)))
            else:
                # rounding-level difference (or a naive recomputation that overflows) with a finite residual
                # that satisfies the criterion: the property holds on this run
                bad.append(("corr:norm-of-returned-residual", "reported norm %s differs from the recomputed norm of the returned residual %s (%s ulp); the residual is finite and the criterion holds"
                            % (nrm[1], hx(ne), ulps(e, ne) if ulps(e, ne) < (1 << 62) else "many")))
        # ground truth of the oracle: the last call's script entry, on the returned unknowns
        ent = req.entry_of_call(fin["calls"] - 1)
        if not ent[0]:
            bad.append(("success-after-failed-residual", "the oracle's last answer was a failure"))
        if ent[1] in (1, 2) and [("nan" if x != x else hx(x)) for x in ent[2]] != fin["f"]:
            bad.append(("stale-residual", "returned fzeros is not the oracle's last answer"))
        if ent[1] == 3 and poly_residual(req, fin["z"]) != fin["f"]:
            bad.append(("residual-not-at-returned-zeros", "returned fzeros is not f(returned zeros)"))
    # a failed / non-finite evaluation is never followed by success without a later good one
    last_bad = -1
    last_good = -1
    for k, e in enumerate(evs):
        if e[0] == "R":
            fvals = [unhx(x) for x in e[e.index("f") + 1:]]
            if e[2] == "0" or any(x != x or abs(x) == INF for x in fvals):
                last_bad = k
            else:
                last_good = k
        if e[0] == "N":
            v = unhx(e[1])
            if v != v or v in (INF, -INF):
                last_bad = k
                last_good = -1
    if fin["ret"] and last_bad > last_good:
        bad.append(("success-after-bad-evaluation", "success although the last residual evaluation failed or was not finite"))
    return bad


def smooth_run(req, model_events):
    """the run is a plain Newton iteration on the smooth polynomial system of the request: every residual evaluation
    was answered by the polynomial oracle (kind 3, success), no clamping hook is active, and the reference run
    converged without any restart"""
    if req.dmax != INF or req.lo != -INF or req.hi != INF:
        return False
    nres = sum(1 for e in model_events if e and e[0] == "R")
    if any(req.entry_of_call(k) != (True, 3, None, None) for k in range(nres)):
        return False
    return not any(e and e[0] in ("I", "X", "J") for e in model_events)


# ---------------------------------------------------------------- running
def run_lines(ck, cmd, lines, timeout=None):
    """run a line-protocol program on `lines`, in chunks. A chunk that times out or crashes is split and
    re-run, down to single requests, so that a slow machine never produces a verdict: only a *single*
    request on which the program does not return within 120 s (or crashes) is reported.
    -> (answers, offending request index or None, reason)"""
    import subprocess
    answers = [None] * len(lines)
    offending = []

    def go(lo, hi):
        n = hi - lo
        try:
            p = ck.run(cmd, input="".join(l + "\n" for l in lines[lo:hi]), timeout=120 + n // 4)
            out = p.stdout.splitlines()
            if p.returncode == 0 and len(out) == n:
                answers[lo:hi] = out
                return
            reason = "exit %d: %s" % (p.returncode, p.stderr[-800:])
        except subprocess.TimeoutExpired:
            reason = "no answer within %d s" % (120 + n // 4)
        if n == 1:
            offending.append((lo, reason))
            answers[lo] = "missing"
            return
        mid = (lo + hi) // 2
        go(lo, mid)
        if not offending:
            go(mid, hi)

    step = 4000
    for lo in range(0, len(lines), step):
        go(lo, min(len(lines), lo + step))
        if offending:
            return None, offending[0][0], offending[0][1]
    return answers, None, None


def run(ck):
    rng = random.Random(ck.seed)
    maxn = 4 if ck.quick else 8
    jobs = [("c08_%s" % s, ["C08/harness.cxx", vlib.REPO + "/src/Exception/ContractViolation.cxx"], ("-DC08_SOLVER=%d" % k, "-DC08_MAXN=%d" % maxn, "-w"))
            for k, s in enumerate(SOLVERS)]
    from concurrent.futures import ThreadPoolExecutor
    with ThreadPoolExecutor(max_workers=1) as ex:      # harness builds overlap with the Lean builds
        fut = ex.submit(ck.cxx_many, jobs, sanitize=True)
        # one `lake build` (one acquisition of the shared lock) for the theorems and the native model driver
        res = ck.lean(PROPS + ["c08driver"], PROPS)
        driver = vlib.LEAN + "/.lake/build/bin/c08driver"
        bins = fut.result()
    ck.lean_violations(res)
    import os
    if not os.path.exists(driver):
        raise vlib.BuildError("lean driver c08driver does not build", res.log[-3000:])
    if not ck.quick:
        for m, msg in ck.leanchecker(PROPS):
            ck.violation("leanchecker:" + m, "leanchecker rejects %s" % m, {"log": msg}, False)

    reqs = tie_requests() + sparse_nonfinite_requests(maxn) + structural_requests(ck.quick)
    n_rand = 1500 if ck.quick else 12000
    for s in SOLVERS:
        reqs += [random_request(rng, s, maxn) for _ in range(n_rand)]
    by_solver = {s: [r for r in reqs if r.solver == s] for s in SOLVERS}

    stats = {k: 0 for k in ("runs", "success", "failure", "failed_residual", "nonfinite_norm", "singular_linear_solve",
                            "correction_failure", "restarts_halving_correction", "restarts_halving_estimate",
                            "success_after_bad_evaluation", "iter_reached_iterMax", "lm_steps", "disagreements")}
    stats["by_solver_success"] = {}
    stats["by_class"] = {}
    reported = set()
    samples = []
    shapes = set()

    def report(key, what, rep, found):
        if key in reported:
            return
        reported.add(key)
        ck.violation(key, what, rep, found)

    def both(s):
        lines = [r.line for r in by_solver[s]]
        return run_lines(ck, [bins["c08_%s" % s]], lines), run_lines(ck, [driver], lines)

    with ThreadPoolExecutor(max_workers=6) as ex:
        outputs = dict(zip(SOLVERS, ex.map(both, SOLVERS)))
    ck.log("ran %d scripted runs on the six solvers and on the model" % len(reqs))

    for s in SOLVERS:
        rs = by_solver[s]
        (impl, off, why), (model, moff, mwhy) = outputs[s]
        if impl is None:
            r = rs[off]
            report("%s:%s" % (BASE, "no-termination-or-crash"),
                   "the real %s solver does not return (or crashes) on a scripted run: %s" % (s, why),
                   {"solver": s, "request": r.line, "n": r.n, "iterMax": r.itermax, "reason": why,
                    "replay_cmd": "echo '<request>' | work/C08/c08_%s" % s}, True)
            continue
        if model is None:
            report("corr:model-crash", "the Lean driver failed: %s" % mwhy, {"request": rs[moff].line}, False)
            continue
        nsucc = 0
        for k, r in enumerate(rs):
            a = impl[k] if k < len(impl) else "missing"
            m = model[k] if k < len(model) else "missing"
            stats["runs"] += 1
            stats["by_class"][r.cls] = stats["by_class"].get(r.cls, 0) + 1
            viol = property_violations(r, a)
            p = parse_trace(a)
            if p:
                evs, fin = p
                names = [e[0] + (e[2] if e[0] in ("R", "K") else (e[1] if e[0] in ("C", "L") else "")) for e in evs]
                shapes.add((s, " ".join(names)))
                nsucc += fin["ret"]
                stats["success" if fin["ret"] else "failure"] += 1
                stats["failed_residual"] += any(n == "R0" for n in names)
                nonfin = any(e[0] == "N" and (e[1] == "nan" or abs(unhx(e[1])) == INF) for e in evs)
                stats["nonfinite_norm"] += nonfin
                stats["singular_linear_solve"] += "L0" in names
                stats["correction_failure"] += "X" in names
                stats["lm_steps"] += names.count("M")
                stats["iter_reached_iterMax"] += fin.get("iter") == r.itermax
                stats["success_after_bad_evaluation"] += bool(fin["ret"] and (nonfin or "R0" in names))
                # restarts: an E event that directly follows I (invalid residual) or X (correction failure)
                for i in range(1, len(names)):
                    if names[i] == "E" and names[i - 1] in ("I", "X"):
                        stats["restarts_halving_correction" if "D" in names[:i] else "restarts_halving_estimate"] += 1
            corr_only = [(k_, w_) for k_, w_ in viol if k_.startswith("corr:")]
            viol = [(k_, w_) for k_, w_ in viol if not k_.startswith("corr:")]
            for key, what in viol:
                report("%s:%s" % (BASE, key), "%s [%s, N=%d, iterMax=%d]: %s" % (s, r.cls, r.n, r.itermax, what),
                       {"solver": s, "site": BASE, "request": r.line, "implementation_trace": a, "model_trace": m,
                        "violated_clause": key, "history": a.split(";"),
                        "replay_cmd": "echo '<request>' | work/C08/c08_%s  (bin/check C08 rebuilds it)" % s},
                       True)
            for key, what in corr_only:
                report("corr:%s:%s" % (BASE, key[5:]), "%s [%s, N=%d, iterMax=%d]: %s" % (s, r.cls, r.n, r.itermax, what),
                       {"solver": s, "request": r.line, "implementation_trace": a, "model_trace": m}, False)
            if a != m:
                stats["disagreements"] += 1
                pm_ = parse_trace(m)
                if (s == "nr" and p and pm_ and pm_[1]["ret"] and not p[1]["ret"] and smooth_run(r, pm_[0])):
                    # last clause of C08 on a concrete run: the verified Newton iteration converges on this smooth
                    # system from this starting point, the implementation does not
                    viol.append(("newton-no-convergence",
                                 "Newton-Raphson does not converge (ret=0, iter=%s) on a smooth system and starting point from which "
                                 "the Newton iteration converges in %d iterations" % (p[1].get("iter"), pm_[1].get("iter", -1))))
                    report("%s:%s" % (SITE["nr"], "newton-no-convergence"),
                           "%s [%s, N=%d, iterMax=%d]: %s" % (s, r.cls, r.n, r.itermax, viol[-1][1]),
                           {"solver": s, "site": SITE["nr"], "request": r.line, "implementation_trace": a, "model_trace": m,
                            "violated_clause": "Newton converges inside its basin of quadratic convergence",
                            "x0": r.x0, "A": r.A, "cq": r.cq, "b": r.b, "history": a.split(";"),
                            "replay_cmd": "echo '<request>' | work/C08/c08_nr  (bin/check C08 rebuilds it)"}, True)
                if not viol:
                    ea, em = a.split(";"), m.split(";")
                    d = next((i for i in range(min(len(ea), len(em))) if ea[i] != em[i]), min(len(ea), len(em)))
                    ka = ea[d].split()[0] if d < len(ea) else "-"
                    km = em[d].split()[0] if d < len(em) else "-"
                    # first difference inside a solver's computeNewCorrection (or a value it produced), or in the loops
                    control = not (ka == km or {ka, km} <= {"U", "L", "M", "K", "D"})
                    if ka == km and ka in ("E", "R", "K", "U") and ea[d].split()[1] != em[d].split()[1]:
                        control = True      # same hook, different value of iter
                    # the norm / its report / the convergence test belong to the base class
                    site = BASE if (control or ka in ("N", "S", "C")) else SITE[s]
                    report("corr:%s:%s" % (site, "control-flow" if control else "values"),
                           "trace of the real %s solver differs from the model at event %d (%s vs %s); the property's predicate still holds on the implementation trace"
                           % (s, d, ea[d] if d < len(ea) else "-", em[d] if d < len(em) else "-"),
                           {"solver": s, "request": r.line, "implementation_trace": a, "model_trace": m,
                            "first_difference": d}, False)
            if len(samples) < 6 and k in (0, len(rs) // 2, len(rs) - 1):
                samples.append("%s N=%d iterMax=%d [%s] -> %s" % (s, r.n, r.itermax, r.cls, a[:160]))
        stats["by_solver_success"][s] = nsucc

    ck.assumptions += [
        "M: Model.lean (driver loops) and Solvers.lean (Float instances of the six computeNewCorrection, TinyMatrixSolve incl. LUDecomp pivoting, norm, hooks) are hand-written transliterations, tied to the C++ by differential execution of scripted runs: identical event traces, iter, return value and bit-identical zeros/fzeros/delta_zeros/matrix",
        "the theorems are about the generic model (any child); that the C++ base class is an instance is what the trace correspondence checks — a child that modifies iter/iterMax/is_delta_zeros_defined from a hook is outside the model",
        "iter is a Nat in the model and an unsigned short in the C++: equal because iter <= iterMax <= 65535 is an invariant",
        "NaN payloads are not compared (every NaN is printed as 'nan'); harness compiled with -ffp-contract=off, sqrt correctly rounded on both sides",
        "not attempted: local quadratic convergence of Newton (Kantorovich); convergence of any solver on any smooth system",
    ]
    return ck.finish({
        "evaluations": stats["runs"], "distinct_nontrivial": len(shapes),
        "rule": "one evaluation = one scripted run of a real solver class compared event by event with the Lean model; distinct = distinct (solver, sequence of event kinds with their boolean outcomes) observed on the implementation; non-trivial = every run (each reaches at least the loop test)",
        "exhaustive": False, "exhaustive_over": "structural part: all words of length <= 3 over 7 residual-outcome symbols x 3 default answers x iterMax 0..4 x 6 solvers%s; the rest is seeded random" % (" (N=1)" if ck.quick else " (N=1,2,4)"),
        "sizes": "N = 1..%d" % maxn, "histogram": {k: v for k, v in stats.items()},
        "disagreements": stats["disagreements"], "traces_validated_against_impl": stats["runs"],
        "samples": samples,
        "partial": "Newton local quadratic convergence (Kantorovich) not attempted",
    })
