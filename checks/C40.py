"""C40 — a failed behaviour integration leaves the output state untouched (tie: M, scripted mock).

Same harness, model and request generator as C39 (checks/C39.py, harness/C39, lean/TfelVerif/C39/Model.lean).
The property's own predicate — `-1` returned => none of s1.{thermodynamic_forces, internal_state_variables,
stored_energy, dissipated_energy} differs from its value before the call — is evaluated on every answer of the
real `mfront::gb::integrate<Mock>`; the theorems are in lean/TfelVerif/C40/Props.lean.
"""
import collections

from checks import C39 as base
from checks import c39ext

PROPS = ["TfelVerif.C40.Props"]
S1 = {"tf", "isv", "se", "de"}
STAGE_OF_EVENT = {"gto": "gto", "ie": "ie", "de": "de", "sos1": "sos"}


def c40_predicate(sc, a):
    """None when the property holds on this answer, else (key, text)"""
    if not a["ok"] or a["extra"]:
        return ("integrate:malformed-answer", "unparsable answer or escaped exception: %s" % a["raw"][:200])
    if a["ret"] != -1:
        return None
    dirty = sorted(S1 & a["wr"])
    if not dirty:
        return None
    ev = a["ev"]
    last = ev[-2] if len(ev) >= 2 and ev[-1] == "min" else ev[-1]
    if "exp" in ev and last in STAGE_OF_EVENT and ev.index("exp") < len(ev) - 2:
        key = "integrate:throw-after-export:" + STAGE_OF_EVENT[last]
        what = "exception in %s after b.exportStateData(d.s1): -1 returned with s1.{%s} already overwritten" % (
            {"gto": "the export of the tangent operator", "ie": "computeInternalEnergy", "de": "computeDissipatedEnergy",
             "sos": "computeSpeedOfSound"}[STAGE_OF_EVENT[last]], ",".join(dirty))
    else:
        key = "integrate:s1-written-on-failure:" + last.split("(")[0]
        what = "-1 returned (last behaviour call: %s) with s1.{%s} overwritten" % (last, ",".join(dirty))
    return (key, what)


def run(ck):
    harness, driver, res = base.build(ck, PROPS)
    ck.lean_violations(res)
    reqs, rng = base.all_requests(ck)
    # more histories failing late: every pair (stage after a successful integration, kind of throw) x traits x flag
    for st in ("gto", "ie", "de", "sos"):
        for act in base.THROWS:
            for flags in range(16):
                for fs in (0, 1):
                    for k0 in (0.0, 4.0, 100.0, 104.0):
                        reqs.append(base.mk(flags=flags, fs=fs, k0=k0, **{st: act}))
    text = "".join(base.line(sc) + "\n" for sc in reqs)
    impl, models = base.run_both(ck, harness, driver, text)
    n = len(reqs)
    variant, ndiff = base.detect_variant(impl, models, n)
    model = models[variant]
    ck.log("requests: %d; tree matches model variant %s with %d differing answers" % (n, variant, ndiff))
    reported = set()
    corr = []
    classes = set()
    stage_hist = collections.Counter()
    failing = 0
    failures = 0

    def report(key, what, rep, found):
        if key in reported:
            return
        reported.add(key)
        ck.violation(key, what, rep, found)

    for i, sc in enumerate(reqs):
        a_raw = impl[i] if i < len(impl) else "missing"
        m_raw = model[i] if i < len(model) else "missing"
        a = base.parse(a_raw)
        if a["ok"] and a["ret"] == -1:
            failures += 1
            ev = a["ev"]
            last = (ev[-2] if len(ev) >= 2 and ev[-1] == "min" else ev[-1]).split("(")[0]
            stage_hist["%s:%s" % (last, "s1-written" if S1 & a["wr"] else "s1-untouched")] += 1
            classes.add(base.ev_class(sc, a))
        bad = c40_predicate(sc, a)
        if bad is not None:
            failing += 1
            key, what = bad
            report(key, "%s: %s" % (base.SITE, what),
                   {"site": base.SITE, "request": base.line(sc), "script": sc, "implementation": a_raw,
                    "s1_buffers_modified": sorted(S1 & a["wr"]) if a["ok"] else None,
                    "model_variant": "%s/%s" % variant, "model": m_raw,
                    "how_to_replay": "echo '<request>' | work/C40/c39h   (harness/C39/harness.cxx, built from the current tree)"},
                   True)
        elif a_raw != m_raw:
            corr.append({"request": base.line(sc), "implementation": a_raw, "model": m_raw})
    if corr:
        report("corr:integrate", "correspondence Model.lean (variant %s/%s) vs %s broken on %d answers on which s1 is still untouched on failure"
               % (variant[0], variant[1], base.SITE, len(corr)), {"differing_answers": len(corr), "examples": corr[:5]}, False)
    h2_n, h2_fail, h2_hist = c39ext.run(ck, ck.c39h2, "C40", reported)
    failing += h2_fail
    e2e_n, e2e_fail = 0, 0
    if not ck.quick:
        e2e = base.run_e2e(ck, rng)
        e2e_n, e2e_fail = base.report_e2e(ck, "C40", e2e, reported)
        for (m, msg) in ck.leanchecker(PROPS):
            ck.violation("leanchecker:" + m, "leanchecker rejects %s" % m, {"log": msg}, False)
    full = variant[0] == "late"
    ck.assumptions += [
        "M: Model.lean is tied to Integrate.hxx by differential execution of the real `mfront::gb::integrate<Behaviour>` instantiated with a scripted mock behaviour (harness/C39/mock.hxx): identical event trace, return value, rdt bits, written buffers, error message on every request",
        "executeInitializeFunction / executePostProcessing (the other entry points of Integrate.hxx returning -1) are not part of Model.lean: they are run exhaustively over their scripts (failure or exception in the constructor, initialize(), the user method, the second constructor) in harness/C39/harness2.cxx and the predicate `-1 => s1 untouched` is evaluated on every answer (checks/c39ext.py)",
        "writes to s1 are observed by filling every output buffer with sentinels and diffing after the call (a store of the sentinel value itself would be missed; the mock never produces it)",
        "the tree matched model variant %s/%s: %s" % (variant[0], variant[1],
            "`failed_integration_leaves_s1_untouched` (full statement) applies" if full else
            "only `failed_before_export_leaves_s1_untouched_partial` and the exact characterisation `shipped_order_s1_written_on_failure_iff` apply; the violating histories are reported"),
        "exportStateData itself is assumed not to throw (generated code: plain copies); strain-measure / finite-strain wrappers around integrate (LogarithmicStrainIntegrate.hxx etc.) are outside the anchored file",
    ]
    samples = [{"request": base.line(reqs[i]), "implementation": impl[i] if i < len(impl) else "?"}
               for i in (16, 17, 18, 19, 20, len(reqs) - 1)]
    return ck.finish({
        "evaluations": n, "distinct_nontrivial": len(classes),
        "rule": "requests = C39's corpus + systematic + seeded random scripts, plus every throw kind at each of the four late stages x 16 trait sets x 2 operator types x 4 K[0]; distinct = classes (methods called with operator kind, buffers written, message) among the FAILING calls (ret = -1) observed on the implementation; non-trivial = every failing call (the property only speaks about those)",
        "exhaustive": False, "failing_calls": failures, "model_variant_matched": "%s/%s" % variant,
        "differing_answers": ndiff, "property_failures_on_implementation": failing,
        "failing_stage_histogram": dict(stage_hist), "full_theorem_applies": full,
        "traces_validated_against_impl": n, "samples": samples,
        "generated_behaviour_calls": e2e_n, "generated_behaviour_property_failures": e2e_fail,
        "second_harness_requests": h2_n, "second_harness_request_kinds": h2_hist,
    })
