"""C07 — dense linear solvers return true solutions or report failure.

Tie: M.  lean/TfelVerif/C07/Model.lean (LUDecomp, LUSolve, TinyMatrixSolve generic + closed forms,
TinyMatrixInvert, QRDecomp) runs on Float and must agree bit for bit with the real templates
instantiated with double (harness/C07/harness.cxx) on seeded matrices of size 1..12.
On a differing line the property's own predicate is evaluated in exact rational arithmetic on the
implementation's answer (exact determinant, exact residual)."""
import random
import struct
from fractions import Fraction

import vlib

PROPS = ["TfelVerif.C07.Props"]
DBL_MIN = 2.2250738585072014e-308
EPS0 = 100 * DBL_MIN
SITE = {
    "lu": "include/TFEL/Math/LU/LUDecomp.ixx:LUDecomp::exe(matrix,Permutation)",
    "lut": "include/TFEL/Math/LU/LUDecomp.ixx:LUDecomp::exe(tmatrix,TinyPermutation)",
    "lusolve": "include/TFEL/Math/LUSolve.hxx:LUSolve::exe",
    "tsolve": "include/TFEL/Math/LU/TinyMatrixSolve.ixx:TinyMatrixSolve<N,double,false>::exe",
    "tsolvex": "include/TFEL/Math/LU/TinyMatrixSolve.ixx:TinyMatrixSolve<N,double,true>::exe",
    "tsolvem": "include/TFEL/Math/LU/TinyMatrixSolve.ixx:TinyMatrixSolve<N>::exe(tmatrix<N,M>)",
    "tinv": "include/TFEL/Math/Matrix/TinyMatrixInvert.ixx:TinyMatrixInvert::exe",
    "qr": "include/TFEL/Math/QR/QRDecomp.ixx:QRDecomp::exe+tq_product+back_substitute",
    # variants of the same entry points (harness op -> site); the model is asked the base op of VARIANTS
    "tsolvemx": "include/TFEL/Math/LU/TinyMatrixSolve.ixx:TinyMatrixSolve<N,double,true>::exe(tmatrix<N,M>)",
    "tsolved": "include/TFEL/Math/TinyMatrixSolve.hxx:TinyMatrixSolve<N,double,false>::exe(default eps)",
    "tsolvexd": "include/TFEL/Math/TinyMatrixSolve.hxx:TinyMatrixSolve<N,double,true>::exe(default eps)",
    "tsolvemd": "include/TFEL/Math/TinyMatrixSolve.hxx:TinyMatrixSolve<N>::exe(tmatrix<N,M>, default eps)",
    "tsolvec": "include/TFEL/Math/LU/TinyMatrixSolve.ixx:TinyMatrixSolve<N,double,false,true>::exe(runtime checks)",
    "tsolvecx": "include/TFEL/Math/LU/TinyMatrixSolve.ixx:TinyMatrixSolve<N,double,true,true>::exe(runtime checks)",
    "tsolvemc": "include/TFEL/Math/LU/TinyMatrixSolve.ixx:TinyMatrixSolve<N,double,false,true>::exe(tmatrix<N,M>, runtime checks)",
    "lutc": "include/TFEL/Math/LU/LUDecomp.ixx:LUDecomp<false,true>::exe(tmatrix,TinyPermutation)",
    "luc": "include/TFEL/Math/LU/LUDecomp.ixx:LUDecomp<false,true>::exe(matrix,Permutation)",
    "lux": "include/TFEL/Math/LU/LUDecomp.ixx:LUDecomp<true,false>::exe(matrix,Permutation)",
    "luxc": "include/TFEL/Math/LU/LUDecomp.ixx:LUDecomp<true,true>::exe(matrix,Permutation)",
    "lur": "include/TFEL/Math/LU/Permutation.ixx:Permutation::resize+LUDecomp::exe",
    "lusolve4": "include/TFEL/Math/LUSolve.hxx:LUSolve::exe(m,b,x,p) with a reused permutation",
    "lubs": "include/TFEL/Math/LUSolve.hxx:LUDecomp<true>::exe(m,p,eps)+LUSolve::back_substitute",
    "qrd": "include/TFEL/Math/QR/QRDecomp.ixx:QRDecomp::back_substitute(default eps)",
    "tperm": "include/TFEL/Math/LU/TinyPermutation.ixx:TinyPermutation::swap+exe",
}
# harness op -> (base op sent to the model, eps forced to the default 100*DBL_MIN, largest fixed N or None)
NCHK = 5
VARIANTS = {
    "tsolvemx": ("tsolvem", False, None), "tsolved": ("tsolve", True, None), "tsolvexd": ("tsolve", True, None),
    "tsolvemd": ("tsolvem", True, None), "tsolvec": ("tsolve", False, NCHK), "tsolvecx": ("tsolve", False, NCHK),
    "tsolvemc": ("tsolvem", False, NCHK), "lutc": ("lut", False, NCHK),
    "luc": ("lu", False, None), "lux": ("lu", False, None), "luxc": ("lu", False, None), "lur": ("lu", False, None),
    "lusolve4": ("lusolve", True, None), "lubs": ("lusolve", False, None), "qrd": ("qr", True, None),
}
# harness parts (first N, last N, runtime-sized entry points).  The fixed-size entry points share one
# template for every N >= 4, so the quick tier instantiates N in {1..6, 8, 12} only (the runtime-sized
# entry points run every n = 1..12 in both tiers); the thorough tier instantiates every N = 1..12.
PARTS_THOROUGH = [(1, 5, False), (6, 8, False), (9, 10, False), (11, 12, True)]
PARTS_QUICK = [(1, 4, False), (5, 6, False), (8, 8, True), (12, 12, False)]
DYNAMIC_OPS = ("lu", "lusolve", "qr", "luc", "lux", "luxc", "lur", "lusolve4", "lubs", "qrd")
TOL = Fraction(1, 2 ** 30)   # relative backward error accepted by the property predicate (differing lines only)


def hx(x):
    return "%016x" % struct.unpack("<Q", struct.pack("<d", float(x)))[0]


def unhx(s):
    if s == "nan":
        return float("nan")
    return struct.unpack("<d", struct.pack("<Q", int(s, 16)))[0]


# ---------------------------------------------------------------- exact linear algebra (Fractions)
def frac(x):
    return Fraction(x)   # exact value of a double


def det_exact(a):
    n = len(a)
    m = [[frac(x) for x in row] for row in a]
    d = Fraction(1)
    for i in range(n):
        piv = next((r for r in range(i, n) if m[r][i] != 0), None)
        if piv is None:
            return Fraction(0)
        if piv != i:
            m[i], m[piv] = m[piv], m[i]
            d = -d
        d *= m[i][i]
        for r in range(i + 1, n):
            f = m[r][i] / m[i][i]
            if f != 0:
                for c in range(i, n):
                    m[r][c] -= f * m[i][c]
    return d


def finite(xs):
    return all(x == x and abs(x) != float("inf") for x in xs)


def backward_error(a, xs, bs):
    """max over right-hand sides of ||A x - b||_inf / (||A||_inf ||x||_inf + ||b||_inf), exactly"""
    n = len(a)
    na = max(sum(abs(frac(v)) for v in row) for row in a)
    worst = Fraction(0)
    for x, b in zip(xs, bs):
        if not finite(x):
            return None
        fx = [frac(v) for v in x]
        res = max(abs(sum(frac(a[i][j]) * fx[j] for j in range(n)) - frac(b[i])) for i in range(n))
        den = na * max(abs(v) for v in fx) + max(abs(frac(v)) for v in b)
        if den == 0:
            if res != 0:
                return None
            continue
        worst = max(worst, res / den)
    return worst


# ---------------------------------------------------------------- generators
def gen_matrix(rng, n):
    """returns (kind, matrix as list of rows of python floats)"""
    kind = rng.choice(["int", "int", "dyadic", "dominant", "permuted", "singular-col", "singular-row",
                       "rank-def", "threshold", "illcond", "gauss", "scaled", "tiny-pivot", "zero-diag"])
    R = range(n)
    if kind == "int":
        span = rng.choice([1, 2, 3, 9])
        a = [[float(rng.randint(-span, span)) for _ in R] for _ in R]
    elif kind == "dyadic":
        a = [[rng.randint(-64, 64) / 16.0 for _ in R] for _ in R]
    elif kind == "dominant":
        a = [[float(rng.randint(-2, 2)) for _ in R] for _ in R]
        for i in R:
            a[i][i] = float(3 * n + rng.randint(0, 3)) * rng.choice([1, -1])
    elif kind == "permuted":
        perm = list(R)
        rng.shuffle(perm)
        a = [[rng.randint(-8, 8) / 64.0 for _ in R] for _ in R]
        for i in R:
            a[i][perm[i]] = float(rng.randint(4, 9)) * rng.choice([1, -1])
    elif kind == "singular-col":
        a = [[float(rng.randint(-3, 3)) for _ in R] for _ in R]
        c = rng.randrange(n)
        for i in R:
            a[i][c] = 0.0
    elif kind == "singular-row":
        a = [[float(rng.randint(-3, 3)) for _ in R] for _ in R]
        if n > 1:
            r1, r2 = rng.sample(list(R), 2)
            k = rng.choice([1, -1, 2])
            a[r2] = [k * v for v in a[r1]]
        else:
            a[0][0] = 0.0
    elif kind == "rank-def":
        r = max(1, n - rng.randint(1, 2)) if n > 1 else 0
        u = [[rng.randint(-2, 2) for _ in range(r)] for _ in R]
        v = [[rng.randint(-2, 2) for _ in R] for _ in range(r)]
        a = [[float(sum(u[i][k] * v[k][j] for k in range(r))) for j in R] for i in R]
    elif kind == "threshold":
        # column entries around the 0.1 * cmax swap threshold
        a = [[float(rng.randint(-2, 2)) for _ in R] for _ in R]
        for c in range(n):
            if rng.random() < 0.6:
                big = rng.choice([10.0, 20.0, 5.0, 40.0])
                r = rng.randrange(n)
                a[r][c] = big * rng.choice([1, -1])
                a[c][c] = rng.choice([big / 10, big / 10 * (1 + 2 ** -52), big / 10 * (1 - 2 ** -53), big * 0.1,
                                      big / 8, big / 16]) * rng.choice([1, -1])
    elif kind == "illcond":
        s = rng.choice([1, 3, 7])
        a = [[1.0 / (i + j + s) for j in R] for i in R]
    elif kind == "gauss":
        a = [[rng.gauss(0, 1) for _ in R] for _ in R]
    elif kind == "scaled":
        a = [[rng.gauss(0, 1) * 10.0 ** rng.randint(-6, 6) for _ in R] for _ in R]
    elif kind == "tiny-pivot":
        # a pivot column that is entirely tiny but non-null
        a = [[float(rng.randint(-3, 3)) for _ in R] for _ in R]
        c = rng.randrange(n)
        scale = rng.choice([2.0 ** -30, 2.0 ** -60, 1e-300, EPS0, EPS0 / 2, 3 * EPS0])
        for i in R:
            a[i][c] = rng.randint(-3, 3) * scale
    else:  # zero-diag
        a = [[float(rng.randint(-3, 3)) for _ in R] for _ in R]
        for i in R:
            a[i][i] = 0.0
    return kind, a


def gen_eps(rng):
    return rng.choice([EPS0, EPS0, EPS0, EPS0, 0.5, 0.25, 1e-6, 1.0, 2.0 ** -20, 0.0])


def gen_vec(rng, n):
    k = rng.choice(["int", "dyadic", "gauss"])
    if k == "int":
        return [float(rng.randint(-5, 5)) for _ in range(n)]
    if k == "dyadic":
        return [rng.randint(-64, 64) / 8.0 for _ in range(n)]
    return [rng.gauss(0, 1) for _ in range(n)]


def flat(a):
    return [v for row in a for v in row]


def make_request(rng, op, n, hop=None, default_eps=False):
    """op: entry point as the model knows it; hop: the variant of it asked to the harness (see VARIANTS)"""
    kind, a = gen_matrix(rng, n)
    eps = gen_eps(rng)
    if default_eps:
        eps = EPS0                           # the variant under test uses the default argument
    req = {"op": op, "hop": hop or op, "n": n, "kind": kind, "a": a, "eps": eps}
    if op in ("lu", "lut"):
        words = [eps] + flat(a)
        head = "%s %d" % (op, n)
    elif op in ("lusolve", "tsolve", "tsolvex", "qr"):
        if op == "lusolve" and hop != "lubs":
            eps = req["eps"] = EPS0          # LUSolve::exe has no eps parameter
        if op == "qr" and eps == 0.0:
            eps = req["eps"] = EPS0
        b = gen_vec(rng, n)
        req["b"] = [b]
        words = [eps] + flat(a) + b
        head = "%s %d" % (op, n)
    elif op == "tsolvem":
        mc = rng.randint(1, 3)
        cols = [gen_vec(rng, n) for _ in range(mc)]
        req["b"] = cols
        req["mc"] = mc
        words = [eps] + flat(a) + [cols[k][i] for i in range(n) for k in range(mc)]
        head = "%s %d %d" % (op, n, mc)
    else:  # tinv
        req["b"] = [[1.0 if i == k else 0.0 for i in range(n)] for k in range(n)]
        words = [eps, EPS0] + flat(a)
        head = "%s %d" % (op, n)
    req["mline"] = head + " " + " ".join(hx(w) for w in words)      # for the model
    req["line"] = req["hop"] + req["mline"][len(op):]               # for the harness
    return req


def make_perm_request(rng, n):
    """TinyPermutation<N>: k swaps then exe(v); the reference is computed here (v_out[i] = v_in[p[i]])"""
    k = rng.choice([0, 1, 1, 2, 3, 5])
    swaps = [(rng.randrange(n), rng.randrange(n)) for _ in range(k)]
    v = [float(rng.randint(-9, 9)) + i / 16.0 for i in range(n)]
    p = list(range(n))
    for (i, j) in swaps:
        p[i], p[j] = p[j], p[i]
    # is_identity is a flag: any call to swap clears it (even swap(i,i)), as LUDecomp relies on
    exp = "ok %d %s %s" % (1 if k == 0 else 0, " ".join(str(t) for t in p), " ".join(hx(v[p[i]]) for i in range(n)))
    words = [float(k)] + [float(t) for sw in swaps for t in sw] + v
    return {"op": "tperm", "hop": "tperm", "n": n, "kind": "perm", "a": [], "eps": EPS0, "swaps": swaps, "v": v,
            "expected": exp, "line": "tperm %d " % n + " ".join(hx(w) for w in words), "mline": None}


# ---------------------------------------------------------------- the property, evaluated on an answer
def solutions_of(req, ans):
    """list of solution vectors (one per right-hand side) contained in an `ok` answer"""
    f = ans.split()
    n = req["n"]
    op = req["op"]
    vals = [unhx(t) for t in f[1:]]
    if op in ("lusolve", "tsolve", "tsolvex"):
        return [vals[:n]]
    if op == "qr":
        return [vals[:n]]
    if op == "tsolvem":
        mc = req["mc"]
        return [[vals[i * mc + k] for i in range(n)] for k in range(mc)]
    if op == "tinv":
        return [[vals[i * n + k] for i in range(n)] for k in range(n)]
    return None


def lu_answer_valid(req, ans):
    """P A = L U (relative residual), p a permutation, d its sign"""
    f = ans.split()
    n = req["n"]
    try:
        d = int(f[1])
        p = [int(t) for t in f[2:2 + n]]
        m = [unhx(t) for t in f[2 + n:2 + n + n * n]]
    except (ValueError, IndexError):
        return False, "unparsable"
    if sorted(p) != list(range(n)):
        return False, "p is not a permutation"
    inv = sum(1 for i in range(n) for j in range(i + 1, n) if p[i] > p[j])
    if d != (-1 if inv % 2 else 1):
        return False, "d is not the sign of p"
    if req["eps"] == 0 and (not finite(m) or any(m[p[k] * n + k] == 0 for k in range(n))):
        return True, ""   # eps = 0 : the caller disabled the null-pivot test (outside the theorems)
    if not finite(m):
        if det_exact(req["a"]) == 0:
            return False, "decomposition of an exactly singular matrix reported as successful (non-finite factors)"
        return False, "non-finite factor"
    a = req["a"]
    M = [[frac(m[i * n + j]) for j in range(n)] for i in range(n)]
    if any(M[p[k]][k] == 0 for k in range(n)):
        return False, "an exactly null pivot is accepted (decomposition reported as successful)"
    worst = Fraction(0)
    for i in range(n):
        for j in range(n):
            s = Fraction(0)
            mag = Fraction(0)
            for k in range(min(i, j) + 1):
                l = M[p[i]][k]
                u = Fraction(1) if k == j else M[p[k]][j]
                s += l * u
                mag += abs(l * u)
            res = abs(s - frac(a[p[i]][j]))
            if res != 0:
                worst = max(worst, res / (mag + abs(frac(a[p[i]][j]))))
    if worst > TOL:
        return False, "P A != L U (relative residual %.3g)" % float(worst)
    return True, ""


def judge(req, impl, model):
    """(holds, reason) : does the implementation's answer satisfy the property on this input?
    An answer must be finite and backward stable (exact rational residual); a failure must be
    justified.  In floating point an exactly singular matrix may legitimately get tiny non-null pivots
    (rounding) and a nonsingular one may legitimately be rejected by a large user threshold `eps`
    under another pivot order, so neither is counted as a failing input by itself: a failure counts
    only when the threshold is negligible (eps <= 100*DBL_MIN, no denormal-scale entries), the matrix is
    exactly nonsingular and the verified algorithm solves it."""
    op = req["op"]
    a = req["a"]
    if op == "tperm":
        # TinyPermutation::exe is not called by any solver: a deviation is a broken obligation of the anchored
        # file, not a failing input of the property (reported as correspondence failure)
        return True, ""
    ok_i = impl.startswith("ok")
    if not (ok_i or impl.startswith("fail")):
        return False, "no answer (%s)" % impl[:40]
    if ok_i:
        if op in ("lu", "lut"):
            return lu_answer_valid(req, impl)
        xs = solutions_of(req, impl)
        be = backward_error(a, xs, req["b"])
        if be is None and req["eps"] == 0:
            return True, ""   # eps = 0 : the caller disabled the null-pivot test (outside the theorems)
        if be is None:
            if det_exact(a) == 0:
                return False, "exactly singular system (det = 0) : a non-finite answer is returned instead of a failure"
            return False, "non-finite / inconsistent solution returned without failure"
        if be > TOL:
            return False, "returned solution has relative backward error %.3g" % float(be)
        return True, ""
    negligible_eps = req["eps"] <= EPS0 and all(v == 0 or abs(v) >= 1e-150 for row in a for v in row)
    if negligible_eps and model.startswith("ok") and det_exact(a) != 0:
        return False, "failure reported (negligible threshold) for a nonsingular system that the verified algorithm solves"
    return True, ""


def branch_class(req, model):
    """coverage class of a request: (op, n, outcome, pivoting or not)"""
    f = model.split()
    piv = "-"
    if req["op"] in ("lu", "lut") and f and f[0] == "ok":
        n = req["n"]
        piv = "id" if [int(t) for t in f[2:2 + n]] == list(range(n)) else "perm"
    return (req["hop"], req["n"], f[0] if f else "?", piv, req["kind"])


def run(ck):
    rng = random.Random(ck.seed)
    srcs = (["C07/harness.cxx"] +
            [vlib.REPO + "/src/Exception/" + f for f in ("TFELException.cxx", "ContractViolation.cxx")] +
            [vlib.REPO + "/src/Math/" + f for f in ("LUException.cxx", "QRException.cxx", "MathException.cxx")])
    # the template-heavy harness is compiled in 4 parts in parallel (fixed sizes split); sanitizers in the thorough tier
    PARTS = PARTS_QUICK if ck.quick else PARTS_THOROUGH
    sizes_fixed = [n for n in range(1, 13) if any(lo <= n <= hi for (lo, hi, _) in PARTS)]
    harness = ck.cxx_many([("c07h_%d_%d" % (lo, hi), srcs,
                            ("-DC07_NLO=%d" % lo, "-DC07_NHI=%d" % hi) + (("-DC07_DYNAMIC",) if dyn else ()))
                           for (lo, hi, dyn) in PARTS], sanitize=not ck.quick)
    driver = ck.lean_exe("c07driver", "TfelVerif/C07/Driver.lean")
    res = ck.lean(PROPS, PROPS)
    ck.lean_violations(res)
    if ck.tier == "thorough" and res.ok:
        for m, log in ck.leanchecker(PROPS):
            ck.violation("leanchecker:" + m, "leanchecker rejects " + m, {"log": log}, False)

    ops = ["lu", "lut", "lusolve", "tsolve", "tsolvex", "tsolvem", "tinv", "qr"]
    per = 40 if ck.quick else 600
    reqs = []
    for op in ops:
        for n in (range(1, 13) if op in DYNAMIC_OPS else sizes_fixed):
            for _ in range(per if n > 3 else 2 * per):
                reqs.append(make_request(rng, op, n))
    # variants of the entry points (other template flags, default arguments, reused / resized permutations):
    # generated AFTER the base requests so that the base corpus of a seed does not depend on them
    per_v = 24 if ck.quick else 300
    for hop, (base, deflt, nmax) in VARIANTS.items():
        for n in (range(1, 13) if hop in DYNAMIC_OPS else [k for k in sizes_fixed if nmax is None or k <= nmax]):
            for _ in range(per_v if n > 3 else 2 * per_v):
                reqs.append(make_request(rng, base, n, hop, deflt))
    for n in sizes_fixed:
        for _ in range(12 if ck.quick else 100):
            reqs.append(make_perm_request(rng, n))
    text = "".join(r["mline"] + "\n" for r in reqs if r["mline"] is not None)
    impl = ["missing"] * len(reqs)
    for (lo, hi, dyn) in PARTS:
        mine = [i for i, r in enumerate(reqs)
                if (r["hop"] in DYNAMIC_OPS and dyn) or (r["hop"] not in DYNAMIC_OPS and lo <= r["n"] <= hi)]
        pi = ck.run([harness["c07h_%d_%d" % (lo, hi)]], input="".join(reqs[i]["line"] + "\n" for i in mine), timeout=3000)
        if pi.returncode != 0:
            ck.violation("harness-crash", "the implementation harness aborted (sanitizer or crash)",
                         {"stderr": pi.stderr[-2000:]}, False)
        for i, a in zip(mine, pi.stdout.splitlines()):
            impl[i] = a
    pm = ck.run([driver], input=text, timeout=3000)
    mit = iter(pm.stdout.splitlines())
    # reference answers: the Lean model (base op), or the python reference of TinyPermutation
    model = [r["expected"] if r["mline"] is None else next(mit, "missing") for r in reqs]
    classes = {}
    outcomes = {}
    kinds = {}
    disagreements = 0
    reported = set()
    for i, r in enumerate(reqs):
        a = impl[i] if i < len(impl) else "missing"
        m = model[i] if i < len(model) else "missing"
        cl = branch_class(r, m)
        classes[cl] = classes.get(cl, 0) + 1
        o = "%s:%s" % (r["hop"], m.split()[0] if m else "?")
        outcomes[o] = outcomes.get(o, 0) + 1
        kinds[r["kind"]] = kinds.get(r["kind"], 0) + 1
        if a == m:
            continue
        disagreements += 1
        holds, why = judge(r, a, m)
        key = "%s:%s" % (SITE[r["hop"]], "property" if not holds else "value")
        if key in reported:
            continue
        reported.add(key)
        rep = {"function": r["hop"], "model_function": r["op"], "site": SITE[r["hop"]], "n": r["n"], "matrix_kind": r["kind"],
               "eps": r["eps"], "A": r["a"], "b": r.get("b"), "request_line": r["line"],
               "implementation": a[:4000], "model": m[:4000],
               "implementation_values": [unhx(t) for t in a.split()[1:] if len(t) == 16 or t == "nan"][:200], "exact_determinant_is_zero": det_exact(r["a"]) == 0,
               "property_holds_on_implementation_output": holds, "reason": why}
        if not holds:
            ck.violation(key, "%s n=%d eps=%g on a %s matrix: %s" % (r["hop"], r["n"], r["eps"], r["kind"], why), rep, True)
        else:
            ck.violation("corr:" + key, "correspondence Model.lean vs %s broken (n=%d, %s matrix); the implementation's answer still satisfies the property" % (SITE[r["hop"]], r["n"], r["kind"]), rep, False)
    ck.assumptions += [
        "M: Model.lean is tied to the C++ templates by differential execution on double, compared bit for bit (packed LU, permutation, sign, solutions, success flag)",
        "floating point: the theorems are about the algorithm over an ordered field; 'residual bounded by conditioning x machine precision' is not modelled (only the exact-arithmetic statement residual = 0 is proved)",
        "the in-place accumulations are modelled with a local accumulator and the matrix right-hand sides column by column (equal when the permutation vector has no repeated entry)",
    ]
    n_nontrivial = len(classes)
    samples = []
    for i in (0, len(reqs) // 3, len(reqs) // 2, len(reqs) - 1):
        r = reqs[i]
        samples.append("%s n=%d %s eps=%g -> impl '%s' model '%s'" % (
            r["op"], r["n"], r["kind"], r["eps"], (impl[i] if i < len(impl) else "?")[:60], (model[i] if i < len(model) else "?")[:60]))
    return ck.finish({
        "evaluations": len(reqs), "distinct_nontrivial": n_nontrivial,
        "sizes_fixed_entry_points": sizes_fixed,
        "rule": "requests = seeded matrices n=1..12 (fixed-size entry points: the sizes listed in sizes_fixed_entry_points) of 14 kinds (integer, dyadic, dominant, permuted, structurally singular column/row, rank deficient, swap-threshold boundary, Hilbert-like, gaussian, badly scaled, tiny pivot column, zero diagonal) x eps in {100*DBL_MIN, 0.5, 0.25, 1e-6, 1, 2^-20, 0} x 8 entry points, then the same generators on 15 variants of them (exceptions x matrix rhs, default eps arguments, perform_runtime_checks=true for N<=5, LUDecomp<true|false,true|false>, resized / reused Permutation, LUDecomp+LUSolve::back_substitute, QR default-eps overload) and TinyPermutation swap/exe against a python reference; distinct = (entry point, n, ok/fail, identity/non-identity permutation, matrix kind) classes observed; every class runs the full elimination",
        "exhaustive": False, "disagreements": disagreements,
        "traces_validated_against_impl": len(reqs),
        "outcome_histogram": outcomes, "matrix_kind_histogram": kinds,
        "samples": samples,
    })
