"""C16 — IEEE-754 classification is bit-exact for every value (tie: T3, C-subset translator).

Every run:
  1. preprocess include/TFEL/Math/General/IEEE754.hxx of the current tree with the real compiler and
     translate the nine function bodies (fpclassify/isnan/isfinite x float/double/long double) to Lean
     `BitVec` definitions (harness/C16/t3.py) -> lean/TfelVerif/C16/Gen.lean; anything outside the supported
     C subset is a broken tie;
  2. re-check the theorems `forall bit pattern, Gen.f x = spec x` (Props.lean, toNat + omega);
  3. support, not proof: (a) translation validation — Gen evaluated by Lean on structured + random
     patterns must equal what the real functions return; (b) the real functions compiled at -O2 and at
     -Ofast -ffast-math against glibc's out-of-line __fpclassify*/__isnan* on a stratified sample of
     floats / doubles / long doubles (quick) and on all 2^32 floats (thorough, or whenever something broke).
"""
import os
import random
import re
import sys

import vlib

sys.path.insert(0, os.path.join(vlib.VERIF, "harness", "C16"))
import t3  # noqa: E402

PROPS = ["TfelVerif.C16.Props"]
HEADER = "TFEL/Math/General/IEEE754.hxx"
NEEDED = ["%s_%s" % (f, t) for f in ("fpclassify", "isnan", "isfinite") for t in ("f32", "f64", "x87")]
CONFIGS = [("O2", "-O2", ()), ("Ofast", "-O2", ("-Ofast", "-ffast-math"))]
WIDTH = {"f32": 8, "f64": 16, "x87": 20}
CLS = ["nan", "inf", "zero", "subnormal", "normal"]


def preprocess(ck):
    src = ck.write("pp.cxx", '#include <cfloat>\n#include <cmath>\n#include "%s"\n' % HEADER)
    inc = ["-I" + os.path.join(vlib.REPO, "include"), "-I" + os.path.join(vlib.BUILD, "include")]
    p = ck.run(["g++", "-std=c++20", "-E", "-P"] + inc + [src])
    if p.returncode != 0:
        raise vlib.BuildError("IEEE754.hxx no longer preprocesses", p.stderr)
    m = ck.run(["g++", "-std=c++20", "-dM", "-E"] + inc + [src])
    macros = dict(re.findall(r"^#define (\w+) (.*)$", m.stdout, re.M))

    def val(name, depth=0):
        v = macros.get(name, name).strip()
        while v in macros and depth < 10:
            v, depth = macros[v].strip(), depth + 1
        return int(v, 0)
    fp = {k: val(k) for k in ("FP_NAN", "FP_INFINITE", "FP_ZERO", "FP_SUBNORMAL", "FP_NORMAL")}
    plat = {k: val(k) for k in ("LDBL_MANT_DIG", "LDBL_MAX_EXP", "__BYTE_ORDER__", "__ORDER_LITTLE_ENDIAN__",
                                "__SIZEOF_LONG_DOUBLE__", "__SIZEOF_INT__", "__SIZEOF_LONG__", "__CHAR_BIT__")}
    return p.stdout, fp, plat


def patterns(rng, quick):
    """structured + random bit patterns for the three formats, as (type, hex) pairs"""
    out = []

    def mant(bits, nrand):
        full = (1 << bits) - 1
        v = {0, 1, 2, 3, full, full - 1, 1 << (bits - 1), (1 << (bits - 1)) - 1, (1 << (bits - 1)) + 1}
        for k in range(bits):
            v |= {1 << k, (1 << k) - 1, full & ~((1 << k) - 1)}
        v |= {rng.getrandbits(bits) for _ in range(nrand)}
        return sorted(v)
    nr = 6 if quick else 60
    # float: every (sign, exponent) with a few mantissas; edge exponents with all structured mantissas
    for se in range(512):
        e = se & 0xff
        ms = mant(23, nr) if e in (0, 1, 0x7f, 0xfe, 0xff) else [0, 1, 1 << 22, (1 << 23) - 1, rng.getrandbits(23)]
        out += [("f32", "%08x" % (se << 23 | m)) for m in ms]
    exps = sorted({0, 1, 2, 0x3fe, 0x3ff, 0x400, 0x7fd, 0x7fe, 0x7ff} | {rng.randrange(0x800) for _ in range(24)})
    for s in (0, 1):
        for e in range(0x800):
            ms = mant(52, nr) if e in exps[:9] or e in (0, 0x7ff) else [0, rng.getrandbits(52)]
            if e in exps:
                ms = mant(52, nr)
            out += [("f64", "%016x" % (s << 63 | e << 52 | m)) for m in ms]
    exps = sorted({0, 1, 2, 0x3ffe, 0x3fff, 0x4000, 0x7ffd, 0x7ffe, 0x7fff} | {rng.randrange(0x8000) for _ in range(16)})
    for s in (0, 1):
        for e in exps:
            for j in (0, 1):
                out += [("x87", "%04x%016x" % (s << 15 | e, j << 63 | m)) for m in mant(63, nr)]
        for e in range(0, 0x8000, 1 if not quick else 37):
            for j in (0, 1):
                out += [("x87", "%04x%016x" % (s << 15 | e, j << 63 | m)) for m in (0, rng.getrandbits(63))]
    return out


def parse_totals(text):
    res = {}
    for m in re.finditer(r"^total (\w+) (.*)$", text, re.M):
        res[m.group(1)] = {k: int(v) for k, v in re.findall(r"(\w+)=(\d+)", m.group(2))}
    mism = re.findall(r"^mismatch (\w+) (\w+) fn=(\w+) tfel=(-?\d+) ref=(-?\d+)", text, re.M)
    flags = dict(re.findall(r"(\w+)=(\d+)", (re.search(r"^flags (.*)$", text, re.M) or [None, ""])[1]))
    return res, mism, flags



def lean_checked(ck, mods, props):
    """ck.lean, re-run once when a props module could not be audited although lake succeeded (its .olean was
    momentarily missing: the lake build directory is shared); still unaudited afterwards = broken obligation"""
    res = ck.lean(mods, props)
    if res.ok and res.failed:
        ck.lean_results.pop()
        res = ck.lean(mods, props)
        if res.ok and res.failed:
            res.ok = False
    return res

def run(ck):
    rng = random.Random(ck.seed)
    # ------------------------------------------------------------------ 1. translate (T3)
    pre, fp, plat = preprocess(ck)
    if plat["LDBL_MANT_DIG"] != 64 or plat["LDBL_MAX_EXP"] != 16384 or plat["__SIZEOF_LONG_DOUBLE__"] != 16 \
            or plat["__BYTE_ORDER__"] != plat["__ORDER_LITTLE_ENDIAN__"] or plat["__SIZEOF_INT__"] != 4 \
            or plat["__SIZEOF_LONG__"] != 8:
        raise vlib.BuildError("platform is not x86-64 SysV with x87 long double: the translator's type table does not apply", str(plat))
    # a body that leaves the translator's subset (or a missing function) is a broken tie: no theorem is about
    # the current code any more.  The tie violation is reported at the end; before that the real functions are
    # still run against the IEEE-754 classes / glibc (both configurations, deep bulk run) so that a concrete
    # misclassified bit pattern is reported whenever the rewritten body has one.
    tie_err = None
    info = {"functions": [], "stats": {}}
    try:
        lean_src, info = t3.translate(pre, fp, "platform: " + ", ".join("%s=%s" % kv for kv in sorted(plat.items())))
        missing = [n for n in NEEDED if n not in info["functions"]]
        if missing:
            tie_err = vlib.BuildError("T3: functions missing from IEEE754.ixx: %s" % ", ".join(missing), info["source"][-2000:])
    except t3.Unsupported as e:
        tie_err = vlib.BuildError("T3: IEEE754.ixx left the supported C subset: %s" % e, str(e))
    if tie_err is None:
        ck.write_gen("TfelVerif/C16/Gen.lean", lean_src)
        ck.log("T3: translated %s (%s)" % (", ".join(info["functions"]), info["stats"]))
    else:
        ck.log("T3 FAILED (%s): no theorem applies to this tree; running the real functions against the spec" % tie_err.what)

    # ------------------------------------------------------------------ harnesses: the real functions, two configurations
    refo = ck.cxx("c16ref.o", ["C16/ref.cxx"], flags=("-c",), opt="-O1")
    cv = vlib.REPO + "/src/Exception/ContractViolation.cxx"
    from concurrent.futures import ThreadPoolExecutor
    with ThreadPoolExecutor(max_workers=2) as ex:
        futs = {name: ex.submit(ck.cxx, "c16h_" + name, ["C16/harness.cxx", cv], opt=opt, flags=flags,
                                libs=[refo, "-lm", "-lpthread"]) for (name, opt, flags) in CONFIGS}
        bins = {name: f.result() for name, f in futs.items()}

    # ------------------------------------------------------------------ 2. theorems
    res = lean_checked(ck, PROPS, PROPS) if tie_err is None else None

    pats = patterns(rng, ck.quick)
    text = "".join("%s %s\n" % p for p in pats)
    impl = {}
    cfgflags = {}
    for name in bins:
        p = ck.run([bins[name], "list"], input=text, timeout=900)
        if p.returncode != 0:
            raise vlib.BuildError("harness list mode failed (%s)" % name, p.stderr[-2000:])
        lines = p.stdout.splitlines()
        cfgflags[name] = dict(re.findall(r"(\w+)=(\d+)", lines[0]))
        impl[name] = [l.split() for l in lines[1:]]
    if cfgflags["O2"].get("fast_math") != "0" or cfgflags["Ofast"].get("fast_math") != "1" or \
            cfgflags["Ofast"].get("finite_math_only") != "1":
        raise vlib.BuildError("the two harness configurations are not (-O2, -Ofast -ffast-math): %s" % cfgflags, "")

    def spec_py(ty, h):
        """python copy of Spec.lean, only used to label replays when the Lean driver is unavailable"""
        n = int(h, 16)
        if ty == "x87":
            e, j, f = (n >> 64) & 0x7fff, (n >> 63) & 1, n & ((1 << 63) - 1)
            if e == 0:
                return ("zero" if f == 0 else "subnormal") if j == 0 else "normal"
            if j == 0:
                return "nan"
            return ("inf" if f == 0 else "nan") if e == 0x7fff else "normal"
        w, t = (8, 23) if ty == "f32" else (11, 52)
        e, m = (n >> t) & ((1 << w) - 1), n & ((1 << t) - 1)
        if e == 0:
            return "zero" if m == 0 else "subnormal"
        if e == (1 << w) - 1:
            return "inf" if m == 0 else "nan"
        return "normal"
    code = {c: fp[k] for c, k in zip(CLS, ("FP_NAN", "FP_INFINITE", "FP_ZERO", "FP_SUBNORMAL", "FP_NORMAL"))}

    # Lean-evaluated Gen and Spec on the same patterns
    gen = None
    if tie_err is None:     # otherwise Gen.lean is stale (it describes another tree)
        pd = ck.lean_run("TfelVerif/C16/Driver.lean", input=text, timeout=1200)
        if pd.returncode == 0 and len(pd.stdout.splitlines()) == len(pats):
            gen = [l.split() for l in pd.stdout.splitlines()]
        else:
            ck.log("Lean driver unavailable: %s" % (pd.stderr or pd.stdout)[-300:])

    reported = set()
    nontrivial = set()
    stats = {"impl_vs_libc": 0, "impl_vs_gen": 0, "spec_vs_libc": 0, "impl_vs_spec": 0}

    def report(key, what, rep, found):
        if key in reported:
            return
        reported.add(key)
        ck.violation(key, what, rep, found)

    for i, (ty, h) in enumerate(pats):
        sp = spec_py(ty, h)
        want = (code[sp], int(sp == "nan"), int(sp in ("zero", "subnormal", "normal")))
        if sp != "normal" or (ty == "x87" and (int(h, 16) >> 64) & 0x7fff == 0):
            nontrivial.add((ty, h))
        for name in bins:
            row = impl[name][i] if i < len(impl[name]) else None
            if row is None or row[0] != ty or row[1] != h:
                raise vlib.BuildError("harness list output out of step", str(row))
            got = tuple(int(x) for x in row[2:5])
            ref = (int(row[6]), int(row[7]))
            stats["impl_vs_libc"] += 1
            stats["impl_vs_spec"] += 1
            base = {"type": ty, "bits": "0x" + h, "configuration": name, "compiler_flags": " ".join((dict((c[0], (c[1],) + c[2]) for c in CONFIGS))[name]),
                    "tfel": {"fpclassify": got[0], "isnan": got[1], "isfinite": got[2]},
                    "glibc": {"fpclassify": ref[0], "isnan": ref[1]}, "ieee_class": sp, "fp_codes": fp}
            for k, fn in enumerate(("fpclassify", "isnan", "isfinite")):
                if got[k] != want[k]:
                    report("%s(%s):%s:%s" % (fn, {"f32": "float", "f64": "double", "x87": "long double"}[ty], sp, name),
                           "tfel::math::ieee754::%s on %s bit pattern 0x%s (IEEE class %s) returns %d, expected %d [%s]" %
                           (fn, ty, h, sp, got[k], want[k], name), dict(base, function=fn), True)
            if (ref[0], ref[1]) != (want[0], want[1]):
                stats["spec_vs_libc"] += 1
                report("spec-vs-libc:%s:%s" % (ty, sp), "Spec.lean disagrees with the C library on %s 0x%s (spec %s, glibc class code %d)" %
                       (ty, h, sp, ref[0]), base, False)
        if gen is not None:
            g = gen[i]
            gv = tuple(int(x) for x in g[2:5])
            sv = tuple(int(x) for x in g[6:9])
            if sv != want:
                raise vlib.BuildError("python copy of the spec differs from Spec.lean on %s %s" % (ty, h), str(g))
            stats["impl_vs_gen"] += 1
            for name in bins:
                got = tuple(int(x) for x in impl[name][i][2:5])
                if got != gv:
                    # translation validation broken: the generated Lean does not compute what the code computes
                    report("corr:t3:%s:%s" % (ty, name),
                           "T3 translation validation: Gen.lean gives %s, the real functions give %s on %s 0x%s [%s]" %
                           (gv, got, ty, h, name),
                           {"type": ty, "bits": "0x" + h, "gen": gv, "implementation": got, "configuration": name}, False)

    # ------------------------------------------------------------------ 3b. bulk comparison with the C library
    totals = {}
    bulk_eval = 0
    hist = {}
    deep = (not ck.quick) or (res is None) or (not res.ok) or bool(reported)
    for name in bins:
        runs = [[bins[name], "sample", str(ck.seed), "400" if ck.quick else "4000", "4"]]
        if deep:
            runs.append([bins[name], "all32", "8"])
        for cmd in runs:
            p = ck.run(cmd, timeout=3600)
            if p.returncode != 0:
                raise vlib.BuildError("harness %s failed" % " ".join(cmd[1:]), p.stderr[-2000:])
            tot, mism, _ = parse_totals(p.stdout)
            for ty, d in tot.items():
                key = "%s:%s:%s" % (name, cmd[1], ty)
                totals[key] = d
                bulk_eval += d["n"]
                for c in CLS:
                    hist["%s:%s" % (ty, c)] = hist.get("%s:%s" % (ty, c), 0) + d[c]
            for (ty, h, fn, a, b) in mism:
                sp = spec_py(ty, h)
                report("%s(%s):%s:%s" % (fn, {"f32": "float", "f64": "double", "x87": "long double"}[ty], sp, name),
                       "tfel::math::ieee754::%s on %s bit pattern 0x%s (IEEE class %s) returns %s, the C library says %s [%s]" %
                       (fn, ty, h, sp, a, b, name),
                       {"type": ty, "bits": "0x" + h, "function": fn, "tfel": a, "glibc": b, "ieee_class": sp,
                        "configuration": name, "mode": cmd[1]}, True)

    # ------------------------------------------------------------------ broken theorems: concrete bit pattern
    def search(fl):
        """a bit pattern where the generated definition differs from the spec, replayed on the real code"""
        if gen is None:
            return None
        for i, (ty, h) in enumerate(pats):
            g = gen[i]
            if g[2:5] != g[6:9]:
                rep = {"type": ty, "bits": "0x" + h, "gen": g[2:5], "spec": g[6:9], "ieee_class": spec_py(ty, h)}
                real = {name: impl[name][i][2:5] for name in bins}
                rep["real_functions"] = real
                if any(real[n] != g[6:9] for n in real):
                    return rep     # the real code also misclassifies this pattern
        return None
    if res is not None:
        ck.lean_violations(res, search)
    if tie_err is not None:
        ck.tie_broken(tie_err)
    if ck.tier == "thorough" and res is not None and res.ok:
        for m_, log in ck.leanchecker(PROPS):
            ck.violation("leanchecker:" + m_, "leanchecker rejects " + m_, {"log": log}, False)

    ck.assumptions += [
        "T3: harness/C16/t3.py (~600 lines) translates the preprocessed function bodies correctly for the subset it accepts "
        "(C++ integer promotions/conversions, little-endian struct layout for bit_cast) and rejects everything else; "
        "validated on every run by evaluating Gen.lean in Lean against the real functions on %d patterns" % len(pats),
        "g++ -E is the preprocessor that selects the platform branch (LDBL_MANT_DIG=64: x87); std::bit_cast reinterprets bits",
        "Spec.lean states the IEEE-754 field semantics; x87 non-canonical encodings follow glibc >= 2.33 __fpclassifyl "
        "(checked against the installed glibc on the sample)",
        "a theorem cannot see compiler flags: -O2 / -Ofast behaviour is observed (differential run against glibc), not proved",
        "isfinite is specified by class (zero/subnormal/normal); glibc's __finitel looks at the exponent only and calls "
        "x87 unnormals finite although its own fpclassify says FP_NAN (counted as an observation, not an alarm)",
    ]
    samples = []
    for ty in ("f32", "f64", "x87"):
        idx = [i for i, p in enumerate(pats) if p[0] == ty]
        for i in (idx[0], idx[len(idx) // 3], idx[-1]):
            samples.append("%s 0x%s class=%s: (fpclassify,isnan,isfinite) tfel@O2=%s tfel@Ofast=%s Gen.lean=%s Spec.lean=%s; glibc (fpclassify,isnan)=%s" %
                           (ty, pats[i][1], spec_py(ty, pats[i][1]), ",".join(impl["O2"][i][2:5]), ",".join(impl["Ofast"][i][2:5]),
                            ",".join(gen[i][2:5]) if gen else "n/a", ",".join(gen[i][6:9]) if gen else "n/a",
                            ",".join(impl["O2"][i][6:8])))
    return ck.finish({
        "evaluations": len(pats) * len(bins) + bulk_eval,
        "distinct_nontrivial": len(nontrivial),
        "rule": "cross-validated list: per format every/edge exponents x structured mantissas (single bits, runs of ones, "
                "extremes) + seeded random, each pattern evaluated by the real functions at -O2 and -Ofast, by glibc, by the "
                "generated Lean and by the spec; distinct_nontrivial = distinct patterns of that list whose class is not "
                "'normal' or (x87) whose exponent field is 0 (measured). Bulk: stratified sample (quick) / all 2^32 floats "
                "(thorough or after any failure) per configuration against glibc",
        "samples": samples,
        "exhaustive": bool(deep),
        "patterns_cross_validated": len(pats),
        "comparisons": stats,
        "bulk_totals": totals,
        "class_histogram": hist,
        "configurations": cfgflags,
        "translator": info["stats"], "translated_functions": info["functions"],
        "platform": plat, "fp_codes": fp,
        "traces_validated_against_impl": len(pats) * len(bins),
        **({"explanation": "tie could not be rebuilt: " + tie_err.what, "obligations": 1, "discharged": 0}
           if tie_err is not None else {}),
    })
