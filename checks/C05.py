"""C05 — isotropic tensor functions and their derivatives are consistent (tie: T1 symtrace, concolic)."""
import os
import random
import re
import sys
from fractions import Fraction

import emit
import vlib
from emit import Q2
from m3 import M3, q

sys.path.insert(0, os.path.join(vlib.VERIF, "checks"))
import c05ref as R  # noqa: E402  (python reference used by the failing-input search only)

GROUPS = ["Val", "D12", "D3dist", "D3p01", "D3p02", "D3p12", "F", "W",
          "Dec12", "Dec3full", "Dec3p01", "Dec3p02", "Dec3p12", "Dec3dist", "TabP01pp", "TabDistppp", "TabDistnnn"]
PROPS_QUICK = ["TfelVerif.C05.Props", "TfelVerif.C05.PropsDeriv", "TfelVerif.C05.PropsWrap", "TfelVerif.C05.PropsDec",
               "TfelVerif.C05.PropsDecTa", "TfelVerif.C05.PropsDecTb", "TfelVerif.C05.PropsDecTc"]
PROPS_THOROUGH = PROPS_QUICK + ["TfelVerif.C05.PropsDecX"]
SIZE = {1: 3, 2: 4, 3: 6}


def group_of(name):
    if name.startswith("abs_"):
        return "Val"
    if name.startswith("X"):
        return "X"
    m = re.match(r"N(\d)_(.*)", name)
    n, r = m.group(1), m.group(2)
    if r.startswith("dect_"):
        return {"p01_pp": "TabP01pp", "dist_ppp": "TabDistppp", "dist_nnn": "TabDistnnn"}[r[5:]]
    if r.startswith("dec_"):
        return "Dec12" if n != "3" else "Dec3" + r.split("_")[1]
    if r.startswith("w_d_"):
        return "W"
    if r.startswith("dval"):
        return "D3" + r.split("_")[1] if (n == "3" and not r.endswith("full")) else "D12"
    if r.startswith("dfun"):
        return "F"
    return "Val"


def emit_groups(ck, dagtext):
    """split the dump by groups of units (one generated Lean file per group, so that lake rebuilds only what a
    source change touched, in parallel); in the groups whose outputs are scalars (W, Dec*), outputs of a unit that
    are the *same DAG node* as an earlier output become aliases (`def U_b := U_a`) instead of a second copy of
    the let-chain."""
    blocks = re.findall(r"(unit (\S+)\n.*?end \2\n)", dagtext, re.S)
    per = {g: [] for g in GROUPS}
    aliases = {g: [] for g in GROUPS}
    nalias = 0
    for text, name in blocks:
        if name.startswith("X"):
            continue  # audit units: exact evaluation only (search), no Lean definitions
        g = group_of(name)
        seen = {}
        lines = []
        for line in text.splitlines():
            f = line.split()
            if f and f[0] == "out":
                if f[2] in seen and (g == "W" or g.startswith("Dec")):
                    aliases[g].append((name, f[1], seen[f[2]]))
                    nalias += 1
                    continue
                seen.setdefault(f[2], f[1])
            lines.append(line)
        per[g].append("\n".join(lines) + "\n")
    units = emit.parse(dagtext)
    byname = {u.name: u for u in units}
    for g in GROUPS:
        dag = ck.write("g_%s.dag" % g, "".join(per[g]))
        tmp = ck.path("Gen%s.lean" % g)
        p = vlib.sh([sys.executable, os.path.join(vlib.VERIF, "harness", "symtrace", "emit.py"),
                     "--namespace", "TfelVerif.C05.Gen", "--out", tmp, dag])
        if p.returncode != 0:
            raise vlib.BuildError("emit.py failed", p.stdout + p.stderr)
        txt = open(tmp).read()
        extra = []
        for (uname, out, target) in aliases[g]:
            u = byname[uname]
            ins = [emit.lean_ident(x) for x in u.inputs]
            binder = "(c c3 : K) (fn : Fns K)" + (" (%s : K)" % " ".join(ins) if ins else "")
            args = "c c3 fn" + "".join(" " + x for x in ins)
            un = emit.lean_ident(uname)
            extra.append("/-- same DAG node as `%s_%s` in the trace -/\n@[gen_simp] def %s_%s {K : Type} [Field K] %s : K :=\n  %s_%s %s\n\n"
                         % (un, target, un, emit.lean_ident(out), binder, un, emit.lean_ident(target), args))
        end = "end TfelVerif.C05.Gen\n"
        assert txt.endswith(end)
        txt = txt[:-len(end)] + "".join(extra) + end
        ck.write_gen("TfelVerif/C05/Gen%s.lean" % g, txt)
    return units, nalias


# ---------------------------------------------------------------------------------------------- references
def make_fns(sol):
    def fns(name, args):
        if name == "abs":
            return R.qabs(args[0])
        if name == "max":
            return R.qmax(args[0], args[1])
        if name == "min":
            return R.qmin(args[0], args[1])
        if name == "log":
            return R.fake_log(args[0])
        if name == "sqrt":
            return R.fake_sqrt(args[0])
        if name == "f":
            return R.fake_f(args[0])
        if name == "df":
            return R.fake_df(args[0])
        return sol[name]
    return fns


def path_holds(u, val):
    for (cmp_, a, b, res) in u.paths:
        x, y = val[a], val[b]
        s = R.sign(x - y)
        r = {"lt": s < 0, "le": s <= 0, "gt": s > 0, "ge": s >= 0, "eq": s == 0, "ne": s != 0}[cmp_]
        if r != res:
            return False
    return True


def mandel_vec(rng, n):
    """stored components of a random symmetric tensor (rational matrix entries)"""
    v = [R.rnd(rng) for _ in range(6)]
    A = M3.sym(*v) if n == 6 else (M3.sym(v[0], v[1], v[2], v[3]) if n == 4 else M3.sym(v[0], v[1], v[2]))
    N = {3: 1, 4: 2, 6: 3}[n]
    return A, A.mandel(N)


def frob(A, B):
    return A.frob(B)


def reference(name, rng):
    """(env, sol, expected outputs by name) for unit `name`; expected values are Q2"""
    if name.startswith("abs_"):
        x = {"abs_neg": -abs(R.rnd(rng, nonzero=True)), "abs_pos": abs(R.rnd(rng, nonzero=True)), "abs_zero": Fraction(0)}[name]
        return {"x": q(x)}, {}, {"r": R.qabs(q(x))}
    mx = re.match(r"X(\d)_eigtd_(\w+)", name)
    if mx:
        N, pat = int(mx.group(1)), mx.group(2)
        n = SIZE[N]
        Mraw = R.rnd_matrix(rng)
        if N == 2:
            Mraw = R.m2(Mraw)
        env = R.m_env(Mraw)
        eps = q(R.EPS)
        l = R.spectrum(rng, "dist")
        if pat == "reg":
            l[1] = l[0] + eps * q(Fraction(rng.choice([1, 2, 3, -1, -3]), 5))
        elif pat == "zero":
            l[1] = l[0]
        env.update({"l%d" % i: l[i] for i in range(3)})
        env["eps"] = eps
        exp = {}
        for i, pre in enumerate("abe"):
            tab = R.table(N, R.eigtd_action(N, i, Mraw, l, eps))
            for a in range(n):
                for b in range(n):
                    exp["%s%d_%d" % (pre, a, b)] = tab[a * n + b]
            v = [Mraw.a[k][i] for k in range(3)]
            for k, x in enumerate(M3.outer(v, v).mandel(N)):
                exp["v%s%d" % (pre, k)] = x
        return env, {}, exp
    m = re.match(r"N(\d)_(.*)", name)
    N, r = int(m.group(1)), m.group(2)
    n = SIZE[N]
    Mraw = R.rnd_matrix(rng)
    if N == 2:
        Mraw = R.m2(Mraw)
    Meff = Mraw if N == 3 else (R.m2(Mraw) if N == 2 else M3.one())
    env = R.m_env(Mraw)
    sol = {}
    exp = {}

    def put_vec(prefix, vec):
        for i, x in enumerate(vec):
            exp["%s%d" % (prefix, i)] = x

    if r == "isofun_values":
        f = [q(R.rnd(rng)) for _ in range(3)]
        env.update({"f%d" % i: f[i] for i in range(3)})
        put_vec("r", R.iso(Meff, f).mandel(N))
        return env, sol, exp
    l = R.spectrum(rng, "dist")
    if r in ("isofun_fn", "build_log", "build_pos_neg"):
        env.update({"l%d" % i: l[i] for i in range(3)})
        if r == "isofun_fn":
            put_vec("r", R.iso(Meff, [R.fake_f(x) for x in l]).mandel(N))
        elif r == "build_log":
            v = R.iso(Meff, [R.fake_log(x) for x in l]).mandel(N)
            put_vec("r", v)
            put_vec("q", v)
        else:
            p = R.iso(Meff, [R.qmax(R.ZERO, x) for x in l]).mandel(N)
            ng = R.iso(Meff, [R.qmin(R.ZERO, x) for x in l]).mandel(N)
            put_vec("p", p)
            put_vec("n", ng)
            put_vec("pp", p)
            put_vec("nn", ng)
        return env, sol, exp
    if r == "eigentensors":
        for k, pre in enumerate("abe"):
            v = [Meff.a[i][k] for i in range(3)]
            put_vec(pre, M3.outer(v, v).mandel(N))
        return env, sol, exp
    # ---- units with the stub solver: inputs s (any numbers), solver result chosen here
    if r.startswith("w_") and not r.startswith("w_d_"):
        env = {"s%d" % i: q(R.rnd(rng)) for i in range(n)}
        Ms = R.rnd_matrix(rng)
        if N == 2:
            Ms = R.m2(Ms)
        if N == 1:
            Ms = M3.one()
            l = [env["s0"], env["s1"], env["s2"]]
        sol = dict(R.m_env(Ms))
        sol.update({"vp%d" % i: l[i] for i in range(3)})
        g = {"w_logarithm": R.fake_log, "w_absolute_value": R.qabs, "w_positive_part": lambda x: R.qmax(x, R.ZERO),
             "w_negative_part": lambda x: R.qmin(x, R.ZERO), "w_square_root": R.fake_sqrt,
             "w_isofun_member": R.fake_f, "w_isofun_free": R.fake_f}[r]
        put_vec("r", R.iso(Ms, [g(x) for x in l]).mandel(N))
        return env, sol, exp
    eps = q(R.EPS)
    if r.startswith(("dval_", "dfun_", "w_d_")):
        pat = r.split("_")[-1]
        l = R.spectrum(rng, {"dist": "dist2" if N == 2 else "dist", "any": "dist"}.get(pat, pat))
        if r.startswith("dval_"):
            f = [q(R.rnd(rng)) for _ in range(3)]
            g = [q(R.rnd(rng)) for _ in range(3)]
            env.update({"l%d" % i: l[i] for i in range(3)})
            env.update({"f%d" % i: f[i] for i in range(3)})
            env.update({"g%d" % i: g[i] for i in range(3)})
            env["eps"] = eps
            tab = R.table(N, R.deriv_action(N, pat, Meff, l, f, g))
            for i in range(n):
                for j in range(n):
                    exp["d%d_%d" % (i, j)] = tab[i * n + j]
            return env, sol, exp
        f = [R.fake_f(x) for x in l]
        g = [R.fake_df(x) for x in l]
        H, hv = mandel_vec(rng, n)
        G, gv = mandel_vec(rng, n)
        if r.startswith("dfun_"):
            env.update({"l%d" % i: l[i] for i in range(3)})
            M_used = Meff
        else:
            env = {"s%d" % i: q(R.rnd(rng)) for i in range(n)}
            Ms = R.rnd_matrix(rng)
            if N == 2:
                Ms = R.m2(Ms)
            if N == 1:
                Ms = M3.one()
                l = [env["s0"], env["s1"], env["s2"]]
                f = [R.fake_f(x) for x in l]
                g = [R.fake_df(x) for x in l]
            sol = dict(R.m_env(Ms))
            sol.update({"vp%d" % i: l[i] for i in range(3)})
            M_used = Ms
        env["eps"] = eps
        env.update({"h%d" % i: hv[i] for i in range(n)})
        env.update({"g%d" % i: gv[i] for i in range(n)})
        a = frob(G, R.deriv_action(N, pat, M_used, l, f, g)(H))
        exp["a"] = a
        if r.startswith("w_d_"):
            v = frob(G, R.iso(M_used, f))
            exp.update({"v": v, "b": a, "fa": a, "fv": v, "fb": a})
        return env, sol, exp
    if r.startswith("dect_"):
        pname = r[5:]
        l = R.dec_spectrum(rng, N, pname)
        Ms = R.rnd_orth(rng)
        sv = R.iso(Ms, l).mandel(N)
        env = {"s%d" % i: sv[i] for i in range(n)}
        env["eps"] = eps
        sol = dict(R.m_env(Ms))
        sol.update({"vp%d" % i: l[i] for i in range(3)})
        for positive, ka, kp in ((True, "a", "p"), (False, "b", "n")):
            T, vals, br = R.dec_theta_vals(N, l, eps, positive)
            tab = R.table(N, lambda H, T=T: R.dk_act(Ms, T, H))
            for i in range(n):
                for j in range(n):
                    exp["%s%d_%d" % (ka, i, j)] = tab[i * n + j]
            put_vec(kp, R.iso(Ms, vals).mandel(N))
        return env, sol, exp
    if r.startswith("dec_"):
        pname = r[4:]
        l = R.dec_spectrum(rng, N, pname)
        H, hv = mandel_vec(rng, n)
        G, gv = mandel_vec(rng, n)
        if N == 1:
            env = {"s%d" % i: l[i] for i in range(3)}
            Ms = M3.one()
            S = M3.diag(*l)
        else:
            Ms = R.rnd_orth(rng, two_d=(N == 2))
            S = R.iso(Ms, l)
            sv = S.mandel(N)
            env = {"s%d" % i: sv[i] for i in range(n)}
            sol = dict(R.m_env(Ms))
            sol.update({"vp%d" % i: l[i] for i in range(3)})
        env["eps"] = eps
        env.update({"h%d" % i: hv[i] for i in range(n)})
        env.update({"g%d" % i: gv[i] for i in range(n)})
        for positive, ka, kp in ((True, "a", "p"), (False, "b", "n")):
            T, vals, br = R.dec_theta_vals(N, l, eps, positive)
            if br.startswith("full"):
                exp[ka] = frob(G, H * T.a[0][0])
                exp[kp] = frob(G, S) if br.endswith("_s") else R.ZERO
            else:
                exp[ka] = frob(G, R.dk_act(Ms, T, H))
                exp[kp] = frob(G, R.iso(Ms, vals))
        exp["qa"] = exp["a"]
        exp["qp"] = exp["p"]
        meta = {"N": N, "eps": float(R.EPS), "s": [float(env["s%d" % i]) for i in range(n)],
                "eigenvalues": [float(x) for x in l], "h": [float(x) for x in hv], "g": [float(x) for x in gv],
                "expected": {k: float(v) for k, v in exp.items()}}
        return env, sol, exp, meta
    raise KeyError(name)


def search(ck, units, rng, tracer, replay_bin, trials):
    """exact evaluation of every traced unit against the reference at seeded random points satisfying the unit's
    own path condition; a mismatch is replayed on the real code in double precision"""
    found = []
    stats = {"units_evaluated": 0, "points": 0, "path_mismatch_skipped": 0, "division_by_zero_skipped": 0,
             "outputs_compared": 0, "per_group": {}}
    for u in units:
        stats["units_evaluated"] += 1
        grp = group_of(u.name)
        for _ in range(trials):
            try:
                ref = reference(u.name, rng)
            except (ZeroDivisionError, RuntimeError):
                stats["division_by_zero_skipped"] += 1
                continue
            env, sol, exp = ref[0], ref[1], ref[2]
            meta = ref[3] if len(ref) > 3 else None
            try:
                val = emit.evaluate(u, env, make_fns(sol))
            except ZeroDivisionError:
                stats["division_by_zero_skipped"] += 1
                continue
            if not path_holds(u, val):
                stats["path_mismatch_skipped"] += 1
                continue
            stats["points"] += 1
            stats["per_group"][grp] = stats["per_group"].get(grp, 0) + 1
            bad = None
            for (oname, node) in u.outs:
                if oname not in exp or exp[oname] is None:
                    continue
                stats["outputs_compared"] += 1
                if not (val[node] == exp[oname]):
                    bad = (oname, val[node], exp[oname])
                    break
            if bad:
                rep = {"unit": u.name, "output": bad[0],
                       "inputs_exact": {k: repr(v) for k, v in env.items()},
                       "solver_result_exact": {k: repr(v) for k, v in sol.items()},
                       "code_value_exact": repr(bad[1]), "spec_value_exact": repr(bad[2]),
                       "code_value": float(bad[1]), "spec_value": float(bad[2])}
                # (1) the instantiated real code in double precision at this input (shadow replay of the tracer)
                sh = "".join("%s %s %.17g\n" % (u.name, k, float(v)) for k, v in list(env.items()) + list(sol.items()))
                shp = ck.write("shadow_%s.txt" % u.name, sh)
                try:
                    p = ck.run([tracer], env={"VERIF_SHADOW": shp}, timeout=600)
                    mm = re.search(r"unit %s\n(.*?)end %s\n" % (re.escape(u.name), re.escape(u.name)), p.stdout, re.S)
                    if mm:
                        shn, outs = {}, {}
                        for line in mm.group(1).splitlines():
                            f = line.split()
                            if f[0] == "n":
                                shn[int(f[1])] = float(line.split(";")[1])
                            elif f[0] == "out":
                                outs[f[1]] = int(f[2])
                        rep["real_code_double_result"] = shn.get(outs.get(bad[0]))
                except Exception as e:  # support only
                    rep["replay_error"] = repr(e)
                # (2) decomposition units: the shipped function with the real eigen-solver on s = M diag(l) M^T
                if meta and replay_bin and meta["N"] > 1:
                    rep["real_solver_replay"] = real_replay(ck, replay_bin, meta)
                found.append(rep)
                break
    return found, stats


def real_replay(ck, replay_bin, meta):
    line = "dec %d %.17g %s %s %s\n" % (meta["N"], meta["eps"], " ".join("%.17g" % x for x in meta["s"]),
                                        " ".join("%.17g" % x for x in meta["h"]), " ".join("%.17g" % x for x in meta["g"]))
    try:
        p = ck.run([replay_bin], input=line, timeout=60)
        got = dict(zip(["a", "b", "p", "n", "qa", "qp"], [float(x) for x in p.stdout.split()]))
        worst = max(abs(got[k] - meta["expected"][k]) for k in got)
        return {"input_line": line.strip(), "real_code": got, "expected": meta["expected"],
                "eigenvalues": meta["eigenvalues"], "max_abs_difference": worst}
    except Exception as e:  # support only
        return {"error": repr(e)}


def scale_covariance(ck, binary, rng):
    """double precision, real code: D(2^k s)/2^k (x^2; /4^k for x^3) must not depend on k (eps scaled with the tensor)"""
    K = (0, -50, -30, -10, 10, 30, 50)
    eig = [(1.0, 2.0, 4.0), (-1.5, 0.25, 3.0), (0.3, -0.2, 0.9), (1.0, 1.0, 3.0), (2.0, 5.0, 2.0), (2.0, 2.0, 2.0)]
    for _ in range(6 if ck.quick else 200):
        v = [round(rng.uniform(-4, 4), 3) for _ in range(3)]
        if rng.random() < 0.3:
            v[rng.randrange(3)] = v[rng.randrange(3)]
        eig.append(tuple(v))
    req = ["%r %r %r %d 1e-10" % (l[0], l[1], l[2], k) for l in eig for k in K]
    p = ck.run([binary], input="\n".join(req) + "\n", timeout=600)
    out = p.stdout.splitlines()
    stats = {"tensors": len(eig), "scales": list(K), "max_relative_difference": 0.0}
    if p.returncode != 0 or len(out) != len(req) or any(not l.startswith("D ") for l in out):
        ck.violation("scale:harness", "C05 scale harness failed (rc=%d, %d lines)" % (p.returncode, len(out)),
                     {"stderr": p.stderr[-2000:]}, False)
        return stats
    n = len(K)
    for g, l in enumerate(eig):
        rows = [[float(x) for x in out[g * n + j].split()[1:]] for j in range(n)]
        base = rows[0]
        m = max(abs(x) for x in base) or 1.0
        for j in range(1, n):
            bad = [(i, a, b) for i, (a, b) in enumerate(zip(rows[j], base)) if not (abs(a - b) <= 1e-12 * m)]
            e = max((abs(a - b) for a, b in zip(rows[j], base) if a == a and b == b), default=0.0) / m
            stats["max_relative_difference"] = max(stats["max_relative_difference"], e)
            if bad:
                i, a, b = bad[0]
                which = ["computeIsotropicFunctionDerivative(x^2)", "computeIsotropicFunctionAndDerivative(x^2)",
                         "computeIsotropicFunctionDerivative(x^3)"][i // 36]
                ck.violation("scale:StensorComputeIsotropicFunctionDerivative<3u>:absolute-threshold",
                             "%s of the 3D tensor with eigenvalues %s (fixed rotation) scaled by 2^%d, eps = 1e-10 * 2^%d: entry (%d,%d) "
                             "divided by the scale is %r, at scale 1 it is %r — the derivative of a homogeneous isotropic function "
                             "depends on the size of the tensor (an absolute threshold sits in the way)"
                             % (which, list(l), K[j], K[j], (i % 36) // 6, i % 6, a, b),
                             {"input": {"eigenvalues": list(l), "scale_exponent": K[j], "eps_at_scale_1": 1e-10},
                              "real_code_result": a, "expected": b, "request": req[g * n + j]}, True)
                return stats
    return stats


def run(ck):
    tracer = ck.cxx("c05trace", ["C05/trace.cxx", "C05/trace_abs.cxx",
                                 vlib.REPO + "/src/Exception/ContractViolation.cxx"], opt="-O0")
    replay_bin = ck.cxx("c05replay", ["C05/replay.cxx", vlib.REPO + "/src/Exception/ContractViolation.cxx"], opt="-O1")
    scale_bin = ck.cxx("c05scale", ["C05/scale.cxx", vlib.REPO + "/src/Exception/ContractViolation.cxx"], opt="-O1")
    p = ck.run([tracer], timeout=600)
    if p.returncode != 0:
        raise vlib.BuildError("tracer c05trace failed on the current tree (value dependent branch on a symbol outside "
                              "concolic mode, contract violation or crash)", p.stdout[-800:] + p.stderr[-3000:])
    units, nalias = emit_groups(ck, p.stdout)
    props = PROPS_QUICK if ck.quick else PROPS_THOROUGH
    res = ck.lean(props, props)
    rng = random.Random(ck.seed)
    trials = 3 if ck.quick else 25
    found, stats = search(ck, units, rng, tracer, replay_bin, trials)
    by_unit = {f["unit"]: f for f in found}
    reported = set()
    if not res.ok:
        def find(fl):
            thm = (fl.get("theorem") or "")
            base = re.sub(r"_(table|dk|meaning|path_iff)$", "", thm)
            cands = [u for u in by_unit if u == base or u.startswith(base + "_") or base.startswith(u)]
            # theorem names drop the unit-kind infix for wrappers: N3_positive_part <-> N3_w_positive_part
            cands += [u for u in by_unit if u.replace("_w_", "_") == base]
            if cands:
                reported.add(cands[0])
                return by_unit[cands[0]]
            return None
        ck.lean_violations(res, find)
    # units whose exact evaluation disagrees with the reference and which no failed theorem accounted for: either a
    # pattern without a Lean theorem (decomposition, see PropsDec.lean) or a broken reference
    for f in found:
        if f["unit"] in reported:
            continue
        ck.violation("unit:" + f["unit"],
                     "traced unit %s (real code instantiated on the recording scalar) disagrees with the property's reference "
                     "at an exact input: output %s = %s, expected %s" % (f["unit"], f["output"], f["code_value_exact"], f["spec_value_exact"]),
                     f, True)
    scale_stats = scale_covariance(ck, scale_bin, rng)
    if ck.tier == "thorough" and res.ok:
        for m, log in ck.leanchecker(props):
            ck.violation("leanchecker:" + m, "leanchecker rejects " + m, {"log": log}, False)
    ck.assumptions += [
        "T1: g++ instantiating TFEL with verif::Sym performs the same scalar operations as with double; sym.hxx/glue.hxx/emit.py are correct",
        "exact field semantics: rounding, overflow, underflow not modelled; log/sqrt/f/f' are uninterpreted symbols",
        "concolic mode: one trace per branch pattern of the eps tests; the *_paths_cover theorems show the traced patterns are exhaustive for computeIsotropicFunctionDerivative; for DecompositionInPositiveAndNegativeParts only the traced patterns are covered (statement coverage of the file, not all combinations)",
        "harness/C05/trace.cxx replaces std::max/std::min/tfel::math::abs on the recording scalar by max/min/abs nodes (abs itself is traced and proved on both paths) and the default eigen-solver by uninterpreted results (what the solver returns is property C03)",
        "outputs that are the same DAG node of a trace are emitted as aliases (checks/C05.py emit_groups)",
        "supporting clause in double precision (harness/C05/scale.cxx): for f = x^2 and x^3 the derivative is positively homogeneous, so the real double code must return the same numbers (relative 1e-12; bit-exact on the unchanged tree) when the tensor and eps are scaled by powers of two between 2^-50 and 2^50 — this exhibits absolute thresholds of rounding size, which the exact model cannot",
        "general smooth f (Daleckii–Krein theorem) is not proved: only that the code computes the Daleckii–Krein form, and that this form is the derivative for f = x^2, x^3",
    ]
    return ck.finish({
        "units_traced": len(units), "outputs_traced": sum(len(u.outs) for u in units),
        "dag_nodes": sum(len(u.order) for u in units), "aliased_outputs": nalias,
        "branch_patterns": sorted(u.name for u in units if u.paths),
        "evaluations": stats["points"], "distinct_nontrivial": stats["points"],
        "rule": "each traced unit evaluated exactly over Q(sqrt2) at seeded random rational inputs satisfying the unit's own recorded path condition, compared with an independent python reference (checks/c05ref.py); distinct = points (random rationals)",
        "search_stats": stats, "scale_covariance": scale_stats,
        "samples": [{"unit": u.name, "inputs": u.inputs[:12], "outputs": [o for o, _ in u.outs][:8], "path_conditions": len(u.paths)} for u in units[:4]],
    })
