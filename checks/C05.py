"""C05 — isotropic tensor functions and their derivatives are consistent (tie: T1 symtrace, concolic)."""
import os
import random
import re
import subprocess
import sys

import emit
import t1
import vlib

sys.path.insert(0, os.path.join(vlib.VERIF, "checks"))
import c05ref  # noqa: E402  (python reference used by the failing-input search only)

GROUPS = ["Val", "D12", "D3dist", "D3p01", "D3p02", "D3p12", "F", "W",
          "Dec12", "Dec3full", "Dec3p01", "Dec3p02", "Dec3p12", "Dec3dist"]
PROPS_OF = {
    "TfelVerif.C05.Props": ["Val"],
    "TfelVerif.C05.PropsDeriv": ["D12", "D3dist", "D3p01", "D3p02", "D3p12"],
    "TfelVerif.C05.PropsWrap": ["F", "W"],
    "TfelVerif.C05.PropsDec": ["Dec12", "Dec3full", "Dec3p01", "Dec3p02", "Dec3p12", "Dec3dist"],
}


def group_of(name):
    if name.startswith("abs_"):
        return "Val"
    m = re.match(r"N(\d)_(.*)", name)
    n, r = m.group(1), m.group(2)
    if r.startswith("dec_"):
        return "Dec12" if n != "3" else "Dec3" + r.split("_")[1]
    if r.startswith("w_d_"):
        return "W"
    if r.startswith("dval"):
        return "D3" + r.split("_")[1] if (n == "3" and not r.endswith("full")) else "D12"
    if r.startswith("dfun"):
        return "F"
    return "Val"


def emit_groups(ck, dagtext):
    """split the dump by groups of units (one generated Lean file per group, so that lake rebuilds only what a
    source change touched, in parallel); outputs of a unit that are the *same DAG node* as an earlier output
    become aliases (`def U_b := U_a`) instead of a second copy of the let-chain."""
    blocks = re.findall(r"(unit (\S+)\n.*?end \2\n)", dagtext, re.S)
    per = {g: [] for g in GROUPS}
    aliases = {g: [] for g in GROUPS}
    nalias = 0
    for text, name in blocks:
        g = group_of(name)
        seen = {}
        lines = []
        for line in text.splitlines():
            f = line.split()
            if f and f[0] == "out":
                if f[2] in seen and (g == "W" or g.startswith("Dec")):
                    aliases[g].append((name, f[1], seen[f[2]]))
                    nalias += 1
                    continue
                seen[f[2]] = f[1]
            lines.append(line)
        per[g].append("\n".join(lines) + "\n")
    units = {u.name: u for u in emit.parse(dagtext)}
    for g in GROUPS:
        dag = ck.write("g_%s.dag" % g, "".join(per[g]))
        tmp = ck.path("Gen%s.lean" % g)
        p = vlib.sh([sys.executable, os.path.join(vlib.VERIF, "harness", "symtrace", "emit.py"),
                     "--namespace", "TfelVerif.C05.Gen", "--out", tmp, dag])
        if p.returncode != 0:
            raise vlib.BuildError("emit.py failed", p.stdout + p.stderr)
        txt = open(tmp).read()
        extra = []
        for (uname, out, target) in aliases[g]:
            u = units[uname]
            ins = [emit.lean_ident(x) for x in u.inputs]
            binder = "(c c3 : K) (fn : Fns K)" + (" (%s : K)" % " ".join(ins) if ins else "")
            args = "c c3 fn" + "".join(" " + x for x in ins)
            un = emit.lean_ident(uname)
            extra.append("/-- same DAG node as `%s_%s` in the trace -/\n@[gen_simp] def %s_%s {K : Type} [Field K] %s : K :=\n  %s_%s %s\n\n"
                         % (un, target, un, emit.lean_ident(out), binder, un, emit.lean_ident(target), args))
        end = "end TfelVerif.C05.Gen\n"
        assert txt.endswith(end)
        txt = txt[:-len(end)] + "".join(extra) + end
        ck.write_gen("TfelVerif/C05/Gen%s.lean" % g, txt)
    return units, nalias


def run(ck):
    tracer = ck.cxx("c05trace", ["C05/trace.cxx", "C05/trace_abs.cxx",
                                 vlib.REPO + "/src/Exception/ContractViolation.cxx"], opt="-O0")
    p = ck.run([tracer], timeout=600)
    if p.returncode != 0:
        raise vlib.BuildError("tracer c05trace failed on the current tree (value dependent branch on a symbol outside "
                              "concolic mode, contract violation or crash)", p.stdout[-800:] + p.stderr[-3000:])
    units, nalias = emit_groups(ck, p.stdout)
    return 0
