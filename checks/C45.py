"""C45 — exported library metadata matches the declarations.  Tie: M at two levels + mfront-query.

 (i) text level: seeded random behaviours (Default DSL: material properties, state / auxiliary /
     external state variables, parameters; glossary and entry names, scalar and tensorial types,
     arrays, bounds, physical bounds, glossary-inherited physical bounds with `@UnitSystem SI`,
     hypothesis-specialised declarations) and material properties are given to the *current*
     mfront (`--interface=generic`); every `MFRONT_EXPORT_*` line of the generated source is
     parsed and compared with the symbol table `emit` of the Lean model (names and values);
 (ii) run level: a few of the libraries are compiled and loaded through the real
     `tfel::system::ExternalLibraryManager` (ExternalLibraryManager.cxx of the tree compiled into
     the harness); every getter of names, types, bounds, physical bounds, default values,
     hypotheses is compared with the declarations (judge, here) and with the Lean readers
     (`read`, `read2`); for material properties `setParameter` is compared with a twin law
     generated with that default value;
 (iii) mfront-query on the same files against the declarations.
"""
import contextlib
import fcntl
import os
import random
import re
import struct
from concurrent.futures import ThreadPoolExecutor

import vlib

PROPS = ["TfelVerif.C45.Props"]
CATS = ["MaterialProperties", "InternalStateVariables", "ExternalStateVariables", "Parameters"]
SFX = ["LowerBound", "UpperBound", "LowerPhysicalBound", "UpperPhysicalBound"]
HYPS = ["Tridimensional", "PlaneStrain", "Axisymmetrical", "GeneralisedPlaneStrain"]
# order of std::set<Hypothesis> (enum order) as written in <f>_ModellingHypotheses
HYP_ORDER = ["AxisymmetricalGeneralisedPlaneStrain", "AxisymmetricalGeneralisedPlaneStress", "Axisymmetrical", "PlaneStress",
             "PlaneStrain", "GeneralisedPlaneStrain", "Tridimensional"]
SCALAR_TYPES = ["real", "stress", "strain", "temperature", "time", "length"]
TENSOR_TYPES = {"StrainStensor": 1, "Stensor": 1, "StressStensor": 1, "TVector": 2, "Tensor": 3}
GEN_SITE = "mfront/src/CodeGeneratorUtilities.cxx"
SYM_SITE = "mfront/src/SymbolsGenerator.cxx"
ELM_SITE = "src/System/ExternalLibraryManager.cxx"




@contextlib.contextmanager
def build_tree_in_use():
    """shared hold of the build-tree lock while binaries / libraries of the build tree are executed or linked: a concurrent
    `ensure_targets` of another check (exclusive lock) cannot relink them under our feet"""
    f = open(os.path.join(vlib.VERIF, "work", ".ninja.lock"), "a")
    fcntl.flock(f, fcntl.LOCK_SH)
    try:
        yield
    finally:
        fcntl.flock(f, fcntl.LOCK_UN)
        f.close()


def bits(x):
    return "nan" if x != x else struct.pack(">d", x).hex()


def frombits(h):
    return struct.unpack(">d", bytes.fromhex(h))[0]


# ---------------------------------------------------------------- glossary physical bounds (T2: read from the tree)
def glossary_bounds():
    """key -> (lower text or None, upper text or None) for the SI unit system, from src/Glossary/Glossary.cxx"""
    s = open(vlib.REPO + "/src/Glossary/Glossary.cxx").read()
    out = {}
    for m in re.finditer(r'const GlossaryEntry Glossary::(\w+)\(\s*"(\w+)",(.*?)\);\n', s, re.S):
        strs = re.findall(r'"((?:[^"\\]|\\.)*)"', m.group(3))
        if len(strs) < 2:
            continue

        def si(t):
            for part in t.split("|"):
                if part.startswith("SI:"):
                    return part[3:]
            return None
        lo, up = si(strs[-2]), si(strs[-1])
        if lo is not None or up is not None:
            out[m.group(2)] = (lo, up)
    return out


# ---------------------------------------------------------------- declarations
class Bnd:
    def __init__(self, lo=None, hi=None):
        self.lo, self.hi = lo, hi            # decimal texts or None

    def text(self):
        if self.lo is not None and self.hi is not None:
            return "[%s:%s]" % (self.lo, self.hi)
        return "[%s:*[" % self.lo if self.lo is not None else "]*:%s]" % self.hi

    def enc(self):
        return "b %s %s" % (bits(float(self.lo)) if self.lo is not None else "-", bits(float(self.hi)) if self.hi is not None else "-")

    def kind(self):
        return "LowerAndUpper" if self.lo is not None and self.hi is not None else ("Lower" if self.lo is not None else "Upper")


class Var:
    def __init__(self, name, typ, size=1, ext=None, extkind=None, hyp=None):
        self.name, self.type, self.size, self.extkind, self.hyp = name, typ, size, extkind, hyp
        self.ext = ext or name
        self.bounds = None
        self.phys = None            # declared physical bounds
        self.phys_inherited = None  # completed from the glossary
        self.dflt = None            # parameters: list of decimal texts

    @property
    def tid(self):
        return TENSOR_TYPES.get(self.type, 0)

    def eff_phys(self):
        return self.phys or self.phys_inherited

    def listed(self):
        return [self.ext] if self.size == 1 else ["%s[%d]" % (self.ext, i) for i in range(self.size)]

    def enc(self):
        return "%s %d %d %s %s" % (self.ext, self.tid, self.size, self.bounds.enc() if self.bounds else "n",
                                   self.eff_phys().enc() if self.eff_phys() else "n")


class Behaviour:
    kind = "behaviour"

    def __init__(self):
        self.name = ""
        self.material = ""
        self.unit_system = False
        self.hyps = []
        self.mps, self.svs, self.asvs, self.esvs, self.pars = [], [], [], [], []
        self.text = ""

    @property
    def f(self):
        return self.material + self.name

    def specialised(self):
        return sorted({v.hyp for v in self.mps + self.svs + self.asvs + self.esvs + self.pars if v.hyp},
                      key=HYP_ORDER.index)

    def blocks(self):
        """hypotheses with a block of symbols of their own (None = the common block `<f>_...`): mfront specialises a
        hypothesis when something is declared for it alone, and the only hypothesis of a behaviour that supports one"""
        if len(self.hyps) == 1:
            return [self.hyps[0]]
        sp = self.specialised()
        return ([] if set(sp) == set(self.hyps) else [None]) + sp

    def block_of(self, h):
        """the block that answers for hypothesis h"""
        return h if h in self.blocks() else None

    def block(self, h):
        """declarations seen by hypothesis h (None = common block)"""
        sel = lambda vs: [v for v in vs if v.hyp is None or v.hyp == h]
        implicit = [implicit_par("minimal_time_step_scaling_factor", "0.1"),
                    implicit_par("maximal_time_step_scaling_factor", "1.7976931348623157e308")]
        temp = Var("T", "temperature", 1, "Temperature", "glossary")
        if self.unit_system:
            temp.phys_inherited = Bnd("0", None)
        return {"mps": sel(self.mps), "isvs": sel(self.svs) + sel(self.asvs), "esvs": sel(self.esvs),
                "pars": sel(self.pars) + implicit, "hidden": [temp]}


def implicit_par(name, v):
    p = Var(name, "real")
    p.dflt = [v]
    return p


def enc_block(b):
    t = ["M", str(len(b["mps"]))] + [v.enc() for v in b["mps"]]
    t += ["I", str(len(b["isvs"]))] + [v.enc() for v in b["isvs"]]
    t += ["E", str(len(b["esvs"]))] + [v.enc() for v in b["esvs"]]
    t += ["P", str(len(b["pars"]))]
    for p in b["pars"]:
        t += [p.enc(), str(len(p.dflt))] + [bits(float(x)) for x in p.dflt]
    t += ["H", str(len(b["hidden"]))] + [v.enc() for v in b["hidden"]]
    return " ".join(t)


class MatProp:
    kind = "mp"

    def __init__(self):
        self.name = ""
        self.material = ""
        self.unit_system = False
        self.inputs, self.pars = [], []
        self.output = None
        self.text = ""

    @property
    def f(self):
        return (self.material + "_" if self.material else "") + self.name


# ---- random declarations
def dec_short(rng, lo=0.1, hi=100.0):
    m = rng.randint(1, 9999)
    e = rng.choice([-3, -2, -1, 0])
    v = m * 10.0 ** e
    while v >= hi:
        e -= 1
        v = m * 10.0 ** e
    while v < lo:
        e += 1
        v = m * 10.0 ** e
    from decimal import Decimal
    s = format(Decimal(m).scaleb(e), "f")
    if "." in s:
        s = s.rstrip("0").rstrip(".")
    return s


def dec_long(rng, nd=17):
    m = str(rng.randint(10 ** (nd - 1), 10 ** nd - 1))
    return m[0] + "." + m[1:-1] + str(rng.randint(1, 9))


def dplus(a, b):
    from decimal import Decimal
    r = Decimal(a) + Decimal(b)
    t = format(r, "f")
    return t.rstrip("0").rstrip(".") if "." in t else t


def lengthen(rng, txt, cls):
    """long class: more significant digits than any fixed output precision below 17 keeps"""
    if cls == "short" or rng.random() < 0.3:
        return txt
    extra = "".join(rng.choice("0123456789") for _ in range(13)) + rng.choice("123456789")
    return txt + extra if "." in txt else txt + "." + extra


def make_bounds(rng, v, cls, allow_phys, inherited):
    """declared physical bounds (sometimes), then standard bounds strictly inside the effective physical ones"""
    if allow_phys and rng.random() < 0.35:
        lo = rng.choice(["0", "0", "-1", "0.05", None])
        hi = rng.choice([None, None, "100", "500", "250.5"]) if lo is not None else rng.choice(["100", "500", "250.5"])
        if inherited is not None:      # stay inside the glossary bounds (mfront only logs a warning otherwise)
            if inherited.lo is not None and (lo is None or float(lo) < float(inherited.lo)):
                lo = inherited.lo
            if inherited.hi is not None and (hi is None or float(hi) > float(inherited.hi)):
                hi = inherited.hi
        v.phys = Bnd(lo, hi)
    ph = v.phys or inherited
    if rng.random() >= 0.5:
        return
    want_lo = rng.random() < 0.7
    want_hi = rng.random() < 0.7 or not want_lo
    if ph is not None:
        want_lo = want_lo or ph.lo is not None       # the front end refuses standard bounds less constraining than the physical ones
        want_hi = want_hi or ph.hi is not None
    base = ph.lo if (ph and ph.lo is not None) else rng.choice(["-5", "0", "1"])
    if ph is not None and ph.lo is None and want_lo:
        base = "0.125"           # front-end quirk (C38): with an upper physical bound only, a standard lower bound must be positive
    top = ph.hi if (ph and ph.hi is not None) else None
    lo = dplus(base, rng.choice(["0", "0.25", "0.5", "1.5"]))
    if top is None:
        hi = dplus(lo, rng.choice(["1", "10.5", "40", "0.75"]))
    else:
        hi = dplus(top, "-" + rng.choice(["0", "0.125", "0.5"]))
        if float(hi) <= float(lo):
            lo = base
            if float(hi) <= float(lo):
                hi = top
    lo0, hi0 = lo, hi
    if not (ph and ph.lo is not None and float(lo) == float(ph.lo)) and not lo.startswith("-"):
        lo = lengthen(rng, lo, cls)
    if not (top is not None and float(hi) == float(top)) and not hi.startswith("-"):
        hi = lengthen(rng, hi, cls)
    if float(lo) > float(hi) or (top is not None and float(hi) > float(top)):
        lo, hi = lo0, hi0
    v.bounds = Bnd(lo if want_lo else None, hi if want_hi else None)


GLOSS = {"mp": ["YoungModulus", "PoissonRatio", "ShearModulus", "BulkModulus", "ThermalConductivity", "SpecificHeat",
                "ThermalExpansion", "MassDensity", "FirstLameCoefficient", "YieldStrength"],
         "sv": ["EquivalentPlasticStrain", "Porosity", "Damage", "EquivalentViscoplasticStrain", "Swelling", "PlasticStrain"],
         "esv": ["NeutronFluence", "GrainSize", "BurnUp_AtPercent", "FissionDensity", "IrradiationDamage", "Pressure"],
         "par": ["NormalStiffness", "TangentialStiffness", "Emissivity", "UltimateTensileStrength"],
         "in": ["Temperature", "Porosity", "NeutronFluence", "GrainSize", "BurnUp_AtPercent", "Pressure"],
         "out": ["ThermalConductivity", "SpecificHeat", "YoungModulus", "PoissonRatio", "MassDensity"]}
TENSOR_GLOSS = {"PlasticStrain", "ElasticStrain", "ViscoplasticStrain"}


def decorate(rng, v, group, used, gloss, cls, allow_phys=True, tensor_ok=False):
    r = rng.random()
    if r < 0.35:
        cand = [g for g in GLOSS[group] if g not in used and ((g in TENSOR_GLOSS) == (v.tid == 1 and tensor_ok) or g not in TENSOR_GLOSS and v.tid == 0)]
        cand = [g for g in cand if (g in TENSOR_GLOSS) == (v.tid != 0)]
        if cand:
            v.ext, v.extkind = rng.choice(cand), "glossary"
    elif r < 0.6:
        v.ext, v.extkind = v.name.capitalize() + rng.choice(["Ext", "_e", "Val"]), "entry"
    used.add(v.ext)
    v.allow_phys = allow_phys
    return v


def finalize_bounds(rng, v, unit_system, gloss, cls):
    """glossary inheritance, then the declared bounds"""
    inherited = None
    if unit_system and v.extkind == "glossary" and v.ext in gloss:
        inherited = Bnd(*gloss[v.ext])
    make_bounds(rng, v, cls, getattr(v, "allow_phys", True), inherited)
    if v.phys is None and inherited is not None:
        v.phys_inherited = inherited
    elif v.phys is not None and inherited is not None:
        # declared physical bounds are kept as they are (mfront only compares them with the glossary ones)
        v.phys_inherited = None


NAMES = {"mp": ["young", "nu", "kk", "mu", "rho", "lam", "cp"], "sv": ["p", "q", "ev", "a", "g", "dmg"], "asv": ["w", "seq", "tau"],
         "esv": ["phi", "fl", "bu", "gs"], "par": ["pa", "pb", "pc", "alpha", "m0"]}


def rand_behaviour(rng, idx, gloss, cls, force=None):
    b = Behaviour()
    b.name = "C45B%d" % idx
    b.material = rng.choice(["", "", "Steel", "Zy4"])
    b.unit_system = rng.random() < 0.6
    nh = rng.choice([1, 2, 3, 4])
    b.hyps = sorted(rng.sample(HYPS, nh), key=HYP_ORDER.index)
    if "Tridimensional" not in b.hyps and rng.random() < 0.7:
        b.hyps = sorted(set(b.hyps[:-1] + ["Tridimensional"]), key=HYP_ORDER.index)
    used = set()
    if force:
        # the library compiled in every run: a common block read through the <f>_ fallback and a specialised one
        b.unit_system = True
        b.hyps = ["PlaneStrain", "Tridimensional"]
        used.update(["EquivalentPlasticStrain", "Porosity"])
    spec_h = rng.choice(b.hyps) if len(b.hyps) > 1 and rng.random() < 0.6 else None
    if force:
        spec_h = "PlaneStrain"

    def mk(group, names, types, tensor=False, arr=True, hyp_ok=True):
        out = []
        for n in names:
            t = rng.choice(types)
            size = rng.choice([1, 1, 1, 2, 3]) if arr else 1
            h = spec_h if (hyp_ok and spec_h and rng.random() < 0.3) else None
            v = Var(n, t, size, hyp=h)
            decorate(rng, v, group if group != "asv" else "sv", used, gloss, cls, tensor_ok=tensor)
            if h is not None:      # methods on specialised variables need the hypothesis: keep the plain name
                v.ext, v.extkind = v.name, None
            out.append(v)
        return out
    b.mps = mk("mp", rng.sample(NAMES["mp"], rng.choice([1, 2, 3])), ["stress", "real", "massdensity"], hyp_ok=False)
    b.svs = mk("sv", rng.sample(NAMES["sv"], rng.choice([1, 2, 3])), ["real", "strain", "StrainStensor", "real", "Stensor"], tensor=True)
    b.asvs = mk("asv", rng.sample(NAMES["asv"], rng.choice([0, 1, 2])), ["real", "stress", "StressStensor"], tensor=True)
    b.esvs = mk("esv", rng.sample(NAMES["esv"], rng.choice([0, 1, 2])), ["real", "temperature"])
    b.pars = mk("par", rng.sample(NAMES["par"], rng.choice([1, 2, 3])), ["real", "stress", "real"])
    for p in b.pars:
        p.dflt = [dec_short(rng) if cls == "short" or rng.random() < 0.4 else dec_long(rng, rng.choice([9, 12, 17])) for _ in range(p.size)]
    forced = None
    if force == "array-bounds":
        forced = Var("arr", "real", 2)
        b.svs.append(forced)
        fl = Var("flg", "real", 1)
        fl.forced_bounds = Bnd("0.12345678901234567", "7.6543210987654321")
        b.svs.append(fl)
        fp = Var("pfl", "real", 1)
        fp.dflt = ["3.1415926535897931"]
        b.pars.append(fp)
        gv = Var("gps", "real", 1, "EquivalentPlasticStrain", "glossary")     # physical bounds inherited from the glossary
        gv.allow_phys = False
        b.svs.append(gv)
        zs = Var("zsp", "real", 1, hyp="PlaneStrain")
        zs.forced_bounds = Bnd("0.25", None)
        b.svs.append(zs)
        ga = Var("gpo", "real", 1, "Porosity", "glossary")
        ga.allow_phys = False
        used.add("Porosity")
        b.asvs.append(ga)
    for v in b.mps + b.svs + b.asvs + b.esvs + b.pars:
        if v.tid == 0:           # bounds of tensorial variables apply to components: not generated
            if v in b.pars:
                v.allow_phys = False
            finalize_bounds(rng, v, b.unit_system, gloss, cls)
        if v is forced:
            v.bounds, v.phys = Bnd("0", "1"), None
        if getattr(v, "forced_bounds", None):
            v.bounds, v.phys = v.forced_bounds, None
        if v.name == "pfl":
            v.bounds, v.dflt = None, ["3.1415926535897931"]
        if v in b.pars and v.bounds:      # the default value must lie inside the bounds
            lo = float(v.bounds.lo) if v.bounds.lo is not None else None
            hi = float(v.bounds.hi) if v.bounds.hi is not None else None
            for k, d in enumerate(v.dflt):
                x = float(d)
                if (lo is not None and x < lo) or (hi is not None and x > hi):
                    v.dflt[k] = v.bounds.lo if v.bounds.lo is not None else v.bounds.hi
    b.text = behaviour_text(b, rng)
    return b


def decl_lines(kw, v, with_default=False):
    hyp = "<%s>" % v.hyp if v.hyp else ""
    size = "[%d]" % v.size if v.size > 1 else ""
    L = []
    if with_default:
        init = " = %s" % v.dflt[0] if v.size == 1 else " = {%s}" % ", ".join(v.dflt)
        L.append("%s%s %s %s%s%s;" % (kw, hyp, v.type, v.name, size, init))
    else:
        L.append("%s%s %s %s%s;" % (kw, hyp, v.type, v.name, size))
    if v.extkind == "glossary":
        L.append('%s.setGlossaryName("%s");' % (v.name, v.ext))
    elif v.extkind == "entry":
        L.append('%s.setEntryName("%s");' % (v.name, v.ext))
    if v.phys:
        L.append("@PhysicalBounds%s %s in %s;" % (hyp, v.name, v.phys.text()))
    if v.bounds:
        L.append("@Bounds%s %s in %s;" % (hyp, v.name, v.bounds.text()))
    return L


def behaviour_text(b, rng):
    L = ["@DSL Default;", "@Behaviour %s;" % b.name]
    if b.material:
        L.append("@Material %s;" % b.material)
    if b.unit_system:
        L.append("@UnitSystem SI;")
    L.append("@ModellingHypotheses {%s};" % ", ".join(rng.sample(b.hyps, len(b.hyps))))
    groups = [[l for v in b.mps for l in decl_lines("@MaterialProperty", v)],
              [l for v in b.svs for l in decl_lines("@StateVariable", v)],
              [l for v in b.asvs for l in decl_lines("@AuxiliaryStateVariable", v)],
              [l for v in b.esvs for l in decl_lines("@ExternalStateVariable", v)],
              [l for v in b.pars for l in decl_lines("@Parameter", v, True)]]
    rng.shuffle(groups)
    for g in groups:
        L += g
    first = b.mps[0]
    L.append("@Integrator{\n  sig = %s * (eto + deto);\n}" % (first.name if first.size == 1 else first.name + "[0]"))
    return "\n".join(L) + "\n"


def rand_matprop(rng, idx, gloss, cls, force=False):
    m = MatProp()
    m.name = "C45M%d" % idx
    m.material = rng.choice(["", "", "UO2"])
    m.unit_system = rng.random() < 0.6
    used = set()
    for n in rng.sample(["T", "x", "f", "p", "bu"], rng.choice([1, 2, 3])):
        v = Var(n, rng.choice(["real", "temperature", "real"]))
        decorate(rng, v, "in", used, gloss, cls)
        m.inputs.append(v)
    m.output = decorate(rng, Var(rng.choice(["y", "k", "res2"]), "real"), "out", used, gloss, cls)
    npar = 4 if force else (rng.choice([2, 3, 4]) if cls == "long" else rng.choice([1, 2, 3]))
    for k, n in enumerate(rng.sample(["a", "b", "c1", "d2"], npar)):
        v = Var(n, rng.choice(["real", "stress"]))
        decorate(rng, v, "par", used, gloss, cls, allow_phys=False)
        if force:        # every parameter, whatever its rank, has a default value that needs many digits
            v.dflt = [dec_long(rng, [17, 12, 9, 15][k])]
        elif cls == "long":
            v.dflt = [dec_long(rng, rng.choice([8, 9, 12, 15, 17]))]
        else:
            v.dflt = [dec_short(rng)]
        m.pars.append(v)
    for v in m.inputs + [m.output]:
        if not force:           # the forced law stays unbounded: its calls must reach the body whatever the arguments
            finalize_bounds(rng, v, m.unit_system, gloss, cls)
        elif m.unit_system and v.extkind == "glossary" and v.ext in gloss:
            v.extkind, v.ext = None, v.name
    for v in m.pars:            # no @Bounds on parameters in this DSL: only what the glossary gives
        if m.unit_system and v.extkind == "glossary" and v.ext in gloss:
            v.phys_inherited = Bnd(*gloss[v.ext])
    m.text = matprop_text(m, rng)
    return m


def matprop_text(m, rng, override=None, name=None):
    L = ["@DSL MaterialProperty;", "@Law %s;" % (name or m.name)]
    if m.material:
        L.append("@Material %s;" % m.material)
    if m.unit_system:
        L.append("@UnitSystem SI;")
    L.append("@Output %s;" % m.output.name)
    L += decl_lines("", m.output)[1:]
    for v in m.inputs:
        L.append("@Input %s %s;" % (v.type, v.name))
        L += decl_lines("", v)[1:]
    for p in m.pars:
        d = (override or {}).get(p.name, p.dflt[0])
        L.append("@Parameter %s %s = %s;" % (p.type, p.name, d))
        L += decl_lines("", p)[1:]
    terms = [v.name for v in m.inputs]
    body = " + ".join(["%s * %s" % (p.name, terms[i % len(terms)]) for i, p in enumerate(m.pars)])
    L.append("@Function{\n  %s = %s;\n}" % (m.output.name, body))
    return "\n".join(L) + "\n"


# ---------------------------------------------------------------- emitted symbols
def parse_symbols(text):
    """MFRONT_EXPORT_* lines of a generated source -> {name: canonical value}"""
    out = {}
    text = re.sub(r",\n", ",", text)
    for m in re.finditer(r"^MFRONT_EXPORT_SYMBOL\(([^,]+), (\w+), (.*)\);$", text, re.M):
        ty, name, val = m.group(1).strip(), m.group(2), m.group(3).strip()
        if ty == "unsigned short":
            out[name] = "u:%s" % val.rstrip("u")
        elif ty in ("double",):
            out[name] = "r:%s" % bits(float(val))
        elif ty == "long double":
            mm = re.match(r"static_cast<long double>\((.*?)L?\)$", val)
            out[name] = "r:%s" % bits(float(mm.group(1))) if mm else "?%s" % val
        elif ty.startswith("const char*"):
            out[name] = "t:%s" % val.strip('"')
        elif val == "nullptr":
            out[name] = "s:" if "char" in ty else "i:"
        else:
            out[name] = "?%s:%s" % (ty, val)
    for m in re.finditer(r"^MFRONT_EXPORT_ARRAY_OF_SYMBOLS\(([^,]+), (\w+), (\d+), MFRONT_EXPORT_ARRAY_ARGUMENTS\((.*)\)\);$", text, re.M):
        ty, name, n, vals = m.group(1).strip(), m.group(2), int(m.group(3)), m.group(4)
        if "char" in ty:
            items = re.findall(r'"([^"]*)"', vals)
            out[name] = "s:" + ",".join(items)
        else:
            items = [x.strip() for x in vals.split(",")]
            out[name] = "i:" + ",".join(items)
        if len(items) != n:
            out[name] += "?size%d" % n
    return out


MODELLED = re.compile(r"_(n?MaterialProperties|n?InternalStateVariables|InternalStateVariablesTypes|n?ExternalStateVariables|"
                      r"ExternalStateVariablesTypes|n?Parameters|ParametersTypes|\w+_ParameterDefaultValue|\w+_(Lower|Upper)(Physical)?Bound)$")


def model_table(line):
    return dict(kv.split("=", 1) for kv in line.split(";") if "=" in kv)


# ---------------------------------------------------------------- expectations (judge: from the declarations, here)
def fmt_opt(t):
    return bits(float(t)) if t is not None else "-"


def expected_bounds(v):
    b, ph = v.bounds, v.eff_phys()
    return ",".join([fmt_opt(b.lo if b else None), fmt_opt(b.hi if b else None), fmt_opt(ph.lo if ph else None), fmt_opt(ph.hi if ph else None)])


def mfront_env():
    dirs = set()
    for root, _, files in os.walk(vlib.BUILD):
        if any(f.endswith(".so") for f in files):
            dirs.add(root)
    return {"LD_LIBRARY_PATH": ":".join(sorted(dirs))}


def run_tool(ck, tool, args, cwd, timeout=280):
    exe = os.path.join(vlib.BUILD, {"mfront": "mfront/src/mfront", "mfront-query": "mfront-query/src/mfront-query"}[tool])
    with build_tree_in_use():
        return ck.run([exe] + args, cwd=cwd, timeout=timeout, env=mfront_env())


DEFS = ("TFEL_ARCH64", "LINUX64", "UNIX64", "TFEL_VERIF_HOOKS")


def build_library(ck, name, sources, gendir):
    inc = [os.path.join(gendir, "include"), vlib.REPO + "/mfront/include"]
    libs = ck.libflags("TFELMaterial", "TFELMath", "TFELUtilities", "TFELException")
    with build_tree_in_use():
        return ck.cxx(name, sources, flags=("-w", "-fPIC", "-shared"), includes=inc, libs=libs, opt="-O0")


def locked_cxx(ck, *a, **k):
    with build_tree_in_use():
        return ck.cxx(*a, **k)


def run(ck):
    rng = random.Random(ck.seed)
    ck.ensure_targets("mfront", "mfront-query", "TFELSystem")
    gloss = glossary_bounds()
    nb_text, nb_lib, nm = (8, 1, 5) if ck.quick else (40, 14, 16)
    progs = []
    for i in range(nb_text):
        progs.append(rand_behaviour(rng, i, gloss, "short" if i % 3 else "long", force="array-bounds" if i == 0 else None))
    mps = [rand_matprop(rng, i, gloss, "short" if i % 3 else "long", force=(i == 0)) for i in range(nm)]
    # twin laws for setParameter: same law, the default values changed so far replaced (the changes accumulate in the library)
    twins = []
    for m in mps[:max(2, nm // 2)]:
        chosen = rng.sample(m.pars, min(len(m.pars), 2 if m is mps[0] else 1))
        if m is mps[0] and m.pars[0] in chosen and len(m.pars) > 2:     # at least one parameter that is not the first
            chosen = [m.pars[-1], m.pars[1]]
        over = {}
        for k, p in enumerate(chosen):
            newv = dec_short(rng) if (rng.random() < 0.5 and m is not mps[0]) else dec_long(rng)
            over = dict(over, **{p.name: newv})
            twins.append((m, p, newv, m.name + "twin" + ("abc"[k] if k else ""), over))
    gendir = ck.path("gen")
    os.makedirs(gendir, exist_ok=True)
    files = []
    for p in progs + mps:
        with open(os.path.join(gendir, p.name + ".mfront"), "w") as f:
            f.write(p.text)
        files.append(p.name + ".mfront")
    for (m, p, newv, tname, over) in twins:
        with open(os.path.join(gendir, tname + ".mfront"), "w") as f:
            f.write(matprop_text(m, rng, over, tname))
        files.append(tname + ".mfront")
    for k in range(0, len(files), 20):
        r = run_tool(ck, "mfront", ["--interface=generic"] + files[k:k + 20], gendir)
        if r.returncode != 0:
            raise vlib.BuildError("the mfront binary of the tree fails on the generated files", (r.stdout + r.stderr)[-3000:])

    driver = ck.lean_exe("c45driver", "TfelVerif/C45/Driver.lean")
    res = ck.lean(PROPS, PROPS)
    ck.lean_violations(res)
    if ck.tier == "thorough" and res.ok:
        for m, log in ck.leanchecker(PROPS):
            ck.violation("leanchecker:" + m, "leanchecker rejects " + m, {"log": log}, False)

    groups = {}
    stats = {"symbols_compared": 0, "wf_checked": 0, "elm_queries": 0, "query_items": 0, "setparameter_calls": 0}
    hist = {}

    def note(key, kind, what, rep):
        old = groups.get(key)
        if old is None:
            groups[key] = (kind, what, rep)
        elif old[0] != "viol" and kind == "viol":
            groups[key] = (kind, what, dict(rep, text_level_observation=old[1]))

    # ---- (i) text level: behaviours
    q = []
    index = []
    for b in progs:
        for h in b.blocks():
            pfx = b.f if h is None else "%s_%s" % (b.f, h)
            blk = b.block(h)
            q.append("emit %s %s\n" % (pfx, enc_block(blk)))
            q.append("wf %s %s\n" % (pfx, enc_block(blk)))
            index.append((b, h, pfx))
    out = ck.run([driver], input="".join(q), timeout=280).stdout.splitlines()
    emitted_tables = {}
    for k, (b, h, pfx) in enumerate(index):
        model = model_table(out[2 * k]) if 2 * k < len(out) else {}
        wf = out[2 * k + 1] if 2 * k + 1 < len(out) else "?"
        stats["wf_checked"] += 1
        if wf != "ok":
            note("corr:model-precondition", "corr", "the generated declarations of %s do not satisfy the hypothesis of the theorems: %s" % (b.name, wf),
                 {"behaviour": b.name, "mfront_file": b.text})
        src = os.path.join(gendir, "src", "%s-generic.cxx" % b.f)
        if b.name not in emitted_tables:
            emitted_tables[b.name] = parse_symbols(open(src).read())
        em = emitted_tables[b.name]
        blk = b.block(h)
        symvar = {}
        for gk in ("mps", "isvs", "esvs", "pars", "hidden"):
            for v in blk[gk]:
                for e in ([None] if v.size == 1 else range(v.size)):
                    part = v.ext if e is None else "%s_mfront_index_%d" % (v.ext, e)
                    for sx in SFX + ["ParameterDefaultValue"]:
                        symvar["%s_%s_%s" % (pfx, part, sx)] = (v, gk == "isvs")
        other_prefixes = [b.f + "_" + x + "_" for x in b.blocks() if x is not None]
        accounted = set()
        for name, val in sorted(model.items()):
            stats["symbols_compared"] += 1
            got = em.get(name)
            if got == val:
                continue
            kind = classify_symbol(name)
            hist["text:" + kind] = hist.get("text:" + kind, 0) + 1
            close = [n for n in em if n.replace("__", "_") == name]
            accounted.update(close)
            what = "symbol %s: declared %s, generated source has %s%s" % (
                name, show_val(val), show_val(got) if got is not None else "no such symbol",
                " (but defines %s)" % ", ".join(close) if close and got is None else "")
            v_, pers_ = symvar.get(name, (None, False))
            cause = None
            if v_ is not None and val.startswith("r:"):
                e_ = val[2:]
                g_ = got[2:] if (got or "").startswith("r:") else "-"
                if name.endswith("PhysicalBound"):
                    cause = root_cause(v_, pers_, False, ["-", "-", e_, "-"], ["-", "-", g_, "-"])
                else:
                    cause = root_cause(v_, pers_, False, [e_], [g_])
            note(cause or "%s:%s" % (site_of(kind, name, em), kind), "text", what,
                 {"behaviour": b.name, "hypothesis": h, "symbol": name, "declared": val, "emitted": got, "emitted_similar": close,
                  "mfront_file": b.text})
        # emitted symbols of the modelled families that the model does not have
        for name, val in sorted(em.items()):
            if not name.startswith(pfx + "_") or not MODELLED.search(name) or name in model or name in accounted:
                continue
            if h is None and any(name.startswith(o) for o in other_prefixes):
                continue
            kind = classify_symbol(name)
            note("%s:%s:unexpected-symbol" % (site_of(kind, name, em), kind), "text",
                 "generated source of %s defines %s = %s, which no declaration accounts for" % (b.name, name, show_val(val)),
                 {"behaviour": b.name, "hypothesis": h, "symbol": name, "emitted": val, "mfront_file": b.text})
        # general symbols checked against the declarations directly
        if h == b.blocks()[0]:
            exp = {b.f + "_nModellingHypotheses": "u:%d" % len(b.hyps), b.f + "_ModellingHypotheses": "s:" + ",".join(b.hyps),
                   b.f + "_mfront_mkt": "u:1", b.f + "_src": "t:%s.mfront" % b.name, b.f + "_mfront_interface": "t:Generic",
                   b.f + "_unit_system": "t:" + ("SI" if b.unit_system else ""),
                   b.f + "_TemperatureRemovedFromExternalStateVariables": "u:1"}
            if b.material:
                exp[b.f + "_mfront_material"] = "t:" + b.material
            for name, val in exp.items():
                stats["symbols_compared"] += 1
                if em.get(name) != val:
                    note("%s:general:%s" % (SYM_SITE, name[len(b.f) + 1:]), "text",
                         "symbol %s: declared %s, generated source has %s" % (name, val, em.get(name)),
                         {"behaviour": b.name, "symbol": name, "declared": val, "emitted": em.get(name), "mfront_file": b.text})

    # ---- (i) text level: material properties (generic interface)
    def mp_block(m):
        return {"mps": [], "isvs": [], "esvs": [], "pars": m.pars, "hidden": m.inputs}
    mp_model = ck.run([driver], input="".join("emit %s %s\nwf %s %s\n" % (m.f, enc_block(mp_block(m)), m.f, enc_block(mp_block(m))) for m in mps),
                      timeout=280).stdout.splitlines()
    mp_tables = {}
    for km, m in enumerate(mps):
        em = parse_symbols(open(os.path.join(gendir, "src", "%s-generic.cxx" % m.f)).read())
        mp_tables[m.name] = em
        model = model_table(mp_model[2 * km]) if 2 * km < len(mp_model) else {}
        stats["wf_checked"] += 1
        if (mp_model[2 * km + 1] if 2 * km + 1 < len(mp_model) else "?") != "ok":
            note("corr:model-precondition", "corr", "the declarations of %s do not satisfy the hypothesis of the theorems: %s" % (m.name, mp_model[2 * km + 1:2 * km + 2]),
                 {"material_property": m.name, "mfront_file": m.text})
        lean_exp = {n: v for n, v in model.items() if re.search(r"_(nParameters|Parameters|ParametersTypes|\w+_ParameterDefaultValue|\w+Bound)$", n)}
        exp = {m.f + "_nargs": "u:%d" % len(m.inputs), m.f + "_output": "t:" + m.output.ext,
               m.f + "_nParameters": "u:%d" % len(m.pars), m.f + "_Parameters": "s:" + ",".join(p.ext for p in m.pars),
               m.f + "_ParametersTypes": "i:" + ",".join("0" for _ in m.pars), m.f + "_mfront_mkt": "u:0",
               m.f + "_mfront_law": "t:" + m.name, m.f + "_unit_system": "t:" + ("SI" if m.unit_system else "")}
        if m.inputs:
            exp[m.f + "_args"] = "s:" + ",".join(v.ext for v in m.inputs)
        if m.material:
            exp[m.f + "_mfront_material"] = "t:" + m.material
        for p in m.pars:
            exp["%s_%s_ParameterDefaultValue" % (m.f, p.ext)] = "r:" + bits(float(p.dflt[0]))
        for v in m.inputs + m.pars:
            for sfx, t in zip(SFX, expected_bounds(v).split(",")):
                if t != "-":
                    exp["%s_%s_%s" % (m.f, v.ext, sfx)] = "r:" + t
        for name, val in sorted(lean_exp.items()):           # the judge's expectations and the model's table must be the same thing
            stats["symbols_compared"] += 1
            if exp.get(name) != val:
                note("corr:lean-emit:material-property", "corr", "Lean `emit` gives %s = %s, the declarations give %s" % (name, val, exp.get(name)),
                     {"material_property": m.name, "symbol": name, "model": val, "declared": exp.get(name), "mfront_file": m.text})
        for name, val in sorted(exp.items()):
            stats["symbols_compared"] += 1
            if em.get(name) == val:
                continue
            kind = classify_symbol(name)
            hist["text:mp:" + kind] = hist.get("text:mp:" + kind, 0) + 1
            cause = None
            mv = [v for v in m.inputs + m.pars if name.startswith("%s_%s_" % (m.f, v.ext))]
            if mv and val.startswith("r:"):
                e_ = val[2:]
                g_ = em[name][2:] if (em.get(name) or "").startswith("r:") else "-"
                cause = root_cause(mv[0], False, True, ["-", "-", e_, "-"] if name.endswith("PhysicalBound") else [e_],
                                   ["-", "-", g_, "-"] if name.endswith("PhysicalBound") else [g_])
            site = GEN_SITE + ":writeParametersDefaultValuesSymbols" if kind == "parameter-default" else site_of(kind, name, em)
            note(cause or "%s:material-property:%s" % (site, kind), "text",
                 "symbol %s: declared %s, generated source has %s" % (name, show_val(val), show_val(em.get(name)) if em.get(name) else "no such symbol"),
                 {"material_property": m.name, "symbol": name, "declared": val, "emitted": em.get(name), "mfront_file": m.text})
        for name, val in sorted(em.items()):
            if re.search(r"_(Lower|Upper)(Physical)?Bound$", name) and name not in exp:
                note("%s:material-property:bounds:unexpected-symbol" % GEN_SITE, "text",
                     "generated source of %s defines %s, which no declaration accounts for" % (m.name, name),
                     {"material_property": m.name, "symbol": name, "emitted": val, "mfront_file": m.text})

    # ---- (ii) run level
    # libraries: the first behaviours, plus behaviours whose generated source differs from the model (so that the difference
    # can be observed through the manager too)
    compiled = list(progs[:nb_lib])
    extra = []
    for key, (kind, what, rep) in sorted(groups.items()):
        bn = rep.get("behaviour")
        if kind == "text" and bn and bn not in [x.name for x in compiled + extra]:
            extra.append([x for x in progs if x.name == bn][0])
    compiled += extra[:(1 if ck.quick else 4)]
    jobs = []
    for b in compiled:
        jobs.append(("libC45_%s.so" % b.name, [os.path.join(gendir, "src", "%s-generic.cxx" % b.f), os.path.join(gendir, "src", "%s.cxx" % b.f)]))
    tu = ck.write("c45_mp_tu.cxx", "".join('#include "%s"\n' % os.path.join(gendir, "src", "%s-generic.cxx" % x)
                                           for x in [m.f for m in mps] + [(m.material + "_" if m.material else "") + t for (m, _, _, t, _) in twins]))
    jobs.append(("libC45_MP.so", [tu]))
    libs = {}
    with ThreadPoolExecutor(max_workers=2) as ex:
        hfut = ex.submit(locked_cxx, ck, "c45h", ["C45/harness.cxx", vlib.REPO + "/src/System/ExternalLibraryManager.cxx"],
                         includes=[vlib.REPO + "/mfront/include"], defines=DEFS, flags=("-w",), opt="-O0",
                         libs=ck.libflags("TFELSystem", "TFELException") + ["-ldl"])
        futs = {n: ex.submit(build_library, ck, n, s, gendir) for n, s in jobs}
        for n, f in futs.items():
            try:
                libs[n] = f.result()
            except vlib.BuildError as e:
                note("%s:generated-code-does-not-compile:%s" % (SYM_SITE, "mp" if n.endswith("MP.so") else "behaviour"), "viol",
                     "the generated sources of %s do not compile" % n, {"library": n, "compiler_log": e.log[-2500:]})
    harness = hfut.result()
    lines, expect, meta = [], [], []

    def ask(lib, f, h, query, exp, what, rep, var=None, persistent=False):
        lines.append("%s %s %s %s\n" % (lib, f, h or "-", query))
        expect.append(exp)
        meta.append((what, rep, var, persistent))
    lean_q, lean_idx = [], []
    for b in compiled:
        lib = libs.get("libC45_%s.so" % b.name)
        if not lib:
            continue
        ask(lib, b.f, None, "hyps", ",".join(b.hyps), "hyps", {"behaviour": b.name, "mfront_file": b.text})
        ask(lib, b.f, None, "mkt", "1", "general", {"behaviour": b.name, "mfront_file": b.text})
        ask(lib, b.f, None, "tremoved", "1", "general", {"behaviour": b.name, "mfront_file": b.text})
        ask(lib, b.f, None, "str material", "[%s]" % b.material, "general", {"behaviour": b.name, "mfront_file": b.text})
        ask(lib, b.f, None, "str unit_system", "[%s]" % ("SI" if b.unit_system else ""), "general", {"behaviour": b.name, "mfront_file": b.text})
        ask(lib, b.f, None, "str src", "[%s.mfront]" % b.name, "general", {"behaviour": b.name, "mfront_file": b.text})
        for h in b.hyps:
            blk = b.block(b.block_of(h))
            rep = {"behaviour": b.name, "hypothesis": h, "mfront_file": b.text}
            first = len(lines)
            for cat, key in zip(CATS, ["mps", "isvs", "esvs", "pars"]):
                ask(lib, b.f, h, "names " + cat, ",".join(n for v in blk[key] for n in v.listed()), "names", rep)
                if cat != "MaterialProperties":
                    ask(lib, b.f, h, "types " + cat, ",".join(str(v.tid) for v in blk[key] for _ in range(v.size)), "types", rep)
            for key in ("mps", "isvs", "esvs", "pars", "hidden"):
                for v in blk[key]:
                    for k, n in enumerate(v.listed()):
                        ask(lib, b.f, h, "bounds " + n, expected_bounds(v), "bounds" if v.size == 1 else "bounds-array-element", dict(rep, variable=n),
                            v, key == "isvs")
                        if key == "pars":
                            ask(lib, b.f, h, "default " + n, bits(float(v.dflt[k])), "default", dict(rep, variable=n, declared_default=v.dflt[k]), v)
            # the same questions to the Lean readers
            if b.block_of(h) is not None:
                common = b.block(None) if None in b.blocks() else blk
                lean_q.append("read2 %s %s %s %s\n" % (b.f, h, enc_block(common), enc_block(blk)))
            else:
                lean_q.append("read %s %s\n" % (b.f, enc_block(blk)))
            lean_idx.append((first, len(lines), blk))
    mplib = libs.get("libC45_MP.so")
    if mplib:
        for m in mps:
            rep = {"material_property": m.name, "mfront_file": m.text}
            ask(mplib, m.f, None, "mpvars", ",".join(v.ext for v in m.inputs), "mp-names", rep)
            ask(mplib, m.f, None, "mpparams", ",".join(p.ext for p in m.pars), "mp-names", rep)
            ask(mplib, m.f, None, "mpoutput", m.output.ext, "mp-names", rep)
            ask(mplib, m.f, None, "mkt", "0", "general", rep)
            ask(mplib, m.f, None, "str law", "[%s]" % m.name, "general", rep)
            ask(mplib, m.f, None, "str material", "[%s]" % m.material, "general", rep)
            for v in m.inputs:
                ask(mplib, m.f, None, "mpbounds " + v.ext, expected_bounds(v), "mp-bounds", dict(rep, variable=v.ext), v)
            first = len(lines)
            for p in m.pars:
                ask(mplib, m.f, None, "mpbounds " + p.ext, expected_bounds(p), "mp-bounds", dict(rep, variable=p.ext), p)
                ask(mplib, m.f, None, "mpdefault " + p.ext, bits(float(p.dflt[0])), "mp-default", dict(rep, variable=p.ext, declared_default=p.dflt[0]), p)
            lean_q.append("read %s %s\n" % (m.f, enc_block(mp_block(m))))
            lean_idx.append((first, len(lines), None))
            # setParameter(<exported default value>) must leave the law as it is
            probe = [[rng.uniform(0.5, 50.0) for _ in m.inputs] for _ in range(2)]
            ref = []
            for a in probe:
                ref.append(len(lines))
                ask(mplib, m.f, None, "mpcall %d %s" % (len(a), " ".join(bits(x) for x in a)), None, "reference", rep)
            for p in m.pars:
                ask(mplib, m.f, None, "mpsetdefault %s %s" % (p.ext, rng.choice([p.ext, p.name])), "ok", "setparameter", dict(rep, parameter=p.ext))
                for a, r in zip(probe, ref):
                    ask(mplib, m.f, None, "mpcall %d %s" % (len(a), " ".join(bits(x) for x in a)), ("same-as", r), "set-exported-default",
                        dict(rep, parameter=p.ext, declared_default=p.dflt[0], arguments=[repr(x) for x in a]), p)
                    stats["setparameter_calls"] += 1
            for p in m.pars:      # back to the declared values: the twin comparison below starts from them
                ask(mplib, m.f, None, "mpset %s %s" % (p.name, bits(float(p.dflt[0]))), "ok", "setparameter", dict(rep, parameter=p.ext))
        # setParameter = regeneration with that default value (twin law), compared on calls
        for (m, p, newv, tname, over) in twins:
            tf = (m.material + "_" if m.material else "") + tname
            args = [[rng.uniform(0.5, 50.0) for _ in m.inputs] for _ in range(4)]
            rep = {"material_property": m.name, "parameter": p.ext, "new_value": newv, "mfront_file": m.text}
            key = rng.choice([p.ext, p.name])
            ask(mplib, m.f, None, "mpset %s %s" % (key, bits(float(newv))), "ok", "setparameter", rep)
            for a in args:
                call = "mpcall %d %s" % (len(a), " ".join(bits(x) for x in a))
                ask(mplib, tf, None, call, None, "twin", rep)
                ask(mplib, m.f, None, call, "same-as-previous", "setparameter", dict(rep, arguments=[repr(x) for x in a]), ("twin", newv))
                stats["setparameter_calls"] += 1
    with build_tree_in_use():
        pi = ck.run([harness], input="".join(lines), timeout=280, env=mfront_env())
    got = pi.stdout.splitlines()
    if pi.returncode != 0 or len(got) != len(lines):
        note("harness-crash", "corr", "the ExternalLibraryManager harness aborted (exit %s)" % pi.returncode, {"stderr": pi.stderr[-1500:]})
    stats["elm_queries"] = len(got)
    for i, g in enumerate(got):
        exp = expect[i]
        what, rep, var, persistent = meta[i]
        if exp is None:
            continue
        if exp == "same-as-previous":
            exp = got[i - 1]
        elif isinstance(exp, tuple) and exp[0] == "same-as":
            exp = got[exp[1]] if exp[1] < len(got) else "?"
        hist["elm:" + what] = hist.get("elm:" + what, 0) + 1
        if g == exp:
            continue
        query = lines[i].split(None, 3)[3].strip()
        rep = dict(rep, query=query, declared=show_answer(exp), library_answer=show_answer(g), elm_what=what)
        if isinstance(var, tuple):          # setParameter against the twin law
            cause = None
        else:
            cause = root_cause(var, persistent, what.startswith("mp-"), exp.split(","), g.split(",")[:len(exp.split(","))])
        note(cause or "elm:%s:%s" % (what, diff_class(exp, g)), "viol",
             "ExternalLibraryManager on the library generated for %s, query `%s`%s: declared %s, library says %s" % (
                 rep.get("behaviour") or rep.get("material_property"), query, " (%s)" % rep["hypothesis"] if rep.get("hypothesis") else "",
                 show_answer(exp), show_answer(g)), rep)
    # Lean readers against the same expectations
    lo = ck.run([driver], input="".join(lean_q), timeout=280).stdout.splitlines()
    for k, (first, last, blk) in enumerate(lean_idx):
        ans = dict(kv.split("=", 1) for kv in (lo[k] if k < len(lo) else "").split(";") if "=" in kv)
        for i in range(first, min(last, len(got))):
            parts = lines[i].split()
            query, arg = parts[3], parts[4]
            key = {"names": "names:" + arg, "types": "types:" + arg}.get(query)
            if key:
                model = ans.get(key)
            elif query in ("bounds", "mpbounds"):
                model = ",".join((ans.get("v:" + arg) or "?").split(",")[:4])
            else:
                model = (ans.get("v:" + arg) or "?").split(",")[-1]
            stats["query_items"] += 1
            if model != expect[i]:
                note("corr:lean-readers:" + query, "corr", "Lean readers answer `%s` to `%s %s`, the declarations say `%s`" % (model, query, arg, expect[i]),
                     {"query": lines[i], "model": model, "declared": expect[i]})

    # ---- (iii) mfront-query
    for b in progs[:max(nb_lib, 3)]:
        mfront_query_behaviour(ck, b, gendir, note, hist, stats)
    for m in mps[:4]:
        mfront_query_matprop(ck, m, gendir, note, hist, stats)

    compat = {"types": ["types"], "names": ["names", "mp-names"], "bounds": ["bounds", "mp-bounds"], "physical-bounds": ["bounds", "mp-bounds"],
              "bounds-array-element": ["bounds-array-element"], "physical-bounds-array-element": ["bounds-array-element"],
              "parameter-default": ["default", "mp-default"]}
    for key, (kind, what, rep) in sorted(groups.items()):
        found = kind == "viol"
        if kind == "text":
            # a difference of the generated source is a failing input once the compiled library answers wrongly for the same item
            cat = [c for c in compat if key.endswith(":" + c) or (":" + c + ":") in key]
            cat = max(cat, key=len) if cat else None
            wit = [r for (k2, w2, r) in groups.values() if k2 == "viol" and cat and r.get("elm_what") in compat[cat] and
                   (r.get("behaviour"), r.get("material_property")) == (rep.get("behaviour"), rep.get("material_property"))]
            if wit:
                found, rep = True, dict(rep, failing_query=wit[0])
        ck.violation(key, what, rep, found)

    ck.assumptions += [
        "M: Lean model of the symbol scheme (emit) and of the readers (read); compared with the MFRONT_EXPORT_* lines of the generated "
        "sources (parser in checks/C45.py) and with the real ExternalLibraryManager on compiled libraries",
        "ExternalLibraryManager.cxx of the tree is compiled into the harness; getFunction.c / LibraryInformation come from the prebuilt libTFELSystem",
        "values are compared as doubles (the exported bounds are long double symbols initialised from a decimal literal)",
        "glossary physical bounds are read from src/Glossary/Glossary.cxx of the tree (SI entries); C34 checks that table",
        "behaviours: Default DSL, generic interface; bounds on whole variables (scalars and arrays), not on single components; integer parameters, "
        "orthotropic axes, other interfaces are not generated",
        "the theorems are per block (prefix <f> or <f>_<h>); that a specialised block repeats the common declarations is checked by correspondence only",
    ]
    return ck.finish({
        "evaluations": stats["symbols_compared"] + stats["elm_queries"] + stats["query_items"],
        "distinct_nontrivial": stats["symbols_compared"] + stats["elm_queries"],
        "rule": "one evaluation = one exported symbol compared (name and value) with the model table, or one ExternalLibraryManager / mfront-query "
                "answer compared with the declarations; distinct = distinct (program, symbol) and (library, query) pairs",
        "exhaustive": False, "behaviours_generated": len(progs), "material_properties_generated": len(mps), "libraries_compiled": len(libs),
        "symbols_compared": stats["symbols_compared"], "elm_queries": stats["elm_queries"], "lean_reader_items": stats["query_items"],
        "setparameter_calls": stats["setparameter_calls"], "mfront_query_items": stats.get("mq", 0),
        "wf_checked": stats["wf_checked"], "histogram": dict(sorted(hist.items())),
        "samples": ["%s -> %s" % (lines[i].strip().split(None, 1)[1][:90], got[i]) for i in range(0, len(got), max(1, len(got) // 6))][:6],
    })


CAUSE_A = "mfront/src/CodeGeneratorUtilities.cxx:writeBoundsSymbols:array-element-symbol-name"
CAUSE_B = "mfront/src/CodeGeneratorUtilities.cxx:exported-values:14-digits"
CAUSE_C = "mfront/src/CodeGeneratorUtilities.cxx:writeVariablesBoundsSymbols:physical-bounds-need-standard-bounds"
CAUSE_D = "mfront/src/BehaviourData.cxx:checkAndCompletePhysicalBoundsDeclaration:persistent-variables"


def close_bits(a, b):
    """two exported values that agree to about 13 significant digits: an output-precision effect"""
    try:
        x, y = frombits(a), frombits(b)
    except Exception:
        return False
    return x != y and abs(x - y) <= 1e-12 * max(abs(x), abs(y))


def root_cause(v, persistent, is_mp, exp, got):
    """root cause of a difference on the fields exp/got (lists of tokens, `-` = absent) of variable v, when it is one of
    the defects already understood; None otherwise (the observation keeps its generic key)"""
    if got == ["exc"]:
        return None
    if len(exp) != len(got):
        return None
    pres = [(a == "-") != (b == "-") for a, b in zip(exp, got)]
    if any(pres):
        if v is not None and v.size > 1 and all(b == "-" for a, b, p_ in zip(exp, got, pres) if p_):
            return CAUSE_A
        only_phys = all((i >= 2 and b == "-") for i, (a, b, p_) in enumerate(zip(exp, got, pres)) if p_)
        if v is not None and only_phys and len(exp) == 4:
            if is_mp and v.bounds is None:
                return CAUSE_C
            if (not is_mp) and persistent and v.phys is None and v.phys_inherited is not None:
                return CAUSE_D
        return None
    diff = [(a, b) for a, b in zip(exp, got) if a != b]
    if diff and all(close_bits(a, b) for a, b in diff):
        return CAUSE_B
    return None


def same_subject(r1, r2):
    for k in ("behaviour", "material_property"):
        if r1.get(k) and r1.get(k) == r2.get(k):
            s = r2.get("symbol", "")
            v = r1.get("variable", "")
            base = v.split("[")[0]
            return bool(base) and base in s
    return False


def classify_symbol(name):
    if name.endswith("_ParameterDefaultValue"):
        return "parameter-default"
    if re.search(r"_(Lower|Upper)PhysicalBound$", name):
        return "physical-bounds" if "_mfront_index_" not in name else "physical-bounds-array-element"
    if re.search(r"_(Lower|Upper)Bound$", name):
        return "bounds" if "_mfront_index_" not in name else "bounds-array-element"
    if name.endswith("Types"):
        return "types"
    return "names"


def site_of(kind, name, em):
    if kind == "parameter-default":
        return SYM_SITE + ":writeParameterDefaultValueSymbols"
    if "bounds" in kind:
        return GEN_SITE + (":writePhysicalBoundsSymbols" if "physical" in kind else ":writeBoundsSymbols")
    return SYM_SITE


def show_val(v):
    if v is None:
        return "nothing"
    if v.startswith("r:"):
        try:
            return repr(frombits(v[2:]))
        except Exception:
            return v
    return v


def show_answer(a):
    def one(t):
        if re.fullmatch(r"[0-9a-f]{16}", t):
            return repr(frombits(t))
        return t
    return ",".join(one(t) for t in a.split(",")) if a else "(empty)"


def diff_class(exp, got):
    if got == "exc":
        return "exception"
    e, g = exp.split(","), got.split(",")
    if len(e) == len(g) == 4 and all(re.fullmatch(r"[0-9a-f]{16}|-", t) for t in e + g):
        if any((a == "-") != (b == "-") for a, b in zip(e, g)):
            return "presence"
        return "value"
    if re.fullmatch(r"[0-9a-f]{16}", exp) and re.fullmatch(r"[0-9a-f]{16}", got):
        return "value"
    return "content"


# ---------------------------------------------------------------- mfront-query
def mq(ck, gendir, fname, opts):
    r = run_tool(ck, "mfront-query", opts + [fname], gendir, timeout=120)
    return r.returncode, [l for l in r.stdout.splitlines() if l.strip()], r.stderr


def parse_list(lines):
    out = []
    for l in lines:
        m = re.match(r"- (\S+?)(?:\[(\d+)\])?(?: \((\w+)\))?(?::.*)?$", l.strip())
        if m:
            out.append((m.group(1), int(m.group(2) or 1), m.group(3)))
    return out


def range_text(b):
    return b.text()


def num_equal(a, b):
    try:
        return float(a) == float(b)
    except ValueError:
        return False


def compare_range(txt, b):
    m = re.match(r"([\[\]])([^:]*):([^\[\]]*)([\[\]])$", txt.strip())
    if not m:
        return False
    lo, hi = m.group(2).strip(), m.group(3).strip()
    ok_lo = (lo == "*") if b.lo is None else num_equal(lo, b.lo)
    ok_hi = (hi == "*") if b.hi is None else num_equal(hi, b.hi)
    return ok_lo and ok_hi


def close_to(printed, declared):
    """the printed text is the declared value rounded to a few digits (ranges: every number)"""
    pn = re.findall(r"-?\d+\.?\d*(?:[eE][-+]?\d+)?", printed)
    dn = re.findall(r"-?\d+\.?\d*(?:[eE][-+]?\d+)?", declared)
    if len(pn) != len(dn) or not pn:
        return False
    return all(abs(float(a) - float(b)) <= 1e-5 * max(abs(float(b)), 1e-300) for a, b in zip(pn, dn))


def mfront_query_behaviour(ck, b, gendir, note, hist, stats):
    fname = b.name + ".mfront"
    for h in b.hyps:
        blk = b.block(b.block_of(h))
        base = ["--modelling-hypothesis=" + h]
        for opt, vs in (("--material-properties", blk["mps"]), ("--state-variables", [v for v in blk["isvs"] if v in b.svs]),
                        ("--auxiliary-state-variables", [v for v in blk["isvs"] if v in b.asvs]),
                        ("--parameters", blk["pars"])):
            rc, lines, err = mq(ck, gendir, fname, base + [opt])
            got = [(n, s) for (n, s, _) in parse_list(lines)]
            exp = [(v.ext, v.size) for v in vs]
            stats["mq"] = stats.get("mq", 0) + 1
            hist["mfront-query:list"] = hist.get("mfront-query:list", 0) + 1
            if rc != 0 or got != exp:
                note("mfront-query:%s" % opt.strip("-"), "viol", "mfront-query %s %s on %s prints %s, declared %s" % (" ".join(base), opt, fname, got, exp),
                     {"behaviour": b.name, "hypothesis": h, "mfront_file": b.text, "stdout": lines, "stderr": err[-500:], "declared": exp})
        items = []
        for key in ("mps", "isvs", "esvs", "pars"):
            for v in blk[key]:
                opts = ["--has-bounds=" + v.ext, "--has-physical-bounds=" + v.ext]
                exp = ["true" if v.bounds else "false", "true" if v.eff_phys() else "false"]
                if v.bounds:
                    opts += ["--bounds-type=" + v.ext, "--bounds-value=" + v.ext]
                    exp += [v.bounds.kind(), v.bounds]
                if v.eff_phys():
                    opts += ["--physical-bounds-type=" + v.ext, "--physical-bounds-value=" + v.ext]
                    exp += [v.eff_phys().kind(), v.eff_phys()]
                if key == "pars" and v.size == 1 and not v.name.endswith("_time_step_scaling_factor"):
                    opts += ["--parameter-default-value=" + v.ext]
                    exp += [("num", v.dflt[0])]
                items.append((v, opts, exp))

        def evaluate(v, opts, exp, rc, lines, err):
            stats["mq"] = stats.get("mq", 0) + len(exp)
            bad = rc != 0 or len(lines) != len(exp)
            which = None
            if not bad:
                for o, l, e in zip(opts, lines, exp):
                    ok = compare_range(l, e) if isinstance(e, Bnd) else (num_equal(l, e[1]) if isinstance(e, tuple) else l.strip() == e)
                    hist["mfront-query:item"] = hist.get("mfront-query:item", 0) + 1
                    if not ok:
                        bad, which = True, (o, l, e.text() if isinstance(e, Bnd) else (e[1] if isinstance(e, tuple) else e))
                        break
            if bad:
                cls = which[0].split("=")[0].strip("-") if which else "failure"
                if which and cls in ("bounds-value", "physical-bounds-value", "parameter-default-value") and close_to(which[1], which[2]):
                    cls = "display-precision"
                note("mfront-query/src/QueryUtilities.cxx:display-precision" if cls == "display-precision" else "mfront-query:%s" % cls, "viol",
                     "mfront-query %s on %s prints `%s`, declared `%s`" % (which[0], fname, which[1], which[2]) if which else
                     "mfront-query %s on %s fails (exit %s)" % (" ".join(opts), fname, rc),
                     {"behaviour": b.name, "hypothesis": h, "variable": v.ext, "mfront_file": b.text, "stdout": lines, "stderr": err[-500:]})
        # one process for all the questions of this hypothesis (answers come in the order of the options); one per variable when that fails
        rc, lines, err = mq(ck, gendir, fname, base + [o for (_, opts, _) in items for o in opts])
        if rc == 0 and len(lines) == sum(len(e) for (_, _, e) in items):
            k = 0
            for (v, opts, exp) in items:
                evaluate(v, opts, exp, 0, lines[k:k + len(exp)], err)
                k += len(exp)
        else:
            for (v, opts, exp) in items:
                rc, lines, err = mq(ck, gendir, fname, base + opts)
                evaluate(v, opts, exp, rc, lines, err)


def mfront_query_matprop(ck, m, gendir, note, hist, stats):
    fname = m.name + ".mfront"
    for opt, exp in (("--inputs", [(v.ext, 1) for v in m.inputs]), ("--parameters", [(p.ext, 1) for p in m.pars]),
                     ("--output", [(m.output.ext, 1)])):
        rc, lines, err = mq(ck, gendir, fname, [opt])
        got = [(n, s) for (n, s, _) in parse_list(lines)]
        stats["mq"] = stats.get("mq", 0) + 1
        if rc != 0 or got != exp:
            note("mfront-query:mp:%s" % opt.strip("-"), "viol", "mfront-query %s on %s prints %s, declared %s" % (opt, fname, got, exp),
                 {"material_property": m.name, "mfront_file": m.text, "stdout": lines, "stderr": err[-500:]})
    for p in m.pars:
        rc, lines, err = mq(ck, gendir, fname, ["--parameter-default-value=" + p.ext])
        stats["mq"] = stats.get("mq", 0) + 1
        hist["mfront-query:mp-default"] = hist.get("mfront-query:mp-default", 0) + 1
        if rc != 0 or len(lines) != 1 or not num_equal(lines[0], p.dflt[0]):
            note("mfront-query/src/QueryUtilities.cxx:display-precision" if (lines and close_to(lines[0], p.dflt[0])) else "mfront-query:mp:parameter-default-value", "viol",
                 "mfront-query --parameter-default-value=%s on %s prints `%s`, declared `%s`" % (p.ext, fname, lines[0] if lines else "", p.dflt[0]),
                 {"material_property": m.name, "variable": p.ext, "mfront_file": m.text, "stdout": lines, "stderr": err[-500:]})
    for v in m.inputs + [m.output]:
        opts = ["--has-bounds=" + v.ext, "--has-physical-bounds=" + v.ext]
        exp = ["true" if v.bounds else "false", "true" if v.eff_phys() else "false"]
        if v.bounds:
            opts += ["--bounds-type=" + v.ext, "--bounds-value=" + v.ext]
            exp += [v.bounds.kind(), v.bounds]
        if v.eff_phys():
            opts += ["--physical-bounds-type=" + v.ext, "--physical-bounds-value=" + v.ext]
            exp += [v.eff_phys().kind(), v.eff_phys()]
        rc, lines, err = mq(ck, gendir, fname, opts)
        stats["mq"] = stats.get("mq", 0) + len(exp)
        bad = rc != 0 or len(lines) != len(exp)
        which = None
        if not bad:
            for o, l, e in zip(opts, lines, exp):
                ok = compare_range(l, e) if isinstance(e, Bnd) else l.strip() == e
                if not ok:
                    bad, which = True, (o, l, e.text() if isinstance(e, Bnd) else e)
                    break
        if bad:
            cls = which[0].split("=")[0].strip("-") if which else "failure"
            if which and cls.endswith("bounds-value") and close_to(which[1], which[2]):
                key = "mfront-query/src/QueryUtilities.cxx:display-precision"
            elif cls in ("has-bounds", "bounds-type", "bounds-value") or (cls == "failure" and v.bounds and not v.eff_phys()):
                key = "mfront-query/src/MaterialPropertyQuery.cxx:bounds-queries-read-the-physical-bounds"
            else:
                key = "mfront-query:mp:%s" % cls
            note(key, "viol",
                 "mfront-query %s on %s prints `%s`, declared `%s`" % (which[0], fname, which[1], which[2]) if which else
                 "mfront-query %s on %s fails (exit %s)" % (" ".join(opts), fname, rc),
                 {"material_property": m.name, "variable": v.ext, "mfront_file": m.text, "stdout": lines, "stderr": err[-500:]})
